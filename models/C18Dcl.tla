------------------------------- MODULE C18Dcl -------------------------------
(***************************************************************************)
(* Model of the double-checked lazy initialisation ("DCL") of STIR's       *)
(* geometry look-up tables (ProjDataInfoCylindricalNoArcCorr.inl/.cxx),    *)
(* executed by a team of OpenMP threads under the vomp scheduler           *)
(* (engine/vomp): exactly one thread runs at a time and control can only   *)
(* change hands at SCHEDULE POINTS: region start, entry to a named         *)
(* critical section, the STIR_VERIF_POINT hooks inside the fill loop and   *)
(* before the flag is published, thread end and the master's join.         *)
(*                                                                         *)
(* A transition "Run(t)" lets thread t run from the point where it is      *)
(* parked to its next schedule point.  The history variable `trace`        *)
(* records the event (t, point reached); the conformance check             *)
(* (checks/C18 harness C18_model) requires the set of complete traces of   *)
(* this model to be EQUAL to the set of event traces that the exhaustive   *)
(* schedule exploration of the real code produces.                         *)
(*                                                                         *)
(* Each thread ensures ONE table (Needs[t]; 0 = none); tables have Fills[tab] hook   *)
(* points in their fill loop.  cells[tab] counts the rows already filled.  *)
(***************************************************************************)
EXTENDS Integers, Sequences, FiniteSets, TLC

CONSTANTS NT,      \* number of threads, ids 0..NT-1, 0 is the master
          Needs,   \* sequence of length NT: table used by thread t-1   (tables are 1..Len(Fills))
          Fills,   \* sequence: number of fill hook points of each table
          Broken   \* FALSE: as in STIR.  TRUE: flag published before the fill loop (detection demo of DESIGN 5.C18)

Threads == 0 .. NT - 1
Tables  == 1 .. Len(Fills)
Need(t) == Needs[t + 1]

VARIABLES pc,      \* pc[t]: "new" (not started), "crit" (parked before the critical section), "fill" (at fill hook fi[t]), "pub", "done", "join"
          fi,      \* fi[t]: index of the fill hook thread t is parked at (0: none)
          flag,    \* flag[tab]: the *_initialised flag
          cells,   \* cells[tab]: rows filled so far
          owner,   \* owner[tab]: thread inside the named critical section of tab, or NT (free)
          used,    \* used[t]: number of filled rows thread t saw when it used the table (Fills[tab] = complete), or -1 (not used yet)
          nfills,  \* nfills[tab]: how many times the table was filled completely
          trace    \* history: sequence of <<t, event>>

vars == <<pc, fi, flag, cells, owner, used, nfills, trace>>

Init == /\ pc = [t \in Threads |-> "new"]
        /\ fi = [t \in Threads |-> 0]
        /\ flag = [b \in Tables |-> FALSE]
        /\ cells = [b \in Tables |-> 0]
        /\ owner = [b \in Tables |-> NT]
        /\ used = [t \in Threads |-> -1]
        /\ nfills = [b \in Tables |-> 0]
        /\ trace = << <<0, "start">> >>        \* the master reaches the region-start point first

AllOthersDone(t) == \A u \in Threads \ {t} : pc[u] = "done"

Enabled(t) == \/ pc[t] = "new"
              \/ pc[t] = "crit" /\ owner[Need(t)] = NT
              \/ pc[t] \in {"pub", "fill"}
              \/ pc[t] = "join" /\ AllOthersDone(t)

EndEvent(t) == IF t = 0 THEN "join" ELSE "done"
EndPc(t)    == IF t = 0 THEN "join" ELSE "done"

\* thread t uses its table (reads it) and finishes: next point is thread end / join
UseAndEnd(t, b) ==
    /\ used' = [used EXCEPT ![t] = cells[b]]
    /\ pc' = [pc EXCEPT ![t] = EndPc(t)]
    /\ trace' = Append(trace, <<t, EndEvent(t)>>)
    /\ UNCHANGED fi

\* first check of the flag (atomic read), outside the critical section
StartThread(t) ==
    LET b == Need(t) IN
    /\ pc[t] = "new"
    /\ IF b = 0      \* this thread's operation needs no lazily built table (built in the constructor)
       THEN /\ pc' = [pc EXCEPT ![t] = EndPc(t)]
            /\ trace' = Append(trace, <<t, EndEvent(t)>>)
            /\ UNCHANGED <<fi, flag, cells, owner, used, nfills>>
       ELSE
       IF flag[b]
       THEN UseAndEnd(t, b) /\ UNCHANGED <<flag, cells, owner, nfills>>
       ELSE /\ pc' = [pc EXCEPT ![t] = "crit"]
            /\ trace' = Append(trace, <<t, "crit">>)
            /\ UNCHANGED <<fi, flag, cells, owner, used, nfills>>

\* enter the critical section, second check; either leave at once or start filling (first fill hook)
EnterCritical(t) ==
    LET b == Need(t) IN
    /\ pc[t] = "crit" /\ owner[b] = NT
    /\ IF flag[b]
       THEN UseAndEnd(t, b) /\ UNCHANGED <<flag, cells, owner, nfills>>
       ELSE /\ owner' = [owner EXCEPT ![b] = t]
            /\ flag' = IF Broken THEN [flag EXCEPT ![b] = TRUE] ELSE flag
            /\ pc' = [pc EXCEPT ![t] = "fill"]
            /\ fi' = [fi EXCEPT ![t] = 1]
            /\ trace' = Append(trace, <<t, "fill">>)
            /\ UNCHANGED <<cells, used, nfills>>

\* from fill hook i: fill row i, reach hook i+1 or the before_publish hook
FillStep(t) ==
    LET b == Need(t) IN
    /\ pc[t] = "fill"
    /\ LET i == fi[t] IN
       /\ cells' = [cells EXCEPT ![b] = i]
       /\ IF i < Fills[b]
          THEN /\ fi' = [fi EXCEPT ![t] = i + 1]
               /\ pc' = pc
               /\ trace' = Append(trace, <<t, "fill">>)
          ELSE /\ pc' = [pc EXCEPT ![t] = "pub"]
               /\ fi' = [fi EXCEPT ![t] = 0]
               /\ trace' = Append(trace, <<t, "pub">>)
    /\ UNCHANGED <<flag, owner, used, nfills>>

\* publish the flag, leave the critical section, use the table, finish
Publish(t) ==
    LET b == Need(t) IN
    /\ pc[t] = "pub"
    /\ flag' = [flag EXCEPT ![b] = TRUE]
    /\ owner' = [owner EXCEPT ![b] = NT]
    /\ nfills' = [nfills EXCEPT ![b] = @ + 1]
    /\ used' = [used EXCEPT ![t] = cells[b]]
    /\ pc' = [pc EXCEPT ![t] = EndPc(t)]
    /\ trace' = Append(trace, <<t, EndEvent(t)>>)
    /\ UNCHANGED <<cells, fi>>

\* the master returns from the join: the region is over (no further event)
Join(t) ==
    /\ t = 0 /\ pc[t] = "join" /\ AllOthersDone(t)
    /\ pc' = [pc EXCEPT ![t] = "done"]
    /\ UNCHANGED <<fi, flag, cells, owner, used, nfills, trace>>

Run(t) == StartThread(t) \/ EnterCritical(t) \/ FillStep(t) \/ Publish(t) \/ Join(t)

Finished == \A t \in Threads : pc[t] = "done"

Next == (\E t \in Threads : Run(t)) \/ (Finished /\ UNCHANGED vars)

Spec == Init /\ [][Next]_vars

(***************************************************************************)
(* Properties                                                              *)
(***************************************************************************)
\* a thread never uses a table that is not completely filled
UsesCompleteTable == \A t \in Threads : used[t] # -1 => used[t] = Fills[Need(t)]
\* every table is filled at most once (no duplicated initialisation)
FilledOnce == \A b \in Tables : nfills[b] <= 1
\* at most one thread is inside a fill loop of a table
MutualExclusion == \A b \in Tables : Cardinality({t \in Threads : Need(t) = b /\ pc[t] \in {"fill", "pub"}}) <= 1
\* no deadlock: some thread is enabled unless everybody is done
NoDeadlock == Finished \/ (\E t \in Threads : Enabled(t))
\* at the end everything needed is there
EndState == Finished => (\A t \in Threads : Need(t) # 0 => used[t] = Fills[Need(t)]) /\ (\A b \in Tables : (\E t \in Threads : Need(t) = b) => (flag[b] /\ nfills[b] = 1))

Inv == UsesCompleteTable /\ FilledOnce /\ MutualExclusion /\ NoDeadlock /\ EndState
=============================================================================
