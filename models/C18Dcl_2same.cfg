CONSTANTS NT = 2
 Needs = <<1, 1>>
 Fills = <<4>>
 Broken = FALSE
INIT Init
NEXT Next
INVARIANT Inv
