#!/usr/bin/env python3
"""Regenerate /verif/MANIFEST.json from checks/*.json (+ the fixed header below). Properties without a
check file are listed under not_applicable with the reason given in NOT_APPLICABLE (default: not implemented)."""
import json, glob, os, subprocess
V = os.path.dirname(os.path.abspath(__file__))
ids = [json.loads(l)["id"] for l in open(os.path.join(V, "properties.jsonl"))]
checks = {}
for f in sorted(glob.glob(os.path.join(V, "checks", "C*.json"))):
    checks.update(json.load(open(f)))
na_reasons = {}
p = os.path.join(V, "not_applicable.json")
if os.path.exists(p):
    na_reasons = json.load(open(p))
hooks_commits = []
p = os.path.join(V, "hooks.json")
if os.path.exists(p):
    hooks_commits = json.load(open(p))["source_commits"]
m = {"version": 1,
     "setup_cmd": "./vcheck setup",
     "hooks": {"guard": "UCL_STIR_VERIF",
               "enable": "./vcheck builds /repo's libraries with -DUCL_STIR_VERIF (all flavours) into /verif/build/<flavour>; harnesses link against them",
               "baseline_off_cmd": "./vcheck baseline-off",
               "source_commits": hooks_commits, "add_only": True},
     "engines": [
         {"name": "vcheck", "path": "vcheck", "serves_properties": sorted(c for c in checks if c not in na_reasons), "kind_free_text": "driver: rebuilds STIR libraries + harness from /repo's working tree, shards the enumerated space over processes, merges evidence, replays violations twice, matches KNOWN_FINDINGS.txt"},
         {"name": "vmc", "path": "engine/vmc.h", "serves_properties": sorted(c for c in checks if c not in na_reasons), "kind_free_text": "bounded-exhaustive enumeration runtime: odometer over finite domains, explicit-state BFS over operation histories with canonical-state dedup on the real objects, crash capture"},
     ],
     "checks": [], "not_applicable": []}
if os.path.exists(os.path.join(V, "engine", "vomp")) and "C18" not in na_reasons:
    m["engines"].append({"name": "vomp", "path": "engine/vomp", "serves_properties": ["C18"], "kind_free_text": "controllable OpenMP (GOMP ABI) runtime: serialising scheduler over hooked synchronisation points + preemption-bounded DFS over schedules (also under ThreadSanitizer); observer for complete event traces"})
    m["engines"].append({"name": "tlc-binding", "path": "checks/c18_model.py", "serves_properties": ["C18"], "kind_free_text": "TLC model checking of models/C18Dcl.tla + trace-set equality between the model's behaviours and the implementation's event traces over all schedules"})
for cid in ids:
    if cid in checks and cid not in na_reasons:
        c = checks[cid]
        m["checks"].append({
            "property_id": cid,
            "quick_cmd": "./vcheck run %s --tier quick" % cid,
            "thorough_cmd": "./vcheck run %s --tier thorough" % cid,
            "evidence_file": "/verif/evidence/%s.json" % cid,
            "replay_cmd_template": "./vcheck replay %s {path}" % cid,
            "engine": "vcheck+vmc" + ("+vomp" if cid == "C18" else ""),
            "level_claimed": {"category": c["level"], "text": c["level_text"], "design_ref": c.get("design_ref", "DESIGN.md §5." + cid)},
            "level_note": c["level_note"],
            "technique": c["technique"]})
    else:
        m["not_applicable"].append({"property_id": cid, "reason": na_reasons.get(cid, "check not implemented yet in the time available (the technique applies; see DESIGN.md §5." + cid + ")")})
m["notes"] = "All checks: exit 0 = held on everything explored (KNOWN-FINDING lines list recorded defects, see KNOWN_FINDINGS.txt); exit 1 + VIOLATION line; exit 2 = infrastructure failure. VERIF_SEED only rotates shard order. VERIF_REPO=<dir> runs the same checks against a scratch copy."
json.dump(m, open(os.path.join(V, "MANIFEST.json"), "w"), indent=1)
print("checks:", [c["property_id"] for c in m["checks"]], "not_applicable:", len(m["not_applicable"]))
