#!/usr/bin/env python3
"""Print the per-property state table of DESIGN.md §10 from checks/*.json, evidence/*.json, KNOWN_FINDINGS.txt and seeded/*/meta.json."""
import json, glob, os, re
V = os.path.dirname(os.path.abspath(__file__))
checks = {}
for f in sorted(glob.glob(V + "/checks/C*.json")): checks.update(json.load(open(f)))
known = {}; fixed = {}
for line in open(V + "/KNOWN_FINDINGS.txt"):
    m = re.match(r"(known|fixed): property=(\S+)", line)
    if m: (known if m.group(1) == "known" else fixed).setdefault(m.group(2), []).append(line)
seeds = {}
for f in sorted(glob.glob(V + "/seeded/*/meta.json")):
    m = json.load(open(f))
    for c in m.get("checks_run", []):
        cid, rc, nk = c.split(":")
        seeds.setdefault(m["property"], []).append("%s→%s %s" % (m["seed"], cid, "caught (%s keys)" % nk.split("=")[1] if rc != "rc=0" else "MISSED"))
def cover(cid, tier, level):
    p = V + "/evidence_by_tier/%s.%s.json" % (cid, tier)
    if not os.path.exists(p): return "not run"
    ev = json.load(open(p)); cov = ev.get("coverage", {})
    if level == "model_checking": covs = "%s states, %s transitions, %s traces on impl" % (cov.get("states"), cov.get("transitions"), cov.get("traces_validated_against_impl"))
    else: covs = "%s evaluations, %s distinct non-trivial" % (cov.get("evaluations"), cov.get("distinct_nontrivial"))
    return "%s s, %s: %s" % (ev.get("wall_s", "?"), "exhaustive" if cov.get("exhaustive") else "capped by its deadline (exit 0, exhaustive:false)", covs)
print("| id | harnesses (flavour) | level | quick tier (last run: wall / covered) | thorough tier (last run) | fixes | known | seeded changes (quick tier) |")
print("|---|---|---|---|---|---|---|---|")
for cid in sorted(checks):
    c = checks[cid]
    hs = ", ".join("%s (%s)" % (h["name"], h["flavour"]) for h in c["harnesses"])
    print("| %s | %s | %s | %s | %s | %d | %d | %s |" % (cid, hs, c["level"], cover(cid, "quick", c["level"]), cover(cid, "thorough", c["level"]),
          len(fixed.get(cid, [])), len(known.get(cid, [])), "; ".join(seeds.get(cid, [])) or "-"))

print()
print("SEEDS")
needs = json.load(open(V + "/seeded/needs.json")) if os.path.exists(V + "/seeded/needs.json") else {}
print("| seed | changed file(s) | what it needs to manifest | checks run (quick tier) |")
print("|---|---|---|---|")
for f in sorted(glob.glob(V + "/seeded/*/meta.json")):
    m = json.load(open(f)); d = os.path.dirname(f)
    files = sorted(set(re.findall(r"^\+\+\+ b/(\S+)", open(d + "/patch.diff").read(), re.M)))
    res = "; ".join("%s: %s" % (c.split(":")[0], "caught, %s violation keys" % c.split("=")[-1] if ":rc=1" in c else ("MISSED" if ":rc=0" in c else "infrastructure error")) for c in m.get("checks_run", []))
    print("| %s | %s | %s | %s |" % (m["seed"], ", ".join(x.replace("src/", "") for x in files), needs.get(m["seed"], "see seeded/%s/notes.txt" % m["seed"]), res))
