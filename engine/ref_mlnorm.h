// ref_mlnorm.h - reference model for C20 (component-based normalisation, stir/ML_norm.h).
//
// Everything here is written from the documented model (BinNormalisationPETFromComponents.h:
// efficiency of a crystal pair = eps_i * eps_j * g_ij * B_ij, virtual crystals have no entry) and from the
// definition of the fan:  detector b is in the fan of detector a  <=>  b = a + D/2 + k (mod D), |k| <= half_fan_size,
// ring difference |ra-rb| <= max_ring_diff.  All reference values are kept in double in plain dense vectors that are
// indexed by (ra, a, rb, k); nothing of FanProjData's storage trick (only rb>=ra stored) is reused.
#ifndef REF_MLNORM_H
#define REF_MLNORM_H
#include "stir/Scanner.h"
#include "stir/ML_norm.h"
#include "stir/IndexRange2D.h"
#include "stir/shared_ptr.h"
#include <vector>
#include <string>
#include <numeric>
#include <cmath>

namespace mlref {
using namespace stir;

// ---- scanners -------------------------------------------------------------------------------------------------
// st: 0 user-defined cylindrical scanner (no virtual crystals)
//     1 generated scanner of type E1080 (STIR: 1 virtual crystal per block transaxially AND axially)
//     2 generated scanner of type Siemens_mMR (1 virtual crystal per block transaxially only)
//     10 predefined ECAT 1080, 11 predefined Siemens mMR, 12 predefined Siemens mCT
struct Cfg
{
  int st = 0, D = 8, tb = 4, R = 1, ab = 1, md = 0, tangs = 3;
  std::string sec = "conv";
};
inline std::string cfg_str(const Cfg& c)
{
  return "sec=" + c.sec + ";st=" + std::to_string(c.st) + ";D=" + std::to_string(c.D) + ";tb=" + std::to_string(c.tb) + ";R=" + std::to_string(c.R)
         + ";ab=" + std::to_string(c.ab) + ";md=" + std::to_string(c.md) + ";tangs=" + std::to_string(c.tangs);
}

inline shared_ptr<Scanner> make_scanner(const Cfg& c)
{
  if (c.st == 10) return shared_ptr<Scanner>(new Scanner(Scanner::E1080));
  if (c.st == 11) return shared_ptr<Scanner>(new Scanner(Scanner::Siemens_mMR));
  if (c.st == 12) return shared_ptr<Scanner>(new Scanner(Scanner::Siemens_mCT));
  const Scanner::Type type = c.st == 0 ? Scanner::User_defined_scanner : c.st == 1 ? Scanner::E1080 : Scanner::Siemens_mMR;
  const float radius = 100.F;
  const float bin_size = float(2 * M_PI * radius / c.D) / 2.F;
  // max number of non arc-corrected bins D-1: every fan size STIR's geometry supports can be requested
  return shared_ptr<Scanner>(new Scanner(type, std::string("verif_c20"), c.D, c.R, c.D - 1, c.D / 2, radius, 0.F, 4.F, bin_size, 0.F,
                                         /*blocks per bucket*/ 1, 1, c.ab, c.tb, /*singles units: not set*/ 0, 0, 1, 0.15F, 511.F, (short)-1, -1.F, -1.F));
}

// block / gap layout, read from the scanner through its public getters
struct Layout
{
  int D = 0, R = 0, tb = 0, ab = 0, vt = 0, va = 0; // with virtual crystals
  int ptb = 0, pab = 0, ntb = 0, nab = 0, Dp = 0, Rp = 0; // physical
  bool gaps() const { return vt > 0 || va > 0; }
  // physical -> numbering with gaps
  int det_with_gaps(int pa) const { return pa + (pa / ptb) * vt; }
  int ring_with_gaps(int pr) const { return pr + (pr / pab) * va; }
  bool det_is_virtual(int a) const { return a % tb >= ptb; }
  bool ring_is_virtual(int r) const { return r % ab >= pab; }
  int det_physical(int a) const { return a - (a / tb) * vt; }
  int ring_physical(int r) const { return r - (r / ab) * va; }
};
inline Layout layout_of(const Scanner& s)
{
  Layout L;
  L.D = s.get_num_detectors_per_ring(); L.R = s.get_num_rings();
  L.tb = s.get_num_transaxial_crystals_per_block(); L.ab = s.get_num_axial_crystals_per_block();
  L.vt = s.get_num_virtual_transaxial_crystals_per_block(); L.va = s.get_num_virtual_axial_crystals_per_block();
  L.ptb = L.tb - L.vt; L.pab = L.ab - L.va;
  L.ntb = s.get_num_transaxial_blocks(); L.nab = s.get_num_axial_blocks();
  L.Dp = L.D - L.ntb * L.vt; L.Rp = L.R - (L.nab - 1) * L.va;
  return L;
}

// ---- the fan --------------------------------------------------------------------------------------------------
struct Fan
{
  int R = 0, D = 0, md = 0, h = 0; // rings, detectors per ring, max ring difference, half fan size
  int nk() const { return 2 * h + 1; }
  int b_of(int a, int k) const { return ((a + D / 2 + k) % D + D) % D; }
  int rb_lo(int ra) const { return std::max(0, ra - md); }
  int rb_hi(int ra) const { return std::min(R - 1, ra + md); }
  size_t idx(int ra, int a, int rb, int k) const { return (((size_t)ra * D + a) * R + rb) * nk() + (k + h); }
  size_t size() const { return (size_t)R * D * R * nk(); }
  int ndet() const { return R * D; }
  int det(int r, int a) const { return r * D + a; }
  // offset of b in the fan of a, or h+1 if b is not in the fan
  int k_of(int a, int b) const
  {
    int k = ((b - a - D / 2) % D + D) % D; // 0..D-1
    if (k > D / 2) k -= D;                  // -(D/2-1) .. D/2
    return (k >= -h && k <= h) ? k : h + 1;
  }
  // label of the unordered LOR {(ra,a),(rb,b)}: 1 + min*N + max  (distinct, exactly representable for N<=4095)
  double lor_label(int ra, int a, int rb, int b) const
  {
    const long i = det(ra, a), j = det(rb, b), N = ndet();
    return 1.0 + double(std::min(i, j) * N + std::max(i, j));
  }
  long lor_id(int ra, int a, int rb, int b) const
  {
    const long i = det(ra, a), j = det(rb, b), N = ndet();
    return std::min(i, j) * N + std::max(i, j);
  }
};
inline Fan fan_of(const FanProjData& f)
{
  Fan F;
  F.R = f.get_num_rings(); F.D = f.get_num_detectors_per_ring(); F.md = f.get_max_delta();
  F.h = (f.get_max_b(0) - f.get_min_b(0)) / 2;
  return F;
}
// visit every ORDERED entry (ra,a,rb,k) of the fan (each unordered LOR is visited twice)
template <class Fn> void for_all(const Fan& F, Fn fn)
{
  for (int ra = 0; ra < F.R; ++ra)
    for (int a = 0; a < F.D; ++a)
      for (int rb = F.rb_lo(ra); rb <= F.rb_hi(ra); ++rb)
        for (int k = -F.h; k <= F.h; ++k) fn(ra, a, rb, k, F.b_of(a, k));
}
// dense double copy of a FanProjData, read through its public accessor
inline std::vector<double> read_fan(const Fan& F, const FanProjData& f)
{
  std::vector<double> v(F.size(), 0.0);
  for_all(F, [&](int ra, int a, int rb, int k, int b) { v[F.idx(ra, a, rb, k)] = f(ra, a, rb, b); });
  return v;
}
inline void write_fan(const Fan& F, FanProjData& f, const std::vector<double>& v)
{
  for_all(F, [&](int ra, int a, int rb, int k, int b) { f(ra, a, rb, b) = (float)v[F.idx(ra, a, rb, k)]; });
}
// value of the mirrored (swapped) entry
inline double swapped(const Fan& F, const std::vector<double>& v, int ra, int a, int rb, int b)
{
  const int k2 = F.k_of(b, a);
  return v[F.idx(rb, b, ra, k2)];
}

// ---- factor patterns -------------------------------------------------------------------------------------------
static const int primes64[64] = { 2,   3,   5,   7,   11,  13,  17,  19,  23,  29,  31,  37,  41,  43,  47,  53,  59,  61,  67,  71,  73,  79,
                                  83,  89,  97,  101, 103, 107, 109, 113, 127, 131, 137, 139, 149, 151, 157, 163, 167, 173, 179, 181, 191, 193,
                                  197, 199, 211, 223, 227, 229, 233, 239, 241, 251, 257, 263, 269, 271, 277, 281, 283, 293, 307, 311 };
// pattern 0: all ones; 1: distinct primes (products of two distinct detectors are distinct) - or a spread pattern when >64 detectors;
// 2: moderate positive pattern 0.5 .. 1.75 in steps of 1/8 (exact in float)
inline std::vector<double> eff_pattern(int ndet, int pat)
{
  std::vector<double> e(ndet, 1.0);
  for (int i = 0; i < ndet; ++i)
    {
      if (pat == 1) e[i] = ndet <= 64 ? primes64[i] : 0.5 + ((i * 37L) % 101) / 64.0;
      else if (pat == 2) e[i] = 0.5 + 0.125 * ((i * 7L + 3) % 11);
    }
  return e;
}
inline DetectorEfficiencies to_stir_eff(const Fan& F, const std::vector<double>& e)
{
  DetectorEfficiencies E(IndexRange2D(F.R, F.D));
  for (int r = 0; r < F.R; ++r)
    for (int a = 0; a < F.D; ++a) E[r][a] = (float)e[F.det(r, a)];
  return E;
}

// ---- block factors ---------------------------------------------------------------------------------------------
struct Blocks
{
  int nab = 1, ntb = 2, acb = 1, tcb = 1; // blocks axially / transaxially, crystals per block
  int blk(int r, int a) const { return (r / acb) * ntb + a / tcb; }
  int nblk() const { return nab * ntb; }
  // symmetric factor of the unordered block pair (distinct, exact in float)
  double F(int ra, int a, int rb, int b) const
  {
    const long i = blk(ra, a), j = blk(rb, b), N = nblk();
    return 0.5 + double(std::min(i, j) * N + std::max(i, j)) / 32.0;
  }
};
// BlockData3D as ML_estimate_component_based_normalisation / BinNormalisationPETFromComponents::allocate make it,
// filled with the symmetric labelled factor (through the public accessor)
inline void fill_block_data(BlockData3D& bd, const Blocks& B, double dev_value = 0, long dev_pair = -1)
{
  Fan BF = fan_of(bd);
  for_all(BF, [&](int rA, int A, int rB, int, int Bb) {
    const long i = rA * B.ntb + A, j = rB * B.ntb + Bb, N = B.nblk();
    const long id = std::min(i, j) * N + std::max(i, j);
    bd(rA, A, rB, Bb) = (float)(id == dev_pair ? dev_value : 0.5 + double(id) / 32.0);
  });
}

// ---- geometric classes -----------------------------------------------------------------------------------------
// Orbits of ordered detector pairs (ra,a,rb,b) under the group generated by the symmetries of the geometric model
// (Niknejad et al. 2016 as implemented in ML_norm.cxx): transaxial rotation by one symmetry unit, axial translation by one
// unit (where both rings stay inside the scanner), transaxial mirror, axial mirror, and exchange of the two detectors.
// A GeoData3D that is constant on these orbits defines an unambiguous factor for every detector pair, whatever the order
// in which STIR expands the symmetries.  (The group is at least as large as every map STIR applies, so the oracle
// "factor of the pair == value of its orbit" cannot raise a false alarm; it is blind to mix-ups inside one orbit.)
struct Orbits
{
  int R, D, acb, tcb;
  std::vector<int> parent, rank_of;
  int norbits = 0;
  size_t id(int ra, int a, int rb, int b) const { return (((size_t)ra * D + a) * R + rb) * D + b; }
  int find(int x) { while (parent[x] != x) { parent[x] = parent[parent[x]]; x = parent[x]; } return x; }
  void unite(size_t x, size_t y) { int a = find((int)x), b = find((int)y); if (a != b) parent[std::max(a, b)] = std::min(a, b); }
  Orbits(int R_, int D_, int acb_, int tcb_) : R(R_), D(D_), acb(acb_), tcb(tcb_)
  {
    const size_t n = (size_t)R * D * R * D;
    parent.resize(n);
    std::iota(parent.begin(), parent.end(), 0);
    for (int ra = 0; ra < R; ++ra)
      for (int a = 0; a < D; ++a)
        for (int rb = 0; rb < R; ++rb)
          for (int b = 0; b < D; ++b)
            {
              const size_t x = id(ra, a, rb, b);
              unite(x, id(ra, (a + tcb) % D, rb, (b + tcb) % D));
              unite(x, id(ra, D - 1 - a, rb, D - 1 - b));
              unite(x, id(R - 1 - ra, a, R - 1 - rb, b));
              unite(x, id(rb, b, ra, a));
              if (ra + acb < R && rb + acb < R) unite(x, id(ra + acb, a, rb + acb, b));
            }
    rank_of.assign(n, -1);
    for (size_t x = 0; x < n; ++x)
      {
        const int r = find((int)x);
        if (rank_of[r] < 0) rank_of[r] = norbits++;
      }
  }
  int orbit(int ra, int a, int rb, int b) { return rank_of[find((int)id(ra, a, rb, b))]; }
  double G(int ra, int a, int rb, int b) { return 0.5 + orbit(ra, a, rb, b) / 32.0; }
};
inline void fill_geo_data(GeoData3D& g, Orbits& O)
{
  for (int ra = 0; ra < O.acb; ++ra)
    for (int a = 0; a < O.tcb / 2; ++a)
      for (int rb = ra; rb < O.R; ++rb)
        for (int b = a; b < a + O.D; ++b) g[ra][a][rb][b] = (float)O.G(ra, a, rb, b % O.D);
}

// ---- Kullback-Leibler distance, every unordered LOR once, in double ------------------------------------------------
inline double kl_term(double n, double m) { return n <= 0 ? m : n * (std::log(n) - std::log(m)) + m - n; }
inline double kl_ref(const Fan& F, const std::vector<double>& data, const std::vector<double>& model, const std::vector<double>& e)
{
  double s = 0;
  for_all(F, [&](int ra, int a, int rb, int k, int b) {
    const size_t i = F.idx(ra, a, rb, k);
    s += kl_term(data[i], model[i] * e[F.det(ra, a)] * e[F.det(rb, b)]);
  });
  return s / 2; // every unordered LOR was visited twice
}

} // namespace mlref
#endif
