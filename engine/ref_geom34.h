// ref_geom34.h - shared by the C03 (system matrix rows) and C04 (projector pairs) harnesses:
//   * Geo      : a generated (scanner, sampling, image grid) configuration with a compact string form
//   * Row      : a sorted, double copy of a ProjMatrixElemsForOneBin and the delta-based comparison of DESIGN §5.C03
//   * screen() : the geometric tie screen (computed in double from s, phi, t, tan(theta) and the grid only; it never looks at a row)
#ifndef REF_GEOM34_H
#define REF_GEOM34_H
#include "vmc.h"
#include "stir_small.h"
#include "stir/recon_buildblock/DataSymmetriesForBins.h"
#include "stir/recon_buildblock/SymmetryOperation.h"
#include <algorithm>
#include <cxxabi.h>
#include <typeinfo>

namespace g34 {
using namespace stir;

struct Geo
{
  int D = 8, R = 2, span = 1, md = -1, mash = 1, tof = 0, tang = 0; // tang<=0: scanner default; md<0: R-1
  int nz = 0, nxy = 0, vxy = 100, zd = 2, oz = 0;                    // vxy: voxel xy in % of the bin size; voxel z = ring spacing / zd; oz: origin z in planes
  std::string blk;                                                     // "" cylindrical, "B" blocks-on-cylindrical
  std::string str() const
  {
    std::ostringstream o;
    o << "D=" << D << ";R=" << R << ";span=" << span << ";md=" << md << ";mash=" << mash << ";tof=" << tof << ";tang=" << tang << ";nz=" << nz
      << ";nxy=" << nxy << ";vxy=" << vxy << ";zd=" << zd << ";oz=" << oz << ";blk=" << blk;
    return o.str();
  }
  static Geo parse(std::map<std::string, std::string>& m)
  {
    Geo g;
    auto I = [&](const char* k, int& v) { if (m.count(k)) v = atoi(m[k].c_str()); };
    I("D", g.D); I("R", g.R); I("span", g.span); I("md", g.md); I("mash", g.mash); I("tof", g.tof); I("tang", g.tang);
    I("nz", g.nz); I("nxy", g.nxy); I("vxy", g.vxy); I("zd", g.zd); I("oz", g.oz);
    if (m.count("blk")) g.blk = m["blk"];
    return g;
  }
};

struct Built
{
  shared_ptr<Scanner> sc;
  shared_ptr<ProjDataInfo> pdi;
  shared_ptr<VoxelsOnCartesianGrid<float>> im;
};

// throws (stir::error) if STIR rejects the sampling
inline Built build(const Geo& g)
{
  Built b;
  b.sc = g.blk.empty() ? small::cyl_scanner(g.D, g.R, g.tof) : small::cyl_scanner(g.D, g.R, g.tof, 0.F, 100.F, 4.F, "BlocksOnCylindrical");
  const int md = g.md < 0 ? g.R - 1 : g.md;
  b.pdi = small::make_pdi(b.sc, g.span, md, g.D / 2 / g.mash, g.tang, false, g.tof ? 1 : 0);
  const float vz = b.sc->get_ring_spacing() / g.zd;
  b.im = small::make_image(*b.pdi, g.nz, g.nxy, b.sc->get_default_bin_size() * g.vxy / 100.F, vz, g.oz * vz);
  return b;
}

// ------------------------------------------------------------------------------------------------ rows
struct El { int z, y, x; double v; };
typedef std::vector<El> Row;
inline bool coord_less(const El& a, const El& b) { return a.z != b.z ? a.z < b.z : a.y != b.y ? a.y < b.y : a.x < b.x; }
inline bool coord_eq(const El& a, const El& b) { return a.z == b.z && a.y == b.y && a.x == b.x; }
inline Row to_row(const ProjMatrixElemsForOneBin& r)
{
  Row v; v.reserve(r.size());
  for (auto it = r.begin(); it != r.end(); ++it) v.push_back({ it->coord1(), it->coord2(), it->coord3(), (double)it->get_value() });
  std::stable_sort(v.begin(), v.end(), coord_less);
  return v;
}
inline double row_max(const Row& r) { double m = 0; for (auto& e : r) m = std::max(m, std::fabs(e.v)); return m; }
inline std::string row_str(const Row& r, size_t cap = 14)
{
  std::ostringstream o; o.precision(6);
  for (size_t i = 0; i < r.size() && i < cap; ++i) o << "(" << r[i].z << "," << r[i].y << "," << r[i].x << ")=" << r[i].v << " ";
  if (r.size() > cap) o << "... [" << r.size() << " elements]";
  return o.str();
}
// geometric perturbation bound (voxel units): how far float rounding of phi, sin, cos, s evaluated in a different order can move a ray
inline double delta_of(const ProjDataInfo& pdi, const VoxelsOnCartesianGrid<float>& im)
{
  const double eps = 1.1920929e-7;
  const double v = std::min(im.get_voxel_size().x(), im.get_voxel_size().y());
  return 16 * eps * (pdi.get_scanner_ptr()->get_effective_ring_radius() / v);
}
// threshold (voxel units) of the tie screen: 100 x the rounding bound, and at least 0.003 so that the last voxel of a path of up to
// ~25 voxels is never shorter than the 1e-4 safety factor RayTraceVoxelsOnCartesianGrid applies to the end of the ray
inline double screen_thr(double delta) { return std::max(100 * delta, 3e-3); }
// rows equal: matching coordinates agree within tol; elements present in only one row are <= tol ("may be present or absent")
inline bool rows_equal(const Row& ref, const Row& got, double tol, std::string* why = nullptr)
{
  size_t i = 0, j = 0;
  auto fail = [&](const std::string& s) { if (why) *why = s; return false; };
  while (i < ref.size() || j < got.size())
    {
      if (i < ref.size() && j < got.size() && coord_eq(ref[i], got[j]))
        {
          if (!(std::fabs(ref[i].v - got[j].v) <= tol))
            return fail("voxel (" + vmc::str(ref[i].z) + "," + vmc::str(ref[i].y) + "," + vmc::str(ref[i].x) + "): direct " + vmc::str(ref[i].v) + " vs " + vmc::str(got[j].v));
          ++i; ++j;
        }
      else if (j >= got.size() || (i < ref.size() && coord_less(ref[i], got[j])))
        {
          if (!(std::fabs(ref[i].v) <= tol))
            return fail("voxel (" + vmc::str(ref[i].z) + "," + vmc::str(ref[i].y) + "," + vmc::str(ref[i].x) + ") with value " + vmc::str(ref[i].v) + " only in the direct row");
          ++i;
        }
      else
        {
          if (!(std::fabs(got[j].v) <= tol))
            return fail("voxel (" + vmc::str(got[j].z) + "," + vmc::str(got[j].y) + "," + vmc::str(got[j].x) + ") with value " + vmc::str(got[j].v) + " not in the direct row");
          ++j;
        }
    }
  return true;
}

inline std::string symop_name(const SymmetryOperation& op)
{
  int st = 0;
  char* d = abi::__cxa_demangle(typeid(op).name(), nullptr, nullptr, &st);
  std::string s = d ? d : typeid(op).name();
  free(d);
  for (const char* p : { "stir::SymmetryOperation_PET_CartesianGrid_", "stir::" })
    if (s.compare(0, strlen(p), p) == 0) { s = s.substr(strlen(p)); break; }
  return s;
}

// ------------------------------------------------------------------------------------------------ tie screen
// true  <=> some ray traced for this bin has an end point (or a grid-parallel coordinate) so close to a voxel boundary or to one of
// the implementation's documented decision thresholds that which voxel is first/last is a rounding tie.  Follows the ray
// parametrisation of the property text (X = s cos(phi) + a sin(phi), Y = s sin(phi) - a cos(phi), Z = t/cos(theta) + z0 - a tan(theta),
// a in [-a_max, a_max] on the FOV border); everything in double; never looks at a computed row.
inline bool screen(const ProjDataInfo& pdi, const VoxelsOnCartesianGrid<float>& im, const Bin& bin, int num_LORs, bool cyl_fov, double thr)
{
  const double thr_parallel = 100 * delta_of(pdi, im);
  const double vx = im.get_voxel_size().x(), vy = im.get_voxel_size().y(), vz = im.get_voxel_size().z();
  const double s0 = pdi.get_s(bin), phi = pdi.get_phi(bin), tanth = pdi.get_tantheta(bin), t = pdi.get_t(bin);
  const double costh = 1 / std::sqrt(1 + tanth * tanth);
  const double samp_z = pdi.get_sampling_in_t(bin) / costh;
  const double nlz_f = samp_z / vz;
  const int nlz = (int)std::ceil(nlz_f - 1e-3);
  if (std::fabs(nlz_f - std::floor(nlz_f + .5)) > 1e-4 && std::fabs(std::fabs(nlz_f - nlz) - 1e-3) < 1e-4) return true;
  double off_z = -samp_z / (2 * nlz) * (nlz - 1) - im.get_origin().z() + (im.get_max_z() + im.get_min_z()) / 2. * vz;
  if (tanth == 0)
    {
      const double zz = (t + off_z) / vz;
      const double f = std::fabs(zz - std::floor(zz) - .5);
      if (std::fabs(f - .001) < 2e-4) return true; // at the "exactly between two planes" threshold
      if (f < .001) off_z -= .1 * vz;
    }
  else if (std::fabs(tanth) < 1e-6) return true;
  const double fovrad = std::min(std::min(im.get_max_x(), -im.get_min_x()) * vx, std::min(im.get_max_y(), -im.get_min_y()) * vy);
  const double c = std::cos(phi), sn = std::sin(phi);
  const double s_inc = pdi.get_sampling_in_s(bin) / num_LORs;
  auto half_dist = [](double p) { return std::fabs(p - std::floor(p) - .5); };
  for (int k = 0; k < num_LORs; ++k)
    {
      const double s = s0 - s_inc * (num_LORs - 1) / 2. + k * s_inc;
      double amax, amin;
      if (cyl_fov)
        {
          if (std::fabs(std::fabs(s) - fovrad) < thr * vx) return true;
          if (std::fabs(s) > fovrad) continue;
          amax = std::sqrt(fovrad * fovrad - s * s); amin = -amax;
          if (2 * amax / vx < 0.05) return true; // nearly degenerate chord
        }
      else
        {
          for (double q : { std::fabs(c), std::fabs(sn) }) if (std::fabs(q - 1e-3) < 1e-4) return true;
          if (std::fabs(c) < 1e-3 || std::fabs(sn) < 1e-3)
            {
              if (std::fabs(std::fabs(s) - fovrad) < thr * vx) return true;
              if (fovrad < std::fabs(s)) continue;
              amax = fovrad; amin = -fovrad;
            }
          else
            {
              auto sg = [](double q) { return q < 0 ? -1. : 1.; };
              amax = std::min((fovrad * sg(sn) - s * c) / sn, (fovrad * sg(c) + s * sn) / c);
              amin = std::max((-fovrad * sg(sn) - s * c) / sn, (-fovrad * sg(c) + s * sn) / c);
              if (std::fabs(amin - (amax - 1e-3 * vx)) < thr * vx) return true;
              if (amin > amax - 1e-3 * vx) continue;
              if ((amax - amin) / vx < 0.05) return true;
            }
        }
      const double P[2][3] = { { (s * c + amax * sn) / vx, (s * sn - amax * c) / vy, (t / costh + off_z - amax * tanth) / vz },
                               { (s * c + amin * sn) / vx, (s * sn - amin * c) / vy, (t / costh + off_z - amin * tanth) / vz } };
      for (int ax = 0; ax < 3; ++ax)
        {
          const double d = std::fabs(P[1][ax] - P[0][ax]);
          if (std::fabs(d - 1e-4) < 5e-5) return true; // "parallel to a grid plane" decision threshold
          const bool parallel = d <= 1e-4;
          for (int e = 0; e < 2; ++e)
            {
              const double h = half_dist(P[e][ax]);
              if (parallel && h < 5e-5) continue; // ray inside a boundary plane: the implementation traces both sides with half weight
              // a grid-parallel coordinate only decides which voxel column is traced (rounding bound), a varying one also decides
              // whether the last voxel survives the 0.9999 end factor (thr)
              if (h < (parallel ? std::max(thr_parallel, 3e-4) : thr)) return true;
            }
        }
    }
  return false;
}

} // namespace g34
#endif
