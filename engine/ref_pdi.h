// ref_pdi.h - scanner / projection-data-geometry generators and configuration enumeration shared by the
// C01 (detector pairs <-> bins) and C12 (bin coordinates) harnesses.
#ifndef REF_PDI_H
#define REF_PDI_H
#include "vmc.h"
#include "stir_small.h"
#include "stir/ProjDataInfoCylindrical.h"
#include "stir/ProjDataInfoCylindricalNoArcCorr.h"
#include "stir/ProjDataInfoCylindricalArcCorr.h"
#include "stir/ProjDataInfoGenericNoArcCorr.h"
#include "stir/ProjDataInfoBlocksOnCylindricalNoArcCorr.h"
#include "stir/DetectionPositionPair.h"
#include "stir/Succeeded.h"
#include <fstream>
#include <unistd.h>
#include <iomanip>

namespace rpdi {
using namespace stir;

// ------------------------------------------------------------------------------------------------
// A configuration = scanner + sampling.  Everything is encoded in a `k=v;...` case string.
//   geom : cyl | blk | gen | pre (predefined scanner, `type` = value of Scanner::Type)
//   D,R  : detectors per ring / rings (generated scanners); T: number of TOF positions of the scanner (0: none)
//   mb   : max number of non-arc-corrected bins of the generated scanner (default D-1: every LOR of the ring)
//   span, md (max ring difference), ge (1: ProjDataInfoGE instead of construct_proj_data_info; span ignored)
//   vm   : view mashing factor (views = D/2/vm), nt: number of tangential positions, tm: TOF mashing factor (0: non-TOF data)
//   smin,smax : reduce_segment_range(smin,smax) applied when `sr=1`
//   arc  : 1 arc-corrected
// ------------------------------------------------------------------------------------------------
struct Cfg
{
  std::string geom = "cyl";
  int type = -1;
  int D = 8, R = 2, T = 0, mb = 0;
  int span = 1, md = 0, ge = 0, vm = 1, nt = 0, tm = 0, sr = 0, smin = 0, smax = 0, arc = 0, tb = 0;
  int hist = 0; // 1: the object is DERIVED from an already used object (see make_pdi), not freshly constructed
  std::string str() const
  {
    std::ostringstream o;
    o << "geom=" << geom;
    if (geom == "pre") o << ";type=" << type;
    else o << ";D=" << D << ";R=" << R << ";T=" << T << ";mb=" << mb;
    if (geom == "blk") o << ";tb=" << tb;
    o << ";span=" << span << ";md=" << md << ";ge=" << ge << ";vm=" << vm << ";nt=" << nt << ";tm=" << tm << ";arc=" << arc << ";sr=" << sr;
    if (sr) o << ";smin=" << smin << ";smax=" << smax;
    if (hist) o << ";hist=" << hist;
    return o.str();
  }
  static Cfg parse(const std::string& s)
  {
    auto m = vmc::kv(s);
    Cfg c;
    auto gi = [&](const char* k, int d) { auto it = m.find(k); return it == m.end() ? d : atoi(it->second.c_str()); };
    if (m.count("geom")) c.geom = m["geom"];
    c.type = gi("type", -1); c.D = gi("D", 8); c.R = gi("R", 2); c.T = gi("T", 0); c.mb = gi("mb", 0); c.tb = gi("tb", 0);
    c.span = gi("span", 1); c.md = gi("md", 0); c.ge = gi("ge", 0); c.vm = gi("vm", 1); c.nt = gi("nt", 0); c.tm = gi("tm", 0);
    c.sr = gi("sr", 0); c.smin = gi("smin", 0); c.smax = gi("smax", 0); c.arc = gi("arc", 0); c.hist = gi("hist", 0);
    return c;
  }
};

inline int default_tb(int D) { for (int c : { 4, 3, 2 }) if (D % c == 0) return c; return 1; }
// blocks: largest block size that still leaves >= 4 blocks around the ring (the block polygon needs >= 3 sides)
inline int blk_tb(int D) { for (int c : { 4, 3, 2 }) if (D % c == 0 && D / c >= 4) return c; return 1; }

// position of crystal d of ring r of the generated cylindrical scanner, STIR convention (x = R sin psi, y = -R cos psi)
inline void cyl_xyz(int D, double radius, double ring_spacing, int d, int r, double& x, double& y, double& z)
{
  const double psi = 2 * M_PI * d / D;
  x = radius * std::sin(psi); y = -radius * std::cos(psi); z = r * ring_spacing;
}

// generated scanners: radius 100 mm, ring spacing 4 mm, 1 layer, DOI 0.
inline shared_ptr<Scanner> make_scanner(const Cfg& c, const std::string& tmpdir)
{
  if (c.geom == "pre") return shared_ptr<Scanner>(new Scanner(static_cast<Scanner::Type>(c.type)));
  const int D = c.D, R = c.R, T = c.T;
  const float radius = 100.F, ring_spacing = 4.F;
  const int mb = c.mb > 0 ? c.mb : D - 1;
  const float pitch = float(2 * M_PI * radius / D), bin_size = pitch / 2.F;
  const float tofw = T > 0 ? 1300.F / T : -1.F;
  const short nt = (short)(T > 0 ? T : -1);
  const float tres = T > 0 ? 2 * tofw : -1.F;
  int tb = c.tb > 0 ? c.tb : (c.geom == "blk" ? blk_tb(D) : default_tb(D));
  if (c.geom == "cyl")
    return shared_ptr<Scanner>(new Scanner(Scanner::User_defined_scanner, std::string("verif_cyl"), D, R, mb, D / 2, radius, 0.F, ring_spacing,
                                           bin_size, 0.F, 1, 1, 1, tb, 1, tb, 1, 0.15F, 511.F, nt, tofw, tres));
  if (c.geom == "blk")
    {
      // one axial bucket holding all rings, every transaxial bucket = one block of tb crystals whose width just exceeds the side of
      // the polygon around the cylinder (what check_consistency() wants)
      const int nb = D / tb;
      const float block_w = float(2 * radius * std::tan(M_PI / nb)) * 1.001F;
      return shared_ptr<Scanner>(new Scanner(Scanner::User_defined_scanner, std::string("verif_blk"), D, R, mb, D / 2, radius, 0.F, ring_spacing,
                                             bin_size, 0.F, 1, 1, R, tb, R, tb, 1, 0.15F, 511.F, nt, tofw, tres, "BlocksOnCylindrical",
                                             ring_spacing, block_w / tb, ring_spacing * R, block_w));
    }
  if (c.geom == "gen")
    {
      // crystal map identical to the cylindrical positions (so that results are comparable with geom=cyl)
      // per-process file name: all shards share the temp directory, and a file that another shard is just rewriting reads back truncated
      const std::string fn = tmpdir + "/crystal_map_p" + std::to_string((long)getpid()) + "_D" + std::to_string(D) + "_R" + std::to_string(R) + ".txt";
      {
        std::ofstream f(fn);
        f << std::setprecision(9);
        for (int r = 0; r < R; ++r)
          for (int d = 0; d < D; ++d)
            {
              double x, y, z; cyl_xyz(D, radius, ring_spacing, d, r, x, y, z);
              f << r << "," << d << "," << x << "," << y << "," << z << "\n";
            }
      }
      return shared_ptr<Scanner>(new Scanner(Scanner::User_defined_scanner, std::string("verif_gen"), D, R, mb, D / 2, radius, 0.F, ring_spacing,
                                             bin_size, 0.F, 1, 1, 1, tb, 1, tb, 1, 0.15F, 511.F, nt, tofw, tres, "Generic", ring_spacing, pitch,
                                             ring_spacing, pitch * tb, fn));
    }
  throw std::runtime_error("unknown geom " + c.geom);
}

// build the geometry; throws (stir::error => std::exception) when STIR rejects the configuration
inline shared_ptr<ProjDataInfo> make_pdi(const Cfg& c, const shared_ptr<Scanner>& sc)
{
  const int D = sc->get_num_detectors_per_ring();
  if (c.vm < 1 || (D / 2) % c.vm != 0) throw std::runtime_error("harness: view mashing factor does not divide D/2");
  const int views = D / 2 / c.vm;
  const int nt = c.nt > 0 ? c.nt : (c.arc ? sc->get_default_num_arccorrected_bins() : sc->get_max_num_non_arccorrected_bins());
  shared_ptr<ProjDataInfo> p;
  if (c.hist == 0)
    {
      if (c.ge) p.reset(ProjDataInfo::ProjDataInfoGE(sc, c.md, views, nt, c.arc != 0, c.tm));
      else p.reset(ProjDataInfo::construct_proj_data_info(sc, c.span, c.md, views, nt, c.arc != 0, c.tm).release());
      if (c.sr) p->reduce_segment_range(c.smin, c.smax);
      return p;
    }
  // hist=1 ("start from a non-initial state"): construct the UNMASHED, untrimmed object of the same axial compression, USE it (so that
  // every lazily built table exists), then derive the target sampling with the setters that SSRB and the reconstruction code use
  // (clone, set_num_views, set_num_tangential_poss, reduce_segment_range, set_tof_mash_factor), and use the derived object.
  const int nt0 = c.arc ? sc->get_default_num_arccorrected_bins() : sc->get_max_num_non_arccorrected_bins();
  const int tm0 = c.tm > 0 ? 1 : 0;
  shared_ptr<ProjDataInfo> base;
  if (c.ge) base.reset(ProjDataInfo::ProjDataInfoGE(sc, c.md, D / 2, nt0, c.arc != 0, tm0));
  else base.reset(ProjDataInfo::construct_proj_data_info(sc, c.span, c.md, D / 2, nt0, c.arc != 0, tm0).release());
  if (auto* cyl = dynamic_cast<ProjDataInfoCylindricalNoArcCorr*>(base.get()))
    { // warm up: detector pair -> bin, bin -> detector pairs, ring pairs
      Bin b; DetectionPositionPair<> dp(DetectionPosition<>(0, 0, 0), DetectionPosition<>(D / 2, 0, 0));
      (void)cyl->get_bin_for_det_pos_pair(b, dp);
      std::vector<DetectionPositionPair<>> v; cyl->get_all_det_pos_pairs_for_bin(v, Bin(0, 0, 0, 0), true);
      int s = 0, a = 0; (void)cyl->get_segment_axial_pos_num_for_ring_pair(s, a, 0, 0);
      (void)cyl->get_m(Bin(0, 0, 0, 0));
    }
  p.reset(base->clone());
  if (views != p->get_num_views()) p->set_num_views(views);
  if (nt != p->get_num_tangential_poss()) p->set_num_tangential_poss(nt);
  if (c.sr) p->reduce_segment_range(c.smin, c.smax);
  if (c.tm > 1) p->set_tof_mash_factor(c.tm);
  return p;
}

inline std::vector<int> divisors(int n) { std::vector<int> v; for (int i = 1; i <= n; ++i) if (n % i == 0) v.push_back(i); return v; }
inline std::vector<int> uniq(std::vector<int> v)
{
  std::vector<int> o;
  for (int x : v) { bool f = false; for (int y : o) f |= (x == y); if (!f && x > 0) o.push_back(x); }
  return o;
}
// number of segments on the positive side that construct_proj_data_info will produce (mirror of its loop; only used to enumerate reductions)
inline int max_segment_of(int span, int md, int ge)
{
  if (ge) return md <= 0 ? 0 : md - 1;
  int hi = span % 2 ? (span - 1) / 2 : span / 2, s = 0;
  while (hi < md) { ++s; hi += span; }
  return s;
}

inline bool same_bin(const Bin& a, const Bin& b)
{
  return a.segment_num() == b.segment_num() && a.view_num() == b.view_num() && a.axial_pos_num() == b.axial_pos_num()
         && a.tangential_pos_num() == b.tangential_pos_num() && a.timing_pos_num() == b.timing_pos_num();
}
inline bool same_spatial_bin(const Bin& a, const Bin& b)
{
  return a.segment_num() == b.segment_num() && a.view_num() == b.view_num() && a.axial_pos_num() == b.axial_pos_num()
         && a.tangential_pos_num() == b.tangential_pos_num();
}
inline std::string dp_str(const DetectionPositionPair<>& p)
{
  return "(d" + std::to_string(p.pos1().tangential_coord()) + ",r" + std::to_string(p.pos1().axial_coord()) + ")-(d"
         + std::to_string(p.pos2().tangential_coord()) + ",r" + std::to_string(p.pos2().axial_coord()) + ")t" + std::to_string(p.timing_pos());
}
inline DetectionPositionPair<> mk_dp(int d1, int r1, int d2, int r2, int t)
{
  return DetectionPositionPair<>(DetectionPosition<>(d1, r1, 0), DetectionPosition<>(d2, r2, 0), t);
}

} // namespace rpdi
#endif
