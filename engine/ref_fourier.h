// ref_fourier.h - the small, boring reference model of C19 (Fourier transforms and array filters).
//
//  * ND        : a dense array of doubles over up to 3 index ranges (unused dimensions are the range 0:0)
//  * conv_*    : direct (triple-loop) convolution  out_i = sum_j kernel_j in_{i-j}  with zero or "constant"
//                (nearest element) boundary conditions, per axis or N-d
//  * text      : compact, replayable serialisation "lo:hi x lo:hi | v,v,v"
// Nothing here calls STIR.
#ifndef REF_FOURIER_H
#define REF_FOURIER_H
#include <vector>
#include <string>
#include <complex>
#include <cmath>
#include <cstdio>
#include <cstdlib>
#include <algorithm>

namespace rf {

struct Rg
{
  int lo = 0, hi = 0;
  Rg() {}
  Rg(int l, int h) : lo(l), hi(h) {}
  int len() const { return hi - lo + 1; }
  bool has(int i) const { return i >= lo && i <= hi; }
  bool operator==(const Rg& o) const { return lo == o.lo && hi == o.hi; }
};
inline std::string rg_str(const Rg& r) { return std::to_string(r.lo) + ":" + std::to_string(r.hi); }
inline Rg rg_parse(const std::string& s)
{
  Rg r; size_t c = s.find(':', 1); // a leading '-' is not a separator
  r.lo = atoi(s.substr(0, c).c_str()); r.hi = atoi(s.substr(c + 1).c_str());
  return r;
}

struct ND
{
  Rg r[3];
  std::vector<double> v;
  ND() { v.assign(1, 0.0); }
  explicit ND(Rg a, Rg b = Rg(), Rg c = Rg()) { r[0] = a; r[1] = b; r[2] = c; v.assign(size(), 0.0); }
  size_t size() const { return (size_t)std::max(0, r[0].len()) * (size_t)std::max(0, r[1].len()) * (size_t)std::max(0, r[2].len()); }
  bool inside(int i, int j, int k) const { return r[0].has(i) && r[1].has(j) && r[2].has(k); }
  size_t idx(int i, int j, int k) const { return ((size_t)(i - r[0].lo) * r[1].len() + (size_t)(j - r[1].lo)) * r[2].len() + (size_t)(k - r[2].lo); }
  double& at(int i, int j = 0, int k = 0) { return v[idx(i, j, k)]; }
  double at(int i, int j = 0, int k = 0) const { return v[idx(i, j, k)]; }
  double get0(int i, int j, int k) const { return inside(i, j, k) ? v[idx(i, j, k)] : 0.0; }
  bool same_shape(const ND& o) const { return r[0] == o.r[0] && r[1] == o.r[1] && r[2] == o.r[2]; }
  double sum_abs() const { double s = 0; for (double x : v) s += std::fabs(x); return s; }
  double sum() const { double s = 0; for (double x : v) s += x; return s; }
};

inline std::string num_str(double x) { char b[40]; snprintf(b, sizeof b, "%.9g", x); return b; }
inline std::string shape_str(const ND& a, int D)
{
  std::string s;
  for (int d = 0; d < D; ++d) { if (d) s += "x"; s += rg_str(a.r[d]); }
  return s;
}
inline std::string vals_str(const ND& a)
{
  std::string s;
  for (size_t i = 0; i < a.v.size(); ++i) { if (i) s += ","; s += num_str(a.v[i]); }
  return s;
}
inline std::vector<std::string> split(const std::string& s, char sep)
{
  std::vector<std::string> r; std::string cur;
  for (char c : s) { if (c == sep) { r.push_back(cur); cur.clear(); } else cur += c; }
  r.push_back(cur);
  return r;
}
inline ND parse_nd(const std::string& shape, const std::string& vals)
{
  std::vector<std::string> p = split(shape, 'x');
  Rg r[3];
  for (size_t d = 0; d < p.size() && d < 3; ++d) r[d] = rg_parse(p[d]);
  ND a(r[0], r[1], r[2]);
  if (!vals.empty())
    {
      std::vector<std::string> q = split(vals, ',');
      for (size_t i = 0; i < q.size() && i < a.v.size(); ++i) a.v[i] = atof(q[i].c_str());
    }
  return a;
}

// N-d convolution, zero boundary conditions; `out` gives the index ranges of the result.
// kernel_empty: the filter has no coefficients at all (STIR: "trivial", acts as the identity)
inline void conv_zero(ND& out, const ND& k, bool kernel_empty, const ND& x)
{
  for (int i = out.r[0].lo; i <= out.r[0].hi; ++i)
    for (int j = out.r[1].lo; j <= out.r[1].hi; ++j)
      for (int l = out.r[2].lo; l <= out.r[2].hi; ++l)
        {
          double s = 0;
          if (kernel_empty) s = x.get0(i, j, l);
          else
            for (int a = k.r[0].lo; a <= k.r[0].hi; ++a)
              for (int b = k.r[1].lo; b <= k.r[1].hi; ++b)
                for (int c = k.r[2].lo; c <= k.r[2].hi; ++c)
                  s += k.at(a, b, c) * x.get0(i - a, j - b, l - c);
          out.at(i, j, l) = s;
        }
}

// 1-d kernel (a ND with only r[0] used) applied along `axis` of x; result on the ranges of `out`
// (which may differ from x along `axis` only).  bc: 0 zero, 1 constant (nearest element).
inline void conv_axis(ND& out, const ND& k, bool kernel_empty, const ND& x, int axis, int bc)
{
  auto ext = [&](int i, int j, int l) -> double {
    int c[3] = { i, j, l };
    if (x.r[axis].has(c[axis])) return x.at(c[0], c[1], c[2]);
    if (bc == 0) return 0.0;
    c[axis] = c[axis] < x.r[axis].lo ? x.r[axis].lo : x.r[axis].hi;
    return x.at(c[0], c[1], c[2]);
  };
  for (int i = out.r[0].lo; i <= out.r[0].hi; ++i)
    for (int j = out.r[1].lo; j <= out.r[1].hi; ++j)
      for (int l = out.r[2].lo; l <= out.r[2].hi; ++l)
        {
          double s = 0;
          if (kernel_empty) s = ext(i, j, l);
          else
            for (int a = k.r[0].lo; a <= k.r[0].hi; ++a)
              {
                int c[3] = { i, j, l };
                c[axis] -= a;
                s += k.at(a) * ext(c[0], c[1], c[2]);
              }
          out.at(i, j, l) = s;
        }
}

// largest |a-b| and where
inline double max_diff(const ND& a, const ND& b, std::string* where = nullptr)
{
  double m = 0;
  for (int i = a.r[0].lo; i <= a.r[0].hi; ++i)
    for (int j = a.r[1].lo; j <= a.r[1].hi; ++j)
      for (int l = a.r[2].lo; l <= a.r[2].hi; ++l)
        {
          double d = std::fabs(a.at(i, j, l) - b.at(i, j, l));
          if (d != d) d = HUGE_VAL; // NaN counts as infinitely wrong
          if (d > m)
            {
              m = d;
              if (where) *where = "[" + std::to_string(i) + "," + std::to_string(j) + "," + std::to_string(l) + "] impl " + num_str(a.at(i, j, l)) + " ref " + num_str(b.at(i, j, l));
            }
        }
  return m;
}

} // namespace rf
#endif
