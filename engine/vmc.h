// vmc.h - harness-side runtime of the /verif bounded-exhaustive explorer.
//
//  * Ctx        : command line, sharding, deadline, counters, samples, violations, JSON result file
//  * Odometer   : canonical-order enumeration of a product of finite domains
//  * HistSearch : explicit-state breadth-first search over operation histories; a state is the
//                 history reaching it, rebuilt by replaying on a FRESH real object (objects are not
//                 copyable in general); deduplicated by the canonical string the client returns.
//
// No sampling anywhere: `seed` only rotates the order in which work units are visited, so that a
// deadline-capped run covers a different prefix; a completed run cannot depend on it.
#ifndef VMC_H
#define VMC_H
#include <string>
#include <vector>
#include <map>
#include <set>
#include <unordered_set>
#include <deque>
#include <functional>
#include <sstream>
#include <fstream>
#include <iostream>
#include <cstdio>
#include <cstdlib>
#include <cstring>
#include <cstdint>
#include <cmath>
#include <chrono>
#include <stdexcept>
#include <unistd.h>
#include <fcntl.h>

namespace vmc {

inline std::string jesc(const std::string& s)
{
  std::string o;
  for (unsigned char c : s)
    {
      if (c == '"') o += "\\\"";
      else if (c == '\\') o += "\\\\";
      else if (c == '\n') o += "\\n";
      else if (c == '\t') o += "\\t";
      else if (c < 0x20 || c >= 0x7f) { char b[8]; snprintf(b, sizeof b, "\\u%04x", c); o += b; }
      else o += c;
    }
  return o;
}

inline uint64_t fnv(const void* p, size_t n, uint64_t h = 1469598103934665603ULL)
{
  const unsigned char* c = static_cast<const unsigned char*>(p);
  for (size_t i = 0; i < n; ++i) { h ^= c[i]; h *= 1099511628211ULL; }
  return h;
}
inline uint64_t fnv(const std::string& s, uint64_t h = 1469598103934665603ULL) { return fnv(s.data(), s.size(), h); }

template <class T> std::string str(const T& t) { std::ostringstream o; o.precision(9); o << t; return o.str(); }

struct Violation { std::string key, kase, msg; };

struct Ctx
{
  std::string tier = "quick", out, tmpdir = ".", replay, replay_key, property;
  int shard = 0, nshards = 1;
  long seed = 0;
  double deadline_s = 1e9;
  std::chrono::steady_clock::time_point t0 = std::chrono::steady_clock::now();
  std::map<std::string, long long> counters, maxima;
  std::vector<std::string> samples, assumptions, observations;
  std::vector<Violation> violations;
  std::map<std::string, int> per_key;
  std::unordered_set<uint64_t> distinct;
  std::string rule;
  bool exhaustive = true;
  uint64_t digest_h = 1469598103934665603ULL;
  std::vector<std::string> extra_args;
  int cur_fd = -1;

  // Record the case about to be executed in <out>.current (one pwrite).  If the process then dies
  // (sanitizer abort, SIGSEGV) the driver turns the recorded case into a "crash;<key>" violation and
  // confirms it by replaying it in a fresh process.
  std::vector<std::string> first_cases; // fall-back samples: the first cases announced through current()
  void current(const std::string& key, const std::string& kase)
  {
    if (first_cases.size() < 3 && !kase.empty()) first_cases.push_back(kase.substr(0, 400));
    if (out.empty()) return;
    if (cur_fd < 0) cur_fd = ::open((out + ".current").c_str(), O_CREAT | O_WRONLY | O_TRUNC, 0644);
    if (cur_fd < 0) return;
    std::string s = key + "\n" + kase + "\n";
    if (s.size() < 4096) s.resize(4096, ' ');
    s.back() = '\n';
    (void)!::pwrite(cur_fd, s.data(), s.size(), 0);
  }

  Ctx(int argc, char** argv, const std::string& prop) : property(prop)
  {
    for (int i = 1; i < argc; ++i)
      {
        std::string a = argv[i];
        auto next = [&]() -> std::string { if (i + 1 >= argc) { fprintf(stderr, "missing value for %s\n", a.c_str()); exit(2); } return argv[++i]; };
        if (a == "--tier") tier = next();
        else if (a == "--shard") shard = atoi(next().c_str());
        else if (a == "--nshards") nshards = atoi(next().c_str());
        else if (a == "--seed") seed = atol(next().c_str());
        else if (a == "--deadline") deadline_s = atof(next().c_str());
        else if (a == "--out") out = next();
        else if (a == "--tmpdir") tmpdir = next();
        else if (a == "--replay") replay = next();
        else if (a == "--replay-key") replay_key = next();
        else extra_args.push_back(a);
      }
    if (nshards < 1) nshards = 1;
  }
  bool thorough() const { return tier == "thorough"; }
  bool replaying() const { return !replay.empty(); }
  double elapsed() const { return std::chrono::duration<double>(std::chrono::steady_clock::now() - t0).count(); }
  // a work unit (numbered in canonical enumeration order) belongs to exactly one shard
  bool mine(uint64_t unit) const { return replaying() || (int)((unit + (uint64_t)seed) % (uint64_t)nshards) == shard; }
  // call between work units; once true the run stops and reports exhaustive=false
  bool expired() { if (elapsed() > deadline_s) { exhaustive = false; return true; } return false; }
  void count(const std::string& k, long long n = 1) { counters[k] += n; }
  void maxi(const std::string& k, long long v) { auto it = maxima.find(k); if (it == maxima.end() || it->second < v) maxima[k] = v; }
  void sample(const std::string& s, size_t cap = 6) { if (samples.size() < cap) samples.push_back(s); }
  void assume(const std::string& s) { for (auto& a : assumptions) if (a == s) return; assumptions.push_back(s); }
  void observe(const std::string& s) { if (observations.size() < 40) { for (auto& a : observations) if (a == s) return; observations.push_back(s); } }
  // counts DISTINCT non-trivial cases (by hash of a caller-provided description)
  void nontrivial(const std::string& descr) { if (distinct.insert(fnv(descr)).second) counters["distinct_nontrivial"]++; }
  void nontrivial(uint64_t h) { if (distinct.insert(h).second) counters["distinct_nontrivial"]++; }
  // order-sensitive digest of everything observed (used to compare runs under different heap poisoning)
  void digest(const std::string& s) { digest_h = fnv(s, digest_h * 31 + 7); }
  void violation(const std::string& key, const std::string& kase, const std::string& msg)
  {
    int& n = per_key[key];
    if (n++ < 3) violations.push_back({ key, kase, msg });
    counters["violating_cases"]++;
  }
  int finish()
  {
    if (samples.empty()) samples = first_cases; // a harness that wrote no samples of its own: the first executed cases
    if (!out.empty())
      {
        std::ofstream f(out);
        f << "{\n \"property\": \"" << property << "\", \"tier\": \"" << tier << "\", \"shard\": " << shard << ", \"nshards\": " << nshards
          << ",\n \"exhaustive\": " << (exhaustive ? "true" : "false") << ", \"wall_s\": " << elapsed() << ", \"digest\": \"" << std::hex << digest_h << std::dec << "\""
          << ",\n \"rule\": \"" << jesc(rule) << "\",\n \"counters\": {";
        bool first = true;
        for (auto& kv : counters) { f << (first ? "" : ", ") << "\"" << jesc(kv.first) << "\": " << kv.second; first = false; }
        f << "},\n \"maxima\": {";
        first = true;
        for (auto& kv : maxima) { f << (first ? "" : ", ") << "\"" << jesc(kv.first) << "\": " << kv.second; first = false; }
        f << "},\n \"samples\": [";
        for (size_t i = 0; i < samples.size(); ++i) f << (i ? ", " : "") << "\"" << jesc(samples[i]) << "\"";
        f << "],\n \"assumptions\": [";
        for (size_t i = 0; i < assumptions.size(); ++i) f << (i ? ", " : "") << "\"" << jesc(assumptions[i]) << "\"";
        f << "],\n \"observations\": [";
        for (size_t i = 0; i < observations.size(); ++i) f << (i ? ", " : "") << "\"" << jesc(observations[i]) << "\"";
        f << "],\n \"violations\": [";
        for (size_t i = 0; i < violations.size(); ++i)
          f << (i ? ",\n  " : "\n  ") << "{\"key\": \"" << jesc(violations[i].key) << "\", \"case\": \"" << jesc(violations[i].kase) << "\", \"msg\": \"" << jesc(violations[i].msg) << "\"}";
        f << "]\n}\n";
      }
    for (auto& v : violations) fprintf(stderr, "violation key=%s case=%s : %s\n", v.key.c_str(), v.kase.c_str(), v.msg.c_str());
    return violations.empty() ? 0 : 1;
  }
};

// split "a;b;c" / "k=v" helpers for replay-case strings
inline std::vector<std::string> split(const std::string& s, char sep)
{
  std::vector<std::string> r; std::string cur;
  for (char c : s) { if (c == sep) { r.push_back(cur); cur.clear(); } else cur += c; }
  r.push_back(cur);
  return r;
}
inline std::map<std::string, std::string> kv(const std::string& s, char sep = ';')
{
  std::map<std::string, std::string> m;
  for (auto& p : split(s, sep)) { auto e = p.find('='); if (e != std::string::npos) m[p.substr(0, e)] = p.substr(e + 1); }
  return m;
}
inline std::vector<int> ints(const std::string& s, char sep = ',')
{
  std::vector<int> r; if (s.empty()) return r;
  for (auto& p : split(s, sep)) r.push_back(atoi(p.c_str()));
  return r;
}
inline std::string join(const std::vector<int>& v, char sep = ',')
{
  std::string s; for (size_t i = 0; i < v.size(); ++i) { if (i) s += sep; s += std::to_string(v[i]); } return s;
}

// Odometer over a product of finite domains, canonical (lexicographic, last digit fastest) order
struct Odometer
{
  std::vector<int> n, v; bool done = false; uint64_t index = 0;
  explicit Odometer(std::vector<int> sizes) : n(std::move(sizes)), v(n.size(), 0) { for (int s : n) if (s <= 0) done = true; }
  int operator[](size_t i) const { return v[i]; }
  void next()
  {
    ++index;
    for (int i = (int)n.size() - 1; i >= 0; --i) { if (++v[i] < n[i]) return; v[i] = 0; }
    done = true;
  }
  uint64_t total() const { uint64_t t = 1; for (int s : n) t *= (uint64_t)s; return t; }
};

// ------------------------------------------------------------------------------------------------
// Explicit-state history search.
//   build(hist, err) : create FRESH real objects + reference model, apply every op of hist through the
//                      real API checking the per-step oracle; on oracle failure set err (non-empty)
//                      and return; otherwise return the canonical state string.
//   nops             : size of the (instantiated) operation alphabet, ordered simplest-first
//   enabled(canon,op): optional filter
// BFS by history length => the first counterexample reported is a shortest one.
// ------------------------------------------------------------------------------------------------
struct HistResult { long long states = 0, transitions = 0, executions = 0; int depth_completed = 0; bool complete = true; };

struct HistSearch
{
  int nops = 0, max_depth = 3;
  std::function<std::string(const std::vector<int>&, std::string&, std::string&)> build; // (hist, err_key, err_msg) -> canon
  std::function<std::string(int)> opname;
  std::function<bool()> expired = [] { return false; };
  std::function<void(const std::vector<int>&, const std::string&, const std::string&)> on_violation;
  std::function<void(const std::vector<int>&, const std::string&)> on_state;
  size_t max_states = 50000000;

  HistResult run()
  {
    HistResult r;
    std::unordered_set<uint64_t> seen;
    std::deque<std::vector<int>> frontier;
    std::string ek, em;
    std::vector<int> h0;
    std::string c0 = build(h0, ek, em);
    r.executions++;
    if (!ek.empty()) { on_violation(h0, ek, em); return r; }
    seen.insert(fnv(c0));
    r.states = 1;
    if (on_state) on_state(h0, c0);
    frontier.push_back(h0);
    std::set<std::string> reported;
    while (!frontier.empty())
      {
        std::vector<int> h = frontier.front();
        frontier.pop_front();
        if ((int)h.size() >= max_depth) { continue; }
        if (expired()) { r.complete = false; break; }
        for (int op = 0; op < nops; ++op)
          {
            std::vector<int> h2 = h; h2.push_back(op);
            ek.clear(); em.clear();
            std::string c = build(h2, ek, em);
            r.executions++; r.transitions++;
            if (!ek.empty())
              {
                if (reported.insert(ek).second || reported.size() < 4) on_violation(h2, ek, em);
                continue; // do not extend a history whose last step already failed
              }
            if (seen.insert(fnv(c)).second)
              {
                r.states++;
                if (on_state) on_state(h2, c);
                if (seen.size() < max_states) frontier.push_back(h2); else r.complete = false;
              }
          }
        if (frontier.empty() || frontier.front().size() > h.size()) r.depth_completed = (int)h.size() + 1;
      }
    return r;
  }
};

} // namespace vmc
#endif
