// stir_small.h - generators for small STIR scanners / projection-data geometries / images and an explicit
// (dense, double) system matrix, shared by the /verif harnesses.  Everything is built in memory.
#ifndef STIR_SMALL_H
#define STIR_SMALL_H
#include "stir/Scanner.h"
#include "stir/ProjDataInfo.h"
#include "stir/ProjDataInfoCylindricalNoArcCorr.h"
#include "stir/ProjDataInfoCylindricalArcCorr.h"
#include "stir/ProjDataInMemory.h"
#include "stir/ExamInfo.h"
#include "stir/VoxelsOnCartesianGrid.h"
#include "stir/IndexRange3D.h"
#include "stir/Bin.h"
#include "stir/Verbosity.h"
#include "stir/recon_buildblock/ProjMatrixByBinUsingRayTracing.h"
#include "stir/recon_buildblock/ProjMatrixElemsForOneBin.h"
#include "stir/shared_ptr.h"
#include "stir/error.h"
#include <vector>
#include <string>
#include <map>
#include <cmath>

namespace small {
using namespace stir;

inline void quiet() { Verbosity::set(0); }

// Cylindrical user-defined scanner with D detectors per ring (even) and R rings.
//   radius 100 mm, ring spacing 4 mm, bin size = approx. detector pitch/2; block sizes chosen as divisors.
//   ntof>0: TOF scanner with ntof timing positions of `tofw` ps (default 1300/ntof) and resolution 2*tofw ps.
inline shared_ptr<Scanner> cyl_scanner(int D, int R, int ntof = 0, float tofw = 0.F, float radius = 100.F, float ring_spacing = 4.F,
                                       const std::string& geometry = "Cylindrical", int trans_per_block = 0, int axial_per_block = 0)
{
  // transaxial crystals per block: largest of {4,3,2,1} dividing D (so buckets tile the ring); axial: 1 or as given
  int tb = trans_per_block;
  if (tb <= 0) { tb = 1; for (int c : { 4, 3, 2 }) if (D % c == 0) { tb = c; break; } }
  int ab = axial_per_block > 0 ? axial_per_block : 1;
  if (ntof > 0 && tofw <= 0) tofw = 1300.F / ntof; // coincidence window ~ FOV diameter in mm, as check_consistency() wants
  const float pitch = float(2 * M_PI * radius / D);
  const float bin_size = pitch / 2.F;
  const int max_bins = D / 2 + 1 - ((D / 2) % 2 == 0 ? 0 : 0);
  shared_ptr<Scanner> s;
  if (geometry == "Cylindrical")
    s.reset(new Scanner(Scanner::User_defined_scanner, std::string("verif_cyl"), D, R, /*max nonarccorr bins*/ D / 2, /*default arccorr bins*/ D / 2,
                        radius, /*DOI*/ 0.F, ring_spacing, bin_size, /*tilt*/ 0.F,
                        /*axial blocks/bucket*/ 1, /*transaxial blocks/bucket*/ 1, ab, tb, /*singles units*/ ab, tb, /*layers*/ 1,
                        /*energy res*/ 0.15F, /*ref energy*/ 511.F,
                        (short)(ntof > 0 ? ntof : -1), ntof > 0 ? tofw : -1.F, ntof > 0 ? 2 * tofw : -1.F));
  else
    {
      // BlocksOnCylindrical: one axial bucket holding all rings; each transaxial bucket = one block of tb crystals
      // whose width just exceeds the side of the polygon around the cylinder (check_consistency() requirement)
      ab = R;
      const int nb = D / tb;
      const float block_w = float(2 * radius * std::tan(M_PI / 2 / nb)) * 1.001F;
      s.reset(new Scanner(Scanner::User_defined_scanner, std::string("verif_blk"), D, R, D / 2, D / 2,
                          radius, 0.F, ring_spacing, bin_size, 0.F,
                          1, 1, ab, tb, ab, tb, 1, 0.15F, 511.F,
                          (short)(ntof > 0 ? ntof : -1), ntof > 0 ? tofw : -1.F, ntof > 0 ? 2 * tofw : -1.F,
                          geometry, /*axial crystal spacing*/ ring_spacing, /*transaxial crystal spacing*/ block_w / tb,
                          /*axial block spacing*/ ring_spacing * ab, /*transaxial block spacing*/ block_w));
    }
  (void)max_bins;
  return s;
}

// projection data geometry; views<=0 / tangs<=0: scanner defaults (D/2 views, D/2 tangential positions)
inline shared_ptr<ProjDataInfo> make_pdi(const shared_ptr<Scanner>& sc, int span, int max_delta, int views = 0, int tangs = 0,
                                         bool arc_corrected = false, int tof_mash = 0)
{
  if (views <= 0) views = sc->get_num_detectors_per_ring() / 2;
  if (tangs <= 0) tangs = sc->get_max_num_non_arccorrected_bins();
  shared_ptr<ProjDataInfo> p(ProjDataInfo::construct_proj_data_info(sc, span, max_delta, views, tangs, arc_corrected, tof_mash).release());
  return p;
}

// image: nz planes (<=0: 2R-1), nxy x nxy voxels (<=0: derived from the tangential size), voxel xy = zoom^-1 * bin size,
// z spacing = ring_spacing/2 unless given
inline shared_ptr<VoxelsOnCartesianGrid<float>> make_image(const ProjDataInfo& pdi, int nz = 0, int nxy = 0, float voxel_xy = 0.F,
                                                           float voxel_z = 0.F, float origin_z = 0.F)
{
  const Scanner& sc = *pdi.get_scanner_ptr();
  if (nz <= 0) nz = 2 * sc.get_num_rings() - 1;
  if (voxel_z <= 0) voxel_z = sc.get_ring_spacing() / 2;
  if (voxel_xy <= 0) voxel_xy = sc.get_default_bin_size();
  if (nxy <= 0) nxy = pdi.get_num_tangential_poss() | 1;
  const int lo = -(nxy / 2), hi = lo + nxy - 1;
  shared_ptr<VoxelsOnCartesianGrid<float>> im(
      new VoxelsOnCartesianGrid<float>(IndexRange3D(0, nz - 1, lo, hi, lo, hi), CartesianCoordinate3D<float>(origin_z, 0.F, 0.F),
                                       CartesianCoordinate3D<float>(voxel_z, voxel_xy, voxel_xy)));
  return im;
}

// enumeration of all bins of a geometry in canonical order (segment, axial, view, tangential, timing)
inline std::vector<Bin> all_bins(const ProjDataInfo& p)
{
  std::vector<Bin> v;
  for (int s = p.get_min_segment_num(); s <= p.get_max_segment_num(); ++s)
    for (int a = p.get_min_axial_pos_num(s); a <= p.get_max_axial_pos_num(s); ++a)
      for (int vw = p.get_min_view_num(); vw <= p.get_max_view_num(); ++vw)
        for (int t = p.get_min_tangential_pos_num(); t <= p.get_max_tangential_pos_num(); ++t)
          for (int k = p.get_min_tof_pos_num(); k <= p.get_max_tof_pos_num(); ++k)
            v.push_back(Bin(s, vw, a, t, k));
  return v;
}
inline std::string bin_str(const Bin& b)
{
  return "s" + std::to_string(b.segment_num()) + "a" + std::to_string(b.axial_pos_num()) + "v" + std::to_string(b.view_num()) + "t"
         + std::to_string(b.tangential_pos_num()) + "k" + std::to_string(b.timing_pos_num());
}

// ray-tracing matrix with all symmetries off and no cache: the "direct" computation
inline shared_ptr<ProjMatrixByBinUsingRayTracing> direct_matrix(const shared_ptr<const ProjDataInfo>& pdi,
                                                                const shared_ptr<const DiscretisedDensity<3, float>>& im,
                                                                int num_LORs = 1, bool restrict_fov = true)
{
  shared_ptr<ProjMatrixByBinUsingRayTracing> m(new ProjMatrixByBinUsingRayTracing());
  m->set_do_symmetry_90degrees_min_phi(false);
  m->set_do_symmetry_180degrees_min_phi(false);
  m->set_do_symmetry_swap_segment(false);
  m->set_do_symmetry_swap_s(false);
  m->set_do_symmetry_shift_z(false);
  m->set_num_tangential_LORs(num_LORs);
  m->set_restrict_to_cylindrical_FOV(restrict_fov);
  m->enable_cache(false);
  m->set_up(pdi, im);
  return m;
}

// dense explicit system matrix P (rows = bins in all_bins order, columns = voxels in row-major order, z clipped to the image as the projectors do)
struct DenseP
{
  std::vector<Bin> bins;
  int nz = 0, ny = 0, nx = 0, z0 = 0, y0 = 0, x0 = 0;
  size_t nvox = 0;
  std::vector<std::vector<std::pair<int, double>>> rows; // sparse rows: (voxel index, value)
  int vox(int z, int y, int x) const { return ((z - z0) * ny + (y - y0)) * nx + (x - x0); }
  bool inside(int z, int y, int x) const { return z >= z0 && z < z0 + nz && y >= y0 && y < y0 + ny && x >= x0 && x < x0 + nx; }
};
inline DenseP extract_P(ProjMatrixByBin& m, const ProjDataInfo& pdi, const VoxelsOnCartesianGrid<float>& im)
{
  DenseP P;
  P.bins = all_bins(pdi);
  P.z0 = im.get_min_z(); P.y0 = im.get_min_y(); P.x0 = im.get_min_x();
  P.nz = im.get_z_size(); P.ny = im.get_y_size(); P.nx = im.get_x_size();
  P.nvox = (size_t)P.nz * P.ny * P.nx;
  P.rows.resize(P.bins.size());
  ProjMatrixElemsForOneBin row;
  for (size_t b = 0; b < P.bins.size(); ++b)
    {
      m.get_proj_matrix_elems_for_one_bin(row, P.bins[b]);
      std::map<int, double> acc;
      for (auto it = row.begin(); it != row.end(); ++it)
        {
          const int z = it->coord1(), y = it->coord2(), x = it->coord3();
          if (!P.inside(z, y, x)) continue; // the projectors clip z (and never see x/y outside)
          acc[P.vox(z, y, x)] += it->get_value();
        }
      P.rows[b].assign(acc.begin(), acc.end());
    }
  return P;
}

// flatten / unflatten images
inline std::vector<double> flat(const VoxelsOnCartesianGrid<float>& im)
{
  std::vector<double> v;
  for (auto it = im.begin_all(); it != im.end_all(); ++it) v.push_back(*it);
  return v;
}
inline void unflat(VoxelsOnCartesianGrid<float>& im, const std::vector<double>& v)
{
  size_t k = 0;
  for (auto it = im.begin_all(); it != im.end_all(); ++it) *it = (float)v[k++];
}
// read / write all bins of a ProjData in all_bins order
inline std::vector<double> flat(const ProjData& pd)
{
  std::vector<double> v;
  const ProjDataInfo& p = *pd.get_proj_data_info_sptr();
  for (int s = p.get_min_segment_num(); s <= p.get_max_segment_num(); ++s)
    for (int k0 = p.get_min_tof_pos_num(); k0 <= p.get_min_tof_pos_num(); ++k0)
      {
        // gather per timing position into a map, then emit in all_bins order
        (void)k0;
      }
  std::map<std::vector<int>, double> val;
  for (int k = p.get_min_tof_pos_num(); k <= p.get_max_tof_pos_num(); ++k)
    for (int s = p.get_min_segment_num(); s <= p.get_max_segment_num(); ++s)
      {
        SegmentByView<float> seg = pd.get_segment_by_view(s, k);
        for (int vw = p.get_min_view_num(); vw <= p.get_max_view_num(); ++vw)
          for (int a = p.get_min_axial_pos_num(s); a <= p.get_max_axial_pos_num(s); ++a)
            for (int t = p.get_min_tangential_pos_num(); t <= p.get_max_tangential_pos_num(); ++t)
              val[{ s, a, vw, t, k }] = seg[vw][a][t];
      }
  for (const Bin& b : all_bins(p)) v.push_back(val[{ b.segment_num(), b.axial_pos_num(), b.view_num(), b.tangential_pos_num(), b.timing_pos_num() }]);
  return v;
}
inline void unflat(ProjData& pd, const std::vector<double>& v)
{
  const ProjDataInfo& p = *pd.get_proj_data_info_sptr();
  std::map<std::vector<int>, double> val;
  size_t i = 0;
  for (const Bin& b : all_bins(p)) val[{ b.segment_num(), b.axial_pos_num(), b.view_num(), b.tangential_pos_num(), b.timing_pos_num() }] = v[i++];
  for (int k = p.get_min_tof_pos_num(); k <= p.get_max_tof_pos_num(); ++k)
    for (int s = p.get_min_segment_num(); s <= p.get_max_segment_num(); ++s)
      {
        SegmentByView<float> seg = p.get_empty_segment_by_view(s, false, k);
        for (int vw = p.get_min_view_num(); vw <= p.get_max_view_num(); ++vw)
          for (int a = p.get_min_axial_pos_num(s); a <= p.get_max_axial_pos_num(s); ++a)
            for (int t = p.get_min_tangential_pos_num(); t <= p.get_max_tangential_pos_num(); ++t)
              seg[vw][a][t] = (float)val[{ s, a, vw, t, k }];
        pd.set_segment(seg);
      }
}
inline shared_ptr<ProjDataInMemory> make_projdata(const shared_ptr<const ProjDataInfo>& pdi, float fill = 0.F)
{
  shared_ptr<ExamInfo> ex(new ExamInfo);
  ex->imaging_modality = ImagingModality::PT;
  shared_ptr<ProjDataInMemory> pd(new ProjDataInMemory(ex, pdi));
  pd->fill(fill);
  return pd;
}

// y = P x (double)
inline std::vector<double> mulP(const DenseP& P, const std::vector<double>& x)
{
  std::vector<double> y(P.rows.size(), 0.0);
  for (size_t b = 0; b < P.rows.size(); ++b) { double s = 0; for (auto& e : P.rows[b]) s += e.second * x[e.first]; y[b] = s; }
  return y;
}
// x = P^T y (double)
inline std::vector<double> mulPT(const DenseP& P, const std::vector<double>& y)
{
  std::vector<double> x(P.nvox, 0.0);
  for (size_t b = 0; b < P.rows.size(); ++b) if (y[b] != 0) for (auto& e : P.rows[b]) x[e.first] += e.second * y[b];
  return x;
}

// run f, return true if it threw (any exception); message in *what
template <class F> bool throws(F f, std::string* what = nullptr)
{
  try { f(); }
  catch (std::exception& e) { if (what) *what = e.what(); return true; }
  catch (...) { if (what) *what = "non-std exception"; return true; }
  return false;
}

} // namespace small
#endif
