/* vomp - a controllable OpenMP runtime (the subset of the GOMP ABI that an -fopenmp build of STIR
   references) for systematic schedule exploration.  See DESIGN.md section 3.5.

   Exactly one thread of a team runs at a time.  A running thread reaches a SCHEDULE POINT before
   every acquire-like operation (omp_set_lock, critical, GOMP_atomic_start), before taking work from
   a dynamic loop, before `single`, at thread start, and at every STIR_VERIF_POINT hook.  At a point the
   set of enabled threads is computed (canonical order: the running thread first if it is enabled,
   then ascending ids) and, if more than one is enabled, the registered chooser picks one.
   Blocking (lock held, barrier not full, join) makes a thread not enabled; no enabled thread = deadlock.

   Only parallel regions announced by ucl_stir_verif_region()/vomp_region_of_interest() get a team
   (of vomp_set_team_size threads); all other regions (and nested ones) run with one thread.

   This translation unit is compiled WITHOUT sanitizer instrumentation and hands the baton over with
   raw futex system calls, so that ThreadSanitizer does not see the scheduler's hand-offs as
   happens-before edges; the happens-before edges OpenMP really guarantees (lock release->acquire,
   barrier, fork/join) are given to TSan through __tsan_release/__tsan_acquire. */
#ifndef VOMP_H
#define VOMP_H
#ifdef __cplusplus
extern "C" {
#endif

enum { VOMP_K_START = 1, VOMP_K_LOCK, VOMP_K_CRITICAL, VOMP_K_ATOMIC, VOMP_K_LOOP, VOMP_K_SINGLE, VOMP_K_HOOK, VOMP_K_BLOCKED, VOMP_K_DONE, VOMP_K_JOIN };

typedef struct
{
  int tid;             /* thread that reached the point */
  int kind;            /* VOMP_K_* */
  const char* site;    /* hook site or NULL */
  const void* obj;     /* lock / critical identity or hook object */
  int n_enabled;       /* >= 2 when the chooser is called */
  int running_enabled; /* 1 if enabled[0] == tid (choosing another index is a preemption) */
} vomp_point;

/* returns an index into enabled[0..n_enabled-1] */
typedef int (*vomp_chooser)(void* user, const vomp_point* p, const int* enabled);

void vomp_set_chooser(vomp_chooser c, void* user);
/* Built-in replay chooser (preferred over vomp_set_chooser: no callback into instrumented code): at the i-th choice point take
   prefix[i] (i < n; an out-of-range value = divergence, recorded) and 0 afterwards; every choice point is logged. */
typedef struct { int tid, kind, n_enabled, running_enabled, chosen, next; const char* site; } vomp_logged_point;
void vomp_replay_begin(const int* prefix, int n);
void vomp_replay_pause(int on); /* 1: choice points are neither replayed nor logged (set-up phases of a body) */
int vomp_replay_end(const vomp_logged_point** log, int* diverged); /* returns the number of logged choice points */

/* called at EVERY schedule point of a team (also when only one thread is enabled), after the choice: `next` = id of the thread that
   runs next.  Used to record complete event traces (model conformance, DESIGN 3.5). */
typedef void (*vomp_observer)(void* user, const vomp_point* p, int next);
void vomp_set_observer(vomp_observer o, void* user);
void vomp_set_team_size(int n);      /* team size of the regions of interest; also omp_get_max_threads() */
void vomp_set_all_regions(int on);   /* 1: every top-level parallel region gets a team */
void vomp_region_of_interest(void);  /* the next top-level parallel region started by this thread gets a team */
/* called when no thread is enabled; default prints and _exit(99) */
void vomp_set_deadlock_handler(void (*h)(void));

typedef struct
{
  long sched_points, choice_points, lock_acquires, lock_contended, regions_team, regions_serial, barriers, loop_chunks;
} vomp_stats_t;
vomp_stats_t* vomp_stats(void);

#ifdef __cplusplus
}
#endif
#endif
