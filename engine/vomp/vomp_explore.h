// vomp_explore.h - stateless DFS over schedules of one harness body with iterative preemption bounding.
//
//   body(): must build FRESH objects, run the multi-threaded code under test (one or more parallel regions
//           of interest) and return an "outcome" string (canonical observable result).  It is executed
//           once per schedule; the explorer installs a chooser into vomp that replays a prefix of choices
//           (an out-of-range choice = divergence = hard error) and takes choice 0 (keep running / lowest
//           id) at every later point.
//   A choice point = a schedule point with >= 2 enabled threads.  Choosing index != 0 while the running
//   thread is still enabled is a PREEMPTION (cost 1); switching away from a blocked/finished thread is free.
#ifndef VOMP_EXPLORE_H
#define VOMP_EXPLORE_H
#include "vomp.h"
#include <vector>
#include <string>
#include <functional>
#include <set>
#include <map>
#include <cstdio>
#include <cstdlib>

namespace vompx {

struct Point
{
  int tid, kind, n_enabled, running_enabled, chosen;
  const char* site;
};

struct Execution
{
  std::vector<Point> points;
  std::string outcome, err_key, err_msg;
  int preemptions = 0;
  std::vector<int> choices() const
  {
    std::vector<int> c;
    for (auto& p : points)
      c.push_back(p.chosen);
    return c;
  }
};

// a body can suspend exploration during a set-up phase (choice points are then neither replayed nor logged)
inline void suspend(bool on) { vomp_replay_pause(on ? 1 : 0); }

struct Result
{
  long long schedules = 0, choice_points = 0, max_points = 0;
  int bound_completed = -1;
  bool complete = true;
  std::set<std::string> outcomes;
  std::map<std::string, long long> sites; // hook sites seen at choice points
};

struct Explorer
{
  // runs the body once under the installed chooser; fills outcome / err_key / err_msg
  std::function<void(Execution&)> body;
  std::function<bool()> expired = [] { return false; };
  // called for every execution with an error (err_key non-empty) or nondeterministic replay
  std::function<void(const std::vector<int>& schedule, const Execution&)> on_violation;
  // sharding: unit counter over first-level alternatives
  std::function<bool(unsigned long long)> mine = [](unsigned long long) { return true; };
  bool count_root = true;
  // called before every execution with the prefix about to be replayed (e.g. to record it for crash capture)
  std::function<void(const std::vector<int>&)> before_run;

  Execution run(const std::vector<int>& prefix)
  {
    Execution x;
    if (before_run) before_run(prefix);
    // the replay chooser and the log of choice points live inside vomp (uninstrumented, see vomp.h)
    vomp_replay_begin(prefix.data(), (int)prefix.size());
    body(x);
    const vomp_logged_point* log = nullptr;
    int diverged = 0;
    const int n = vomp_replay_end(&log, &diverged);
    for (int i = 0; i < n; ++i)
      {
        if (log[i].chosen != 0 && log[i].running_enabled) x.preemptions++;
        x.points.push_back(Point{ log[i].tid, log[i].kind, log[i].n_enabled, log[i].running_enabled, log[i].chosen, log[i].site });
      }
    if (diverged || x.points.size() < prefix.size())
      {
        x.err_key = "nondeterminism";
        x.err_msg = "schedule prefix could not be replayed (a choice was out of range or the execution ended early): the body is not deterministic under the scheduler";
      }
    return x;
  }

  void explore(int bound, Result& r)
  {
    struct Frame
    {
      std::vector<int> prefix;
    };
    std::vector<Frame> stack;
    stack.push_back(Frame{ {} });
    unsigned long long unit = 0;
    bool first = true;
    while (!stack.empty())
      {
        if (expired())
          {
            r.complete = false;
            return;
          }
        Frame f = std::move(stack.back());
        stack.pop_back();
        Execution x = run(f.prefix);
        const bool is_root = first;
        first = false;
        if (!is_root || count_root)
          {
            r.schedules++;
            r.choice_points += (long long)x.points.size();
            r.outcomes.insert(x.outcome);
          }
        if ((long long)x.points.size() > r.max_points)
          r.max_points = (long long)x.points.size();
        for (auto& p : x.points)
          if (p.site)
            r.sites[p.site]++;
        if (!x.err_key.empty())
          {
            if (on_violation)
              on_violation(x.choices(), x);
            continue; // do not extend a failing execution
          }
        // children: deviate at every point after the prefix
        std::vector<int> ch = x.choices();
        int cost = 0;
        for (size_t j = 0; j < f.prefix.size() && j < x.points.size(); ++j)
          if (x.points[j].chosen != 0 && x.points[j].running_enabled)
            cost++;
        // push in reverse so that earlier deviation points are explored first
        std::vector<Frame> kids;
        int c = cost;
        for (size_t i = f.prefix.size(); i < x.points.size(); ++i)
          {
            const Point& p = x.points[i];
            const int extra = p.running_enabled ? 1 : 0;
            if (c + extra <= bound)
              for (int alt = 1; alt < p.n_enabled; ++alt)
                {
                  if (is_root && !mine(unit++))
                    continue;
                  Frame k;
                  k.prefix.assign(ch.begin(), ch.begin() + i);
                  k.prefix.push_back(alt);
                  kids.push_back(std::move(k));
                }
            // choices after the prefix are all 0 in this execution: cost unchanged
          }
        for (auto it = kids.rbegin(); it != kids.rend(); ++it)
          stack.push_back(std::move(*it));
      }
    r.bound_completed = bound;
  }
};

inline std::string schedule_str(const std::vector<int>& s)
{
  std::string o;
  for (size_t i = 0; i < s.size(); ++i)
    {
      if (i) o += ",";
      o += std::to_string(s[i]);
    }
  return o;
}

} // namespace vompx
#endif
