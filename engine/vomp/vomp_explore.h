// vomp_explore.h - stateless DFS over schedules of one harness body with iterative preemption bounding.
//
//   body(): must build FRESH objects, run the multi-threaded code under test (one or more parallel regions
//           of interest) and return an "outcome" string (canonical observable result).  It is executed
//           once per schedule; the explorer installs a chooser into vomp that replays a prefix of choices
//           (an out-of-range choice = divergence = hard error) and takes choice 0 (keep running / lowest
//           id) at every later point.
//   A choice point = a schedule point with >= 2 enabled threads.  Choosing index != 0 while the running
//   thread is still enabled is a PREEMPTION (cost 1); switching away from a blocked/finished thread is free.
#ifndef VOMP_EXPLORE_H
#define VOMP_EXPLORE_H
#include "vomp.h"
#include <vector>
#include <string>
#include <functional>
#include <set>
#include <map>
#include <cstdio>
#include <cstdlib>

namespace vompx {

struct Point
{
  int tid, kind, n_enabled, running_enabled, chosen;
  const char* site;
};

struct Execution
{
  std::vector<Point> points;
  std::string outcome, err_key, err_msg;
  int preemptions = 0;
  std::vector<int> choices() const
  {
    std::vector<int> c;
    for (auto& p : points)
      c.push_back(p.chosen);
    return c;
  }
};

struct ChooserState
{
  const std::vector<int>* prefix = nullptr;
  Execution* exec = nullptr;
  bool diverged = false;
};

inline int chooser_cb(void* user, const vomp_point* p, const int* /*enabled*/)
{
  ChooserState* s = static_cast<ChooserState*>(user);
  const size_t pos = s->exec->points.size();
  int c = 0;
  if (pos < s->prefix->size())
    {
      c = (*s->prefix)[pos];
      if (c >= p->n_enabled)
        {
          s->diverged = true;
          c = 0;
        }
    }
  if (c != 0 && p->running_enabled)
    s->exec->preemptions++;
  s->exec->points.push_back(Point{ p->tid, p->kind, p->n_enabled, p->running_enabled, c, p->site });
  return c;
}

// the chooser state of the execution in progress (so that a body can suspend exploration during a set-up phase)
inline ChooserState*& active_state() { static ChooserState* s = nullptr; return s; }
inline void suspend(bool on)
{
  if (on) vomp_set_chooser(nullptr, nullptr);
  else if (active_state()) vomp_set_chooser(chooser_cb, active_state());
}

struct Result
{
  long long schedules = 0, choice_points = 0, max_points = 0;
  int bound_completed = -1;
  bool complete = true;
  std::set<std::string> outcomes;
  std::map<std::string, long long> sites; // hook sites seen at choice points
};

struct Explorer
{
  // runs the body once under the installed chooser; fills outcome / err_key / err_msg
  std::function<void(Execution&)> body;
  std::function<bool()> expired = [] { return false; };
  // called for every execution with an error (err_key non-empty) or nondeterministic replay
  std::function<void(const std::vector<int>& schedule, const Execution&)> on_violation;
  // sharding: unit counter over first-level alternatives
  std::function<bool(unsigned long long)> mine = [](unsigned long long) { return true; };
  bool count_root = true;
  // called before every execution with the prefix about to be replayed (e.g. to record it for crash capture)
  std::function<void(const std::vector<int>&)> before_run;

  Execution run(const std::vector<int>& prefix)
  {
    Execution x;
    if (before_run) before_run(prefix);
    ChooserState st;
    st.prefix = &prefix;
    st.exec = &x;
    vomp_set_chooser(chooser_cb, &st);
    active_state() = &st;
    body(x);
    active_state() = nullptr;
    vomp_set_chooser(nullptr, nullptr);
    if (st.diverged || x.points.size() < prefix.size())
      {
        x.err_key = "nondeterminism";
        x.err_msg = "schedule prefix could not be replayed (a choice was out of range or the execution ended early): the body is not deterministic under the scheduler";
      }
    return x;
  }

  void explore(int bound, Result& r)
  {
    struct Frame
    {
      std::vector<int> prefix;
    };
    std::vector<Frame> stack;
    stack.push_back(Frame{ {} });
    unsigned long long unit = 0;
    bool first = true;
    while (!stack.empty())
      {
        if (expired())
          {
            r.complete = false;
            return;
          }
        Frame f = std::move(stack.back());
        stack.pop_back();
        Execution x = run(f.prefix);
        const bool is_root = first;
        first = false;
        if (!is_root || count_root)
          {
            r.schedules++;
            r.choice_points += (long long)x.points.size();
            r.outcomes.insert(x.outcome);
          }
        if ((long long)x.points.size() > r.max_points)
          r.max_points = (long long)x.points.size();
        for (auto& p : x.points)
          if (p.site)
            r.sites[p.site]++;
        if (!x.err_key.empty())
          {
            if (on_violation)
              on_violation(x.choices(), x);
            continue; // do not extend a failing execution
          }
        // children: deviate at every point after the prefix
        std::vector<int> ch = x.choices();
        int cost = 0;
        for (size_t j = 0; j < f.prefix.size() && j < x.points.size(); ++j)
          if (x.points[j].chosen != 0 && x.points[j].running_enabled)
            cost++;
        // push in reverse so that earlier deviation points are explored first
        std::vector<Frame> kids;
        int c = cost;
        for (size_t i = f.prefix.size(); i < x.points.size(); ++i)
          {
            const Point& p = x.points[i];
            const int extra = p.running_enabled ? 1 : 0;
            if (c + extra <= bound)
              for (int alt = 1; alt < p.n_enabled; ++alt)
                {
                  if (is_root && !mine(unit++))
                    continue;
                  Frame k;
                  k.prefix.assign(ch.begin(), ch.begin() + i);
                  k.prefix.push_back(alt);
                  kids.push_back(std::move(k));
                }
            // choices after the prefix are all 0 in this execution: cost unchanged
          }
        for (auto it = kids.rbegin(); it != kids.rend(); ++it)
          stack.push_back(std::move(*it));
      }
    r.bound_completed = bound;
  }
};

inline std::string schedule_str(const std::vector<int>& s)
{
  std::string o;
  for (size_t i = 0; i < s.size(); ++i)
    {
      if (i) o += ",";
      o += std::to_string(s[i]);
    }
  return o;
}

} // namespace vompx
#endif
