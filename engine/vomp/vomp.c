/* vomp.c - controllable OpenMP runtime (GOMP ABI subset), see vomp.h */
#define _GNU_SOURCE
#include <pthread.h>
#include <stdint.h>
#include <stdlib.h>
#include <stdio.h>
#include <string.h>
#include <unistd.h>
#include <stdbool.h>
#include <sys/syscall.h>
#include <linux/futex.h>
#include "vomp.h"

#define MAXT 32
#define MAXWS 512
#define MAXSERIAL 32

/* ThreadSanitizer annotations; the symbols only exist in TSan builds */
extern void __tsan_acquire(void*) __attribute__((weak));
extern void __tsan_release(void*) __attribute__((weak));
#define ACQ(p) do { if (__tsan_acquire) __tsan_acquire((void*)(p)); } while (0)
#define REL(p) do { if (__tsan_release) __tsan_release((void*)(p)); } while (0)

enum { S_READY = 0, S_BARRIER, S_JOIN, S_DONE };

typedef struct { long next, end, incr, chunk; int inited; int single_taken; } ws_t;

struct team;
typedef struct vthread
{
  int id;
  int go; /* futex word */
  int state;
  int* want_lock; /* lock this thread is about to take (enabled only if free) */
  struct team* team;
  pthread_t pt;
  int ws_seq;
  ws_t* cur_ws;
  int nest; /* >0: inside a nested (serialised) parallel region */
} vthread;

typedef struct team
{
  int n;
  vthread th[MAXT];
  void (*fn)(void*);
  void* data;
  int barrier_count;
  int ndone;
  char barrier_sync;
  ws_t ws[MAXWS];
} team;

static __thread vthread* cur = NULL; /* identity inside a controlled team; NULL otherwise */
static team* T = NULL;
static int team_size = 2;
static int all_regions = 0;
static __thread int interest_next = 0;
static vomp_chooser chooser = NULL;
static void* chooser_user = NULL;
static void (*deadlock_handler)(void) = NULL;
static vomp_observer observer = NULL;
static void* observer_user = NULL;
static vomp_stats_t stats;

/* serial work-share stack (outside teams / nested regions) */
static __thread ws_t serial_ws[MAXSERIAL];
static __thread int serial_top = 0;
static __thread int serial_depth = 0; /* >0: inside a serialised region started outside any team */

/* built-in replay chooser + log of choice points: lives in this (uninstrumented) translation unit so that ThreadSanitizer does not
   see the explorer's bookkeeping, which is touched by whichever team thread reaches a choice point */
#define MAXLOG (1 << 18)
static vomp_logged_point replay_log[MAXLOG];
static int replay_log_len = 0, replay_on = 0, replay_paused = 0, replay_diverged = 0, replay_overflow = 0;
static const int* replay_prefix = NULL;
static int replay_prefix_n = 0;
void vomp_replay_begin(const int* prefix, int n)
{
  replay_prefix = prefix; replay_prefix_n = n; replay_log_len = 0; replay_diverged = 0; replay_overflow = 0; replay_paused = 0; replay_on = 1;
}
void vomp_replay_pause(int on) { replay_paused = on; }
int vomp_replay_end(const vomp_logged_point** log, int* diverged)
{
  replay_on = 0;
  if (log) *log = replay_log;
  if (diverged) *diverged = replay_diverged || replay_overflow;
  return replay_log_len;
}

vomp_stats_t* vomp_stats(void) { return &stats; }
void vomp_set_chooser(vomp_chooser c, void* user) { chooser = c; chooser_user = user; }
void vomp_set_observer(vomp_observer o, void* user) { observer = o; observer_user = user; }
void vomp_set_team_size(int n) { team_size = n < 1 ? 1 : (n > MAXT ? MAXT : n); }
void vomp_set_all_regions(int on) { all_regions = on; }
void vomp_region_of_interest(void) { if (!cur) interest_next = 1; }
void vomp_set_deadlock_handler(void (*h)(void)) { deadlock_handler = h; }

void ucl_stir_verif_region(const char* site) { (void)site; vomp_region_of_interest(); }

/* ---------------------------------------------------------------- baton */
static void wake(vthread* th)
{
  __atomic_store_n(&th->go, 1, __ATOMIC_RELEASE);
  syscall(SYS_futex, &th->go, FUTEX_WAKE_PRIVATE, 1, NULL, NULL, 0);
}
static void wait_go(vthread* me)
{
  while (__atomic_load_n(&me->go, __ATOMIC_ACQUIRE) == 0)
    syscall(SYS_futex, &me->go, FUTEX_WAIT_PRIVATE, 0, NULL, NULL, 0);
  __atomic_store_n(&me->go, 0, __ATOMIC_RELAXED);
}

static int is_enabled(team* t, vthread* th)
{
  switch (th->state)
    {
    case S_READY:
      return th->want_lock == NULL || *th->want_lock == 0;
    case S_JOIN:
      return t->ndone == t->n - 1;
    default:
      return 0;
    }
}

static void deadlock(void)
{
  if (deadlock_handler)
    deadlock_handler();
  fprintf(stderr, "vomp: DEADLOCK - no enabled thread\n");
  _exit(99);
}

/* A schedule point reached by the running thread.  Returns when this thread runs again (only if must_wait). */
static void sched(int kind, const char* site, const void* obj, int leaving /* 1: the thread ends here */)
{
  vthread* me = cur;
  team* t = T;
  if (!me || !t)
    return;
  int enabled[MAXT], n = 0;
  const int me_enabled = !leaving && is_enabled(t, me);
  if (me_enabled)
    enabled[n++] = me->id;
  for (int i = 0; i < t->n; ++i)
    if (i != me->id && is_enabled(t, &t->th[i]))
      enabled[n++] = i;
  stats.sched_points++;
  if (n == 0)
    {
      if (leaving && t->ndone == t->n) return; /* cannot happen: master joins last */
      deadlock();
    }
  int choice = 0;
  if (n > 1)
    {
      stats.choice_points++;
      if (replay_on && !replay_paused)
        {
          const int pos = replay_log_len;
          if (pos < replay_prefix_n)
            {
              choice = replay_prefix[pos];
              if (choice < 0 || choice >= n) { replay_diverged = 1; choice = 0; }
            }
          if (pos < MAXLOG)
            {
              vomp_logged_point lp = { me->id, kind, n, me_enabled, choice, enabled[choice], site };
              replay_log[replay_log_len++] = lp;
            }
          else
            replay_overflow = 1;
        }
      else if (chooser)
        {
          vomp_point p = { me->id, kind, site, obj, n, me_enabled };
          choice = chooser(chooser_user, &p, enabled);
          if (choice < 0 || choice >= n)
            {
              fprintf(stderr, "vomp: chooser returned %d with %d enabled threads (schedule divergence)\n", choice, n);
              _exit(98);
            }
        }
    }
  const int next = enabled[choice];
  if (observer)
    {
      vomp_point p = { me->id, kind, site, obj, n, me_enabled };
      observer(observer_user, &p, next);
    }
  if (next != me->id)
    {
      wake(&t->th[next]);
      if (!leaving)
        wait_go(me);
    }
}

/* ---------------------------------------------------------------- locks */
static void lock_acquire(int* word, int kind, const void* obj)
{
  vthread* me = cur;
  if (!me || !T)
    {
      *word = 1;
      return;
    }
  stats.lock_acquires++;
  if (*word != 0)
    stats.lock_contended++;
  me->want_lock = word;
  sched(kind, NULL, obj, 0);
  /* we only get here when the lock is free and we were chosen */
  me->want_lock = NULL;
  *word = me->id + 1;
  ACQ(obj);
}
static void lock_release(int* word, const void* obj)
{
  if (cur && T)
    REL(obj);
  *word = 0;
}

typedef struct { int w; } omp_lock_t; /* libgomp: 4 bytes, 4-aligned */
void omp_init_lock(omp_lock_t* l) { l->w = 0; }
void omp_destroy_lock(omp_lock_t* l) { (void)l; }
void omp_set_lock(omp_lock_t* l) { lock_acquire(&l->w, VOMP_K_LOCK, l); }
void omp_unset_lock(omp_lock_t* l) { lock_release(&l->w, l); }

static int unnamed_critical = 0, atomic_lock = 0;
void GOMP_critical_name_start(void** pptr) { lock_acquire((int*)pptr, VOMP_K_CRITICAL, pptr); }
void GOMP_critical_name_end(void** pptr) { lock_release((int*)pptr, pptr); }
void GOMP_critical_start(void) { lock_acquire(&unnamed_critical, VOMP_K_CRITICAL, &unnamed_critical); }
void GOMP_critical_end(void) { lock_release(&unnamed_critical, &unnamed_critical); }
void GOMP_atomic_start(void) { lock_acquire(&atomic_lock, VOMP_K_ATOMIC, &atomic_lock); }
void GOMP_atomic_end(void) { lock_release(&atomic_lock, &atomic_lock); }

/* ---------------------------------------------------------------- hooks */
void ucl_stir_verif_point(const char* site, const void* obj)
{
  /* ".after_read" sites are not schedule points: a switch right after the (atomic) read of a flag is
     equivalent to a switch at the thread's next synchronisation operation */
  if (site && strstr(site, ".after_read"))
    return;
  if (cur && T)
    sched(VOMP_K_HOOK, site, obj, 0);
}

/* ---------------------------------------------------------------- queries */
static int in_team(void) { return cur && T && cur->nest == 0; }
int omp_get_thread_num(void) { return in_team() ? cur->id : 0; }
int omp_get_num_threads(void) { return in_team() ? T->n : 1; }
int omp_get_max_threads(void) { return team_size; }
int omp_get_num_procs(void) { return team_size; }
void omp_set_num_threads(int n) { (void)n; /* the harness owns the team size */ }
int omp_in_parallel(void) { return in_team() && T->n > 1; }

/* ---------------------------------------------------------------- barrier */
static void barrier(void)
{
  if (!in_team())
    return;
  team* t = T;
  vthread* me = cur;
  stats.barriers++;
  REL(&t->barrier_sync);
  t->barrier_count++;
  if (t->barrier_count == t->n)
    {
      t->barrier_count = 0;
      for (int i = 0; i < t->n; ++i)
        if (t->th[i].state == S_BARRIER)
          t->th[i].state = S_READY;
    }
  else
    {
      me->state = S_BARRIER;
      sched(VOMP_K_BLOCKED, NULL, NULL, 0);
    }
  ACQ(&t->barrier_sync);
}
void GOMP_barrier(void) { barrier(); }

/* ---------------------------------------------------------------- work sharing */
static bool grab(ws_t* w, long* istart, long* iend)
{
  if (w->incr > 0 ? w->next >= w->end : w->next <= w->end)
    return false;
  long e = w->next + w->chunk * w->incr;
  if (w->incr > 0 ? e > w->end : e < w->end)
    e = w->end;
  *istart = w->next;
  *iend = e;
  w->next = e;
  stats.loop_chunks++;
  return true;
}
static ws_t* next_team_ws(void)
{
  vthread* me = cur;
  if (me->ws_seq >= MAXWS)
    {
      fprintf(stderr, "vomp: too many work-sharing constructs in one region\n");
      _exit(97);
    }
  ws_t* w = &T->ws[me->ws_seq++];
  me->cur_ws = w;
  return w;
}
bool GOMP_loop_nonmonotonic_dynamic_start(long start, long end, long incr, long chunk, long* istart, long* iend)
{
  if (in_team())
    {
      sched(VOMP_K_LOOP, NULL, NULL, 0);
      ws_t* w = next_team_ws();
      if (!w->inited)
        {
          w->inited = 1;
          w->next = start;
          w->end = end;
          w->incr = incr;
          w->chunk = chunk < 1 ? 1 : chunk;
        }
      return grab(w, istart, iend);
    }
  if (serial_top >= MAXSERIAL)
    _exit(97);
  ws_t* w = &serial_ws[serial_top++];
  w->next = start;
  w->end = end;
  w->incr = incr;
  w->chunk = chunk < 1 ? 1 : chunk;
  return grab(w, istart, iend);
}
bool GOMP_loop_dynamic_start(long start, long end, long incr, long chunk, long* istart, long* iend)
{
  return GOMP_loop_nonmonotonic_dynamic_start(start, end, incr, chunk, istart, iend);
}
bool GOMP_loop_nonmonotonic_dynamic_next(long* istart, long* iend)
{
  if (in_team())
    {
      sched(VOMP_K_LOOP, NULL, NULL, 0);
      return grab(cur->cur_ws, istart, iend);
    }
  return grab(&serial_ws[serial_top - 1], istart, iend);
}
bool GOMP_loop_dynamic_next(long* istart, long* iend) { return GOMP_loop_nonmonotonic_dynamic_next(istart, iend); }
void GOMP_loop_end_nowait(void)
{
  if (!in_team() && serial_top > 0)
    serial_top--;
}
void GOMP_loop_end(void)
{
  if (in_team())
    barrier();
  else if (serial_top > 0)
    serial_top--;
}
bool GOMP_single_start(void)
{
  if (!in_team())
    return true;
  sched(VOMP_K_SINGLE, NULL, NULL, 0);
  ws_t* w = next_team_ws();
  if (!w->single_taken)
    {
      w->single_taken = 1;
      return true;
    }
  return false;
}

/* ---------------------------------------------------------------- parallel regions */
static void* thread_main(void* p)
{
  vthread* me = (vthread*)p;
  cur = me;
  wait_go(me);
  me->team->fn(me->team->data);
  me->state = S_DONE;
  me->team->ndone++;
  sched(VOMP_K_DONE, NULL, NULL, 1);
  return NULL;
}

void GOMP_parallel(void (*fn)(void*), void* data, unsigned num_threads, unsigned flags)
{
  (void)flags;
  if (cur)
    { /* nested inside a team thread: serialise */
      ws_t* saved = cur->cur_ws;
      cur->nest++;
      fn(data);
      cur->nest--;
      cur->cur_ws = saved;
      return;
    }
  int n = (interest_next || all_regions) && serial_depth == 0 ? team_size : 1;
  if (num_threads > 0 && (int)num_threads < n)
    n = (int)num_threads;
  interest_next = 0;
  if (n <= 1)
    {
      stats.regions_serial++;
      serial_depth++;
      fn(data);
      serial_depth--;
      return;
    }
  stats.regions_team++;
  team* t = (team*)calloc(1, sizeof(team));
  t->n = n;
  t->fn = fn;
  t->data = data;
  for (int i = 0; i < n; ++i)
    {
      t->th[i].id = i;
      t->th[i].team = t;
      t->th[i].state = S_READY;
    }
  T = t;
  for (int i = 1; i < n; ++i)
    if (pthread_create(&t->th[i].pt, NULL, thread_main, &t->th[i]) != 0)
      {
        fprintf(stderr, "vomp: pthread_create failed\n");
        _exit(97);
      }
  cur = &t->th[0];
  sched(VOMP_K_START, NULL, NULL, 0); /* any thread may be the first to run */
  fn(data);
  cur->state = S_JOIN;
  sched(VOMP_K_JOIN, NULL, NULL, 0);
  for (int i = 1; i < n; ++i)
    pthread_join(t->th[i].pt, NULL);
  cur = NULL;
  T = NULL;
  free(t);
}
