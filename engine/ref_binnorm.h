// ref_binnorm.h - reference model for C13 (bin normalisation apply/undo).
//
//   * BinIndex  : canonical flat index of all bins of a geometry + fast read/write of a whole ProjData
//   * World     : one generated (scanner, sampling, image grid, symmetry object) configuration
//   * TableNorm : a BinNormalisationWithCalibration whose uncalibrated efficiencies are a table (exercises the base-class
//                 default apply/undo written in terms of get_bin_efficiency, and the calibration / branching-ratio factor)
//   * build()   : parses a compact normalisation spec ("P0", "(P0,A1)", "((T,P0),W1)" ...) and returns the REAL STIR object
//                 together with the reference efficiency of every bin (double), its relative tolerance and whether an
//                 implementation-independent value is known for the bin.
//
// Reference efficiencies (all from the class documentation):
//   trivial                          1
//   from projection data n           1/n_b   (apply multiplies by the stored normalisation factors, undo divides); a non-TOF
//                                    factor applies to every TOF bin of the same (segment, axial, view, tangential) position
//   from attenuation image mu[cm^-1] exp(-sum_j P_bj mu_j * voxel_size_x[mm]/10)  with P = STIR's own ray tracing matrix computed
//                                    DIRECTLY (all symmetries off, no cache; rows in voxel units) - trusted base, see DESIGN §7
//   components (efficiencies only)   eps[ring1][det1]*eps[ring2][det2] for the detector pair of the (span 1) bin
//   components (geo/block factors)   no independent value: the efficiency the object reports is used
//   calibrated table u               u_b/(calibration factor * branching ratio)
//   chain                            product of the members
//
// Histories (C13 extension): morph() changes the factors of a REAL object that has already been set up (and used) into those of
// another spec of the same shape through the PUBLIC routes only - crystal_efficiencies() / geometric_factors() / block_factors() of
// BinNormalisationPETFromComponents, the ProjData behind get_norm_proj_data_sptr() of BinNormalisationFromProjData,
// set_calibration_factor() / set_radionuclide() of BinNormalisationWithCalibration, the members behind get_first_norm() /
// get_second_norm() of a chain - never allocate(), never a new object.  World::pdi_override / exam give the alternative geometries
// and exam infos an object is set up with earlier in its history.
#ifndef REF_BINNORM_H
#define REF_BINNORM_H
#include "vmc.h"
#include "stir_small.h"
#include "ref_geom34.h"
#include "stir/recon_buildblock/BinNormalisation.h"
#include "stir/recon_buildblock/TrivialBinNormalisation.h"
#include "stir/recon_buildblock/BinNormalisationFromProjData.h"
#include "stir/recon_buildblock/BinNormalisationFromAttenuationImage.h"
#include "stir/recon_buildblock/BinNormalisationPETFromComponents.h"
#include "stir/recon_buildblock/BinNormalisationWithCalibration.h"
#include "stir/recon_buildblock/ChainedBinNormalisation.h"
#include "stir/recon_buildblock/ForwardProjectorByBinUsingProjMatrixByBin.h"
#include "stir/recon_buildblock/ForwardProjectorByBinUsingRayTracing.h"
#include "stir/recon_buildblock/DataSymmetriesForBins_PET_CartesianGrid.h"
#include "stir/recon_buildblock/TrivialDataSymmetriesForBins.h"
#include "stir/ProjDataInfoCylindricalNoArcCorr.h"
#include "stir/Radionuclide.h"
#include "stir/SegmentByView.h"
#include "stir/Succeeded.h"
#include <memory>

namespace bn {
using namespace stir;
typedef std::vector<double> Vec;
static const double EPS = 1.1920929e-7;

// canonical bin index (segment, axial, view, tangential, timing) <-> flat position
struct BinIndex
{
  const ProjDataInfo& p;
  std::map<int, size_t> segbase;
  int nv, nt, nk, vmin, tmin, kmin;
  size_t n = 0;
  std::vector<Bin> bins;
  explicit BinIndex(const ProjDataInfo& pi) : p(pi)
  {
    nv = p.get_num_views(); nt = p.get_num_tangential_poss(); nk = p.get_max_tof_pos_num() - p.get_min_tof_pos_num() + 1;
    vmin = p.get_min_view_num(); tmin = p.get_min_tangential_pos_num(); kmin = p.get_min_tof_pos_num();
    for (int s = p.get_min_segment_num(); s <= p.get_max_segment_num(); ++s) { segbase[s] = n; n += (size_t)p.get_num_axial_poss(s) * nv * nt * nk; }
    bins = small::all_bins(p);
  }
  size_t idx(int s, int a, int v, int t, int k) const { return segbase.at(s) + ((((size_t)(a - p.get_min_axial_pos_num(s))) * nv + (v - vmin)) * nt + (t - tmin)) * nk + (k - kmin); }
  size_t idx(const Bin& b) const { return idx(b.segment_num(), b.axial_pos_num(), b.view_num(), b.tangential_pos_num(), b.timing_pos_num()); }
  bool has(const Bin& b) const
  {
    const int s = b.segment_num();
    return segbase.count(s) && b.axial_pos_num() >= p.get_min_axial_pos_num(s) && b.axial_pos_num() <= p.get_max_axial_pos_num(s) && b.view_num() >= vmin
           && b.view_num() < vmin + nv && b.tangential_pos_num() >= tmin && b.tangential_pos_num() < tmin + nt && b.timing_pos_num() >= kmin && b.timing_pos_num() < kmin + nk;
  }
  Vec read(const ProjData& pd) const
  {
    Vec r(n);
    for (int k = kmin; k < kmin + nk; ++k)
      for (int s = p.get_min_segment_num(); s <= p.get_max_segment_num(); ++s)
        {
          const SegmentByView<float> seg = pd.get_segment_by_view(s, k);
          for (int v = vmin; v < vmin + nv; ++v)
            for (int a = p.get_min_axial_pos_num(s); a <= p.get_max_axial_pos_num(s); ++a)
              for (int t = tmin; t < tmin + nt; ++t) r[idx(s, a, v, t, k)] = seg[v][a][t];
        }
    return r;
  }
  void write(ProjData& pd, const Vec& x) const
  {
    for (int k = kmin; k < kmin + nk; ++k)
      for (int s = p.get_min_segment_num(); s <= p.get_max_segment_num(); ++s)
        {
          SegmentByView<float> seg = p.get_empty_segment_by_view(s, false, k);
          for (int v = vmin; v < vmin + nv; ++v)
            for (int a = p.get_min_axial_pos_num(s); a <= p.get_max_axial_pos_num(s); ++a)
              for (int t = tmin; t < tmin + nt; ++t) seg[v][a][t] = (float)x[idx(s, a, v, t, k)];
          pd.set_segment(seg);
        }
  }
};

// symmetry index sy: 0 = none (null pointer for whole data sets, TrivialDataSymmetriesForBins for viewgrams);
//   1 + bits + 8*variant: DataSymmetriesForBins_PET_CartesianGrid, bits = 90deg | 180deg<<1 | swap_segment<<2,
//   variant 0: swap_s and shift_z on, variant 1: both off
struct World
{
  vmc::Ctx& ctx;
  g34::Geo g;
  int sy = 0, bits = 0, variant = 0;
  g34::Built b;
  shared_ptr<ProjDataInfo> pdi_nt, pdi_big;
  std::unique_ptr<BinIndex> bi, bi_nt, bi_big;
  std::vector<size_t> nt_of; // flat index in the non-TOF geometry of every bin
  shared_ptr<ExamInfo> exam;
  shared_ptr<ProjDataInfo> pdi_override;                       // histories: use this sampling instead of the one of g (same scanner object)
  shared_ptr<DataSymmetriesForViewSegmentNumbers> sym;         // null for sy == 0
  shared_ptr<DataSymmetriesForViewSegmentNumbers> sym_for_vg;  // never null
  size_t nb = 0, nvox = 0;
  bool tof = false;
  std::map<int, small::DenseP> Pcache;
  std::map<int, std::vector<char>> screencache;
  explicit World(vmc::Ctx& c) : ctx(c) {}

  bool sw90() const { return sy > 0 && (bits & 1); }
  bool sw180() const { return sy > 0 && (bits & 2); }
  bool swseg() const { return sy > 0 && (bits & 4); }
  bool sws_z() const { return sy > 0 && variant == 0; }

  // throws if STIR rejects the geometry
  void setup()
  {
    bits = sy == 0 ? 0 : (sy - 1) % 8;
    variant = sy == 0 ? 0 : (sy - 1) / 8;
    b = g34::build(g);
    if (pdi_override) b.pdi = pdi_override;
    ExamInfo ex; ex.imaging_modality = ImagingModality::PT;
    b.im->set_exam_info(ex);
    exam.reset(new ExamInfo(ex));
    tof = b.pdi->get_num_tof_poss() > 1;
    pdi_nt = tof ? b.pdi->create_non_tof_clone() : b.pdi;
    bi.reset(new BinIndex(*b.pdi));
    bi_nt.reset(new BinIndex(*pdi_nt));
    nb = bi->n;
    nvox = (size_t)b.im->get_z_size() * b.im->get_y_size() * b.im->get_x_size();
    nt_of.resize(nb);
    for (size_t i = 0; i < nb; ++i) { const Bin& q = bi->bins[i]; nt_of[i] = bi_nt->idx(q.segment_num(), q.axial_pos_num(), q.view_num(), q.tangential_pos_num(), 0); }
    // a geometry with more segments than the data (the factors may cover more than the data)
    const int md = g.md < 0 ? g.R - 1 : g.md;
    if (!tof && g.span == 1 && md < g.R - 1)
      {
        pdi_big = small::make_pdi(b.sc, g.span, g.R - 1, g.D / 2 / g.mash, g.tang, false, 0);
        bi_big.reset(new BinIndex(*pdi_big));
      }
    if (sy > 0)
      sym.reset(new DataSymmetriesForBins_PET_CartesianGrid(b.pdi, b.im, sw90(), sw180(), swseg(), sws_z(), sws_z()));
    sym_for_vg = sym ? sym : shared_ptr<DataSymmetriesForViewSegmentNumbers>(new TrivialDataSymmetriesForBins(b.pdi));
  }
  const small::DenseP& P(int L, bool fov)
  {
    const int key = L * 2 + (fov ? 1 : 0);
    auto it = Pcache.find(key);
    if (it != Pcache.end()) return it->second;
    auto m = small::direct_matrix(b.pdi, b.im, L, fov);
    return Pcache[key] = small::extract_P(*m, *b.pdi, *b.im);
  }
  const std::vector<char>& screen(int L, bool fov)
  {
    const int key = L * 2 + (fov ? 1 : 0);
    auto it = screencache.find(key);
    if (it != screencache.end()) return it->second;
    const double delta = g34::delta_of(*b.pdi, *b.im);
    std::vector<char> s(nb);
    for (size_t i = 0; i < nb; ++i) s[i] = g34::screen(*b.pdi, *b.im, bi->bins[i], L, fov, g34::screen_thr(delta));
    return screencache[key] = s;
  }
};

// ------------------------------------------------------------------------------------------------ data sets
// "labelling" factors in [0.5, 4): distinct for up to 257 bins, d selects a different permutation
inline float factor(size_t i, int d) { return 0.5F + 3.5F * float((i * (d == 0 ? 1 : d == 1 ? 101 : 57) + 17 * d) % 257) / 257.F; }
inline float mu_label(size_t j) { return 0.05F + 0.15F * float((j * 37) % 101) / 101.F; } // cm^-1, in [0.05, 0.2)

class TableNorm : public BinNormalisationWithCalibration
{
public:
  TableNorm(const BinIndex* bi_v, std::vector<float> u_v, float calib, float branching) : bi(bi_v), u(std::move(u_v))
  {
    if (calib != 1.F) this->set_calibration_factor(calib);
    if (branching > 0) this->set_radionuclide(Radionuclide("verif", 511.F, branching, 6000.F, ImagingModality::PT));
  }
  float get_uncalibrated_bin_efficiency(const Bin& b) const override { return bi->has(b) ? u[bi->idx(b)] : -7.F; }
  std::string get_registered_name() const override { return "verif calibrated table"; }
  const BinIndex* bi;
  std::vector<float> u;
};

struct Ref
{
  Vec eff, reltol;          // reference efficiency per bin and relative tolerance of undo(1) against it
  std::vector<char> known;  // 1: independent reference value; 0: none (tie-screened attenuation bin, geo/block components)
  int leaves = 0;
  size_t atten_bins = 0, atten_bins_screened = 0; // attenuation members: bins and bins on ray tracing ties (no independent reference)
  bool atten = false, nonunit = false;
  std::string sig;          // class signature for violation keys
  std::vector<std::string> kinds;
  std::shared_ptr<Ref> first, second; // chains: the references of the two members (null for a leaf)
};
struct BuiltNorm
{
  shared_ptr<BinNormalisation> n;
  Ref r;
  bool skipped = false;  // spec not applicable to this geometry (no STIR object made)
  std::string why;
};

inline shared_ptr<ProjDataInMemory> projdata_from(const shared_ptr<const ProjDataInfo>& pdi, const shared_ptr<ExamInfo>& ex, const BinIndex& bi, const Vec& x)
{
  shared_ptr<ProjDataInMemory> pd(new ProjDataInMemory(ex, pdi));
  bi.write(*pd, x);
  return pd;
}

inline Ref unit_ref(size_t nb)
{
  Ref r; r.eff.assign(nb, 1.0); r.reltol.assign(nb, 4 * EPS); r.known.assign(nb, 1); r.leaves = 1;
  return r;
}

// ------------------------------------------------------------------------------------------------ factor sets of the leaves
// (shared by build_leaf, which makes a new object, and morph_leaf, which changes an existing one through its public accessors)

// projection-data factors: "0"/"1"/"2" labelling sets, "i" all ones, "u<k>" all 1 except factor k = 2; false: not applicable (why)
inline bool projdata_factors(World& w, char kind, const std::string& arg, Vec& n, std::string& why)
{
  const BinIndex* fbi = kind == 'P' ? w.bi_nt.get() : kind == 'Q' ? w.bi.get() : w.bi_big.get();
  if (kind == 'Q' && !w.tof) { why = "TOF factors need TOF data"; return false; }
  if (kind == 'S' && !w.pdi_big) { why = "no larger segment range available"; return false; }
  n.assign(fbi->n, 1.0);
  if (arg[0] == 'u') { const size_t k = (size_t)atol(arg.substr(1).c_str()); if (k >= n.size()) { why = "unit factor index outside the data"; return false; } n[k] = 2.0; }
  else if (arg[0] == 'i') {}
  else { const int d = atoi(arg.c_str()); for (size_t i = 0; i < n.size(); ++i) n[i] = factor(i, d); }
  return true;
}

// component tables: per component '-' not allocated, '1' all ones, 'a' / 'b' two labelling sets; dead: crystal (0,1) has efficiency 0
struct CompSpec
{
  char e = '-', g = '-', b = '-';
  bool dead = false, valid = true;
  bool same_allocation(const CompSpec& o) const { return (e == '-') == (o.e == '-') && (g == '-') == (o.g == '-') && (b == '-') == (o.b == '-'); }
};
// e: efficiencies (labelling), z: efficiencies with one dead crystal, 1: efficiencies all 1, b: efficiencies (second labelling),
// t: all three components all 1, n: no component at all, x: all three components with labelling values,
// three letters of {-,1,a,b}: efficiencies, geometric factors, block factors separately (histories that change ONE component)
inline CompSpec parse_comp(const std::string& arg)
{
  CompSpec s;
  if (arg.size() == 3)
    {
      s.e = arg[0]; s.g = arg[1]; s.b = arg[2];
      for (char ch : arg) if (ch != '-' && ch != '1' && ch != 'a' && ch != 'b') s.valid = false;
      return s;
    }
  const char v = arg.empty() ? 'e' : arg[0];
  switch (v)
    {
    case 'e': s.e = 'a'; break;
    case 'z': s.e = 'a'; s.dead = true; break;
    case '1': s.e = '1'; break;
    case 'b': s.e = 'b'; break;
    case 't': s.e = s.g = s.b = '1'; break;
    case 'n': break;
    case 'x': s.e = s.g = s.b = 'a'; break;
    default: s.valid = false;
    }
  return s;
}
// geometric / block factors are stored for crystals in DIFFERENT transaxial blocks only (FanProjData of blocks, indexed without range
// check when NDEBUG, even number of blocks asserted): assert-only preconditions, so they are only used where they hold
inline bool block_tables_cover_all_bins(const Scanner& sc, const ProjDataInfo& pdi, std::string& why)
{
  auto cyl = dynamic_cast<const ProjDataInfoCylindricalNoArcCorr*>(&pdi);
  if (!cyl) { why = "not cylindrical"; return false; }
  const int tb = sc.get_num_transaxial_crystals_per_block(), nblk = sc.get_num_transaxial_blocks();
  if (nblk % 2 != 0 || nblk < 2) { why = "block factors need an even number of transaxial blocks (assert-only precondition)"; return false; }
  for (const Bin& q : small::all_bins(pdi))
    {
      int d1, r1, d2, r2;
      cyl->get_det_pair_for_bin(d1, r1, d2, r2, q);
      if (d1 / tb == d2 / tb) { why = "a bin connects two crystals of the same block: outside the block/geo factor tables (assert-only precondition)"; return false; }
    }
  return true;
}
// writes the tables of s through the public reference accessors; e receives the crystal efficiencies written (1 where none)
inline void fill_components(World& w, BinNormalisationPETFromComponents& nc, const CompSpec& s, std::vector<std::vector<double>>& e)
{
  const int R = w.b.sc->get_num_rings(), D = w.b.sc->get_num_detectors_per_ring();
  e.assign(R, std::vector<double>(D, 1.0));
  if (s.e != '-')
    for (int r = 0; r < R; ++r)
      for (int d = 0; d < D; ++d)
        {
          if (s.e == 'a') e[r][d] = factor((size_t)r * D + d, 2);
          if (s.e == 'b') e[r][d] = factor((size_t)r * D + d, 3);
          if (s.dead && r == 0 && d == 1) e[r][d] = 0;
          nc.crystal_efficiencies()[r][d] = (float)e[r][d];
        }
  if (s.g != '-')
    {
      size_t k = 0;
      for (auto it = nc.geometric_factors().begin_all(); it != nc.geometric_factors().end_all(); ++it, ++k) *it = s.g == '1' ? 1.F : factor(k, s.g == 'a' ? 0 : 2);
    }
  if (s.b != '-')
    {
      BlockData3D& bd = nc.block_factors();
      size_t k = 0;
      for (int ra = bd.get_min_ra(); ra <= bd.get_max_ra(); ++ra)
        for (int a = bd.get_min_a(); a <= bd.get_max_a(); ++a)
          for (int rb = bd.get_min_rb(ra); rb <= bd.get_max_rb(ra); ++rb)
            for (int bb = bd.get_min_b(a); bb <= bd.get_max_b(a); ++bb, ++k) bd(ra, a, rb, bb) = s.b == '1' ? 1.F : factor(k, s.b == 'a' ? 1 : 3);
    }
}
// calibrated table: 0: calibration factor 1 (not set), no radionuclide; 1: calibration 4, branching ratio 0.5; z: calibration 0.5 and one bin with
// efficiency 0 (the tables use other permutations of the labelling values than the projection-data factors they are chained with)
inline void table_params(World& w, const std::string& arg, std::vector<float>& u, float& calib, float& br)
{
  const char v = arg.empty() ? '0' : arg[0];
  calib = v == '0' ? 1.F : (v == '1' || v == 'r') ? 4.F : 0.5F; // r: as 1 without the radionuclide
  br = v == '1' ? 0.5F : -1.F;
  u.resize(w.nb);
  for (size_t i = 0; i < w.nb; ++i) u[i] = factor(w.nb - 1 - i, (v == '1' || v == 'r') ? 0 : 2);
  if (v == 'z') u[std::min<size_t>(3, w.nb - 1)] = 0.F;
}

// one leaf: letter + argument
inline BuiltNorm build_leaf(World& w, char kind, const std::string& arg)
{
  BuiltNorm o;
  o.r = unit_ref(w.nb);
  auto skip = [&](const std::string& why) { o.skipped = true; o.why = why; return o; };
  auto argnum = [&](size_t from) { return (size_t)atol(arg.substr(from).c_str()); };
  if (arg.empty() && kind != 'T') return skip("leaf without argument");
  switch (kind)
    {
    case 'T':
      o.n.reset(new TrivialBinNormalisation);
      o.r.sig = "trivial";
      break;
    case 'P': // factors without TOF (for TOF data: one factor for all TOF bins)
    case 'Q': // factors with the TOF sampling of the data
    case 'S': // non-TOF factors covering more segments than the data
      {
        const BinIndex* fbi = kind == 'P' ? w.bi_nt.get() : kind == 'Q' ? w.bi.get() : w.bi_big.get();
        shared_ptr<ProjDataInfo> fpdi = kind == 'P' ? w.pdi_nt : kind == 'Q' ? w.b.pdi : w.pdi_big;
        Vec n;
        std::string why;
        if (!projdata_factors(w, kind, arg, n, why)) return skip(why);
        o.n.reset(new BinNormalisationFromProjData(projdata_from(fpdi, w.exam, *fbi, n)));
        for (size_t i = 0; i < w.nb; ++i)
          {
            const Bin& q = w.bi->bins[i];
            const size_t fi = kind == 'Q' ? i : kind == 'P' ? w.nt_of[i] : fbi->idx(q.segment_num(), q.axial_pos_num(), q.view_num(), q.tangential_pos_num(), 0);
            o.r.eff[i] = 1.0 / (double)(float)n[fi];
          }
        o.r.nonunit = arg[0] != 'i';
        o.r.sig = kind == 'P' ? "projdata" : kind == 'Q' ? "projdata_tof" : "projdata_more_segments";
        break;
      }
    case 'A': // matrix forward projector, symmetries of the world, cache of basic bins, 1 ray, cylindrical FOV
    case 'D': // matrix forward projector, symmetries of the world, no cache, 2 rays, square FOV
    case 'B': // on-the-fly ray tracing forward projector (what parsing gives by default)
      {
        const int L = kind == 'D' ? 2 : 1;
        const bool fov = kind != 'D';
        if (kind == 'B' && w.g.zd != 2) return skip("on-the-fly ray tracing needs z spacing = ring spacing/2 (assert-only precondition)");
        shared_ptr<VoxelsOnCartesianGrid<float>> mu(w.b.im->get_empty_copy());
        Vec m(w.nvox, 0.0);
        if (arg[0] == 'v') { const size_t j = argnum(1); if (j >= w.nvox) return skip("voxel outside the image"); m[j] = 0.15F; }
        else if (arg == "0") for (auto& v : m) v = 0.096F;
        else for (size_t j = 0; j < w.nvox; ++j) m[j] = mu_label(j);
        small::unflat(*mu, m);
        shared_ptr<ForwardProjectorByBin> fwd;
        if (kind == 'B') fwd.reset(new ForwardProjectorByBinUsingRayTracing());
        else
          {
            shared_ptr<ProjMatrixByBinUsingRayTracing> M(new ProjMatrixByBinUsingRayTracing());
            M->set_do_symmetry_90degrees_min_phi(w.sw90());
            M->set_do_symmetry_180degrees_min_phi(w.sw180());
            M->set_do_symmetry_swap_segment(w.swseg());
            M->set_do_symmetry_swap_s(w.sws_z());
            M->set_do_symmetry_shift_z(w.sws_z());
            M->set_num_tangential_LORs(L);
            M->set_restrict_to_cylindrical_FOV(fov);
            M->enable_cache(kind == 'A');
            M->store_only_basic_bins_in_cache(true);
            fwd.reset(new ForwardProjectorByBinUsingProjMatrixByBin(M));
          }
        o.n.reset(new BinNormalisationFromAttenuationImage(mu, fwd));
        o.r.atten = true; o.r.nonunit = true;
        o.r.sig = kind == 'B' ? "attenuation_raytracing" : "attenuation_matrix";
        if (w.tof) { o.r.known.assign(w.nb, 0); break; } // set_up rejects TOF data
        const small::DenseP& P = w.P(L, fov);
        const std::vector<char>& scr = w.screen(L, fov);
        const double scale = (double)w.b.im->get_voxel_size().x() / 10.0;
        const double delta = g34::delta_of(*w.b.pdi, *w.b.im);
        double summu = 0; for (double v : m) summu += v;
        for (size_t i = 0; i < w.nb; ++i)
          {
            double Lb = 0, rowmax = 0;
            for (auto& e : P.rows[i]) { Lb += e.second * (double)(float)m[e.first]; rowmax = std::max(rowmax, e.second); }
            Lb *= scale;
            const double tolL = scale * 100 * delta * std::max(rowmax, 1.0) * summu + 200 * EPS * Lb;
            o.r.eff[i] = std::exp(-Lb);
            o.r.reltol[i] = std::expm1(tolL) + 8 * EPS;
            o.r.known[i] = !scr[i];
            ++o.r.atten_bins;
            if (scr[i]) ++o.r.atten_bins_screened;
          }
        break;
      }
    case 'C':
      {
        // (letters: see parse_comp)
        const CompSpec cs = parse_comp(arg);
        if (!cs.valid) return skip("unknown component spec " + arg);
        const bool do_eff = cs.e != '-', do_geo = cs.g != '-', do_block = cs.b != '-';
        auto cyl = dynamic_cast<const ProjDataInfoCylindricalNoArcCorr*>(w.b.pdi.get());
        const bool supported = cyl && w.g.span == 1 && w.g.mash == 1 && !w.tof; // else documented as unsupported: set_up will reject
        if ((do_geo || do_block) && supported)
          {
            std::string why;
            if (!block_tables_cover_all_bins(*w.b.sc, *w.b.pdi, why)) return skip(why);
          }
        auto nc = std::make_shared<BinNormalisationPETFromComponents>();
        nc->allocate(w.b.pdi, do_eff, do_geo, do_block);
        std::vector<std::vector<double>> e;
        fill_components(w, *nc, cs, e);
        o.n = nc;
        o.r.sig = "components";
        o.r.nonunit = cs.e == 'a' || cs.e == 'b' || cs.g == 'a' || cs.g == 'b' || cs.b == 'a' || cs.b == 'b';
        // geometric / block factors other than 1: no independent model here (C20)
        if (cs.g == 'a' || cs.g == 'b' || cs.b == 'a' || cs.b == 'b') { o.r.known.assign(w.nb, 0); break; }
        if (!supported) { o.r.known.assign(w.nb, 0); break; }
        // the class works on a "fan" that is symmetric in the tangential position: for bins outside [-h, h], h = min(max, -min), the
        // property statement does not say what the efficiency is (STIR gives 0): no independent reference there
        const int h = std::min(w.b.pdi->get_max_tangential_pos_num(), -w.b.pdi->get_min_tangential_pos_num());
        for (size_t i = 0; i < w.nb; ++i)
          {
            int d1, r1, d2, r2;
            cyl->get_det_pair_for_bin(d1, r1, d2, r2, w.bi->bins[i]);
            o.r.eff[i] = (double)(float)e[r1][d1] * (double)(float)e[r2][d2];
            o.r.reltol[i] = 8 * EPS;
            if (std::abs(w.bi->bins[i].tangential_pos_num()) > h) o.r.known[i] = 0;
          }
        break;
      }
    case 'W':
      {
        std::vector<float> u;
        float calib, br;
        table_params(w, arg, u, calib, br);
        o.n.reset(new TableNorm(w.bi.get(), u, calib, br));
        for (size_t i = 0; i < w.nb; ++i) o.r.eff[i] = (double)u[i] / ((double)calib * (br > 0 ? br : 1.0));
        o.r.nonunit = true;
        o.r.sig = "calibrated_table";
        break;
      }
    default:
      return skip(std::string("unknown leaf ") + kind);
    }
  o.r.kinds.push_back(o.r.sig);
  return o;
}

// spec := leaf | '(' spec ',' spec ')'
inline BuiltNorm build(World& w, const std::string& s, size_t& pos)
{
  if (pos < s.size() && s[pos] == '(')
    {
      ++pos;
      BuiltNorm a = build(w, s, pos);
      if (pos >= s.size() || s[pos] != ',') throw std::runtime_error("bad norm spec " + s);
      ++pos;
      BuiltNorm c = build(w, s, pos);
      if (pos >= s.size() || s[pos] != ')') throw std::runtime_error("bad norm spec " + s);
      ++pos;
      BuiltNorm o;
      if (a.skipped || c.skipped) { o.skipped = true; o.why = a.skipped ? a.why : c.why; return o; }
      o.n.reset(new ChainedBinNormalisation(a.n, c.n));
      o.r = a.r;
      o.r.first = std::make_shared<Ref>(a.r);
      o.r.second = std::make_shared<Ref>(c.r);
      for (size_t i = 0; i < w.nb; ++i)
        {
          o.r.eff[i] = a.r.eff[i] * c.r.eff[i];
          o.r.reltol[i] = a.r.reltol[i] + c.r.reltol[i] + 2 * EPS;
          o.r.known[i] = a.r.known[i] && c.r.known[i];
        }
      o.r.leaves = a.r.leaves + c.r.leaves;
      o.r.atten_bins = a.r.atten_bins + c.r.atten_bins;
      o.r.atten_bins_screened = a.r.atten_bins_screened + c.r.atten_bins_screened;
      o.r.atten = a.r.atten || c.r.atten;
      o.r.nonunit = a.r.nonunit || c.r.nonunit;
      o.r.sig = "chain(" + a.r.sig + "," + c.r.sig + ")";
      o.r.kinds.insert(o.r.kinds.end(), c.r.kinds.begin(), c.r.kinds.end());
      return o;
    }
  if (pos >= s.size()) throw std::runtime_error("bad norm spec " + s);
  const char kind = s[pos++];
  std::string arg;
  while (pos < s.size() && s[pos] != ',' && s[pos] != ')') arg += s[pos++];
  return build_leaf(w, kind, arg);
}
inline BuiltNorm build(World& w, const std::string& s)
{
  size_t pos = 0;
  BuiltNorm o = build(w, s, pos);
  if (pos != s.size()) throw std::runtime_error("bad norm spec " + s);
  return o;
}

// ------------------------------------------------------------------------------------------------ histories
// "(a,b)" -> a, b (top-level comma); false for a leaf
inline bool split_chain(const std::string& s, std::string& first, std::string& second)
{
  if (s.empty() || s[0] != '(' || s.back() != ')') return false;
  int depth = 0;
  for (size_t i = 0; i < s.size(); ++i)
    {
      if (s[i] == '(') ++depth;
      else if (s[i] == ')') --depth;
      else if (s[i] == ',' && depth == 1) { first = s.substr(1, i - 1); second = s.substr(i + 1, s.size() - i - 2); return true; }
    }
  return false;
}

struct HarnessError : std::logic_error { using std::logic_error::logic_error; };

// changes the factors of the EXISTING leaf object N (built from kind+from) into those of kind+to through its public interface only
inline void morph_leaf(World& w, BinNormalisation& N, char kind, const std::string& from, const std::string& to)
{
  switch (kind)
    {
    case 'T': return;
    case 'P': case 'Q': case 'S':
      {
        Vec n; std::string why;
        if (!projdata_factors(w, kind, to, n, why)) throw HarnessError("morph: " + why);
        const BinIndex* fbi = kind == 'P' ? w.bi_nt.get() : kind == 'Q' ? w.bi.get() : w.bi_big.get();
        shared_ptr<ProjData> pd = dynamic_cast<BinNormalisationFromProjData&>(N).get_norm_proj_data_sptr(); // the caller's own data set
        fbi->write(*pd, n);
        return;
      }
    case 'A': case 'D': case 'B':
      if (from != to) throw HarnessError("morph: the attenuation image of an existing object cannot be changed through the public interface");
      return;
    case 'C':
      {
        const CompSpec a = parse_comp(from), b = parse_comp(to);
        if (!a.valid || !b.valid || !a.same_allocation(b)) throw HarnessError("morph: component specs " + from + " -> " + to + " need another allocate()");
        std::vector<std::vector<double>> e;
        fill_components(w, dynamic_cast<BinNormalisationPETFromComponents&>(N), b, e);
        return;
      }
    case 'W':
      {
        TableNorm& t = dynamic_cast<TableNorm&>(N);
        float calib, br;
        table_params(w, to, t.u, calib, br);
        t.set_calibration_factor(calib);
        t.set_radionuclide(br > 0 ? Radionuclide("verif", 511.F, br, 6000.F, ImagingModality::PT) : Radionuclide());
        return;
      }
    default: throw HarnessError(std::string("morph: unknown leaf ") + kind);
    }
}
// same for a whole spec (same shape and leaf kinds); the members of a chain are reached through get_first_norm()/get_second_norm()
inline void morph(World& w, BinNormalisation& N, const std::string& from, const std::string& to)
{
  std::string f1, f2, t1, t2;
  const bool cf = split_chain(from, f1, f2), ct = split_chain(to, t1, t2);
  if (cf != ct) throw HarnessError("morph: different shapes " + from + " -> " + to);
  if (cf)
    {
      ChainedBinNormalisation& ch = dynamic_cast<ChainedBinNormalisation&>(N);
      morph(w, *ch.get_first_norm(), f1, t1);
      morph(w, *ch.get_second_norm(), f2, t2);
      return;
    }
  if (from.empty() || to.empty() || from[0] != to[0]) throw HarnessError("morph: different leaf kinds " + from + " -> " + to);
  morph_leaf(w, N, from[0], from.substr(1), to.substr(1));
}

} // namespace bn
#endif
