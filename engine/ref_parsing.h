// ref_parsing.h - reference model of the Interfile / KeyParser *text* conventions and the grammar-aware
// mutation operators used by the C17 harness (DESIGN §3.6, §5.C17).
//
// The reference is deliberately tiny and independent of STIR:
//   * std_kw()         keyword standardisation as documented in KeyParser.h / the Interfile 3.3 conventions:
//                      case ignored; blank, tab, '_' and '!' are white space (trimmed, runs collapsed to one blank)
//   * logical_lines()  physical lines -> logical lines ('\r' before '\n' dropped, trailing '\' joins the next line)
//   * analyse()        keyword / [index] / := value of one logical line
//   * Mut / apply()    mutation operators on the PHYSICAL lines of a seed text (delete, duplicate, truncate at line /
//                      byte, value replacement from a fixed alphabet, index change, keyword respelling)
#ifndef REF_PARSING_H
#define REF_PARSING_H
#include <string>
#include <vector>
#include <map>
#include <cctype>
#include <cstdlib>

namespace refp {

inline bool is_kw_space(char c) { return c == ' ' || c == '\t' || c == '_' || c == '!'; }

inline std::string std_kw(const std::string& s)
{
  std::string o;
  bool pending = false;
  for (char c : s)
    {
      if (is_kw_space(c) || c == '\r' || c == '\n' || c == '\v' || c == '\f') { pending = !o.empty(); continue; }
      if (pending) { o += ' '; pending = false; }
      o += (char)tolower((unsigned char)c);
    }
  return o;
}

// physical lines without their '\n'; *ends_with_newline tells if the last line was terminated
inline std::vector<std::string> physical_lines(const std::string& text, bool* ends_with_newline = nullptr)
{
  std::vector<std::string> v;
  std::string cur;
  for (char c : text)
    {
      if (c == '\n') { v.push_back(cur); cur.clear(); }
      else cur += c;
    }
  const bool open = !cur.empty();
  if (open) v.push_back(cur);
  if (ends_with_newline) *ends_with_newline = !open;
  return v;
}

inline std::vector<std::string> logical_lines(const std::string& text)
{
  std::vector<std::string> out;
  std::string acc;
  bool joining = false;
  for (std::string l : physical_lines(text))
    {
      if (!l.empty() && l.back() == '\r') l.pop_back();
      acc += l;
      if (!acc.empty() && acc.back() == '\\') { acc.pop_back(); joining = true; continue; }
      out.push_back(acc); acc.clear(); joining = false;
    }
  if (joining) out.push_back(acc);
  return out;
}

struct Line
{
  std::string kw;         // standardised keyword
  bool has_index = false; // key[<index>]
  std::string index_txt;
  size_t kw_end = 0;                   // position in the raw line where the keyword text ends
  size_t idx_open = std::string::npos; // position of '[' and ']'
  size_t idx_close = std::string::npos;
  bool has_assign = false;
  size_t assign_pos = std::string::npos; // position of ":="
  std::string value;                     // trimmed text after ":="
};

inline std::string trim(const std::string& s)
{
  size_t a = s.find_first_not_of(" \t\r");
  if (a == std::string::npos) return std::string();
  size_t b = s.find_last_not_of(" \t\r");
  return s.substr(a, b - a + 1);
}

inline Line analyse(const std::string& raw)
{
  Line L;
  // the keyword stops at ":=" or at '[' ; a ':' not followed by '=' belongs to the keyword
  size_t p = 0;
  for (; p < raw.size(); ++p)
    {
      if (raw[p] == '[') break;
      if (raw[p] == ':' && p + 1 < raw.size() && raw[p + 1] == '=') break;
    }
  L.kw_end = p;
  L.kw = std_kw(raw.substr(0, p));
  if (p < raw.size() && raw[p] == '[')
    {
      L.idx_open = p;
      size_t q = raw.find(']', p);
      if (q != std::string::npos) { L.has_index = true; L.idx_close = q; L.index_txt = raw.substr(p + 1, q - p - 1); }
    }
  size_t a = raw.find(":=", p);
  if (a != std::string::npos) { L.has_assign = true; L.assign_pos = a; L.value = trim(raw.substr(a + 2)); }
  return L;
}

inline bool all_digits(const std::string& s)
{
  if (s.empty() || s.size() > 9) return false;
  for (char c : s) if (c < '0' || c > '9') return false;
  return true;
}
// "{ 1,2 , 3}" -> ints ; false if not of exactly that clean form
inline bool clean_int_list(const std::string& s, std::vector<long>& out)
{
  out.clear();
  std::string t = trim(s);
  if (t.size() < 2 || t.front() != '{' || t.back() != '}') return false;
  std::string cur;
  for (size_t i = 1; i + 1 < t.size(); ++i)
    {
      if (t[i] == ',') { cur = trim(cur); if (!all_digits(cur)) return false; out.push_back(atol(cur.c_str())); cur.clear(); }
      else cur += t[i];
    }
  cur = trim(cur);
  if (!all_digits(cur)) return false;
  out.push_back(atol(cur.c_str()));
  return true;
}

// Reference reading of a header text: every "key[index] := value" of the logical lines between the first line and the
// stop keyword (exclusive), last assignment wins.  `clean` is false if anything is met that the reference does not model
// (environment variable syntax, a line without ":=" that is not blank/comment, an index that is not a clean positive integer).
struct RefHeader
{
  std::map<std::string, std::string> val;  // "kw" or "kw[i]" -> value text
  std::map<std::string, int> count;        // number of assignments (with a non-empty value) per slot
  std::map<std::string, int> distinct;     // 1 if every assignment of the slot had the same text
  bool clean = true;
  bool saw_stop = false;
  bool has(const std::string& k) const { return val.count(k) != 0; }
  const std::string& get(const std::string& k) const { static const std::string e; auto it = val.find(k); return it == val.end() ? e : it->second; }
  // slot assigned (at least once), every time with the same clean unsigned integer
  bool clean_uint(const std::string& k, long& out) const
  {
    auto it = val.find(k);
    if (it == val.end() || !all_digits(it->second)) return false;
    auto d = distinct.find(k);
    if (d == distinct.end() || d->second != 1) return false;
    out = atol(it->second.c_str());
    return true;
  }
};

inline RefHeader ref_read(const std::string& text, const std::string& stop_kw)
{
  RefHeader H;
  if (text.find("${") != std::string::npos) H.clean = false;
  bool first = true;
  for (const std::string& l : logical_lines(text))
    {
      Line L = analyse(l);
      if (first) { first = false; continue; } // the start keyword
      if (L.kw.empty() || L.kw[0] == ';') continue;
      if (L.kw == stop_kw) { H.saw_stop = true; break; }
      if (!L.has_assign) { H.clean = false; continue; }
      std::string slot = L.kw;
      if (L.idx_open != std::string::npos)
        {
          if (!L.has_index) { H.clean = false; continue; }
          std::string it = trim(L.index_txt);
          if (!all_digits(it) || atol(it.c_str()) < 1) { H.clean = false; continue; }
          slot += "[" + std::to_string(atol(it.c_str())) + "]";
        }
      if (L.value.empty()) continue; // a key without value leaves the variable alone
      if (H.val.count(slot) && H.val[slot] != L.value) H.distinct[slot] = 0;
      else if (!H.val.count(slot)) H.distinct[slot] = 1;
      H.val[slot] = L.value;
      H.count[slot]++;
    }
  return H;
}

// ------------------------------------------------------------------------------------------------ mutations
// OP_SWAP (exchange the physical line with the next one) was added after OP_NONE so that the numbers in stored case strings keep their meaning
enum Op { OP_DEL = 0, OP_DUP, OP_TRUNC_LINE, OP_TRUNC_BYTE, OP_VALUE, OP_INDEX, OP_KEYWORD, OP_ALIAS, OP_NONE, OP_SWAP };
inline const char* op_name(int op)
{
  static const char* n[] = { "delete_line", "duplicate_line", "truncate_at_line", "truncate_at_byte", "replace_value", "change_index", "respell_keyword", "alias", "none", "swap_with_next_line" };
  return (op >= 0 && op <= OP_SWAP) ? n[op] : "none";
}
struct Mut
{
  int op = OP_NONE, line = 0, arg = 0;
  std::string str() const { return std::to_string(op) + ":" + std::to_string(line) + ":" + std::to_string(arg); }
  static Mut parse(const std::string& s)
  {
    Mut m; int a = OP_NONE, b = 0, c = 0;
    sscanf(s.c_str(), "%d:%d:%d", &a, &b, &c);
    m.op = a; m.line = b; m.arg = c;
    return m;
  }
};

// value alphabet (DESIGN §3.6) - index is the `arg` of OP_VALUE
inline const std::vector<std::string>& value_alphabet()
{
  static const std::vector<std::string> a = {
    "0", "-1", "1", "2", "3", "2147483647", "2147483648", "-2147483649", "4294967296", "100000000", "1e38", "1e39", "nan", "",
    "{", "{1,2", "{}", "{1,2,3}", "{{1,2},{3}}", "x", "not a known enum word", std::string(5000, 'A'), "0.5", "\\"
  };
  return a;
}
inline std::string value_name(int i)
{
  const std::string& v = value_alphabet()[i];
  if (v.size() > 100) return "<5000 x 'A'>";
  if (v.empty()) return "<empty>";
  return v;
}
// reduced alphabet used for the FIRST mutation of a pair (deviation 2)
inline const std::vector<int>& pair_value_subset()
{
  static const std::vector<int> s = { 0, 1, 2, 3, 4, 5, 13, 15, 19 }; // 0 -1 1 2 3 2^31-1 "" "{1,2" x
  return s;
}

static const int N_INDEX_VARIANTS = 8;   // for a line that has an index
static const int N_ADDINDEX_VARIANTS = 2; // for a line without
inline std::string index_variant_name(bool has_index, int arg)
{
  static const char* a[] = { "[0]", "[i+1]", "[i-1]", "[9999]", "[-1]", "[ (unclosed)", "[*]", "index removed" };
  static const char* b[] = { "[1] added", "[2] added" };
  return has_index ? a[arg] : b[arg];
}
static const int N_KEYWORD_VARIANTS = 7;
inline const char* keyword_variant_name(int arg)
{
  static const char* a[] = { "upper_case", "lower_case", "extra_blanks", "toggle_bang", "blank_to_underscore", "blank_to_tab", "blanks_around_line" };
  return a[arg];
}

// Respell the keyword part of a raw line (everything before '[' or ":=") in a way that the documented matching ignores.
inline std::string respell(const std::string& raw, int variant)
{
  Line L = analyse(raw);
  std::string kw = raw.substr(0, L.kw_end), rest = raw.substr(L.kw_end);
  switch (variant)
    {
    case 0: for (char& c : kw) c = (char)toupper((unsigned char)c); break;
    case 1: for (char& c : kw) c = (char)tolower((unsigned char)c); break;
    case 2: { std::string o; for (char c : kw) { o += c; if (c == ' ') o += "  "; } kw = o + "  "; break; } // only where a blank already is, and before [ / :=
    case 3: {
      size_t p = kw.find_first_not_of(" \t");
      if (p != std::string::npos && kw[p] == '!') kw.erase(p, 1); else kw = "!" + kw;
      break;
    }
    case 4: for (char& c : kw) if (c == ' ') c = '_'; break;
    case 5: for (char& c : kw) if (c == ' ') c = '\t'; break;
    case 6: kw = " \t " + kw; rest += "  \t"; break;
    }
  return kw + rest;
}

// Apply ONE mutation to the list of physical lines (+ final-newline flag). `alias_text` is the replacement keyword for OP_ALIAS.
// Returns false if the mutation is not applicable to that line (the caller skips it).
inline bool apply_lines(std::vector<std::string>& lines, bool& final_nl, const Mut& m, const std::string& alias_text = std::string())
{
  if (m.op == OP_TRUNC_BYTE) return false; // handled on the text
  if (m.line < 0 || m.line >= (int)lines.size()) return false;
  std::string& raw = lines[m.line];
  switch (m.op)
    {
    case OP_DEL: lines.erase(lines.begin() + m.line); return true;
    case OP_DUP: lines.insert(lines.begin() + m.line, lines[m.line]); return true;
    case OP_SWAP:
      if (m.line + 1 >= (int)lines.size() || lines[m.line] == lines[m.line + 1]) return false;
      std::swap(lines[m.line], lines[m.line + 1]);
      return true;
    case OP_TRUNC_LINE:
      lines.resize(m.line + 1);
      final_nl = m.arg == 0;
      return true;
    case OP_VALUE: {
      Line L = analyse(raw);
      if (!L.has_assign || m.arg < 0 || m.arg >= (int)value_alphabet().size()) return false;
      raw = raw.substr(0, L.assign_pos + 2) + " " + value_alphabet()[m.arg];
      return true;
    }
    case OP_INDEX: {
      Line L = analyse(raw);
      if (!L.has_assign) return false;
      if (L.has_index)
        {
          const long i = atol(L.index_txt.c_str());
          std::string rep;
          switch (m.arg)
            {
            case 0: rep = "[0]"; break;
            case 1: rep = "[" + std::to_string(i + 1) + "]"; break;
            case 2: rep = "[" + std::to_string(i - 1) + "]"; break;
            case 3: rep = "[9999]"; break;
            case 4: rep = "[-1]"; break;
            case 5: rep = "[" + std::to_string(i); break;
            case 6: rep = "[*]"; break;
            case 7: rep = ""; break;
            default: return false;
            }
          raw = raw.substr(0, L.idx_open) + rep + raw.substr(L.idx_close + 1);
          return true;
        }
      if (L.idx_open != std::string::npos || m.arg >= N_ADDINDEX_VARIANTS) return false;
      raw = raw.substr(0, L.assign_pos) + (m.arg == 0 ? "[1] " : "[2] ") + raw.substr(L.assign_pos);
      return true;
    }
    case OP_KEYWORD: {
      Line L = analyse(raw);
      if (L.kw.empty() || m.arg >= N_KEYWORD_VARIANTS) return false;
      std::string n = respell(raw, m.arg);
      if (n == raw) return false;
      raw = n;
      return true;
    }
    case OP_ALIAS: {
      Line L = analyse(raw);
      if (alias_text.empty()) return false;
      raw = alias_text + " " + raw.substr(L.kw_end);
      return true;
    }
    }
  return false;
}

inline std::string join_lines(const std::vector<std::string>& lines, bool final_nl)
{
  std::string t;
  for (size_t i = 0; i < lines.size(); ++i) { t += lines[i]; if (i + 1 < lines.size() || final_nl) t += '\n'; }
  return t;
}

} // namespace refp
#endif
