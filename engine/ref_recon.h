// ref_recon.h - shared by the C07 (OSMAPOSL) and C08 (OSSPS) harnesses: small worlds with an explicit system matrix,
// programmatic construction of the real objective function, subset membership of bins, data generators, recording
// reconstruction classes (the real loop; the hook only copies the estimate after every sub-iteration).
#ifndef REF_RECON_H
#define REF_RECON_H
#include "vmc.h"
#include "stir_small.h"
#include "stir/recon_buildblock/PoissonLogLikelihoodWithLinearModelForMeanAndProjData.h"
#include "stir/recon_buildblock/ProjectorByBinPairUsingProjMatrixByBin.h"
#include "stir/recon_buildblock/BinNormalisationFromProjData.h"
#include "stir/recon_buildblock/TrivialBinNormalisation.h"
#include "stir/recon_buildblock/find_basic_vs_nums_in_subsets.h"
#include "stir/recon_buildblock/QuadraticPrior.h"
#include "stir/recon_buildblock/RelativeDifferencePrior.h"
#include "stir/DataSymmetriesForViewSegmentNumbers.h"
#include "stir/SeparableGaussianImageFilter.h"
#include "stir/DiscretisedDensity.h"
#include "stir/IO/OutputFileFormat.h"
#include "stir/IO/InterfileOutputFileFormat.h"
#include "stir/IO/read_from_file.h"
#include <memory>

namespace rr {
using namespace stir;
typedef DiscretisedDensity<3, float> Target;
typedef VoxelsOnCartesianGrid<float> Vox;
typedef PoissonLogLikelihoodWithLinearModelForMeanAndProjData<Target> ObjFn;

struct Geom { int D, R, span, max_delta, nz, nxy; };
inline std::string geom_str(const Geom& g) { return "D" + vmc::str(g.D) + "R" + vmc::str(g.R) + "s" + vmc::str(g.span) + "d" + vmc::str(g.max_delta) + "z" + vmc::str(g.nz) + "x" + vmc::str(g.nxy); }

struct World
{
  Geom g;
  shared_ptr<Scanner> sc;
  shared_ptr<ProjDataInfo> pdi;
  shared_ptr<Vox> im;
  small::DenseP P; // explicit, computed with all symmetries off and no cache
  size_t nb = 0, nv = 0;
  std::vector<std::vector<int>> viewgram_of; // bins grouped per (segment, view): indices into P.bins
};

inline shared_ptr<ProjMatrixByBinUsingRayTracing> make_matrix(int sym);
// sym = 0: P from the matrix with all symmetries off and no cache ("direct"); sym = 1: P from the matrix exactly as make_matrix(1)
// configures it for the objective function (all symmetries, cache).  Both agree except on bins whose LOR end point lies on a voxel
// boundary (a rounding tie that the statement of C03 excludes; C03 is the check of that agreement), where a row derived through a
// symmetry may assign the ~half-voxel end piece to the neighbouring voxel.  A check of the reconstruction formulae must therefore
// take P from the matrix the reconstruction uses.
inline shared_ptr<World> make_world(const Geom& g, int sym = 0)
{
  shared_ptr<World> w(new World);
  w->g = g;
  w->sc = small::cyl_scanner(g.D, g.R);
  w->pdi = small::make_pdi(w->sc, g.span, g.max_delta);
  w->im = small::make_image(*w->pdi, g.nz, g.nxy);
  shared_ptr<ExamInfo> ex(new ExamInfo);
  ex->imaging_modality = ImagingModality::PT;
  w->im->set_exam_info(*ex);
  if (sym)
    {
      auto m = make_matrix(1);
      m->set_up(w->pdi, w->im);
      w->P = small::extract_P(*m, *w->pdi, *w->im);
    }
  else
    {
      auto m = small::direct_matrix(w->pdi, w->im);
      w->P = small::extract_P(*m, *w->pdi, *w->im);
    }
  w->nb = w->P.bins.size();
  w->nv = w->P.nvox;
  std::map<std::pair<int, int>, int> idx;
  for (size_t b = 0; b < w->nb; ++b)
    {
      auto key = std::make_pair(w->P.bins[b].segment_num(), w->P.bins[b].view_num());
      if (!idx.count(key)) { idx[key] = (int)w->viewgram_of.size(); w->viewgram_of.emplace_back(); }
      w->viewgram_of[idx[key]].push_back((int)b);
    }
  return w;
}

// the ray tracing matrix as used in the reconstruction: sym=1 STIR's defaults (all symmetries, cache on), sym=0 everything off
inline shared_ptr<ProjMatrixByBinUsingRayTracing> make_matrix(int sym)
{
  shared_ptr<ProjMatrixByBinUsingRayTracing> m(new ProjMatrixByBinUsingRayTracing());
  if (!sym)
    {
      m->set_do_symmetry_90degrees_min_phi(false);
      m->set_do_symmetry_180degrees_min_phi(false);
      m->set_do_symmetry_swap_segment(false);
      m->set_do_symmetry_swap_s(false);
      m->set_do_symmetry_shift_z(false);
      m->enable_cache(false);
    }
  m->set_num_tangential_LORs(1);
  m->set_restrict_to_cylindrical_FOV(true);
  return m;
}

// subset number of every bin, as defined by STIR: subset S processes the related groups of the basic view/segments that
// find_basic_vs_nums_in_subset returns for S (validated exhaustively by C06a).  Throws if that is not a partition.
inline std::vector<int> subset_of_bins(const World& w, const DataSymmetriesForViewSegmentNumbers& sym, int N)
{
  std::map<std::pair<int, int>, int> sub;
  std::vector<ViewSegmentNumbers> rel;
  for (int S = 0; S < N; ++S)
    for (const ViewSegmentNumbers& vs :
         detail::find_basic_vs_nums_in_subset(*w.pdi, sym, w.pdi->get_min_segment_num(), w.pdi->get_max_segment_num(), S, N))
      {
        sym.get_related_view_segment_numbers(rel, vs);
        for (const ViewSegmentNumbers& r : rel)
          {
            auto key = std::make_pair(r.segment_num(), r.view_num());
            if (sub.count(key)) throw std::runtime_error("subsets are not a partition (C06)");
            sub[key] = S;
          }
      }
  std::vector<int> out(w.nb);
  for (size_t b = 0; b < w.nb; ++b)
    {
      auto it = sub.find(std::make_pair(w.P.bins[b].segment_num(), w.P.bins[b].view_num()));
      if (it == sub.end()) throw std::runtime_error("subsets are not a partition (C06)");
      out[b] = it->second;
    }
  return out;
}

inline shared_ptr<ProjDataInMemory> projdata_from(const World& w, const std::vector<double>& v)
{
  auto pd = small::make_projdata(w.pdi);
  small::unflat(*pd, v);
  return pd;
}
inline std::vector<float> flatf(const Target& im)
{
  std::vector<float> v;
  for (auto it = im.begin_all_const(); it != im.end_all_const(); ++it) v.push_back(*it);
  return v;
}
inline std::vector<double> to_double(const std::vector<float>& f) { return std::vector<double>(f.begin(), f.end()); }
inline shared_ptr<Target> to_image(const World& w, const std::vector<float>& v)
{
  shared_ptr<Target> im(w.im->clone());
  size_t k = 0;
  for (auto it = im->begin_all(); it != im->end_all(); ++it) *it = v[k++];
  return im;
}
inline bool same_bits(const std::vector<float>& a, const std::vector<float>& b)
{
  return a.size() == b.size() && (a.empty() || memcmp(a.data(), b.data(), a.size() * sizeof(float)) == 0);
}
inline double max_abs_diff(const std::vector<float>& a, const std::vector<float>& b)
{
  double m = 0;
  for (size_t i = 0; i < a.size() && i < b.size(); ++i) { double d = std::fabs((double)a[i] - (double)b[i]); if (!(d <= m)) m = d; }
  return m;
}

// ---------------------------------------------------------------- model of the measurement (all in double)
//   efficiencies e_b = 1/n_b (n_b the normalisation factor STIR's BinNormalisationFromProjData multiplies with),
//   additive term a_b as STIR wants it (already normalised), mean  ybar_b = e_b ((P lambda)_b + a_b)
struct Model
{
  int norm = 0, additive = 0;
  std::vector<double> n, a, y; // per bin
};
// start / truth images (positive, labelled, with exact zeros)
inline std::vector<float> image_pattern(const World& w, int kind)
{
  std::vector<float> v(w.nv);
  for (size_t j = 0; j < w.nv; ++j)
    {
      if (kind == 0) v[j] = 1.F;                                   // uniform
      else if (kind == 1) v[j] = 0.5F + 0.25F * float((j * 7) % 11); // labelled positive
      else v[j] = (j % 3 == 1) ? 0.F : 1.F + 0.5F * float(j % 4);     // exact zeros
    }
  return v;
}
inline Model make_model(const World& w, int norm, int additive, int data_kind)
{
  Model m; m.norm = norm; m.additive = additive;
  m.n.assign(w.nb, 1.0); m.a.assign(w.nb, 0.0); m.y.assign(w.nb, 0.0);
  static const double nf[] = { 1.0, 2.0, 0.5, 4.0 };
  for (size_t b = 0; b < w.nb; ++b)
    {
      if (norm) m.n[b] = nf[(b * 5 + b / 3) % 4];
      if (additive) m.a[b] = 0.25 + 0.125 * double((b * 3) % 5);
    }
  // truth: labelled image scaled to give counts of a few units per bin
  std::vector<double> truth = to_double(image_pattern(w, 1));
  std::vector<double> pl = small::mulP(w.P, truth);
  double mx = 0; for (double x : pl) mx = std::max(mx, x);
  const double scale = mx > 0 ? 12.0 / mx : 1.0;
  for (size_t b = 0; b < w.nb; ++b)
    {
      const double ybar = (pl[b] * scale + m.a[b]) / m.n[b];
      double y = std::floor(ybar + 0.5);
      if (data_kind == 1 && b % 3 == 0) y = 0;          // zero-count LORs
      if (data_kind == 2) y = (double)((b * 7 + 3) % 8); // data unrelated to the model (inconsistent)
      if (w.P.rows[b].empty() && !additive) y = 0;       // a LOR that sees no voxel cannot have counts without background
      m.y[b] = y;
    }
  return m;
}

// ---------------------------------------------------------------- the real objective function
struct Setup
{
  int N = 1, sym = 1, use_subset_sens = 1;
  int prior = 0; // 0 none, 1 quadratic beta=0.1, 2 quadratic beta=10, 3 RDP(beta=1,gamma=2,eps=0.1), 4 quadratic beta=0.5 with kappa image, 6 quadratic beta=0.5 with a kappa image that contains zeros
};
inline shared_ptr<GeneralisedPrior<Target>> make_prior(const World& w, int prior)
{
  shared_ptr<GeneralisedPrior<Target>> p;
  if (prior == 1) p.reset(new QuadraticPrior<float>(false, 0.1F));
  else if (prior == 2) p.reset(new QuadraticPrior<float>(false, 10.F));
  else if (prior == 3) p.reset(new RelativeDifferencePrior<float>(false, 1.F, 2.F, 0.1F));
  else if (prior == 4)
    {
      auto q = new QuadraticPrior<float>(false, 0.5F);
      std::vector<float> k(w.nv);
      for (size_t j = 0; j < w.nv; ++j) k[j] = 0.5F + 0.25F * float(j % 5);
      q->set_kappa_sptr(to_image(w, k));
      p.reset(q);
    }
  else if (prior == 6)
    { // kappa with exact zeros, also at voxels that no LOR sees (voxel 0 is an image corner outside the field of view):
      // the prior's curvature vanishes there, so a denominator has to be kept positive by other means
      auto q = new QuadraticPrior<float>(false, 0.5F);
      std::vector<float> k(w.nv);
      for (size_t j = 0; j < w.nv; ++j) k[j] = (j % 3 == 0) ? 0.F : 1.F;
      q->set_kappa_sptr(to_image(w, k));
      p.reset(q);
    }
  return p;
}
struct Built
{
  shared_ptr<ObjFn> obj;
  shared_ptr<ProjDataInMemory> y, add, normdata;
  shared_ptr<GeneralisedPrior<Target>> prior;
};
inline Built build_objective(const World& w, const Model& m, const Setup& s)
{
  Built b;
  b.obj.reset(new ObjFn);
  b.y = projdata_from(w, m.y);
  b.obj->set_proj_data_sptr(b.y);
  shared_ptr<ProjMatrixByBin> pm = make_matrix(s.sym);
  shared_ptr<ProjectorByBinPair> pp(new ProjectorByBinPairUsingProjMatrixByBin(pm));
  b.obj->set_projector_pair_sptr(pp);
  if (m.additive) { b.add = projdata_from(w, m.a); b.obj->set_additive_proj_data_sptr(b.add); }
  if (m.norm)
    {
      b.normdata = projdata_from(w, m.n);
      b.obj->set_normalisation_sptr(shared_ptr<BinNormalisation>(new BinNormalisationFromProjData(b.normdata)));
    }
  b.obj->set_use_subset_sensitivities(s.use_subset_sens != 0);
  b.obj->set_recompute_sensitivity(true);
  b.prior = make_prior(w, s.prior);
  if (b.prior) b.obj->set_prior_sptr(b.prior);
  return b;
}

// recording wrapper: the real reconstruct() loop; after the real end_of_iteration_processing the estimate is copied
template <class Base> struct Recording : public Base
{
  std::vector<std::vector<float>> snaps; // snaps[i] = estimate after sub-iteration start+i
  void end_of_iteration_processing(Target& current) override
  {
    Base::end_of_iteration_processing(current);
    snaps.push_back(flatf(current));
  }
};

inline shared_ptr<DataProcessor<Target>> make_gaussian()
{
  auto f = new SeparableGaussianImageFilter<float>();
  f->set_fwhms(make_coordinate(6.F, 8.F, 8.F));
  f->set_max_kernel_sizes(make_coordinate(3, 3, 3));
  f->set_normalise(true);
  return shared_ptr<DataProcessor<Target>>(f);
}

} // namespace rr
#endif
