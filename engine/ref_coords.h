// ref_coords.h - reference geometry for C12 (bin coordinates <-> lines of response <-> detector positions).
//
// Everything here is plain analytic geometry in double, independent of STIR's classes:
//   * Line      : the straight line through two points in STIR's (s, phi, m, tan(theta)) parametrisation
//                   X = s cos(phi) + a sin(phi),  Y = s sin(phi) - a cos(phi),  Z = m - a tan(theta)
//                 with point 1 at the larger a.  Exchanging the points maps (s,phi,m,tantheta) to (-s,phi+-pi,m,-tantheta):
//                 the same unoriented line.
//   * cylindrical detector positions (crystal d of ring r)
//   * the step-function ("overlap") model of arc correction
#ifndef REF_COORDS_H
#define REF_COORDS_H
#include <cmath>
#include <vector>
#include <algorithm>

namespace rc {

struct P3 { double x = 0, y = 0, z = 0; };
struct Line { double s = 0, phi = 0, m = 0, tantheta = 0, len_xy = 0; };

inline double wrap_pi(double a) // to (-pi, pi]
{
  while (a > M_PI) a -= 2 * M_PI;
  while (a <= -M_PI) a += 2 * M_PI;
  return a;
}

// line through p1 and p2 (p1 at +a). len_xy == 0 (line parallel to the axis) is the caller's problem.
inline Line line_of(const P3& p1, const P3& p2)
{
  Line l;
  double ux = p1.x - p2.x, uy = p1.y - p2.y;
  l.len_xy = std::hypot(ux, uy);
  ux /= l.len_xy; uy /= l.len_xy;
  l.phi = std::atan2(ux, -uy);             // direction of increasing a is (sin phi, -cos phi)
  l.s = p1.x * (-uy) + p1.y * ux;          // normal (cos phi, sin phi) = (-uy, ux)
  l.tantheta = (p2.z - p1.z) / l.len_xy;   // Z = m - a tantheta, a1 - a2 = len_xy
  const double a1 = p1.x * ux + p1.y * uy;
  l.m = p1.z + a1 * l.tantheta;
  return l;
}
inline Line flipped(const Line& l)
{
  Line f = l;
  f.s = -l.s; f.tantheta = -l.tantheta; f.phi = wrap_pi(l.phi + M_PI);
  return f;
}
// the representation of the (unoriented) line whose phi is nearest to phi_near; *dphi = phi - phi_near in (-pi/2, pi/2]
inline Line oriented_near(const Line& l, double phi_near, double* dphi)
{
  double d = wrap_pi(l.phi - phi_near);
  if (d > M_PI / 2 || d <= -M_PI / 2)
    {
      Line f = flipped(l);
      if (dphi) *dphi = wrap_pi(f.phi - phi_near);
      return f;
    }
  if (dphi) *dphi = d;
  return l;
}

// crystal d (of D) of ring r (of R) of a cylindrical scanner, STIR's coordinate system (x = R sin psi, y = -R cos psi),
// z = 0 in the middle of the scanner
inline P3 cyl_pos(int D, int R, double radius, double ring_spacing, double psi_offset, int d, int r)
{
  const double psi = 2 * M_PI * d / D + psi_offset;
  P3 p;
  p.x = radius * std::sin(psi); p.y = -radius * std::cos(psi); p.z = (r - (R - 1) / 2.0) * ring_spacing;
  return p;
}
// the two points where the line (s, phi) at axial positions z1 (a>0 end), z2 meets the cylinder of the given radius
inline void chord_points(double radius, double s, double phi, double z1, double z2, P3& p1, P3& p2)
{
  const double a = std::sqrt(radius * radius - s * s);
  p1.x = s * std::cos(phi) + a * std::sin(phi); p1.y = s * std::sin(phi) - a * std::cos(phi); p1.z = z1;
  p2.x = s * std::cos(phi) - a * std::sin(phi); p2.y = s * std::sin(phi) + a * std::cos(phi); p2.z = z2;
}

// ---- arc correction: data are step functions (density per mm) on bins that tile the tangential axis.
// non-arc-corrected bin t covers [radius sin((t-1/2) dbeta), radius sin((t+1/2) dbeta)]; arc-corrected bin j covers
// [(j-1/2) w, (j+1/2) w].
inline double overlap(double a0, double a1, double b0, double b1)
{
  return std::max(0.0, std::min(a1, b1) - std::max(a0, b0));
}
struct ArcModel
{
  double radius = 0, dbeta = 0, w = 0;
  int tmin = 0, tmax = 0, jmin = 0, jmax = 0;
  double in_lo(int t) const { return radius * std::sin((t - 0.5) * dbeta); }
  double in_hi(int t) const { return radius * std::sin((t + 0.5) * dbeta); }
  double out_lo(int j) const { return (j - 0.5) * w; }
  double out_hi(int j) const { return (j + 0.5) * w; }
  bool in_bin_covered(int t) const { return in_lo(t) >= out_lo(jmin) && in_hi(t) <= out_hi(jmax); }
  bool out_bin_interior(int j) const { return out_lo(j) >= in_lo(tmin) && out_hi(j) <= in_hi(tmax); }
};

} // namespace rc
#endif
