// ref_listmode.h - closing driver and reference model for C14 (list-mode histogramming / list-mode likelihood).
//
//  * Rec / stream strings    : a list-mode stream is a vector of records: time tick (advance the clock by dt seconds),
//                              prompt or delayed coincidence (ring1,det1,ring2,det2,unmashed TOF index)
//  * MemListMode             : an in-memory CListModeData (records, save/set_get_position, reset) for cylindrical scanners with
//                              discrete detectors; events are CListEventCylindricalScannerWithDiscreteDetectors, i.e. the REAL
//                              get_bin() (-> ProjDataInfoCylindricalNoArcCorr::get_bin_for_det_pos_pair) is what LmToProjData and
//                              the list-mode objective function execute
//  * Geo                     : dense indexing of the bins of a projection-data geometry + reference binning of an event with the
//                              TEMPLATE geometry (get_bin_for_det_pos_pair is C01's subject and trusted here) + range tests
//  * ref_histogram           : the boring reference: walk the stream once, keep the clock, +-1 per accepted event
#ifndef REF_LISTMODE_H
#define REF_LISTMODE_H
#include "vmc.h"
#include "stir_small.h"
#include "stir/listmode/CListModeData.h"
#include "stir/listmode/CListRecord.h"
#include "stir/listmode/CListEventCylindricalScannerWithDiscreteDetectors.h"
#include "stir/DetectionPositionPair.h"
#include "stir/Succeeded.h"
#include "stir/SegmentByView.h"

namespace lmref {
using namespace stir;

// ------------------------------------------------------------------------------------------------ records
struct Rec
{
  char kind = 'T'; // 'T' tick, 'P' prompt, 'D' delayed
  int dt = 1;      // tick: seconds added to the clock
  int a1 = 0, d1 = 0, a2 = 0, d2 = 1, tof = 0;
  bool is_event() const { return kind != 'T'; }
};
inline std::string rec_str(const Rec& r)
{
  if (r.kind == 'T') return "t" + std::to_string(r.dt);
  return std::string(r.kind == 'P' ? "p" : "d") + std::to_string(r.a1) + "." + std::to_string(r.d1) + "." + std::to_string(r.a2) + "."
         + std::to_string(r.d2) + "." + std::to_string(r.tof);
}
inline Rec parse_rec(const std::string& s)
{
  Rec r;
  if (s.empty()) return r;
  if (s[0] == 't') { r.kind = 'T'; r.dt = atoi(s.c_str() + 1); return r; }
  r.kind = s[0] == 'p' ? 'P' : 'D';
  std::vector<int> v = vmc::ints(s.substr(1), '.');
  v.resize(5, 0);
  r.a1 = v[0]; r.d1 = v[1]; r.a2 = v[2]; r.d2 = v[3]; r.tof = v[4];
  return r;
}
typedef std::vector<Rec> Stream;
inline std::string stream_str(const Stream& s)
{
  std::string o;
  for (size_t i = 0; i < s.size(); ++i) { if (i) o += ','; o += rec_str(s[i]); }
  return o;
}
inline Stream parse_stream(const std::string& s)
{
  Stream o;
  if (s.empty()) return o;
  for (auto& t : vmc::split(s, ',')) if (!t.empty()) o.push_back(parse_rec(t));
  return o;
}

// ------------------------------------------------------------------------------------------------ the closing driver
class MemEvent : public CListEventCylindricalScannerWithDiscreteDetectors
{
public:
  explicit MemEvent(const shared_ptr<const ProjDataInfo>& p) : CListEventCylindricalScannerWithDiscreteDetectors(p) {}
  bool is_prompt() const override { return prompt; }
  Succeeded set_prompt(const bool p = true) override { prompt = p; return Succeeded::yes; }
  void get_detection_position(DetectionPositionPair<>& d) const override { d = dp; }
  void set_detection_position(const DetectionPositionPair<>& d) override { dp = d; }
  bool prompt = true;
  DetectionPositionPair<> dp;
};
class MemTime : public ListTime
{
public:
  unsigned long get_time_in_millisecs() const override { return ms; }
  Succeeded set_time_in_millisecs(const unsigned long t) override { ms = t; return Succeeded::yes; }
  unsigned long ms = 0;
};
class MemRecord : public CListRecord
{
public:
  explicit MemRecord(const shared_ptr<const ProjDataInfo>& p) : ev(p) {}
  bool is_time() const override { return kind == 'T'; }
  bool is_event() const override { return kind != 'T'; }
  ListEvent& event() override { return ev; }
  const ListEvent& event() const override { return ev; }
  ListTime& time() override { return tm; }
  const ListTime& time() const override { return tm; }
  char kind = 'T';
  MemEvent ev;
  MemTime tm;
};

class MemListMode : public CListModeData
{
public:
  MemListMode(const shared_ptr<const ProjDataInfo>& pdi, const Stream& s, bool delayeds = true) : has_del(delayeds)
  {
    shared_ptr<ExamInfo> ex(new ExamInfo);
    ex->imaging_modality = ImagingModality::PT;
    this->exam_info_sptr = ex;
    this->proj_data_info_sptr = pdi->create_shared_clone();
    proto.reset(new MemRecord(this->proj_data_info_sptr));
    unsigned long clock_ms = 0;
    for (const Rec& r : s)
      {
        Item it;
        it.kind = r.kind;
        if (r.kind == 'T') { clock_ms += 1000UL * (unsigned long)r.dt; it.ms = clock_ms; }
        else
          it.dp = DetectionPositionPair<>(DetectionPosition<>(r.d1, r.a1, 0), DetectionPosition<>(r.d2, r.a2, 0), r.tof);
        items.push_back(it);
      }
  }
  std::string get_name() const override { return "verif in-memory list mode"; }
  shared_ptr<CListRecord> get_empty_record_sptr() const override { return shared_ptr<CListRecord>(new MemRecord(*proto)); }
  Succeeded get_next_record(CListRecord& rec) const override
  {
    if (pos >= items.size()) { ++n_eof; return Succeeded::no; }
    MemRecord& r = static_cast<MemRecord&>(rec);
    const Item& it = items[pos++];
    r.kind = it.kind;
    if (it.kind == 'T') r.tm.ms = it.ms;
    else { r.ev.prompt = it.kind == 'P'; r.ev.dp = it.dp; }
    ++n_read;
    return Succeeded::yes;
  }
  Succeeded reset() override { pos = 0; ++n_reset; return Succeeded::yes; }
  SavedPosition save_get_position() override { saved.push_back(pos); return static_cast<SavedPosition>(saved.size() - 1); }
  Succeeded set_get_position(const SavedPosition& p) override
  {
    if (p >= saved.size()) return Succeeded::no;
    pos = saved[p]; ++n_rewind;
    return Succeeded::yes;
  }
  bool has_delayeds() const override { return has_del; }

  struct Item { char kind; unsigned long ms = 0; DetectionPositionPair<> dp; };
  std::vector<Item> items;
  mutable size_t pos = 0;
  std::vector<size_t> saved;
  shared_ptr<MemRecord> proto;
  bool has_del;
  mutable long n_read = 0, n_eof = 0, n_reset = 0, n_rewind = 0;
};

// ------------------------------------------------------------------------------------------------ geometry indexing + reference binning
struct Geo
{
  shared_ptr<ProjDataInfo> pdi;
  const ProjDataInfoCylindricalNoArcCorr* cyl = nullptr;
  int min_seg = 0, max_seg = 0, min_tof = 0, max_tof = 0, min_view = 0, max_view = 0, min_tang = 0, max_tang = 0;
  std::vector<int> min_ax, max_ax;        // per segment (index seg-min_seg)
  std::vector<size_t> base;               // per (tof, seg)
  size_t nbins = 0;
  int nseg() const { return max_seg - min_seg + 1; }
  int ntof() const { return max_tof - min_tof + 1; }
  int nviews() const { return max_view - min_view + 1; }
  int ntang() const { return max_tang - min_tang + 1; }

  void init(const shared_ptr<ProjDataInfo>& p)
  {
    pdi = p;
    cyl = dynamic_cast<const ProjDataInfoCylindricalNoArcCorr*>(p.get());
    if (!cyl) throw std::runtime_error("template is not ProjDataInfoCylindricalNoArcCorr");
    min_seg = p->get_min_segment_num(); max_seg = p->get_max_segment_num();
    min_tof = p->get_min_tof_pos_num(); max_tof = p->get_max_tof_pos_num();
    min_view = p->get_min_view_num(); max_view = p->get_max_view_num();
    min_tang = p->get_min_tangential_pos_num(); max_tang = p->get_max_tangential_pos_num();
    min_ax.clear(); max_ax.clear(); base.clear();
    for (int s = min_seg; s <= max_seg; ++s) { min_ax.push_back(p->get_min_axial_pos_num(s)); max_ax.push_back(p->get_max_axial_pos_num(s)); }
    nbins = 0;
    for (int k = min_tof; k <= max_tof; ++k)
      for (int s = min_seg; s <= max_seg; ++s)
        {
          base.push_back(nbins);
          nbins += (size_t)nviews() * (size_t)(max_ax[s - min_seg] - min_ax[s - min_seg] + 1) * (size_t)ntang();
        }
  }
  bool in_range(const Bin& b) const
  {
    if (b.segment_num() < min_seg || b.segment_num() > max_seg) return false;
    if (b.timing_pos_num() < min_tof || b.timing_pos_num() > max_tof) return false;
    if (b.view_num() < min_view || b.view_num() > max_view) return false;
    if (b.tangential_pos_num() < min_tang || b.tangential_pos_num() > max_tang) return false;
    const int si = b.segment_num() - min_seg;
    return b.axial_pos_num() >= min_ax[si] && b.axial_pos_num() <= max_ax[si];
  }
  // order: tof, segment, view, axial, tangential (the order in which flatten() walks the data)
  size_t index(const Bin& b) const
  {
    const int si = b.segment_num() - min_seg;
    const int nax = max_ax[si] - min_ax[si] + 1;
    return base[(size_t)(b.timing_pos_num() - min_tof) * nseg() + si]
           + ((size_t)(b.view_num() - min_view) * nax + (size_t)(b.axial_pos_num() - min_ax[si])) * ntang() + (size_t)(b.tangential_pos_num() - min_tang);
  }
  std::vector<Bin> bins() const
  {
    std::vector<Bin> v;
    for (int k = min_tof; k <= max_tof; ++k)
      for (int s = min_seg; s <= max_seg; ++s)
        for (int vw = min_view; vw <= max_view; ++vw)
          for (int a = min_ax[s - min_seg]; a <= max_ax[s - min_seg]; ++a)
            for (int t = min_tang; t <= max_tang; ++t) v.push_back(Bin(s, vw, a, t, k));
    return v;
  }
  // why an event is not histogrammed: 0 accepted, 1 ring difference/segment, 2 tangential, 3 axial, 4 TOF, 5 view
  int classify(const Rec& e, Bin& b) const
  {
    DetectionPositionPair<> dp(DetectionPosition<>(e.d1, e.a1, 0), DetectionPosition<>(e.d2, e.a2, 0), e.tof);
    b = Bin();
    if (cyl->get_bin_for_det_pos_pair(b, dp) == Succeeded::no) return 1;
    if (b.segment_num() < min_seg || b.segment_num() > max_seg) return 1;
    if (b.tangential_pos_num() < min_tang || b.tangential_pos_num() > max_tang) return 2;
    const int si = b.segment_num() - min_seg;
    if (b.axial_pos_num() < min_ax[si] || b.axial_pos_num() > max_ax[si]) return 3;
    if (b.timing_pos_num() < min_tof || b.timing_pos_num() > max_tof) return 4;
    if (b.view_num() < min_view || b.view_num() > max_view) return 5;
    return 0;
  }
};

inline std::vector<float> flatten(const ProjData& pd, const Geo& g)
{
  std::vector<float> v;
  v.reserve(g.nbins);
  for (int k = g.min_tof; k <= g.max_tof; ++k)
    for (int s = g.min_seg; s <= g.max_seg; ++s)
      {
        const SegmentByView<float> seg = pd.get_segment_by_view(s, k);
        for (int vw = g.min_view; vw <= g.max_view; ++vw)
          for (int a = g.min_ax[s - g.min_seg]; a <= g.max_ax[s - g.min_seg]; ++a)
            for (int t = g.min_tang; t <= g.max_tang; ++t) v.push_back(seg[vw][a][t]);
      }
  return v;
}

// ------------------------------------------------------------------------------------------------ reference histogram
// what to histogram: a time frame [start,end) in seconds (event time = time of the last preceding tick, 0 before the first),
// or the first events until (stored prompts - stored delayeds) reaches num_events (num_events > 0)
struct Select { double start = 0, end = 0; long num_events = 0; };
struct Store { bool prompts = true, delayeds = true; };
inline int increment(const Store& st, bool prompt)
{
  if (prompt) return st.prompts ? 1 : 0;
  if (st.prompts) return st.delayeds ? -1 : 0;
  return st.delayeds ? 1 : 0;
}
inline std::vector<float> ref_histogram(const Geo& g, const Stream& s, const Select& sel, const Store& st, long* accepted = nullptr)
{
  std::vector<float> h(g.nbins, 0.F);
  double clock = 0;
  long remaining = sel.num_events, acc = 0;
  for (const Rec& r : s)
    {
      if (sel.num_events > 0 && remaining == 0) break;
      if (r.kind == 'T') { clock += r.dt; continue; }
      if (sel.num_events <= 0 && !(clock >= sel.start && clock < sel.end)) continue;
      Bin b;
      if (g.classify(r, b) != 0) continue;
      const int inc = increment(st, r.kind == 'P');
      if (inc == 0) continue;
      h[g.index(b)] += (float)inc;
      remaining -= inc;
      ++acc;
    }
  if (accepted) *accepted = acc;
  return h;
}

} // namespace lmref
#endif
