#!/bin/bash
mkdir -p /verif/build/logs; cd /verif
for c in "$@"; do ( /usr/bin/time -f "wall %e s" nice -n 5 ./vcheck run $c --tier thorough ) > /verif/build/logs/T_$c.log 2>&1; echo "$c rc=$? $(grep -o '"exhaustive": [a-z]*' /verif/build/logs/T_$c.log | head -1) $(grep '^wall' /verif/build/logs/T_$c.log)" >> /verif/build/logs/summaryT; done
