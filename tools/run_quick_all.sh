#!/bin/bash
mkdir -p /verif/build/logs; cd /verif; rm -f /verif/build/logs/final_quick.txt
for c in C01 C02 C03 C04 C05 C06 C07 C08 C09 C10 C11 C12 C13 C14 C15 C16 C17 C18 C19 C20; do
  ( /usr/bin/time -f "wall %e" ./vcheck run $c --tier quick ) > /verif/build/logs/Q_$c.log 2>&1; rc=$?
  echo "$c rc=$rc $(grep -o '"exhaustive": [a-z]*' /verif/build/logs/Q_$c.log | head -1) $(grep '^wall' /verif/build/logs/Q_$c.log) viol=$(grep -c '^VIOLATION' /verif/build/logs/Q_$c.log) known=$(grep -c '^KNOWN-FINDING' /verif/build/logs/Q_$c.log)" >> /verif/build/logs/final_quick.txt
done
