import sys, json
cid = sys.argv[1]; n = sys.argv[2]; hint = sys.argv[3] if len(sys.argv) > 3 else ""
p = [json.loads(l) for l in open('/verif/properties.jsonl') if json.loads(l)['id'] == cid][0]
wt = f"/tmp/seed_{cid}_{n}"
print(f"""You are helping to evaluate a verification effort for the open-source C++ library UCL/STIR (PET/SPECT image reconstruction). Your job: invent ONE realistic defect ("seeded change") in STIR's source that breaks the semantic property below while the library still compiles and its existing test suite still passes, and demonstrate it.

PROPERTY {cid}: {p['title']}
Statement: {p['statement']}
Quantified over: {p['quantifier']['text']}
Relevant source files (hints): {', '.join(p['anchors']['files'][:12])}

Your private scratch copy of the sources is a git worktree that you must create first:
    git -C /repo worktree add --detach {wt} HEAD
Work ONLY inside {wt} (and a build directory {wt}/_b inside it). Never edit /repo itself, never look at or use anything under /verif, never run git commit. 

Requirements for the change:
 * small (1-15 lines), the kind of slip a maintainer could really make during a refactoring or optimisation (off-by-one in a range, stale cache not invalidated, wrong variable of the right type, missing flush, check placed after use, lost update of shared state, sign/rounding at a boundary, condition inverted for one branch, initialisation moved...). Not a blatant sabotage, no dead code, no special-casing of magic inputs. {hint}
 * it must need something SPECIFIC to manifest - a particular configuration, an unusual but legal input, a multi-step sequence of calls, a particular thread interleaving, a fault at a particular point, or two cooperating sites that each look fine alone - NOT something that ordinary use or the existing tests expose at once.
 * the library must still compile, and STIR's own test suite must still pass: build with
       cmake -G Ninja -S {wt} -B {wt}/_b -DCMAKE_BUILD_TYPE=Release -DGRAPHICS=None -DDISABLE_HDF5=ON -DDISABLE_ITK=ON -DDISABLE_CERN_ROOT=ON -DDISABLE_LLN_MATRIX=ON -DBUILD_DOCUMENTATION=OFF -DBUILD_SWIG_PYTHON=OFF -DSTIR_MPI=OFF -DSTIR_OPENMP=OFF > /dev/null && ninja -C {wt}/_b -j8 > {wt}/_b/build.log 2>&1
   (takes a while, the machine is shared; build ONCE before changing anything so that later rebuilds are incremental) and run `ctest --test-dir {wt}/_b -j4 --timeout 900 2>&1 | tail -30`. The tests named below pass on the unmodified tree and must still pass with your change (other tests fail for unrelated environment reasons - ignore those): {', '.join(t.split('::')[0] for t in json.load(open('/root/.vp/BASELINE.json'))['stable_pass'])}.
   For a change that only matters in an OpenMP build you may ALSO configure a second build dir with -DSTIR_OPENMP=ON for your demonstration, but the test run above (without OpenMP) is the one that must pass.
 * a demonstration: a small stand-alone C++ program {wt}/demo.cxx (+ a one-line build command in {wt}/demo_build.sh linking against the static libraries in {wt}/_b, see how STIR's own tests under src/test link) that exits 0 on the unmodified tree and non-zero (with a short message saying what went wrong) with your change applied. Run it both ways and record the outputs. Set STIR_CONFIG_DIR={wt}/src/config in the environment if a radionuclide/config lookup is needed, and call stir::Verbosity::set(0) to keep it quiet.

Deliverables (leave them in {wt}): patch.diff (output of `git -C {wt} diff -- src` with ONLY your change), demo.cxx, demo_build.sh, and notes.txt with: which clause of the property the change breaks and why, exactly what is needed for it to manifest, the ctest summary line with your change applied, and the demo output with/without the change. Leave the worktree in place with your change APPLIED when you finish (I will collect and remove it). Keep tool outputs short (use tail/head). Final message: a 10-line summary of the above.""")
