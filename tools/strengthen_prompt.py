import sys, json
sid, harness, extra = sys.argv[1], sys.argv[2], sys.argv[3]
pid = sid.split('_')[0]
needs = open('/verif/seeded/%s/notes.txt' % sid).read()[:6000]
print(f"""You are strengthening one check of a verification framework for UCL/STIR (C++ PET/SPECT library in /repo, pinned).
The framework lives in /verif; the technique is model checking in the bounded-exhaustive sense (complete enumeration of a finite,
explicitly bounded space on the real code against a small reference model - never sampling, never random numbers, no solvers).
Read /verif/HARNESS_GUIDE.md completely first, then the property {pid} in /verif/properties.jsonl, then /verif/DESIGN.md section '### {pid}'
and the harness /verif/harness/{harness} with its registration /verif/checks/{pid}.json.

Situation: an independently written property-breaking change of STIR ("seed" {sid}: /verif/seeded/{sid}/patch.diff, description in
/verif/seeded/{sid}/notes.txt, demonstration demo.cxx) compiles, passes STIR's own tests, violates property {pid} - and the quick tier of
check {pid} does NOT detect it (`check {pid} rc=0`).  The check's explored space is missing the region where the change shows.
Notes of the author of the change:
-----
{needs}
-----
Your task: extend the harness so that the space it enumerates includes that kind of situation IN GENERAL (not a special case of this
one patch): {extra}
Rules:
* Edit only /verif/harness/{harness} (and, if needed, engine/ref_*.h headers used only by it, and /verif/checks/{pid}.json for deadlines/shards).
  Do NOT edit /repo, vcheck, vmc.h, KNOWN_FINDINGS.txt, MANIFEST.json, DESIGN.md. Do not commit anywhere.
* The extended check must still PASS on the unchanged tree: `cd /verif && ./vcheck run {pid} --tier quick` must exit 0 with no VIOLATION
  line (KNOWN-FINDING lines that were there before are fine).  If the extension reports a violation on the unchanged tree, work out
  whether STIR really breaks the property (then report it to me with the exact failing input and a minimal proposed patch as a diff file
  /tmp/fix_{pid}_strengthen.diff - do not apply it to /repo) or whether your oracle demands more than the property states (then correct the oracle).
  Never loosen an existing oracle, never remove existing cases.
* It must then DETECT the seed: `/verif/seeded/recheck.sh {sid}` creates a scratch worktree /tmp/rs_{sid} of /repo HEAD with the patch applied,
  runs `VERIF_REPO=/tmp/rs_{sid} ./vcheck run {pid} --tier quick` (log: /verif/seeded/{sid}/check_{pid}.log) and removes the worktree again; it
  prints `recheck {sid}: check {pid} rc=1 violation_keys=N` when the change is detected.  (It needs ~3-6 minutes because the STIR libraries are rebuilt
  for the scratch tree.)  The violation keys should name the clause that is really broken.
* Keep the quick tier's wall time in the same range as now (check `wall=` in the output; at most ~1.5x), the thorough tier may grow but must finish
  (`./vcheck run {pid} --tier thorough`, run it once to completion at the end and report wall time and result).
* New cases must count towards the evidence counters like the existing ones (evaluations / distinct non-trivial, or states / transitions), and
  the `ctx.rule` / level_text in checks/{pid}.json should mention the extension in one sentence.
* The machine is shared with other jobs: do not use more than 8 parallel jobs for your own builds; keep your tool outputs short
  (pipe through `cut -c1-300 | head -40`), never print whole logs.
Final report (short): what you added (space, oracle), counters before/after, quick wall time before/after, result on the unchanged tree,
result of recheck.sh, result and wall time of the thorough tier, anything on the unchanged tree that needs my decision.""")
