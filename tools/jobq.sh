#!/bin/bash
# trivial serial job queue: lines appended to /tmp/jobq.txt are executed one after another
touch /tmp/jobq.txt; n=0
while true; do
  total=$(wc -l < /tmp/jobq.txt)
  if [ $n -lt $total ]; then n=$((n+1)); cmd=$(sed -n "${n}p" /tmp/jobq.txt); echo "[$(date +%H:%M)] start: $cmd" >> /tmp/jobq.log; bash -c "$cmd" >> /tmp/jobq.out 2>&1; echo "[$(date +%H:%M)] done rc=$?: $cmd" >> /tmp/jobq.log
  else sleep 15; fi
done
