#!/usr/bin/env python3
"""Regenerate the generated tables of DESIGN.md §10 (between the STATE_TABLE / SEED_TABLE markers) from gen_state.py."""
import subprocess, re, os
V = os.path.dirname(os.path.abspath(__file__))
out = subprocess.run(["python3", V + "/gen_state.py"], capture_output=True, text=True).stdout
state, seeds = out.split("\nSEEDS\n")
s = open(V + "/DESIGN.md").read()
def put(s, tag, body):
    b, e = "<!-- %s:BEGIN -->" % tag, "<!-- %s:END -->" % tag
    block = b + "\n" + body.strip() + "\n" + e
    if b in s: return re.sub(re.escape(b) + r".*?" + re.escape(e), lambda m: block, s, flags=re.S)
    return s.replace(tag + "_PLACEHOLDER", block)
s = put(s, "STATE_TABLE", state); s = put(s, "SEED_TABLE", seeds)
open(V + "/DESIGN.md", "w").write(s)
