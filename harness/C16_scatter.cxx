// C16 - SingleScatterSimulation: symmetric in the detector pair, linear in the activity, zero for zero, never
// negative, independent of the line-integral cache and of the history of setter calls.
//
// Part E (exhaustive configuration x input enumeration), unit = one configuration
//   (geometry family, attenuation image, scatter-point image, template, energy window, attenuation threshold):
//     * basis: the output for EVERY unit voxel of the activity grid (fresh object each)
//     * superpositions (uniform, labelled ramp, A1, A2, scaled unit voxels, pairs): output == sum of basis outputs
//     * zero activity => every bin exactly 0; non-negative activity => no negative bin
//     * cache enabled == cache disabled (fresh objects)
//     * ALL detector pairs (i<j over all detectors of the scanner; through the private per-pair function
//       actual_scatter_estimate, -fno-access-control): estimate(i,j) == estimate(j,i); every output bin of
//       process_data() == the per-pair function for the pair find_detectors() gives for that bin
// Part H (explicit-state search over operation histories, vmc::HistSearch), unit = (world, first operation):
//     alphabet {set_activity_image_sptr(A1|A2), set_density_image_sptr(D1|D2), set_density_image_for_scatter_points_sptr(S1|S2),
//     set_template_proj_data_info(T1|T2), set_exam_info(E1|E2), set_attenuation_threshold(t1|t2), set_use_cache(0|1), set_up, compute}
//     on a real object that starts fully configured (phase 0) or configured + set_up + computed once (phase 1: caches filled).
//     Reference model: the configuration tuple and a "set-up is valid" flag.  Oracle at every compute:
//       set-up valid    => output == output of a FRESH object configured directly with the same configuration (memoised)
//       set-up invalid  => process_data() reports an error, or the output is the correct one (never silently a stale one)
//     State = model + hash of every private member that influences future behaviour + last output.
//     Keys: one per root cause.  A failing history is minimised; a stale result after "set_up; setters; compute" is reported as the
//     history_independence failure of the preceding set_up if the history without those setters already fails; a history that
//     contains the setters of an already reported minimal history is re-run without them (a second defect is reported on its own).
//   In-place worlds (ip=1): the caller of the simulation owns one activity, one attenuation and one scatter-point image object (M_A, M_D, M_S;
//     the initial configuration is made with them) and the alphabet has 6 more operations "update_in_place_and_set_*(Xk)": the voxel values of
//     the caller's object are overwritten IN PLACE with those of Xk and the setter is called with the SAME shared_ptr as before (what
//     ScatterEstimation does with its current activity estimate).  Same oracle: the configuration tuple now says Xk, every compute after a valid
//     set_up == fresh object configured with (untouched) Xk.  The original 6 image setters (other objects) stay in the alphabet, so "same object
//     again", "other object", "back to the first object whose contents changed meanwhile" all occur.
//   Part E re-uses two objects (cache on/off) per configuration over all superpositions: activity image object overwritten in place, same
//     pointer set again, set_up, compute == output of the fresh object for that activity.
//   Request order (ord=1 worlds and part E): process_data() always walks the bins in the same order, but the numbers of the detectors (and with them
//     the rows of the two line-integral caches) are assigned lazily in the order in which bins are first asked for.  The order worlds add 3 operations
//     "scatter_estimate(bin) for every bin of a small fixed bin set in forward | reverse | interleaved order" (protected per-bin function, reached through
//     the subclass PerBinSim as a derived class would) to the alphabet and start from an object that was set up and then asked through process_data()
//     (phase 1) or per bin in reverse order (phase 2).  Oracle: every per-bin value == the bin of the freshly configured object's process_data() output
//     for the current configuration (so independent of the order and of the history, cache on and off); requests are made only while the set-up is valid.
//     Part E keeps two more objects (cache on/off) per configuration over all superpositions and asks them per bin in an order that changes from
//     superposition to superposition, before and after process_data().
#include "vmc.h"
#include "stir_small.h"
#include "stir/scatter/SingleScatterSimulation.h"
#include "stir/scatter/ScatterSimulation.h"
#include "stir/Succeeded.h"
#include "stir/SegmentByView.h"
#include "stir/IndexRange2D.h"
#include <memory>
#include <algorithm>
#include <sys/wait.h>
#include <sys/types.h>
#include <signal.h>

using namespace stir;
typedef VoxelsOnCartesianGrid<float> Vox;

// randomly_place_scatter_points is off in every object: STIR must never ask for a random number.
static long g_rand_calls = 0;
namespace vmc { struct Ctx; }
extern "C" int rand(void) noexcept { ++g_rand_calls; return 0; }
extern "C" void srand(unsigned) noexcept { ++g_rand_calls; }

static void check_rand(vmc::Ctx& ctx, const std::string& kase)
{
  if (g_rand_calls) { ctx.violation("clause=determinism;rand_called", kase, "rand()/srand() called " + vmc::str(g_rand_calls) + " times although randomly_place_scatter_points is off"); g_rand_calls = 0; }
}

// ------------------------------------------------------------------------------------------------ worlds
struct Cfg
{
  int A = 0, D = 0, S = 0 /* -1: derived from D at set_up */, T = 0, E = 0, thr = 0, cache = 1;
  std::string str() const
  {
    return "A" + vmc::str(A + 1) + ",D" + vmc::str(D + 1) + "," + (S < 0 ? std::string("Sauto") : "S" + vmc::str(S + 1)) + ",T" + vmc::str(T + 1) + ",E" + vmc::str(E + 1)
           + ",t" + vmc::str(thr + 1) + ",c" + vmc::str(cache);
  }
};

struct World
{
  int g = 0, zoom = 0, tv = 0; // geometry family, 0: explicit zoom factors 0.5/0.5, 1: STIR defaults (-1); template variant
  int S0 = 0;                  // scatter-point image of the initial configuration of part H (0: S1, -1: derived from D1)
  int ip = 0;                  // 1: in-place world: initial configuration uses caller-owned mutable image objects, alphabet includes the in-place updates
  int ord = 0;                 // 1: request-order world: alphabet includes per-bin requests scatter_estimate(bin) over a fixed bin set in 3 orders
  int Dd = 8, R = 2;
  shared_ptr<ProjDataInfo> T[2];
  shared_ptr<ExamInfo> E[2];
  shared_ptr<Vox> A[2], Dn[3], S[2];
  float thr[2] = { 0.01F, 0.05F };
  std::string name() const { return "g=" + vmc::str(g) + ";zoom=" + vmc::str(zoom) + ";tv=" + vmc::str(tv) + ";s0=" + vmc::str(S0) + (ip ? ";ip=1" : "") + (ord ? ";ord=1" : ""); }
};

static shared_ptr<Vox> grid(int nz, int half, float vz, float vxy)
{
  shared_ptr<Vox> im(new Vox(IndexRange3D(0, nz - 1, -half, half, -half, half), CartesianCoordinate3D<float>(0.F, 0.F, 0.F),
                             CartesianCoordinate3D<float>(vz, vxy, vxy)));
  im->fill(0.F);
  return im;
}
// disk of radius r (voxels) around (cy,cx) in every plane: `val` inside, `rim` for r < dist <= r+1
static void disk(Vox& im, float cy, float cx, float r, float val, float rim)
{
  for (int z = im.get_min_z(); z <= im.get_max_z(); ++z)
    for (int y = im.get_min_y(); y <= im.get_max_y(); ++y)
      for (int x = im.get_min_x(); x <= im.get_max_x(); ++x)
        {
          const float d = std::sqrt((y - cy) * (y - cy) + (x - cx) * (x - cx));
          if (d <= r) im[z][y][x] = val;
          else if (d <= r + 1) im[z][y][x] = rim;
        }
}

static const int NZ = 5, HALF = 3; // activity / attenuation grid 5 x 7 x 7
static const float VZ = 8.F, VXY = 14.F, RING_SPACING = 16.F;

static World make_world(int g, int zoom, int tv)
{
  World w; w.g = g; w.zoom = zoom; w.tv = tv;
  w.Dd = g == 0 ? 8 : 12; w.R = g == 0 ? 2 : 3;
  {
    shared_ptr<Scanner> s1 = small::cyl_scanner(w.Dd, w.R, 0, 0.F, 100.F, RING_SPACING);
    w.T[0] = small::make_pdi(s1, 1, w.R - 1);
    shared_ptr<Scanner> s2;
    if (tv == 0)
      { // same number of detectors (=> same cache shape), other positions and energy resolution
        s2 = small::cyl_scanner(w.Dd, w.R, 0, 0.F, 112.F, RING_SPACING);
        s2->set_energy_resolution(0.22F);
        w.T[1] = small::make_pdi(s2, 1, w.R - 1);
      }
    else
      { // one ring more (=> other cache shape, other output size); only direct + first oblique segments
        s2 = small::cyl_scanner(w.Dd, w.R + 1, 0, 0.F, 100.F, RING_SPACING);
        w.T[1] = small::make_pdi(s2, 1, w.R);
      }
  }
  for (int e = 0; e < 2; ++e)
    {
      w.E[e].reset(new ExamInfo);
      w.E[e]->imaging_modality = ImagingModality::PT;
      w.E[e]->set_low_energy_thres(e == 0 ? 350.F : 450.F);
      w.E[e]->set_high_energy_thres(e == 0 ? 650.F : 600.F);
    }
  // activity images (non-negative)
  w.A[0] = grid(NZ, HALF, VZ, VXY);
  disk(*w.A[0], 0.F, 0.F, 2.5F, 1.F, 0.F);
  { int k = 0; for (auto it = w.A[0]->begin_all(); it != w.A[0]->end_all(); ++it, ++k) if (*it > 0) *it = float(1 + k % 5); }
  w.A[1] = grid(NZ, HALF, VZ, VXY);
  disk(*w.A[1], 1.F, -1.F, 2.F, 2.F, 0.F);
  (*w.A[1])[2][-2][2] = 7.F;
  // attenuation images (cm^-1)
  w.Dn[0] = grid(NZ, HALF, VZ, VXY);
  disk(*w.Dn[0], 0.F, 0.F, 2.2F, 0.096F, 0.03F);
  w.Dn[1] = grid(NZ, HALF, VZ, VXY);
  disk(*w.Dn[1], -1.F, 1.F, 2.F, 0.096F, 0.03F);
  (*w.Dn[1])[1][-1][1] = 0.17F; (*w.Dn[1])[3][0][2] = 0.17F;
  w.Dn[2] = grid(NZ, HALF, VZ, VXY); // labelled: every voxel a different value in [0.02,0.14]
  { int k = 0; const int n = NZ * 7 * 7; for (auto it = w.Dn[2]->begin_all(); it != w.Dn[2]->end_all(); ++it, ++k) *it = 0.02F + 0.12F * float((k * 37) % n) / float(n); }
  // explicit scatter-point images, subsampled x2 in z: 3 x 5 x 5, voxel 16 x 21 x 21 mm (same z-centre as the 5 x 8 mm grid)
  w.S[0] = grid(3, 2, 2 * VZ, 21.F);
  disk(*w.S[0], 0.F, 0.F, 1.2F, 0.096F, 0.03F);
  w.S[1] = grid(3, 2, 2 * VZ, 21.F);
  disk(*w.S[1], 0.F, 1.F, 1.2F, 0.09F, 0.03F); // same number of voxels above t2, other positions and values
  return w;
}

// what a derived class sees: the protected per-bin function
class PerBinSim : public SingleScatterSimulation
{
public:
  double estimate_for_bin(const Bin& bin) { return this->scatter_estimate(bin); }
};
// positions (in read order of the bins of the template) of the small bin set that is asked per bin, in the order of asking
// order 0: forward, 1: reverse, 2: interleaved (first, last, second, last but one, ...)
static std::vector<size_t> requested_bins(size_t nbins, int order)
{
  std::vector<size_t> K;
  if (nbins == 0) return K;
  const size_t stride = std::max<size_t>(1, nbins / 10) | 1;
  for (size_t i = stride / 2; i < nbins; i += stride) K.push_back(i);
  std::vector<size_t> r;
  if (order == 0) r = K;
  else if (order == 1) r.assign(K.rbegin(), K.rend());
  else for (size_t lo = 0, hi = K.size(); lo < hi;) { r.push_back(K[lo++]); if (lo < hi) r.push_back(K[--hi]); }
  return r;
}
static const char* const ORDER_NAME[3] = { "forward", "reverse", "interleaved" };

static std::unique_ptr<SingleScatterSimulation> make_sim(const World& w, const Cfg& c, shared_ptr<const Vox> act = shared_ptr<const Vox>(),
                                                         shared_ptr<const Vox> dens = shared_ptr<const Vox>(), shared_ptr<const Vox> scat = shared_ptr<const Vox>())
{
  // order of a parameter file: scalars first, then template, exam info, images
  std::unique_ptr<SingleScatterSimulation> s(new PerBinSim());
  s->set_randomly_place_scatter_points(false);
  s->set_attenuation_threshold(w.thr[c.thr]);
  s->set_use_cache(c.cache != 0);
  if (w.zoom == 0) s->set_image_downsample_factors(0.5F, 0.5F, -1, -1);
  s->set_template_proj_data_info(*w.T[c.T]);
  s->set_exam_info(*w.E[c.E]);
  s->set_activity_image_sptr(act ? act : shared_ptr<const Vox>(w.A[c.A]));
  s->set_density_image_sptr(dens ? dens : shared_ptr<const Vox>(w.Dn[c.D]));
  if (c.S >= 0) s->set_density_image_for_scatter_points_sptr(scat ? scat : shared_ptr<const Vox>(w.S[c.S]));
  return s;
}

// ------------------------------------------------------------------------------------------------ compute
struct Out
{
  int status = -1; // 0: Succeeded::yes, 1: Succeeded::no, 2: error() thrown
  std::string what, shape;
  std::vector<float> v;
  uint64_t hash() const { uint64_t h = vmc::fnv(&status, sizeof status); h = vmc::fnv(shape, h); if (!v.empty()) h = vmc::fnv(v.data(), v.size() * sizeof(float), h); return h; }
};

static void read_all(const ProjData& pd, Out& o)
{
  const ProjDataInfo& p = *pd.get_proj_data_info_sptr();
  o.shape = "seg" + vmc::str(p.get_min_segment_num()) + ":" + vmc::str(p.get_max_segment_num()) + ",views" + vmc::str(p.get_num_views()) + ",tang" + vmc::str(p.get_num_tangential_poss());
  for (int s = p.get_min_segment_num(); s <= p.get_max_segment_num(); ++s)
    {
      o.shape += ",ax" + vmc::str(p.get_num_axial_poss(s));
      const SegmentByView<float> seg = pd.get_segment_by_view(s);
      for (int vw = p.get_min_view_num(); vw <= p.get_max_view_num(); ++vw)
        for (int a = p.get_min_axial_pos_num(s); a <= p.get_max_axial_pos_num(s); ++a)
          for (int t = p.get_min_tangential_pos_num(); t <= p.get_max_tangential_pos_num(); ++t)
            o.v.push_back(seg[vw][a][t]);
    }
}
static std::vector<Bin> bins_in_read_order(const ProjDataInfo& p)
{
  std::vector<Bin> b;
  for (int s = p.get_min_segment_num(); s <= p.get_max_segment_num(); ++s)
    for (int vw = p.get_min_view_num(); vw <= p.get_max_view_num(); ++vw)
      for (int a = p.get_min_axial_pos_num(s); a <= p.get_max_axial_pos_num(s); ++a)
        for (int t = p.get_min_tangential_pos_num(); t <= p.get_max_tangential_pos_num(); ++t)
          b.push_back(Bin(s, vw, a, t));
  return b;
}

static Out compute(SingleScatterSimulation& s)
{
  Out o;
  try
    {
      shared_ptr<ProjDataInMemory> pd(new ProjDataInMemory(s.get_exam_info_sptr(), s.get_template_proj_data_info_sptr()->create_shared_clone()));
      pd->fill(-7.F); // sentinel: a compute that writes nothing is visible
      s.set_output_proj_data_sptr(pd);
      const Succeeded r = s.process_data();
      o.status = r == Succeeded::yes ? 0 : 1;
      read_all(*pd, o);
    }
  catch (std::exception& e) { o = Out(); o.status = 2; o.what = e.what(); }
  catch (...) { o = Out(); o.status = 2; o.what = "non-std exception"; }
  return o;
}

// |a-b| <= rel*max(|a|,|b|) + floor_rel*max|ref| for every bin; returns description of the worst bin or ""
static std::string differ(const Out& a, const Out& ref, double rel = 1e-5, double floor_rel = 1e-7)
{
  if (a.status != ref.status) return "status " + vmc::str(a.status) + (a.status == 2 ? " (" + a.what.substr(0, 120) + ")" : "") + " vs " + vmc::str(ref.status) + (ref.status == 2 ? " (" + ref.what.substr(0, 120) + ")" : "");
  if (a.shape != ref.shape || a.v.size() != ref.v.size()) return "shape " + a.shape + " vs " + ref.shape;
  double mx = 0; for (float x : ref.v) mx = std::max(mx, (double)std::fabs(x));
  double worst = 0; size_t wi = 0; bool bad = false;
  for (size_t i = 0; i < a.v.size(); ++i)
    {
      const double x = a.v[i], y = ref.v[i];
      if (std::isnan(x) || std::isnan(y)) { if (std::isnan(x) != std::isnan(y)) { bad = true; wi = i; worst = 1e300; break; } continue; }
      const double d = std::fabs(x - y), tol = rel * std::max(std::fabs(x), std::fabs(y)) + floor_rel * mx;
      if (d > tol && d - tol > worst) { worst = d - tol; wi = i; bad = true; }
    }
  if (!bad) return "";
  return "bin #" + vmc::str(wi) + ": " + vmc::str(a.v[wi]) + " vs " + vmc::str(ref.v[wi]) + " (max |ref| " + vmc::str(mx) + ")";
}

// process_data() on an object whose cache arrays do not have the shape the accessors assume would index outside them
// (NDEBUG: no range check).  Detected from the object's own state; the call is then made in a forked child only.
static bool cache_shape_hazard(const SingleScatterSimulation& s)
{
  if (!s._already_set_up || !s.use_cache) return false;
  const IndexRange<2> need(Coordinate2D<int>(0, 0), Coordinate2D<int>(static_cast<int>(s.scatt_points_vector.size()) - 1, s.total_detectors - 1));
  return !(s.cached_activity_integral_scattpoint_det.get_index_range() == need) || !(s.cached_attenuation_integral_scattpoint_det.get_index_range() == need);
}
static std::string run_in_child(SingleScatterSimulation& s)
{
  fflush(nullptr);
  const pid_t pid = fork();
  if (pid < 0) return "fork failed";
  if (pid == 0)
    {
      alarm(60);
      Out o = compute(s);
      _exit(o.status == 2 ? 3 : 0);
    }
  int st = 0;
  waitpid(pid, &st, 0);
  if (WIFSIGNALED(st)) return "child process killed by signal " + vmc::str(WTERMSIG(st));
  return "child process survived (exit " + vmc::str(WEXITSTATUS(st)) + "), memory outside the cache arrays was read/written";
}

// ------------------------------------------------------------------------------------------------ fresh results
struct Fresh
{
  const World& w;
  std::map<std::string, Out> memo;
  long long computed = 0;
  explicit Fresh(const World& w_) : w(w_) {}
  const Out& get(const Cfg& c)
  {
    const std::string k = c.str();
    auto it = memo.find(k);
    if (it != memo.end()) return it->second;
    Out o;
    try
      {
        auto s = make_sim(w, c);
        s->set_up();
        o = compute(*s);
      }
    catch (std::exception& e) { o = Out(); o.status = 2; o.what = std::string("set_up: ") + e.what(); }
    ++computed;
    return memo[k] = o;
  }
};

// ------------------------------------------------------------------------------------------------ part H
static const char* const OPNAME[25] = { "set_activity_image_sptr(A1)", "set_activity_image_sptr(A2)", "set_density_image_sptr(D1)", "set_density_image_sptr(D2)",
                                        "set_density_image_for_scatter_points_sptr(S1)", "set_density_image_for_scatter_points_sptr(S2)",
                                        "set_template_proj_data_info(T1)", "set_template_proj_data_info(T2)", "set_exam_info(E1)", "set_exam_info(E2)",
                                        "set_attenuation_threshold(t1)", "set_attenuation_threshold(t2)", "set_use_cache(0)", "set_use_cache(1)", "set_up", "compute",
                                        // in-place worlds only: overwrite the voxel values of the caller's object with those of Xk, call the setter with that same object
                                        "update_in_place_and_set_activity_image_sptr(A1)", "update_in_place_and_set_activity_image_sptr(A2)",
                                        "update_in_place_and_set_density_image_sptr(D1)", "update_in_place_and_set_density_image_sptr(D2)",
                                        "update_in_place_and_set_density_image_for_scatter_points_sptr(S1)", "update_in_place_and_set_density_image_for_scatter_points_sptr(S2)",
                                        // request-order worlds only: the protected per-bin function for every bin of the fixed bin set, in this order
                                        "scatter_estimate_per_bin(forward)", "scatter_estimate_per_bin(reverse)", "scatter_estimate_per_bin(interleaved)" };
static const int NOPS = 16, NOPS_IP = 22, OP_SETUP = 14, OP_COMPUTE = 15, OP_IP = 16, OP_REQ = 22, NOPS_ALL = 25;
static bool is_setter(int op) { return op < OP_SETUP || (op >= OP_IP && op < OP_REQ); }
static bool is_in_place(int op) { return op >= OP_IP && op < OP_REQ; }
static bool is_request(int op) { return op >= OP_REQ; }
static std::string kind_of(int op) { std::string n = OPNAME[op]; return n.substr(0, n.find('(')); }
static std::string hist_names(const std::vector<int>& h) { std::string s; for (int o : h) s += std::string(OPNAME[o]) + "; "; return s; }

template <class T> static uint64_t hpod(const T& t, uint64_t h) { return vmc::fnv(&t, sizeof t, h); }
static uint64_t himg(const DiscretisedDensity<3, float>& d, uint64_t h)
{
  const Vox& v = dynamic_cast<const Vox&>(d);
  for (int i = 1; i <= 3; ++i) { h = hpod(v.get_voxel_size()[i], h); h = hpod(v.get_origin()[i], h); }
  h = hpod(v.get_min_z(), h); h = hpod(v.get_max_z(), h); h = hpod(v.get_min_y(), h); h = hpod(v.get_max_y(), h); h = hpod(v.get_min_x(), h); h = hpod(v.get_max_x(), h);
  for (auto it = v.begin_all(); it != v.end_all(); ++it) h = hpod(*it, h);
  return h;
}
static uint64_t harr(const Array<2, float>& a, uint64_t h)
{
  h = hpod(a.get_min_index(), h); h = hpod(a.get_max_index(), h);
  if (a.size() == 0) return h;
  for (int i = a.get_min_index(); i <= a.get_max_index(); ++i)
    {
      h = hpod(a[i].get_min_index(), h); h = hpod(a[i].get_max_index(), h);
      for (int j = a[i].get_min_index(); j <= a[i].get_max_index(); ++j) h = hpod(a[i][j], h);
    }
  return h;
}
// every private member that can influence a later result
static uint64_t hidden_state(const SingleScatterSimulation& s, bool ever_set_up)
{
  uint64_t h = 1469598103934665603ULL;
  h = hpod(s._already_set_up, h); h = hpod(s.use_cache, h); h = hpod(s.attenuation_threshold, h); h = hpod(s.randomly_place_scatter_points, h);
  h = hpod(s.zoom_xy, h); h = hpod(s.zoom_z, h); h = hpod(s.zoom_size_xy, h); h = hpod(s.zoom_size_z, h);
  const bool hasS = !is_null_ptr(s.density_image_for_scatter_points_sptr);
  h = hpod(hasS, h);
  if (hasS)
    {
      h = himg(*s.density_image_for_scatter_points_sptr, h);
      h = hpod(s.scatter_volume, h);
    }
  h = hpod(s.scatt_points_vector.size(), h);
  for (auto& p : s.scatt_points_vector) { h = hpod(p.coord[1], h); h = hpod(p.coord[2], h); h = hpod(p.coord[3], h); h = hpod(p.mu_value, h); }
  h = harr(s.cached_activity_integral_scattpoint_det, h);
  h = harr(s.cached_attenuation_integral_scattpoint_det, h);
  h = hpod(s.detection_points_vector.size(), h);
  for (auto& p : s.detection_points_vector) { h = hpod(p[1], h); h = hpod(p[2], h); h = hpod(p[3], h); }
  h = hpod(s.total_detectors, h); h = hpod(s.detector_efficiency_no_scatter, h);
  if (ever_set_up) { h = hpod(s.max_single_scatter_cos_angle, h); for (int i = 1; i <= 3; ++i) h = hpod(s.shift_detector_coordinates_to_origin[i], h); }
  return h;
}

struct Verdict
{
  std::string clause, detail, msg, canon; // clause empty: no oracle failure
  int cache_at_failure = -1;
  int at = -1; // index in the history of the operation at which the oracle failed (-1: initial state of phase 1)
  bool bad() const { return !clause.empty(); }
};

// Executes history h on a fresh real object + the reference model.  Stops at the first oracle failure.
static Verdict run_history(const World& w, int phase, const std::vector<int>& h, Fresh& fresh, vmc::Ctx* ctx)
{
  Verdict V;
  Cfg c; // configuration tuple of the model; initial: A1,D1,S1 (or derived),T1,E1,t1,cache on
  c.S = w.S0;
  bool valid = false, ever = false;
  int last_setter = -1;
  Out last; bool has_last = false;
  std::unique_ptr<SingleScatterSimulation> s;
  auto fail = [&](const std::string& clause, const std::string& detail, const std::string& msg) {
    V.clause = clause; V.detail = detail; V.msg = msg; V.cache_at_failure = c.cache; };
  // image objects owned by the caller of the simulation (private to this history) whose voxel values are updated in place
  shared_ptr<Vox> mutA(w.A[0]->clone()), mutD(w.Dn[0]->clone()), mutS(w.S[0]->clone());
  bool aM = false, dM = false, sM = false; // model: the last argument of the respective setter was the caller's mutable object
  auto overwrite = [](Vox& dest, const Vox& src) { std::copy(src.begin_all(), src.end_all(), dest.begin_all()); };
  try
    {
      if (w.ip) { s = make_sim(w, c, mutA, mutD, mutS); aM = dM = true; sM = c.S >= 0; }
      else s = make_sim(w, c);
    }
  catch (std::exception& e) { fail("unexpected_error", "op=initial_configuration", e.what()); return V; }
  auto do_setup = [&]() -> bool {
    std::string what;
    Succeeded r = Succeeded::yes;
    if (small::throws([&] { r = s->set_up(); }, &what))
      { // all inputs are present and mutually consistent: set_up has no documented reason to refuse
        fail("unexpected_error", "op=set_up", "set_up() threw: " + what.substr(0, 200));
        return false;
      }
    if (r != Succeeded::yes) { fail("unexpected_error", "op=set_up", "set_up() returned Succeeded::no"); return false; }
    valid = true; ever = true;
    return true;
  };
  auto do_compute = [&]() -> bool {
    if (ctx) ctx->count("computes_in_histories");
    if (cache_shape_hazard(*s))
      {
        const std::string fate = run_in_child(*s);
        fail("cache_enabled_after_set_up", "outcome=cache_arrays_not_allocated",
             "process_data() is accepted (_already_set_up is true) after set_use_cache(true) but the cache arrays have index range != (scatter points x detectors): "
             "out-of-range element access; " + fate);
        return false;
      }
    const Out o = compute(*s);
    const Out& ref = fresh.get(c);
    if (valid)
      {
        if (ctx) ctx->count("computes_compared_with_fresh");
        const std::string d = differ(o, ref);
        if (!d.empty())
          {
            fail("history_independence", "", "output after set_up differs from a freshly configured simulation with configuration " + c.str() + ": " + d);
            return false;
          }
        if (ctx && o.status == 0) { size_t nz = 0; for (float x : o.v) if (x != 0) ++nz; if (nz) ctx->count("computes_compared_with_nonzero_output"); }
      }
    else
      {
        if (o.status == 2) { if (ctx) ctx->count("computes_without_set_up_rejected_by_error"); }
        else
          {
            const std::string d = differ(o, ref);
            if (!d.empty())
              {
                fail("compute_without_set_up", "last_setter=" + (last_setter >= 0 ? kind_of(last_setter) : std::string("none")) + ";outcome=stale_result",
                     "process_data() without set_up() neither reported an error nor gave the result of the current configuration " + c.str() + ": " + d);
                return false;
              }
            if (ctx) ctx->count("computes_without_set_up_accepted_and_correct");
          }
      }
    last = o; has_last = true;
    return true;
  };
  // scatter_estimate(bin) for the bins of the fixed bin set in the given order; every value == that bin of the fresh object's process_data() output
  auto do_requests = [&](int order) -> bool {
    if (!valid || cache_shape_hazard(*s))
      { // the per-bin function has a debug-only "need to call set_up() first" check: not asked without a valid set-up
        if (ctx) ctx->count("per_bin_request_ops_skipped_set_up_not_valid");
        return true;
      }
    const Out& ref = fresh.get(c);
    const std::vector<Bin> bins = bins_in_read_order(*s->get_template_proj_data_info_sptr());
    if (ref.status != 0 || ref.v.size() != bins.size()) { if (ctx) ctx->count("per_bin_request_ops_skipped_no_fresh_reference"); return true; }
    double mx = 0; for (float x : ref.v) mx = std::max(mx, (double)std::fabs(x));
    if (ctx) ctx->count("per_bin_request_ops_in_histories");
    for (size_t k : requested_bins(bins.size(), order))
      {
        double x = 0; std::string what;
        if (small::throws([&] { x = static_cast<PerBinSim&>(*s).estimate_for_bin(bins[k]); }, &what))
          {
            fail("history_independence", "via=scatter_estimate_per_bin;outcome=error", "scatter_estimate(" + small::bin_str(bins[k]) + ") (bins asked in " + ORDER_NAME[order] + " order) after a valid set_up threw: " + what.substr(0, 200) + "; configuration " + c.str());
            return false;
          }
        const double y = ref.v[k], d = std::fabs(x - y), tol = 1e-5 * std::max(std::fabs(x), std::fabs(y)) + 1e-7 * mx;
        if (ctx) { ctx->count("per_bin_values_compared_with_fresh"); if (y != 0) ctx->count("per_bin_values_compared_with_fresh_nonzero"); }
        if (std::isnan(x) != std::isnan(y) || d > tol)
          {
            fail("history_independence", "via=scatter_estimate_per_bin",
                 "scatter_estimate(" + small::bin_str(bins[k]) + ") = " + vmc::str(x) + " (bins asked in " + ORDER_NAME[order] + " order) but a freshly configured simulation with configuration " + c.str() + " gives " + vmc::str(y) + " (max |fresh| " + vmc::str(mx) + ")");
            return false;
          }
      }
    return true;
  };
  if (phase == 1) { if (!do_setup() || !do_compute()) { V.detail += ";at=initial_state"; return V; } }
  if (phase == 2) { if (!do_setup() || !do_requests(1)) { V.detail += ";at=initial_state"; return V; } }
  for (size_t i = 0; i < h.size(); ++i)
    {
      const int op = h[i];
      std::string what;
      bool threw = false;
      V.at = (int)i;
      switch (op)
        {
        case 0: case 1: threw = small::throws([&] { s->set_activity_image_sptr(w.A[op - 0]); }, &what); c.A = op - 0; valid = false; aM = false; break;
        case 2: case 3: threw = small::throws([&] { s->set_density_image_sptr(w.Dn[op - 2]); }, &what); c.D = op - 2; c.S = -1; valid = false; dM = false; sM = false; break;
        case 4: case 5: threw = small::throws([&] { s->set_density_image_for_scatter_points_sptr(w.S[op - 4]); }, &what); c.S = op - 4; valid = false; sM = false; break;
        // the caller's object gets the voxel values of Xk in place and is handed over (again)
        case 16: case 17: overwrite(*mutA, *w.A[op - 16]); threw = small::throws([&] { s->set_activity_image_sptr(mutA); }, &what); c.A = op - 16; valid = false; if (aM && ctx) ctx->count("setter_calls_with_the_same_object_after_in_place_update"); aM = true; break;
        case 18: case 19: overwrite(*mutD, *w.Dn[op - 18]); threw = small::throws([&] { s->set_density_image_sptr(mutD); }, &what); c.D = op - 18; c.S = -1; valid = false; if (dM && ctx) ctx->count("setter_calls_with_the_same_object_after_in_place_update"); dM = true; sM = false; break;
        case 20: case 21: overwrite(*mutS, *w.S[op - 20]); threw = small::throws([&] { s->set_density_image_for_scatter_points_sptr(mutS); }, &what); c.S = op - 20; valid = false; if (sM && ctx) ctx->count("setter_calls_with_the_same_object_after_in_place_update"); sM = true; break;
        case 6: case 7: threw = small::throws([&] { s->set_template_proj_data_info(*w.T[op - 6]); }, &what); c.T = op - 6; valid = false; break;
        case 8: case 9: threw = small::throws([&] { s->set_exam_info(*w.E[op - 8]); }, &what); c.E = op - 8; valid = false; break;
        case 10: case 11: threw = small::throws([&] { s->set_attenuation_threshold(w.thr[op - 10]); }, &what); c.thr = op - 10; valid = false; break;
        case 12: case 13: threw = small::throws([&] { s->set_use_cache(op == 13); }, &what); c.cache = op - 12; valid = false; break; // like every setter: afterwards error() or the correct result
        case OP_SETUP: if (!do_setup()) return V; break;
        case OP_COMPUTE: if (!do_compute()) return V; break;
        case 22: case 23: case 24: if (!do_requests(op - OP_REQ)) return V; break;
        }
      if (is_setter(op))
        {
          last_setter = op;
          if (threw) { fail("unexpected_error", "op=" + kind_of(op), std::string(OPNAME[op]) + " threw: " + what.substr(0, 200)); return V; }
        }
    }
  V.canon = c.str() + "|v" + vmc::str(valid) + "|e" + vmc::str(ever) + "|" + vmc::str(hidden_state(*s, ever)) + "|" + (has_last ? vmc::str(last.hash()) : std::string("-"));
  if (w.ip) // which objects the simulation was given last / really holds is part of the state: "same object again" and "other object" are different futures
    V.canon += "|m" + vmc::str(aM) + vmc::str(dM) + vmc::str(sM) + vmc::str(s->activity_image_sptr.get() == mutA.get()) + vmc::str(s->density_image_sptr.get() == mutD.get());
  return V;
}

// greedy 1-minimal sub-history with the same failing clause
static std::vector<int> minimise(const World& w, int phase, std::vector<int> h, const std::string& clause, Fresh& fresh, Verdict& vmin)
{
  bool changed = true;
  while (changed)
    {
      changed = false;
      for (size_t i = 0; i < h.size(); ++i)
        {
          std::vector<int> g = h; g.erase(g.begin() + i);
          Verdict v = run_history(w, phase, g, fresh, nullptr);
          if (v.clause == clause) { h = g; vmin = v; changed = true; break; }
        }
    }
  return h;
}

struct Culprit { std::string clause; std::vector<int> setters; std::string key; };

static void run_H(vmc::Ctx& ctx, const World& w, int phase, int depth, uint64_t& unit, bool without_template_and_exam_info_ops = false)
{
  const bool replay = ctx.replaying();
  Fresh fresh(w);
  std::vector<Culprit> culprits;
  const std::string wname = "part=H;" + w.name() + ";phase=" + vmc::str(phase);
  auto setters_of = [](const std::vector<int>& h) { std::vector<int> s; for (int o : h) if (is_setter(o)) s.push_back(o); std::sort(s.begin(), s.end()); return s; };
  auto make_key = [&](const Verdict& v, const std::vector<int>& hmin) {
    std::string kinds; std::set<std::string> seen;
    for (int o : hmin) if (is_setter(o) && seen.insert(kind_of(o)).second) kinds += (kinds.empty() ? "" : "+") + kind_of(o);
    if (kinds.empty()) kinds = "none";
    std::string orders = phase == 2 ? "reverse(start)" : ""; // phase 2: the object was asked per bin in reverse order before the history starts
    for (int o = OP_REQ; o < NOPS_ALL; ++o) if (std::find(hmin.begin(), hmin.end(), o) != hmin.end()) orders += (orders.empty() ? "" : "+") + std::string(ORDER_NAME[o - OP_REQ]);
    return "clause=" + v.clause + (v.detail.empty() ? "" : ";" + v.detail) + ";setters=" + kinds + ";cache=" + vmc::str(v.cache_at_failure)
           + (orders.empty() ? "" : ";bins_asked_per_bin_in_order=" + orders);
  };
  // returns (key, case, msg) for a failing history: attributes it to a minimal failing sub-history
  std::function<void(const std::vector<int>&, const Verdict&)> report = [&](const std::vector<int>& h, const Verdict& v) {
    if (v.clause == "compute_without_set_up" && v.at >= 0)
      { // A stale result of a compute that follows "set_up; setters..." can be the consequence of a set_up that was already wrong:
        // if the same history WITHOUT the setters between the last set_up and the failing compute fails the (stronger) clause
        // history_independence, it is that failure which is reported (one key per root cause); otherwise the setters are to blame.
        std::vector<int> g(h.begin(), h.begin() + v.at + 1);
        int last_setup = -1;
        for (int i = 0; i < v.at; ++i) if (g[i] == OP_SETUP) last_setup = i;
        if (last_setup >= 0 || phase >= 1)
          {
            std::vector<int> g2;
            for (int i = 0; i <= v.at; ++i) if (i <= last_setup || !is_setter(g[i])) g2.push_back(g[i]);
            if (g2.size() < g.size())
              {
                const Verdict v2 = run_history(w, phase, g2, fresh, nullptr);
                if (v2.clause == "history_independence") { ctx.count("stale_results_attributed_to_the_preceding_set_up"); report(g2, v2); return; }
              }
          }
      }
    const std::vector<int> hs = setters_of(h);
    for (auto& cu : culprits)
      if (cu.clause == v.clause && std::includes(hs.begin(), hs.end(), cu.setters.begin(), cu.setters.end()))
        {
          ctx.violation(cu.key, wname + ";h=" + vmc::join(h), v.msg + "   history: " + hist_names(h));
          // the history contains the setters of an already reported minimal failing history.  It must not hide a second defect:
          // without those setters it has to pass, else the remainder is reported (and minimised) on its own.
          if (!cu.setters.empty())
            {
              std::vector<int> g;
              for (int o : h) if (!is_setter(o) || !std::binary_search(cu.setters.begin(), cu.setters.end(), o)) g.push_back(o);
              const Verdict vg = run_history(w, phase, g, fresh, nullptr);
              ctx.count("attributed_histories_rechecked_without_the_culprit_setters");
              if (vg.bad()) report(g, vg);
            }
          return;
        }
    Verdict vmin = v;
    const std::vector<int> hmin = minimise(w, phase, h, v.clause, fresh, vmin);
    Culprit cu; cu.clause = v.clause; cu.setters = setters_of(hmin); cu.key = make_key(vmin, hmin);
    if ((std::find_if(hmin.begin(), hmin.end(), is_in_place) != hmin.end() || std::find_if(hmin.begin(), hmin.end(), is_request) != hmin.end() || phase == 2) && vmin.cache_at_failure == 1)
      { // a minimal history with an in-place update (or with per-bin requests) that fails with the cache enabled: does the same history give the correct results once the
        // cache has been disabled (clause "the same with the line-integral cache enabled or disabled" broken as well) ?
        std::vector<int> g; g.push_back(12);
        if (std::find_if(hmin.begin(), hmin.end(), is_request) != hmin.end() || phase == 2) g.push_back(OP_SETUP); // per-bin requests are only made while the set-up is valid
        for (int o : hmin) if (o != 12 && o != 13) g.push_back(o);
        const Verdict vc = run_history(w, phase, g, fresh, nullptr);
        cu.key += vc.bad() ? ";same_history_with_cache_disabled=wrong_too" : ";same_history_with_cache_disabled=correct"; // correct: clause cache_independence is broken too
        vmin.msg += vc.bad() ? "   [the same history after set_use_cache(0) fails too: " + vc.clause + "]" : "   [the same history after set_use_cache(0) gives the correct result: cache enabled != cache disabled]";
      }
    if (w.g != 0 || w.zoom != 0 || w.tv != 0 || w.S0 != 0)
      { // the key names the world only if the same history does not fail in the base world (small scanner, explicit zoom factors and scatter-point image)
        static World base0 = make_world(0, 0, 0);
        static World base1 = [] { World b = make_world(0, 0, 0); b.ip = 1; return b; }();
        static Fresh base_fresh0(base0), base_fresh1(base1);
        const World& base = w.ip ? base1 : base0;
        Fresh& base_fresh = w.ip ? base_fresh1 : base_fresh0;
        const Verdict vb = run_history(base, phase, hmin, base_fresh, nullptr);
        if (vb.clause != v.clause)
          cu.key += std::string(";world=") + (w.g ? "larger_scanner," : "") + (w.zoom ? "default_zoom_factors," : "") + (w.tv ? "T2_with_other_detector_count," : "") + (w.S0 < 0 ? "derived_scatter_point_image" : "explicit_scatter_point_image");
      }
    culprits.push_back(cu);
    ctx.violation(cu.key, wname + ";h=" + vmc::join(hmin), vmin.msg + "   history (minimised from: " + hist_names(h) + "): " + hist_names(hmin));
  };
  if (replay)
    {
      auto m = vmc::kv(ctx.replay);
      if (m["part"] != "H" || atoi(m["g"].c_str()) != w.g || atoi(m["zoom"].c_str()) != w.zoom || atoi(m["tv"].c_str()) != w.tv || atoi(m["s0"].c_str()) != w.S0 || atoi(m["ip"].c_str()) != w.ip || atoi(m["ord"].c_str()) != w.ord || atoi(m["phase"].c_str()) != phase) return;
      const std::vector<int> h = vmc::ints(m["h"]);
      fprintf(stderr, "replaying %s history: %s\n", wname.c_str(), hist_names(h).c_str());
      ctx.current(wname, wname + ";h=" + vmc::join(h));
      Verdict v = run_history(w, phase, h, fresh, &ctx);
      check_rand(ctx, wname + ";h=" + vmc::join(h));
      if (v.bad()) report(h, v);
      return;
    }
  std::vector<int> alpha; // the alphabet of this world: operation codes as in OPNAME (histories and case strings hold operation codes)
  for (int op = 0; op < NOPS_ALL; ++op)
    {
      if (is_in_place(op) && !w.ip) continue;
      if (is_request(op) && !w.ord) continue;
      if (w.ord && (op == 6 || op == 7)) continue; // request-order worlds: one template (the bin set is the same throughout)
      if (!(without_template_and_exam_info_ops && op >= 6 && op <= 9)) alpha.push_back(op);
    }
  const int nops = (int)alpha.size();
  for (int first : alpha)
    {
      struct Next { uint64_t& u; ~Next() { ++u; } } next{ unit };
      if (!ctx.mine(unit)) continue;
      if (ctx.expired()) return;
      vmc::HistSearch hs;
      hs.nops = nops; hs.max_depth = depth - 1;
      hs.expired = [&] { return ctx.expired(); };
      hs.build = [&](const std::vector<int>& tail, std::string& ek, std::string& em) -> std::string {
        std::vector<int> h; h.push_back(first); for (int t : tail) h.push_back(alpha[t]);
        ctx.current(wname, wname + ";h=" + vmc::join(h));
        Verdict v = run_history(w, phase, h, fresh, &ctx);
        check_rand(ctx, wname + ";h=" + vmc::join(h));
        if (v.bad()) { report(h, v); ek = v.clause; em = v.msg; return ""; }
        return v.canon;
      };
      hs.on_violation = [&](const std::vector<int>&, const std::string&, const std::string&) {}; // reported (minimised) in build
      hs.on_state = [&](const std::vector<int>& tail, const std::string& c) {
        ctx.digest(c);
        if ((int)tail.size() + 1 == depth && ctx.samples.size() < 4 && c.find("|v1|") != std::string::npos && c.back() != '-')
          { std::vector<int> h; h.push_back(first); for (int t : tail) h.push_back(alpha[t]); ctx.sample(wname + ": " + hist_names(h) + " => " + c); }
      };
      const vmc::HistResult r = hs.run();
      ctx.count("states", r.states);
      ctx.count("transitions", r.transitions + 1);
      ctx.count("traces_validated_against_impl", r.executions);
      if (!r.complete) ctx.exhaustive = false;
      else ctx.maxi("depth_completed_" + std::string("g") + vmc::str(w.g) + "zoom" + vmc::str(w.zoom) + "tv" + vmc::str(w.tv) + "s0" + (w.S0 < 0 ? std::string("auto") : std::string("S1")) + (w.ip ? "inplace" : "") + (w.ord ? "order" : "") + "phase" + vmc::str(phase), depth);
    }
  ctx.count("fresh_configurations_computed", fresh.computed);
  ctx.maxi("alphabet_size", nops);
}

// ------------------------------------------------------------------------------------------------ part E
struct ECase { int g, D, S, T, E, thr; };

static void run_E(vmc::Ctx& ctx, const World& w, const ECase& e)
{
  const std::string kase = "part=E;g=" + vmc::str(e.g) + ";D=" + vmc::str(e.D) + ";S=" + vmc::str(e.S) + ";T=" + vmc::str(e.T) + ";E=" + vmc::str(e.E) + ";thr=" + vmc::str(e.thr);
  ctx.current("part=E", kase);
  ctx.count("evaluations");
  Cfg c; c.D = e.D; c.S = e.S; c.T = e.T; c.E = e.E; c.thr = e.thr; c.cache = 1;
  const std::string cls = ";att=D" + vmc::str(e.D + 1) + ";scatter_image=" + (e.S < 0 ? std::string("auto") : std::string("explicit"));
  auto run = [&](const shared_ptr<const Vox>& act, int cache, std::unique_ptr<SingleScatterSimulation>* keep = nullptr) -> Out {
    Cfg cc = c; cc.cache = cache;
    Out o;
    try
      {
        auto s = make_sim(w, cc, act);
        s->set_up();
        o = compute(*s);
        if (keep) *keep = std::move(s);
      }
    catch (std::exception& ex) { o = Out(); o.status = 2; o.what = ex.what(); }
    ctx.count("computes_E");
    return o;
  };
  // ---- zero activity
  shared_ptr<Vox> zero = grid(NZ, HALF, VZ, VXY);
  const Out o0 = run(zero, 1);
  if (o0.status != 0)
    { // STIR refuses this configuration (or does not reach all detectors): recorded, not a failure
      ctx.count("rejected_configs");
      ctx.observe("configuration " + kase + " not computed: status " + vmc::str(o0.status) + " " + o0.what.substr(0, 160));
      return;
    }
  for (size_t b = 0; b < o0.v.size(); ++b)
    if (o0.v[b] != 0.F) { ctx.violation("clause=zero_for_zero_activity" + cls, kase, "bin #" + vmc::str(b) + " = " + vmc::str(o0.v[b]) + " for an all-zero activity image"); break; }
  const size_t nb = o0.v.size();
  // ---- basis: every unit voxel (cache on for even voxel numbers, off for odd ones)
  const size_t nvox = (size_t)NZ * 7 * 7;
  std::vector<std::vector<float>> basis(nvox);
  {
    size_t j = 0;
    for (int z = 0; z < NZ; ++z)
      for (int y = -HALF; y <= HALF; ++y)
        for (int x = -HALF; x <= HALF; ++x, ++j)
          {
            shared_ptr<Vox> ej = grid(NZ, HALF, VZ, VXY);
            (*ej)[z][y][x] = 1.F;
            const Out o = run(ej, (int)(j % 2 == 0));
            if (o.status != 0 || o.v.size() != nb) { ctx.violation("clause=unexpected_error;op=compute_unit_voxel" + cls, kase, "unit voxel " + vmc::str(j) + ": status " + vmc::str(o.status) + " " + o.what.substr(0, 160)); return; }
            basis[j] = o.v;
            bool nonzero = false;
            for (float v : o.v) { if (v < 0.F || std::isnan(v)) { ctx.violation("clause=non_negative" + cls, kase, "unit voxel " + vmc::str(j) + " gives bin value " + vmc::str(v)); break; } if (v != 0.F) nonzero = true; }
            if (nonzero) { ctx.count("unit_voxels_with_nonzero_scatter"); ctx.nontrivial(kase + ";vox=" + vmc::str(j)); }
          }
  }
  // ---- superpositions
  struct Act { std::string name; shared_ptr<Vox> im; };
  std::vector<Act> acts;
  { Act a{ "uniform", grid(NZ, HALF, VZ, VXY) }; a.im->fill(1.F); acts.push_back(a); }
  { Act a{ "ramp", grid(NZ, HALF, VZ, VXY) }; int k = 0; for (auto it = a.im->begin_all(); it != a.im->end_all(); ++it) *it = float(1 + (k++ * 11) % 13); acts.push_back(a); }
  acts.push_back({ "A1", w.A[0] });
  acts.push_back({ "A2", w.A[1] });
  { Act a{ "2.5*unit", grid(NZ, HALF, VZ, VXY) }; (*a.im)[2][0][0] = 2.5F; acts.push_back(a); }
  { Act a{ "0.5*uniform", grid(NZ, HALF, VZ, VXY) }; a.im->fill(0.5F); acts.push_back(a); }
  for (int p = 0; p < 8; ++p)
    { // pairs of unit voxels: neighbours in x, y, z and far apart
      static const int P[8][6] = { { 2, 0, 0, 2, 0, 1 }, { 2, 0, 0, 2, 1, 0 }, { 2, 0, 0, 3, 0, 0 }, { 0, -3, -3, 4, 3, 3 }, { 2, -1, 1, 2, 1, -1 }, { 1, 2, 2, 3, -2, -2 }, { 0, 0, 0, 4, 0, 0 }, { 2, -3, 0, 2, 3, 0 } };
      Act a{ "pair" + vmc::str(p), grid(NZ, HALF, VZ, VXY) };
      (*a.im)[P[p][0]][P[p][1]][P[p][2]] = 1.F; (*a.im)[P[p][3]][P[p][4]][P[p][5]] = 3.F;
      acts.push_back(a);
    }
  const double eps = 1.1920929e-7;
  // two objects (cache off / on) that live as long as the configuration: their activity image object `upd` belongs to the caller, is overwritten
  // in place with each superposition and handed over again through set_activity_image_sptr(same pointer); first compute: zero activity
  shared_ptr<Vox> upd = grid(NZ, HALF, VZ, VXY);
  std::unique_ptr<SingleScatterSimulation> reused[2];
  Out reused_prev[2];
  for (int cache = 0; cache < 2; ++cache)
    {
      run(upd, cache, &reused[cache]);
      if (reused[cache]) reused_prev[cache] = compute(*reused[cache]);
    }
  // two more long-lived objects (cache off / on) with an activity image object of their own, treated in the same way, that are additionally asked per bin
  // (scatter_estimate(bin) over the fixed bin set) in an order that changes from superposition to superposition, before and after process_data()
  shared_ptr<Vox> upd_ord = grid(NZ, HALF, VZ, VXY);
  std::unique_ptr<SingleScatterSimulation> reused_ord[2];
  for (int cache = 0; cache < 2; ++cache) run(upd_ord, cache, &reused_ord[cache]); // set_up + process_data: detectors numbered in the order of process_data
  const std::vector<Bin> ebins = bins_in_read_order(*w.T[e.T]);
  // asks the bins of the bin set in this order; returns "" or the first difference to `ref` (output of a fresh object)
  auto ask_per_bin = [&](SingleScatterSimulation& s, int order, const Out& ref) -> std::string {
    if (ref.status != 0 || ref.v.size() != ebins.size()) return "";
    double mx = 0; for (float x : ref.v) mx = std::max(mx, (double)std::fabs(x));
    for (size_t k : requested_bins(ebins.size(), order))
      {
        double x = 0; std::string what;
        if (small::throws([&] { x = static_cast<PerBinSim&>(s).estimate_for_bin(ebins[k]); }, &what)) return "scatter_estimate(" + small::bin_str(ebins[k]) + ") threw: " + what.substr(0, 160);
        const double y = ref.v[k], tol = 1e-5 * std::max(std::fabs(x), std::fabs(y)) + 1e-7 * mx;
        ctx.count("per_bin_values_compared_with_fresh"); if (y != 0) ctx.count("per_bin_values_compared_with_fresh_nonzero");
        if (std::isnan(x) != std::isnan(y) || std::fabs(x - y) > tol)
          return "scatter_estimate(" + small::bin_str(ebins[k]) + ") = " + vmc::str(x) + " (bins asked in " + ORDER_NAME[order] + " order) vs " + vmc::str(y) + " (max |fresh| " + vmc::str(mx) + ")";
      }
    return "";
  };
  for (auto& a : acts)
    {
      std::unique_ptr<SingleScatterSimulation> s_on, s_off;
      const Out on = run(a.im, 1, &s_on), off = run(a.im, 0, &s_off);
      if (on.status != 0 || off.status != 0 || on.v.size() != nb) { ctx.violation("clause=unexpected_error;op=compute" + cls, kase, a.name + ": status " + vmc::str(on.status) + "/" + vmc::str(off.status) + " " + on.what.substr(0, 100) + off.what.substr(0, 100)); continue; }
      ctx.count("superpositions_checked");
      const std::string d = differ(off, on);
      if (!d.empty()) ctx.violation("clause=cache_independence" + cls, kase, "activity " + a.name + ": cache disabled vs enabled: " + d);
      // ---- the long-lived objects: same image object with new voxel values, same pointer set again, set_up, compute == fresh object
      std::copy(a.im->begin_all(), a.im->end_all(), upd->begin_all());
      for (int cache = 1; cache >= 0; --cache)
        {
          if (!reused[cache]) continue;
          Out o;
          try
            {
              reused[cache]->set_activity_image_sptr(upd);
              reused[cache]->set_up();
              o = compute(*reused[cache]);
            }
          catch (std::exception& ex) { o = Out(); o.status = 2; o.what = ex.what(); }
          ctx.count("computes_E");
          ctx.count("in_place_activity_updates_compared_with_fresh");
          const std::string dr = differ(o, cache ? on : off);
          if (!dr.empty())
            ctx.violation("clause=history_independence;via=activity_image_updated_in_place_and_set_again;cache=" + vmc::str(cache) + cls, kase,
                          "object re-used with its activity image object overwritten in place by '" + a.name + "' (same pointer passed to set_activity_image_sptr again; set_up; process_data) "
                          "vs freshly configured object: " + dr);
          if (o.status == 0 && !differ(o, reused_prev[cache]).empty())
            { ctx.count("in_place_activity_updates_that_changed_the_output"); ctx.nontrivial(kase + ";reused;cache=" + vmc::str(cache) + ";act=" + a.name); }
          reused_prev[cache] = o;
        }
      // ---- the long-lived objects that are also asked per bin: order (i mod 3) before process_data(), order (i+1 mod 3) after it
      std::copy(a.im->begin_all(), a.im->end_all(), upd_ord->begin_all());
      for (int cache = 1; cache >= 0; --cache)
        {
          if (!reused_ord[cache]) continue;
          const int i = int(&a - &acts[0]);
          const Out& ref = cache ? on : off;
          std::string dr, where;
          Out o;
          try
            {
              reused_ord[cache]->set_activity_image_sptr(upd_ord);
              reused_ord[cache]->set_up();
              dr = ask_per_bin(*reused_ord[cache], i % 3, ref); where = "per-bin requests before process_data()";
              if (dr.empty())
                {
                  o = compute(*reused_ord[cache]);
                  dr = differ(o, ref); where = std::string("process_data() after per-bin requests in ") + ORDER_NAME[i % 3] + " order";
                }
              if (dr.empty()) { dr = ask_per_bin(*reused_ord[cache], (i + 1) % 3, ref); where = "per-bin requests after process_data()"; }
            }
          catch (std::exception& ex) { dr = std::string("error: ") + ex.what(); where = "set_activity_image_sptr/set_up"; }
          ctx.count("computes_E");
          ctx.count("re_used_objects_asked_per_bin_compared_with_fresh");
          if (!dr.empty())
            ctx.violation("clause=history_independence;via=scatter_estimate_per_bin_on_re_used_object;cache=" + vmc::str(cache) + cls, kase,
                          "object re-used over the superpositions (activity image object overwritten in place by '" + a.name + "', same pointer set again, set_up) and asked per bin "
                          "in an order changing from superposition to superposition vs freshly configured object: " + where + ": " + dr
);
          else if (o.status == 0) ctx.nontrivial(kase + ";reused_per_bin;cache=" + vmc::str(cache) + ";act=" + a.name);
        }
      // linearity against the basis (reference sum in double)
      const std::vector<double> x = small::flat(*a.im);
      size_t nonzero_bins = 0;
      for (size_t b = 0; b < nb; ++b)
        {
          double ref = 0, sabs = 0;
          for (size_t j = 0; j < nvox; ++j) if (x[j] != 0) { ref += x[j] * basis[j][b]; sabs += std::fabs(x[j] * basis[j][b]); }
          const double tol = 100 * eps * sabs + 1e-30;
          if (on.v[b] != 0.F) ++nonzero_bins;
          if (!(std::fabs(on.v[b] - ref) <= tol))
            { ctx.violation("clause=linear_in_activity" + cls, kase, "activity " + a.name + " bin #" + vmc::str(b) + ": " + vmc::str(on.v[b]) + " but sum over unit voxels " + vmc::str(ref) + " (tolerance " + vmc::str(tol) + ")"); break; }
          if (on.v[b] < 0.F || off.v[b] < 0.F) { ctx.violation("clause=non_negative" + cls, kase, "activity " + a.name + " bin #" + vmc::str(b) + " = " + vmc::str(on.v[b])); break; }
        }
      ctx.count("bins_checked_linear", (long long)nb);
      ctx.count("bins_nonzero", (long long)nonzero_bins);
      if (nonzero_bins * 4 < nb) ctx.count("superpositions_with_less_than_quarter_nonzero_bins");
      ctx.maxi("scatter_points_max", s_on->get_num_scatter_points());
      if (s_on->get_num_scatter_points() == 0) ctx.count("configs_without_scatter_points");
      // ---- detector pairs (first three activities only: the per-pair function is activity independent in structure)
      if (&a - &acts[0] >= 3) continue;
      for (SingleScatterSimulation* s : { s_on.get(), s_off.get() })
        {
          const int ndet = s->total_detectors;
          if ((int)s->detection_points_vector.size() != ndet) { ctx.observe("not all detectors reached by the template in " + kase); continue; }
          for (int i = 0; i < ndet; ++i)
            for (int j = i + 1; j < ndet; ++j)
              {
                const auto& pa = s->detection_points_vector[i]; const auto& pb = s->detection_points_vector[j];
                if (pa[2] == pb[2] && pa[3] == pb[3]) { ctx.count("pairs_skipped_same_transaxial_position"); continue; } // not a LOR through the FOV: STIR's normalisation divides by cos(90 deg)
                double ab = 0, ba = 0;
                s->actual_scatter_estimate(ab, (unsigned)i, (unsigned)j);
                s->actual_scatter_estimate(ba, (unsigned)j, (unsigned)i);
                ctx.count("detector_pairs_checked");
                if (ab != 0) ctx.count("detector_pairs_nonzero");
                if (std::isnan(ab) || std::isnan(ba) || !(std::fabs(ab - ba) <= 1e-5 * std::max(std::fabs(ab), std::fabs(ba))))
                  { ctx.violation("clause=detector_exchange" + cls + ";cache=" + vmc::str(s == s_on.get()), kase, "activity " + a.name + " detectors #" + vmc::str(i) + ",#" + vmc::str(j) + ": estimate(A,B)=" + vmc::str(ab) + " estimate(B,A)=" + vmc::str(ba)); goto pairs_done; }
                if (ab < 0) { ctx.violation("clause=non_negative" + cls, kase, "pair estimate " + vmc::str(ab)); goto pairs_done; }
              }
          { // every output bin is the per-pair estimate of the pair STIR assigns to the bin
            const Out& o = s == s_on.get() ? on : off;
            const std::vector<Bin> bins = bins_in_read_order(*s->get_template_proj_data_info_sptr());
            for (size_t b = 0; b < bins.size() && b < nb; ++b)
              {
                unsigned A = 0, B = 0; double ab = 0, ba = 0;
                s->find_detectors(A, B, bins[b]);
                s->actual_scatter_estimate(ab, A, B); s->actual_scatter_estimate(ba, B, A);
                ctx.count("bins_checked_against_pair_function");
                if (!(std::fabs(o.v[b] - ab) <= 1e-5 * std::fabs(ab) + 1e-30) || !(std::fabs(o.v[b] - ba) <= 1e-5 * std::fabs(ba) + 1e-30))
                  { ctx.violation("clause=detector_exchange;via=process_data" + cls, kase, "activity " + a.name + " bin " + small::bin_str(bins[b]) + " = " + vmc::str(o.v[b]) + " but estimate(A,B)=" + vmc::str(ab) + " estimate(B,A)=" + vmc::str(ba)); break; }
              }
          }
        pairs_done:;
        }
    }
  ctx.digest(kase + vmc::str(o0.hash()));
  { uint64_t hh = 0; for (auto& bv : basis) hh = vmc::fnv(bv.data(), bv.size() * sizeof(float), hh + 1); ctx.digest(vmc::str(hh)); }
  check_rand(ctx, kase);
  ctx.sample(kase + ": " + vmc::str(nb) + " bins, basis of " + vmc::str(nvox) + " unit voxels, " + vmc::str(acts.size()) + " superpositions");
}

// ------------------------------------------------------------------------------------------------ main
int main(int argc, char** argv)
{
  vmc::Ctx ctx(argc, argv, "C16");
  small::quiet();
  // STIR prints every error() text to stderr; histories ask for thousands of (expected) errors
  int saved_err = -1;
  if (!getenv("C16_VERBOSE")) { fflush(stderr); saved_err = dup(2); int nul = open("/dev/null", O_WRONLY); if (nul >= 0) { dup2(nul, 2); close(nul); } }
  ctx.rule = "E: one evaluation = one configuration (geometry, attenuation, scatter-point image, template, energy window, threshold) with the outputs for every unit "
             "voxel, 14 superpositions (cache on and off) and all detector pairs; non-trivial = a unit voxel that gives non-zero scatter. "
             "H: explicit-state BFS over setter/set_up/compute histories replayed on fresh SingleScatterSimulation objects; state = configuration tuple + set-up flag + "
             "hash of all private members that influence later results + last output; every compute compared with a freshly configured object. "
             "In-place worlds: the images given to the simulation are caller-owned objects and the alphabet also has 'overwrite the voxel values of that object in place and call the "
             "setter again with the same shared_ptr' for the activity, attenuation and scatter-point image (state additionally: which objects the simulation was given / holds); "
             "E also re-uses one object per cache setting over all superpositions with its activity image object overwritten in place and set again (non-trivial = the update changed the output). "
             "Request order: 2 request-order worlds (start: set up + process_data, or set up + asked per bin in reverse order) whose alphabet has scatter_estimate(bin) over a fixed set of ~10 bins "
             "in forward, reverse and interleaved order (each value == the fresh object's bin; state includes the lazily numbered detection points and the caches indexed by them); "
             "E re-uses two more objects (cache on/off) per configuration that are asked per bin in a changing order before and after process_data()";
  ctx.assume("history vs fresh and cache on vs off: every bin within 1e-5 relative (+1e-7 of the largest bin)");
  ctx.assume("estimate(A,B) vs estimate(B,A): 1e-5 relative; pairs of detectors at the same transaxial position (different rings) are skipped: STIR's normalisation is 1/cos(90 deg) for them");
  ctx.assume("linearity: |out(x) - sum_j x_j out(e_j)| <= 100*eps_float*sum_j|x_j out(e_j)| per bin (float line integrals of <= 15 terms, reference sum in double)");
  ctx.assume("zero activity must give exactly 0; non-negativity is demanded for non-negative activity and attenuation images only");
  ctx.assume("a fresh simulation is configured in parameter-file order: threshold, cache switch, zoom factors, template, exam info, activity, attenuation, scatter-point image");
  ctx.assume("set_density_image_sptr() discards an explicit scatter-point image (as the code documents): the configuration then says 'derived from the attenuation image at set_up'");
  ctx.assume("compute without set_up after a setter: error() or the correct result are both accepted (process_data() documents 'need to call set_up() first')");
  ctx.assume("an image object is modified in place only immediately before it is passed to its setter again (what a simulation shows between an in-place change and the setter call is not specified and not tested)");
  ctx.assume("scatter_estimate(bin) (protected, per bin) is asked only while the set-up is valid (its 'need to call set_up() first' check is debug-only); per-bin value vs bin of the fresh object's process_data() output: 1e-5 relative (+1e-7 of the largest bin)");
  ctx.assume("randomly_place_scatter_points is off everywhere (rand()/srand() are interposed and must not be called)");
  const bool th = ctx.thorough();
  uint64_t unit = 0;
  std::map<std::string, std::string> rk = ctx.replaying() ? vmc::kv(ctx.replay) : std::map<std::string, std::string>();

  // ---- part E
  for (int g = 0; g < 2; ++g)
    {
      World w = make_world(g, 0, 0);
      for (int D = 0; D < 3; ++D)
        for (int S = -1; S < 2; ++S)
          for (int T = 0; T < 2; ++T)
            for (int E = 0; E < 2; ++E)
              for (int t = 0; t < 2; ++t)
                {
                  if (g == 1 && !th && !(D == 1 && S <= 0 && T == 0 && t == 0)) continue; // quick: 4 configurations of the larger scanner
                  const ECase e{ g, D, S, T, E, t };
                  if (ctx.replaying())
                    {
                      if (rk["part"] != "E" || atoi(rk["g"].c_str()) != g || atoi(rk["D"].c_str()) != D || atoi(rk["S"].c_str()) != S || atoi(rk["T"].c_str()) != T || atoi(rk["E"].c_str()) != E || atoi(rk["thr"].c_str()) != t) continue;
                    }
                  else
                    {
                      if (!ctx.mine(unit++)) continue;
                      if (ctx.expired()) goto done;
                    }
                  run_E(ctx, w, e);
                }
      ctx.maxi("E_geometry_families_completed", g + 1);
    }
  // ---- part H
  {
    struct HW { int g, zoom, tv, S0, phase, depth_quick, depth_thorough, ip, ord; };
    // quick tier: the in-place world has 18 operations (no set_template_proj_data_info / set_exam_info; all 22 in the thorough tier)
    const HW hws[] = { { 0, 0, 0, 0, 1, 5, 6 },   // caches filled by a first compute
                       { 0, 0, 0, 0, 0, 5, 6 },   // configured, never set up
                       { 0, 1, 0, -1, 1, 4, 5 },  // STIR's default zoom factors, scatter-point image derived from the attenuation image
                       { 0, 0, 0, -1, 1, 4, 5 },  // explicit zoom factors, derived scatter-point image
                       { 0, 0, 1, 0, 1, 4, 5 },   // T2 has another number of detectors
                       { 1, 0, 0, 0, 1, 0, 5 },   // larger scanner
                       { 1, 0, 0, 0, 0, 0, 4 },
                       // in-place worlds: caller-owned image objects, 22 operations (the 16 above + in-place update and setter call with the same object)
                       { 0, 0, 0, 0, 1, 4, 5, 1 },   // caches filled by a first compute
                       { 0, 0, 0, -1, 1, 0, 5, 1 },  // derived scatter-point image
                       { 0, 0, 0, 0, 0, 0, 5, 1 },   // configured, never set up
                       { 1, 0, 0, 0, 1, 0, 4, 1 },   // larger scanner
                       // request-order worlds: 17 operations (the 16 above without the template setters + scatter_estimate per bin over the bin set in 3 orders)
                       { 0, 0, 0, 0, 1, 4, 4, 0, 1 },   // set up and asked through process_data(): detectors numbered in its order, caches filled
                       { 0, 0, 0, 0, 2, 4, 4, 0, 1 } }; // set up and asked per bin in reverse order: detectors numbered in that order, caches partly filled
    for (const HW& hw : hws)
      {
        const int depth = th ? hw.depth_thorough : hw.depth_quick;
        if (depth <= 0 && !ctx.replaying()) continue;
        World w = make_world(hw.g, hw.zoom, hw.tv);
        w.S0 = hw.S0; w.ip = hw.ip; w.ord = hw.ord;
        run_H(ctx, w, hw.phase, depth, unit, hw.ip && !th);
        if (!ctx.replaying() && ctx.expired()) goto done;
      }
  }
done:
  if (saved_err >= 0) { fflush(stderr); dup2(saved_err, 2); close(saved_err); }
  return ctx.finish();
}
