// C07 - OSMAPOSL sub-iterations follow the EM / one-step-late update and are restartable.
//
// World: small cylindrical scanners with an explicit system matrix P (ray tracing, all symmetries off, no cache; z clipped as the
// projectors do).  The reconstruction itself runs the REAL OSMAPOSLReconstruction::reconstruct() loop with the real
// PoissonLogLikelihoodWithLinearModelForMeanAndProjData (default: all symmetries + cache); a derived class only copies the
// estimate after every end_of_iteration_processing().
//
// Per configuration (geometry x num_subsets x additive x normalisation x prior/MAP model x filters x start image x data x
// enforce_initial_positivity x relative-change clamps x use_subset_sensitivities x start_subset x projector symmetries):
//   history  : uninterrupted run U of K = 3*num_subsets sub-iterations; for EVERY k in 1..K-1 a FRESH objective function +
//              reconstruction object started with start_subiteration_num = k+1 from the image after sub-iteration k
//              (in memory; "files" mode: through the Interfile files that end_of_iteration_processing saves), run to K.
//   per step : (no filter) U_k == reference step(U_{k-1}) on explicit P in double:
//                 q_b = min(y_b / ((P l)_b + a_b), 10000), 0 where y_b = 0            (divide_and_truncate, documented cap)
//                 no prior : l' = l * P_S^T q / s_S, 0 where s_S = 0
//                 prior    : one step late, denominator clamp(s_S + grad/N, s_S/10, 10 s_S) (additive) or
//                            s_S * clamp(1 + grad, 0.1, 10) (multiplicative); quotient 0 where numerator and denominator are both
//                            below 1e-6*max(numerator) (documented in divide()); grad = the prior's own compute_gradient (C09)
//                 sub-iteration != 1: multiplicative update clamped to [minimum, maximum relative change]
//              l >= 0 and finite after every sub-iteration (all configurations, also with filters);
//              one subset, no prior/filter: log-likelihood (reference AND STIR's own value) non-decreasing;
//              one subset, no additive term, no prior/filter: sum_j s_j l_j == sum_b y_b after every update.
//   restart  : all images of the resumed run == those of the uninterrupted run (bitwise; see assumptions for the one weakening).
// Switched histories (run_switch): the SAME objective function + reconstruction objects run k sub-iterations with configuration A, then
//   setters change them to configuration B (use_subset_sensitivities, num_subsets, recompute_sensitivity, prior + MAP model,
//   normalisation), set_up() again, continue from the image after sub-iteration k: every (A, B) of the switch alphabet x every k;
//   each continued sub-iteration == update formula of B, and == the run of freshly built objects of B resumed from the same image.
#include "vmc.h"
#include "stir_small.h"
#include "ref_recon.h"
#include "stir/OSMAPOSL/OSMAPOSLReconstruction.h"

using namespace stir;
using namespace rr;

static const Geom GEOMS[] = {
  { 8, 1, 1, 0, 1, 5 },   // 2D: 4 views x 4 tangential positions, image 1x5x5
  { 12, 2, 1, 1, 3, 7 },  // 3 segments, 6 views, image 3x7x7
  { 16, 2, 3, 1, 3, 9 },  // span 3 (thorough)
  { 12, 3, 1, 2, 5, 5 },  // 5 segments (thorough)
};
static std::map<int, shared_ptr<World>> g_worlds;
// one world per (geometry, projector symmetries on/off): the explicit P is taken from the matrix as the reconstruction uses it
static World& world(int gi, int sym)
{
  const int key = gi * 2 + (sym ? 1 : 0);
  auto it = g_worlds.find(key);
  if (it == g_worlds.end()) it = g_worlds.emplace(key, make_world(GEOMS[gi], sym ? 1 : 0)).first;
  return *it->second;
}

struct Cfg
{
  int g = 0, N = 1, add = 0, norm = 0, prior = 0, map = 0, iuf = 0, iif = 0, start = 0, data = 0;
  int pos = 1, rc = 0, uss = 1, ss = 0, sym = 1, files = 0;
};
static const char* CFG_KEYS[] = { "g", "N", "add", "norm", "prior", "map", "iuf", "iif", "start", "data", "pos", "rc", "uss", "ss", "sym", "files" };
static int* cfg_field(Cfg& c, int i)
{
  int* f[] = { &c.g, &c.N, &c.add, &c.norm, &c.prior, &c.map, &c.iuf, &c.iif, &c.start, &c.data, &c.pos, &c.rc, &c.uss, &c.ss, &c.sym, &c.files };
  return f[i];
}
static std::string cfg_str(const Cfg& c)
{
  std::string s; Cfg cc = c;
  for (int i = 0; i < 16; ++i) s += (i ? ";" : "") + std::string(CFG_KEYS[i]) + "=" + vmc::str(*cfg_field(cc, i));
  return s;
}
static Cfg cfg_parse(const std::string& str)
{
  Cfg c; auto m = vmc::kv(str);
  for (int i = 0; i < 16; ++i) if (m.count(CFG_KEYS[i])) *cfg_field(c, i) = atoi(m[CFG_KEYS[i]].c_str());
  return c;
}
// what a maintainer needs to tell defects apart
static std::string cfg_class(const Cfg& c)
{
  return std::string("prior=") + (c.prior == 0 ? "none" : c.prior == 3 ? "RDP" : "quadratic") + (c.prior ? (c.map ? ",multiplicative" : ",additive") : "")
         + ";filters=" + vmc::str(c.iuf) + vmc::str(c.iif) + ";subsets=" + (c.N > 1 ? "many" : "1");
}

typedef Recording<OSMAPOSLReconstruction<Target>> Recon;

static void configure(Recon& r, const Cfg& c, const Built& b, int K, int k0, const std::string& prefix, bool write_files)
{
  r.set_objective_function_sptr(b.obj);
  r.set_num_subsets(c.N);
  r.set_num_subiterations(K);
  r.set_start_subiteration_num(k0);
  r.set_start_subset_num(c.ss);
  r.set_save_interval(write_files ? 1 : K);
  r.set_disable_output(!write_files);
  r.set_output_filename_prefix(prefix);
  r.set_enforce_initial_positivity(c.pos != 0);
  if (c.prior) r.set_MAP_model(c.map ? "multiplicative" : "additive");
  if (c.iuf) { r.set_inter_update_filter_ptr(make_gaussian()); r.set_inter_update_filter_interval(2); }
  if (c.iif) { r.set_inter_iteration_filter_ptr(make_gaussian()); r.set_inter_iteration_filter_interval(2); }
  if (c.rc) { r.set_minimum_relative_change(0.5); r.set_maximum_relative_change(2.0); }
}

// threshold_min_to_small_positive_value as documented (float arithmetic)
static void model_initial_positivity(std::vector<float>& v, float small_number)
{
  float mp = 0; bool any = false;
  for (float x : v) if (x > 0 && (!any || x < mp)) { mp = x; any = true; }
  if (any) { const float t = mp * small_number; for (float& x : v) if (t > x) x = t; }
  else for (float& x : v) x = small_number;
}

struct StepInfo { bool capped = false, tie = false; };
// reference sub-iteration on subset S (double)
static std::vector<double> ref_step(const World& w, const Model& m, const Cfg& c, const std::vector<int>& subset_of, int S, int k,
                                    const std::vector<double>& lam, const std::vector<double>& sens_S, const std::vector<double>* prior_grad, StepInfo& info)
{
  std::vector<double> num(w.nv, 0.0);
  for (size_t b = 0; b < w.nb; ++b)
    {
      if (subset_of[b] != S) continue;
      if (m.y[b] <= 0) continue;
      double den = m.a[b];
      for (auto& e : w.P.rows[b]) den += e.second * lam[e.first];
      double q;
      if (m.y[b] > 10000.0 * den) { q = 10000.0; info.capped = true; }
      else q = m.y[b] / den;
      for (auto& e : w.P.rows[b]) num[e.first] += e.second * q;
    }
  std::vector<double> out(w.nv);
  std::vector<double> mult(w.nv);
  if (!prior_grad)
    {
      for (size_t j = 0; j < w.nv; ++j) mult[j] = (sens_S[j] <= 0 && num[j] <= 0) ? 0.0 : num[j] / sens_S[j];
    }
  else
    {
      double mx = 0; for (double x : num) mx = std::max(mx, x);
      const double sv = std::max(mx * 1e-6, 0.0);
      for (size_t j = 0; j < w.nv; ++j)
        {
          const double s = sens_S[j], g = (*prior_grad)[j];
          double d;
          if (c.map == 0) d = std::max(std::min(g / c.N + s, s * 10), s / 10);
          else d = std::max(std::min(g + 1.0, 10.0), 0.1) * s;
          const bool both_small = std::fabs(d) <= sv && std::fabs(num[j]) <= sv;
          // rounding tie of the documented threshold: both within a factor 2 of it but not clearly below
          if (std::fabs(d) <= 2 * sv && std::fabs(num[j]) <= 2 * sv && !(std::fabs(d) <= sv / 2 && std::fabs(num[j]) <= sv / 2) && sv > 0) info.tie = true;
          mult[j] = both_small ? 0.0 : num[j] / d;
        }
    }
  if (k != 1)
    {
      const double lo = c.rc ? 0.5 : 0.0, hi = c.rc ? 2.0 : (double)std::numeric_limits<float>::max();
      for (double& x : mult) x = x > hi ? hi : (lo > x ? lo : x);
    }
  for (size_t j = 0; j < w.nv; ++j) out[j] = lam[j] * mult[j];
  return out;
}
static double ref_loglik(const World& w, const Model& m, const std::vector<double>& lam, bool& undefined)
{
  double L = 0;
  for (size_t b = 0; b < w.nb; ++b)
    {
      double pl = m.a[b];
      for (auto& e : w.P.rows[b]) pl += e.second * lam[e.first];
      const double ybar = pl / m.n[b];
      if (m.y[b] > 0) { if (ybar <= 0) { undefined = true; continue; } L += m.y[b] * std::log(ybar); }
      L -= ybar;
    }
  return L;
}

static bool run_recon(vmc::Ctx& ctx, const World& w, const Model& m, const Cfg& c, int K, int k0, const std::vector<float>* init, const std::string& init_file,
                      const std::string& prefix, bool write_files, std::vector<std::vector<float>>& snaps, Built& b, std::string& err)
{
  Setup s; s.N = c.N; s.sym = c.sym; s.use_subset_sens = c.uss; s.prior = c.prior;
  bool ok = true;
  if (small::throws(
          [&] {
            b = build_objective(w, m, s);
            Recon r;
            configure(r, c, b, K, k0, prefix, write_files);
            if (init)
              {
                shared_ptr<Target> target = to_image(w, *init);
                if (r.set_up(target) != Succeeded::yes) { ok = false; err = "set_up returned Succeeded::no"; return; }
                if (r.reconstruct(target) != Succeeded::yes) { ok = false; err = "reconstruct returned Succeeded::no"; return; }
              }
            else
              {
                r.initial_data_filename = init_file; // 'initial estimate' of the parameter file
                if (r.reconstruct() != Succeeded::yes) { ok = false; err = "reconstruct returned Succeeded::no"; return; }
              }
            snaps = r.snaps;
          },
          &err))
    ok = false;
  ctx.count("traces_validated_against_impl");
  ctx.count("transitions", (long long)snaps.size());
  return ok;
}

static void run_cfg(vmc::Ctx& ctx, const Cfg& c)
{
  const std::string kase = cfg_str(c);
  ctx.current("C07", kase);
  World& w = world(c.g, c.sym);
  const Model m = make_model(w, c.norm, c.add, c.data);
  const int K = 3 * c.N;
  const std::string cls = cfg_class(c);
  const std::string prefix = ctx.tmpdir + "/c07_" + vmc::str((int)getpid());
  std::vector<float> init = image_pattern(w, c.start);

  // ---------------- uninterrupted run
  std::vector<std::vector<float>> U;
  Built bu; std::string err;
  // "files" mode: the uninterrupted run also starts from an image FILE (as a run from a parameter file does), so that all runs share
  // the geometry that the Interfile header can represent (it keeps 6 significant digits of the voxel size; an image read back has a
  // voxel size that differs in the 7th digit, which changes e.g. the inter-iteration filter kernel by ~1e-5 - C10's subject, not C07's)
  std::string init_file;
  if (c.files)
    {
      init_file = prefix + "_init";
      std::string wf = init_file;
      if (small::throws([&] { OutputFileFormat<Target>::default_sptr()->write_to_file(wf, *to_image(w, init)); }, &err))
        { ctx.count("rejected_configs"); ctx.observe("cannot write the initial image: " + err.substr(0, 200)); return; }
      init_file = wf;
    }
  if (!run_recon(ctx, w, m, c, K, 1, c.files ? nullptr : &init, init_file, prefix, c.files != 0, U, bu, err))
    {
      ctx.count("rejected_configs");
      if (err.find("unbalanced") == std::string::npos && err.find("balanced") == std::string::npos) ctx.observe("configuration rejected: " + kase + " : " + err.substr(0, 200));
      else ctx.count("rejected_unbalanced_subsets");
      return;
    }
  ctx.count("evaluations");
  if ((int)U.size() != K) { ctx.violation("clause=loop;" + cls, kase, "reconstruct() produced " + vmc::str(U.size()) + " sub-iterations instead of " + vmc::str(K)); return; }
  // state = (k, image)
  for (int k = 0; k < K; ++k) ctx.nontrivial(vmc::fnv(U[k].data(), U[k].size() * sizeof(float), vmc::fnv(kase + vmc::str(k))));
  ctx.count("states", K);

  // ---------------- positivity
  for (int k = 0; k < K; ++k)
    for (float x : U[k])
      if (!(x >= 0) || !std::isfinite(x))
        { ctx.violation("clause=nonnegative;" + cls, kase + ";k=" + vmc::str(k + 1), "estimate after sub-iteration " + vmc::str(k + 1) + " contains " + vmc::str(x)); k = K; break; }

  // ---------------- per-step formula
  std::vector<int> subset_of;
  std::string why;
  if (small::throws([&] { subset_of = subset_of_bins(w, *bu.obj->get_projector_pair().get_symmetries_used(), c.N); }, &why))
    { ctx.count("rejected_configs"); ctx.observe("no subset partition: " + kase + " " + why); return; }
  std::vector<std::vector<double>> sens(c.N, std::vector<double>(w.nv, 0.0));
  std::vector<double> sens_total(w.nv, 0.0);
  for (size_t b = 0; b < w.nb; ++b)
    for (auto& e : w.P.rows[b]) { sens[subset_of[b]][e.first] += e.second / m.n[b]; sens_total[e.first] += e.second / m.n[b]; }
  if (!c.uss) for (int S = 0; S < c.N; ++S) for (size_t j = 0; j < w.nv; ++j) sens[S][j] = sens_total[j] / c.N;
  std::vector<float> lam0 = init;
  if (c.pos) model_initial_positivity(lam0, 0.000001F);
  // (files mode: the images read back from Interfile headers have a voxel size that differs in the 7th digit from the in-memory grid
  //  the reference uses; the prior weights then differ by ~2e-4 relative - that mode is about restart equality, the formula is checked in memory)
  const bool formula = !c.iuf && !c.iif && !c.files;
  shared_ptr<GeneralisedPrior<Target>> ref_prior;
  if (c.prior) { ref_prior = make_prior(w, c.prior); ref_prior->set_up(to_image(w, lam0)); }
  std::vector<bool> step_capped(K, false);
  if (formula)
    {
      size_t zero_sens_voxels = 0; for (size_t j = 0; j < w.nv; ++j) if (sens_total[j] <= 0) ++zero_sens_voxels;
      if (zero_sens_voxels) ctx.count("configs_with_zero_sensitivity_voxels");
      for (int k = 1; k <= K; ++k)
        {
          const std::vector<float>& prevf = k == 1 ? lam0 : U[k - 2];
          const std::vector<double> prev = to_double(prevf);
          const int S = (k - 1 + c.ss) % c.N;
          std::vector<double> pg;
          if (c.prior)
            {
              shared_ptr<Target> g(w.im->get_empty_copy());
              ref_prior->compute_gradient(*g, *to_image(w, prevf));
              pg = to_double(flatf(*g));
            }
          StepInfo info;
          const std::vector<double> ref = ref_step(w, m, c, subset_of, S, k, prev, sens[S], c.prior ? &pg : nullptr, info);
          step_capped[k - 1] = info.capped;
          if (info.capped) ctx.count("steps_with_capped_quotient");
          if (info.tie) { ctx.count("steps_screened_threshold_tie"); continue; }
          ctx.count("steps_checked_against_formula");
          double mx = 0; for (double x : ref) mx = std::max(mx, std::fabs(x));
          for (size_t j = 0; j < w.nv; ++j)
            {
              const double d = std::fabs((double)U[k - 1][j] - ref[j]);
              if (!(d <= 2e-4 * std::fabs(ref[j]) + 2e-6 * mx))
                {
                  ctx.violation("clause=update_formula;" + cls + ";uss=" + vmc::str(c.uss) + ";norm=" + vmc::str(c.norm) + ";add=" + vmc::str(c.add), kase + ";k=" + vmc::str(k),
                                "sub-iteration " + vmc::str(k) + " (subset " + vmc::str(S) + "), voxel " + vmc::str(j) + ": STIR " + vmc::str(U[k - 1][j]) + " reference " + vmc::str(ref[j])
                                    + " (previous value " + vmc::str(prev[j]) + ", subset sensitivity " + vmc::str(sens[S][j]) + ")");
                  if (getenv("VMC_DUMP")) { for (size_t q = 0; q < w.nv; ++q) fprintf(stderr, "vox %zu prev %g stir %g ref %g sens %g pg %g\n", q, prev[q], (double)U[k - 1][q], ref[q], sens[S][q], c.prior ? pg[q] : 0.0); }
                  k = K + 1; break;
                }
              // (with the 'minimum relative change' option the update factor of such a voxel is clamped to >= 0.5 from the second
              //  sub-iteration on, which the formula comparison above models; the plain statement applies without that option)
              if (sens[S][j] <= 0 && U[k - 1][j] != 0 && (!c.rc || k == 1))
                { ctx.violation("clause=zero_where_no_sensitivity;" + cls, kase + ";k=" + vmc::str(k), "voxel " + vmc::str(j) + " has zero subset sensitivity but value " + vmc::str(U[k - 1][j])); k = K + 1; break; }
            }
        }
    }
  // ---------------- monotone likelihood, count preservation (single subset)
  if (formula && c.N == 1 && !c.prior && !c.rc)
    {
      std::vector<double> Lref(K + 1); bool undefined = false;
      Lref[0] = ref_loglik(w, m, to_double(lam0), undefined);
      for (int k = 1; k <= K; ++k) Lref[k] = ref_loglik(w, m, to_double(U[k - 1]), undefined);
      double ysum = 0; for (double y : m.y) ysum += y;
      if (!undefined)
        for (int k = 1; k <= K; ++k)
          {
            if (step_capped[k - 1]) { ctx.count("monotonicity_steps_screened_capped"); continue; }
            ctx.count("monotonicity_steps_checked");
            if (Lref[k] > Lref[k - 1] + 1e-9 * (std::fabs(Lref[k - 1]) + ysum)) ctx.count("monotonicity_steps_strictly_increasing");
            if (Lref[k] < Lref[k - 1] - 1e-5 * (std::fabs(Lref[k - 1]) + ysum + 1))
              { ctx.violation("clause=monotone_loglikelihood;value=reference;" + cls, kase + ";k=" + vmc::str(k), "log-likelihood decreased from " + vmc::str(Lref[k - 1]) + " to " + vmc::str(Lref[k]) + " at sub-iteration " + vmc::str(k)); break; }
          }
      else ctx.count("monotonicity_configs_screened_undefined_loglik");
      // STIR's own value (fresh objective function, so that the run above is not disturbed)
      std::string w2;
      std::vector<double> Ls;
      if (!undefined && !small::throws([&] {
            Setup s; s.N = 1; s.sym = c.sym; s.use_subset_sens = c.uss; s.prior = 0;
            Built bv = build_objective(w, m, s);
            bv.obj->set_num_subsets(1);
            if (bv.obj->set_up(to_image(w, lam0)) != Succeeded::yes) throw std::runtime_error("set_up failed");
            Ls.push_back(bv.obj->compute_objective_function_without_penalty(*to_image(w, lam0)));
            for (int k = 1; k <= K; ++k) Ls.push_back(bv.obj->compute_objective_function_without_penalty(*to_image(w, U[k - 1])));
          }, &w2))
        {
          for (int k = 1; k <= K; ++k)
            {
              if (step_capped[k - 1]) continue;
              ctx.count("monotonicity_steps_checked_stir_value");
              if (Ls[k] < Ls[k - 1] - 1e-5 * (std::fabs(Ls[k - 1]) + ysum + 1))
                { ctx.violation("clause=monotone_loglikelihood;value=stir;" + cls, kase + ";k=" + vmc::str(k), "STIR's objective function value decreased from " + vmc::str(Ls[k - 1]) + " to " + vmc::str(Ls[k]) + " at sub-iteration " + vmc::str(k)); break; }
            }
        }
      else if (!undefined) { ctx.count("stir_value_unavailable"); ctx.observe("STIR's objective function value could not be computed: " + w2.substr(0, 160)); }
      if (!c.add)
        for (int k = 1; k <= K; ++k)
          {
            if (step_capped[k - 1]) { ctx.count("count_preservation_steps_screened_capped"); continue; }
            double lhs = 0; for (size_t j = 0; j < w.nv; ++j) lhs += sens_total[j] * (double)U[k - 1][j];
            ctx.count("count_preservation_steps_checked");
            if (std::fabs(lhs - ysum) > 2e-4 * ysum + 1e-9)
              { ctx.violation("clause=count_preservation;" + cls + ";norm=" + vmc::str(c.norm), kase + ";k=" + vmc::str(k), "sum_j s_j lambda_j = " + vmc::str(lhs) + " but sum of the measured counts = " + vmc::str(ysum) + " after sub-iteration " + vmc::str(k)); break; }
          }
    }

  // ---------------- restart from every k
  for (int k = 1; k < K; ++k)
    {
      std::vector<std::vector<float>> Rk; Built br; std::string e2;
      bool ok;
      if (c.files)
        {
          char num[32]; snprintf(num, sizeof num, "_%d.hv", k);
          ok = run_recon(ctx, w, m, c, K, k + 1, nullptr, prefix + num, prefix + "_r", false, Rk, br, e2);
        }
      else ok = run_recon(ctx, w, m, c, K, k + 1, &U[k - 1], "", prefix + "_r", false, Rk, br, e2);
      ctx.count("restarts");
      if (!ok) { ctx.violation("clause=restart;kind=error;" + cls, kase + ";k=" + vmc::str(k), "restart at sub-iteration " + vmc::str(k + 1) + " failed: " + e2.substr(0, 300)); break; }
      if ((int)Rk.size() != K - k) { ctx.violation("clause=restart;kind=length;" + cls, kase + ";k=" + vmc::str(k), "restart produced " + vmc::str(Rk.size()) + " sub-iterations instead of " + vmc::str(K - k)); break; }
      bool has_zero = false; for (float x : U[k - 1]) if (x == 0) has_zero = true;
      const bool rethreshold = c.pos && has_zero; // set_up() of the resumed run lifts exact zeros to a small positive value
      if (rethreshold) ctx.count("restarts_from_image_with_zeros_rethresholded");
      bool bad = false;
      for (int i = 0; i < K - k && !bad; ++i)
        {
          const std::vector<float>& a = Rk[i]; const std::vector<float>& u = U[k + i];
          if (same_bits(a, u)) { ctx.count("restart_images_bitwise_equal"); continue; }
          double mx = 0; for (float x : u) mx = std::max(mx, (double)std::fabs(x));
          const double d = max_abs_diff(a, u);
          const double rel = mx > 0 ? d / mx : d;
          if (rel <= (rethreshold ? 1e-4 : 1e-5))
            {
              ctx.count(rethreshold ? "restart_images_equal_within_1e-4_after_rethreshold" : "restart_images_equal_within_rounding_only");
              if (!rethreshold) ctx.observe("restart not bitwise equal (relative difference " + vmc::str(rel) + "): " + kase + ";k=" + vmc::str(k));
              continue;
            }
          ctx.violation(std::string("clause=restart;kind=images_differ;rethreshold_of_zeros=") + (rethreshold ? "1" : "0") + ";" + cls + ";rc=" + vmc::str(c.rc) + ";files=" + vmc::str(c.files), kase + ";k=" + vmc::str(k),
                        "resumed at sub-iteration " + vmc::str(k + 1) + " from the image after sub-iteration " + vmc::str(k) + ": image after sub-iteration " + vmc::str(k + 1 + i)
                            + " differs from the uninterrupted run by " + vmc::str(d) + " (max value " + vmc::str(mx) + ")");
          bad = true;
        }
      if (bad) break;
    }
  if (c.files)
    for (int k = 1; k <= K; ++k) { char num[32]; snprintf(num, sizeof num, "_%d", k); for (const char* ext : { ".hv", ".v", ".ahv" }) ::unlink((prefix + num + ext).c_str()); }
  if (ctx.samples.size() < 3 && c.N > 1 && c.add && c.norm && !c.prior && formula)
    ctx.sample(kase + " : " + vmc::str(K) + " sub-iterations match the EM formula on explicit P, " + vmc::str(K - 1) + " restarts reproduce the run; image max after last sub-iteration " + vmc::str(*std::max_element(U[K - 1].begin(), U[K - 1].end())));
}

// =====================================================================================================================
// Switched histories: RE-USED objective-function and reconstruction objects whose configuration is changed by setters
// between two set_up() calls.
//   phase 1 : objects built with configuration A, set_up, sub-iterations 1..k                  -> image I_k
//   switch  : setters on the SAME objects (use_subset_sensitivities, num_subsets, recompute_sensitivity, prior (+MAP model),
//             normalisation) giving configuration B; start_subiteration_num = k+1; set_up again; L more sub-iterations -> S
//   fresh   : objects freshly built with configuration B, start_subiteration_num = k+1, from I_k, L sub-iterations   -> F
//   oracle  : every sub-iteration of S follows the update formula of configuration B (same reference, same tolerance as above);
//             S == F (restartability: what a resumed run computes depends on the image and the configuration, not on what the
//             objects were used for before); S non-negative and finite.
// The measured data y are those of phase 1 (the data object is kept); normalisation factors n are those of B.
static std::string nclass(int N) { return N == 1 ? "1" : N == 2 ? "2" : "many"; }
static std::string switch_class(const Cfg& a, const Cfg& b, int rs)
{
  std::string s;
  auto add = [&](const std::string& t) { s += (s.empty() ? "" : ",") + t; };
  if (a.uss != b.uss) add("uss" + vmc::str(a.uss) + "to" + vmc::str(b.uss));
  if (a.N != b.N) add("N" + nclass(a.N) + "to" + nclass(b.N));
  if (a.prior != b.prior || a.map != b.map) add("prior");
  if (a.norm != b.norm) add("norm");
  if (rs >= 0) add("recompute" + vmc::str(rs));
  return s.empty() ? "none" : s;
}
static std::string switch_str(const Cfg& a, const Cfg& b, int recA, int rs, int k, int L)
{
  return "sw=1;" + cfg_str(a) + ";k=" + vmc::str(k) + ";L=" + vmc::str(L) + ";recA=" + vmc::str(recA) + ";rs=" + vmc::str(rs) + ";to_uss=" + vmc::str(b.uss) + ";to_N=" + vmc::str(b.N)
         + ";to_prior=" + vmc::str(b.prior) + ";to_map=" + vmc::str(b.map) + ";to_norm=" + vmc::str(b.norm);
}

// rs: -1 = set_recompute_sensitivity is not called at the switch, 0/1 = it is called with that value
static void run_switch(vmc::Ctx& ctx, const Cfg& a, const Cfg& b, int recA, int rs, int k, int L)
{
  const std::string kase = switch_str(a, b, recA, rs, k, L);
  ctx.current("C07", kase);
  World& w = world(a.g, a.sym);
  const Model mA = make_model(w, a.norm, a.add, a.data);
  Model mB = make_model(w, b.norm, a.add, a.data);
  mB.y = mA.y; // the measured data stay what they are
  const std::string sw = switch_class(a, b, rs);
  const std::string cls = "switch=" + sw + ";" + cfg_class(b);
  const std::string prefix = ctx.tmpdir + "/c07s_" + vmc::str((int)getpid());
  const std::vector<float> init = image_pattern(w, a.start);
  const bool identity = sw == "none";

  // ---------------- phase 1: configuration A, sub-iterations 1..k
  Setup sA; sA.N = a.N; sA.sym = a.sym; sA.use_subset_sens = a.uss; sA.prior = a.prior;
  Built bo; Recon r; std::string err; bool ok = true;
  if (small::throws(
          [&] {
            bo = build_objective(w, mA, sA);
            bo.obj->set_recompute_sensitivity(recA != 0);
            configure(r, a, bo, k, 1, prefix, false);
            shared_ptr<Target> target = to_image(w, init);
            if (r.set_up(target) != Succeeded::yes || r.reconstruct(target) != Succeeded::yes) ok = false;
          },
          &err))
    ok = false;
  ctx.count("traces_validated_against_impl");
  ctx.count("transitions", (long long)r.snaps.size());
  if (!ok || (int)r.snaps.size() != k)
    {
      ctx.count("rejected_configs"); ctx.count("switch_rejected_before_the_switch");
      ctx.observe("switched history: phase 1 rejected: " + kase + " : " + err.substr(0, 160));
      return;
    }
  const std::vector<float> Ik = r.snaps.back();

  // ---------------- the switch: setters on the same objects, set_up again, continue
  std::vector<std::vector<float>> S;
  shared_ptr<ProjDataInMemory> normdataB; // keep alive
  ok = true; err.clear();
  const bool threw = small::throws(
      [&] {
        if (b.uss != a.uss) bo.obj->set_use_subset_sensitivities(b.uss != 0);
        if (b.N != a.N) r.set_num_subsets(b.N);
        if (rs >= 0) bo.obj->set_recompute_sensitivity(rs != 0);
        if (b.prior != a.prior || b.map != a.map)
          {
            if (b.prior != a.prior) { bo.prior = make_prior(w, b.prior); bo.obj->set_prior_sptr(bo.prior); }
            if (b.prior) r.set_MAP_model(b.map ? "multiplicative" : "additive");
          }
        if (b.norm != a.norm)
          {
            if (b.norm)
              {
                normdataB = projdata_from(w, mB.n);
                bo.obj->set_normalisation_sptr(shared_ptr<BinNormalisation>(new BinNormalisationFromProjData(normdataB)));
              }
            else bo.obj->set_normalisation_sptr(shared_ptr<BinNormalisation>(new TrivialBinNormalisation));
          }
        r.set_num_subiterations(k + L);
        r.set_start_subiteration_num(k + 1);
        r.set_save_interval(k + L);
        r.snaps.clear();
        shared_ptr<Target> target = to_image(w, Ik);
        if (r.set_up(target) != Succeeded::yes) { ok = false; err = "set_up returned Succeeded::no"; return; }
        if (r.reconstruct(target) != Succeeded::yes) { ok = false; err = "reconstruct returned Succeeded::no"; return; }
        S = r.snaps;
      },
      &err);
  if (threw) ok = false;
  ctx.count("traces_validated_against_impl");
  ctx.count("transitions", (long long)r.snaps.size());

  // ---------------- fresh objects of configuration B from the same image
  std::vector<std::vector<float>> F; Built bf; std::string errF; bool okF = true;
  {
    Setup sB; sB.N = b.N; sB.sym = b.sym; sB.use_subset_sens = b.uss; sB.prior = b.prior;
    Recon rf;
    if (small::throws(
            [&] {
              bf = build_objective(w, mB, sB);
              bf.obj->set_recompute_sensitivity(rs >= 0 ? rs != 0 : recA != 0);
              configure(rf, b, bf, k + L, k + 1, prefix + "_f", false);
              shared_ptr<Target> target = to_image(w, Ik);
              if (rf.set_up(target) != Succeeded::yes || rf.reconstruct(target) != Succeeded::yes) { okF = false; errF = "Succeeded::no"; return; }
              F = rf.snaps;
            },
            &errF))
      okF = false;
    ctx.count("traces_validated_against_impl");
    ctx.count("transitions", (long long)rf.snaps.size());
  }
  if (!okF)
    { // STIR rejects configuration B as such
      ctx.count("rejected_configs"); ctx.count("switch_rejected_configuration_after");
      ctx.observe("switched history: configuration after the switch rejected for fresh objects: " + kase + " : " + errF.substr(0, 160));
      return;
    }
  if (!ok)
    {
      if (threw && rs == 0)
        { // documented: without 'recompute sensitivity' the (subset) sensitivity file names have to be given; the re-used object has
          // sensitivities in memory and STIR reports the request as an error (rule 4: a rejection, not a failure)
          ctx.count("rejected_configs"); ctx.count("switch_rejected_recompute_off_on_reused_object");
          ctx.observe("set_recompute_sensitivity(false) on an objective function that was set up before is rejected by set_up(): " + err.substr(0, 160));
          return;
        }
      ctx.violation("clause=restart;kind=reused_objects_error;" + cls, kase, "after the switch (" + sw + ") at sub-iteration " + vmc::str(k) + " the re-used objects fail (" + err.substr(0, 240) + ") while freshly built objects of that configuration run");
      return;
    }
  ctx.count("evaluations");
  ctx.count("switch_cases");
  ctx.count(identity ? "switch_cases_identity_re_set_up_only" : "switch_cases_configuration_changed");
  if (a.uss != b.uss) ctx.count(b.uss ? "switch_cases_uss_0_to_1" : "switch_cases_uss_1_to_0");
  if (a.uss == 0 && b.uss == 1 && b.N >= 3) ctx.count("switch_cases_uss_0_to_1_with_3_or_more_subsets");
  if (a.N != b.N) ctx.count(b.N > a.N ? "switch_cases_more_subsets" : "switch_cases_fewer_subsets");
  if (a.prior != b.prior) ctx.count("switch_cases_prior_changed");
  if (a.norm != b.norm) ctx.count("switch_cases_normalisation_changed");
  if (rs >= 0) ctx.count("switch_cases_recompute_setter_called");
  if ((int)S.size() != L || (int)F.size() != L)
    { ctx.violation("clause=loop;" + cls, kase, "continuation produced " + vmc::str(S.size()) + " (re-used objects) / " + vmc::str(F.size()) + " (fresh objects) sub-iterations instead of " + vmc::str(L)); return; }
  for (int i = 0; i < L; ++i) ctx.nontrivial(vmc::fnv(S[i].data(), S[i].size() * sizeof(float), vmc::fnv(kase + vmc::str(i))));
  ctx.count("states", L);

  // ---------------- non-negative, finite
  for (int i = 0; i < L; ++i)
    for (float x : S[i])
      if (!(x >= 0) || !std::isfinite(x))
        { ctx.violation("clause=nonnegative;history=reused_objects;" + cls, kase, "estimate after sub-iteration " + vmc::str(k + 1 + i) + " (re-used objects) contains " + vmc::str(x)); i = L; break; }

  // ---------------- update formula of configuration B
  const bool formula = !b.iuf && !b.iif;
  if (formula)
    {
      std::vector<int> subset_of; std::string why;
      if (small::throws([&] { subset_of = subset_of_bins(w, *bo.obj->get_projector_pair().get_symmetries_used(), b.N); }, &why))
        { ctx.count("rejected_configs"); ctx.observe("no subset partition: " + kase + " " + why); return; }
      std::vector<std::vector<double>> sens(b.N, std::vector<double>(w.nv, 0.0));
      std::vector<double> sens_total(w.nv, 0.0);
      for (size_t bb = 0; bb < w.nb; ++bb)
        for (auto& e : w.P.rows[bb]) { sens[subset_of[bb]][e.first] += e.second / mB.n[bb]; sens_total[e.first] += e.second / mB.n[bb]; }
      if (!b.uss) for (int s = 0; s < b.N; ++s) for (size_t j = 0; j < w.nv; ++j) sens[s][j] = sens_total[j] / b.N;
      std::vector<float> lamk = Ik;
      if (b.pos) model_initial_positivity(lamk, 0.000001F);
      shared_ptr<GeneralisedPrior<Target>> ref_prior;
      if (b.prior) { ref_prior = make_prior(w, b.prior); ref_prior->set_up(to_image(w, lamk)); }
      for (int i = 0; i < L; ++i)
        {
          const int kk = k + 1 + i;
          const std::vector<float>& prevf = i == 0 ? lamk : S[i - 1];
          const std::vector<double> prev = to_double(prevf);
          const int sub = (kk - 1 + b.ss) % b.N;
          std::vector<double> pg;
          if (b.prior)
            {
              shared_ptr<Target> g(w.im->get_empty_copy());
              ref_prior->compute_gradient(*g, *to_image(w, prevf));
              pg = to_double(flatf(*g));
            }
          StepInfo info;
          const std::vector<double> ref = ref_step(w, mB, b, subset_of, sub, kk, prev, sens[sub], b.prior ? &pg : nullptr, info);
          if (info.capped) ctx.count("steps_with_capped_quotient");
          if (info.tie) { ctx.count("steps_screened_threshold_tie"); continue; }
          ctx.count("steps_checked_against_formula");
          ctx.count("switch_steps_checked_against_formula");
          double mx = 0; for (double x : ref) mx = std::max(mx, std::fabs(x));
          bool bad = false;
          for (size_t j = 0; j < w.nv && !bad; ++j)
            {
              const double d = std::fabs((double)S[i][j] - ref[j]);
              if (!(d <= 2e-4 * std::fabs(ref[j]) + 2e-6 * mx))
                {
                  ctx.violation("clause=update_formula;history=reused_objects;" + cls + ";uss=" + vmc::str(b.uss) + ";norm=" + vmc::str(b.norm) + ";add=" + vmc::str(b.add), kase,
                                "objects used for " + vmc::str(k) + " sub-iteration(s), then switched (" + sw + ") and set up again: sub-iteration " + vmc::str(kk) + " (subset " + vmc::str(sub) + "), voxel "
                                    + vmc::str(j) + ": STIR " + vmc::str(S[i][j]) + " reference " + vmc::str(ref[j]) + " (previous value " + vmc::str(prev[j]) + ", subset sensitivity " + vmc::str(sens[sub][j]) + ")");
                  bad = true;
                }
              else if (sens[sub][j] <= 0 && S[i][j] != 0 && !b.rc)
                { ctx.violation("clause=zero_where_no_sensitivity;history=reused_objects;" + cls, kase, "sub-iteration " + vmc::str(kk) + ": voxel " + vmc::str(j) + " has zero subset sensitivity but value " + vmc::str(S[i][j])); bad = true; }
            }
          if (bad) break;
        }
    }

  // ---------------- restartability: re-used objects == fresh objects of the new configuration
  for (int i = 0; i < L; ++i)
    {
      if (same_bits(S[i], F[i])) { ctx.count("switch_images_bitwise_equal_to_fresh_objects"); continue; }
      double mx = 0; for (float x : F[i]) mx = std::max(mx, (double)std::fabs(x));
      const double d = max_abs_diff(S[i], F[i]);
      const double rel = mx > 0 ? d / mx : d;
      if (rel <= 1e-5)
        {
          ctx.count("switch_images_equal_within_rounding_only");
          ctx.observe("re-used objects not bitwise equal to fresh objects (relative difference " + vmc::str(rel) + "): " + kase);
          continue;
        }
      ctx.violation("clause=restart;kind=reused_objects_differ_from_fresh;" + cls + ";rc=" + vmc::str(b.rc), kase,
                    "objects used for " + vmc::str(k) + " sub-iteration(s), then switched (" + sw + "), set up again and resumed at sub-iteration " + vmc::str(k + 1) + ": image after sub-iteration " + vmc::str(k + 1 + i)
                        + " differs from the run of freshly built objects of the same configuration resumed from the same image by " + vmc::str(d) + " (max value " + vmc::str(mx) + ")");
      break;
    }
  if (!identity) ctx.sample("switched history " + kase + " : " + vmc::str(L) + " sub-iterations after the switch match the formula of the new configuration and the run of fresh objects", 9);
}

static void replay_switch(vmc::Ctx& ctx, const std::string& str)
{
  Cfg a = cfg_parse(str);
  auto m = vmc::kv(str);
  auto geti = [&](const char* key, int dflt) { return m.count(key) ? atoi(m[key].c_str()) : dflt; };
  Cfg b = a;
  b.uss = geti("to_uss", a.uss); b.N = geti("to_N", a.N); b.prior = geti("to_prior", a.prior); b.map = geti("to_map", a.map); b.norm = geti("to_norm", a.norm);
  run_switch(ctx, a, b, geti("recA", 1), geti("rs", -1), geti("k", 1), geti("L", b.N + 1));
}

// numbers of subsets that OSMAPOSL accepts for a geometry (the others are "unbalanced": counted as rejected in the main enumeration)
static std::vector<int> accepted_subsets(vmc::Ctx& ctx, int g, int sym)
{
  std::vector<int> out;
  World& w = world(g, sym);
  const Model m = make_model(w, 0, 1, 0);
  for (int N = 1; N <= GEOMS[g].D / 2; ++N)
    {
      Cfg c; c.g = g; c.N = N; c.sym = sym; c.add = 1;
      Setup s; s.N = N; s.sym = sym;
      bool ok = true; std::string err;
      if (small::throws(
              [&] {
                Built b = build_objective(w, m, s);
                Recon r;
                configure(r, c, b, 1, 1, ctx.tmpdir + "/c07p", false);
                if (r.set_up(to_image(w, image_pattern(w, 0))) != Succeeded::yes) ok = false;
              },
              &err))
        ok = false;
      if (ok) out.push_back(N);
    }
  return out;
}

int main(int argc, char** argv)
{
  vmc::Ctx ctx(argc, argv, "C07");
  small::quiet();
  ctx.rule = "history search: state = (configuration, k, image after sub-iteration k); transition = one real sub-iteration; every k is an interruption point from which a fresh "
             "reconstruction is resumed; distinct_nontrivial = distinct (configuration, k, image content) reached; "
             "switched histories: the SAME objective-function and reconstruction objects run k sub-iterations with configuration A, get setters called "
             "(use_subset_sensitivities, num_subsets, recompute_sensitivity, prior + MAP model, normalisation) giving configuration B, are set up again and continue: "
             "every (A, B) pair of the switch alphabet x every switch point k; each continued sub-iteration is a state/transition and is compared with the formula of B "
             "and with freshly built objects of B resumed from the same image";
  ctx.assume("subset used at sub-iteration k is (k-1+start_subset) mod num_subsets (documented order, C06 checks the schedule itself); bins of a subset as defined by find_basic_vs_nums_in_subset + related view/segments");
  ctx.assume("tolerance of the formula: |STIR-ref| <= 2e-4 |ref| + 2e-6 max|ref| (float projections vs double reference); likelihood/count sums: 1e-5 resp. 2e-4 relative");
  ctx.assume("quotient y/ybar capped at 10000 and y<=1e-6*max(y of viewgram) treated as 0 (divide_and_truncate); monotonicity and count preservation are only demanded for steps where no quotient is capped (counted)");
  ctx.assume("prior gradient taken from the prior's own compute_gradient (subject of C09); steps where numerator and denominator sit within a factor 2 of the 1e-6*max threshold of divide() are screened (counted)");
  ctx.assume("restart equality is bitwise, except: (i) when the resumed run has 'enforce initial positivity' on and the saved image contains exact zeros, set_up() lifts them to 1e-6*min positive value as documented, "
             "then equality within 1e-4*max is demanded; (ii) a non-bitwise difference below 1e-5*max is recorded as an observation, not a violation");
  ctx.assume("randomised subset order is not part of the restart clause (fresh permutation per run)");
  ctx.assume("switched histories: the measured data object is kept across the switch (y of the configuration before), normalisation factors / prior / subsets / sensitivities are those of the "
             "configuration after; re-used objects must give bitwise the images of freshly built objects (difference below 1e-5*max: observation only); "
             "set_recompute_sensitivity(false) on an objective function that holds sensitivities from an earlier set_up() and has no sensitivity file names is rejected by STIR with error(): counted as rejected, not a failure");
  if (ctx.replaying())
    {
      if (vmc::kv(ctx.replay).count("sw")) replay_switch(ctx, ctx.replay);
      else run_cfg(ctx, cfg_parse(ctx.replay));
      return ctx.finish();
    }
  const bool th = ctx.thorough();
  uint64_t unit = 0;
  const int ngeom = th ? 4 : 2;
  auto visit = [&](const Cfg& c) -> bool {
    const uint64_t u = unit++;
    if (!ctx.mine(u)) return true;
    if (ctx.expired()) return false;
    run_cfg(ctx, c);
    return true;
  };
  static const int PM[7][2] = { { 0, 0 }, { 1, 0 }, { 1, 1 }, { 2, 0 }, { 2, 1 }, { 3, 0 }, { 3, 1 } };
  for (int g = 0; g < ngeom; ++g)
    {
      const int V = GEOMS[g].D / 2;
      for (int N = 1; N <= V; ++N)
        for (int add = 0; add < 2; ++add)
          for (int norm = 0; norm < 2; ++norm)
            for (int pm = 0; pm < 7; ++pm)
              for (int start = 0; start < 3; ++start)
                for (int data = 0; data < (th ? 3 : 2); ++data)
                  {
                    Cfg base; base.g = g; base.N = N; base.add = add; base.norm = norm; base.prior = PM[pm][0]; base.map = PM[pm][1]; base.start = start; base.data = data;
                    // (1) filters
                    for (int f = 0; f < 4; ++f) { Cfg c = base; c.iuf = f & 1; c.iif = f >> 1; if (!visit(c)) return ctx.finish(); }
                    // (2) one option at a time away from the defaults (thorough: all combinations)
                    if (!th)
                      {
                        { Cfg c = base; c.pos = 0; if (!visit(c)) return ctx.finish(); }
                        { Cfg c = base; c.rc = 1; if (!visit(c)) return ctx.finish(); }
                        { Cfg c = base; c.uss = 0; if (N > 1 && !visit(c)) return ctx.finish(); }
                        { Cfg c = base; c.ss = N - 1; if (N > 1 && !visit(c)) return ctx.finish(); }
                        { Cfg c = base; c.sym = 0; if (!visit(c)) return ctx.finish(); }
                        { Cfg c = base; c.rc = 1; c.pos = 0; c.iif = 1; if (!visit(c)) return ctx.finish(); }
                      }
                    else
                      for (int o = 1; o < 32; ++o)
                        {
                          Cfg c = base; c.pos = !(o & 1); c.rc = (o >> 1) & 1; c.uss = !((o >> 2) & 1); c.ss = ((o >> 3) & 1) ? N - 1 : 0; c.sym = !((o >> 4) & 1);
                          if (N == 1 && (!c.uss || ((o >> 3) & 1))) continue;
                          for (int f = 0; f < 4; f += 3) { c.iuf = f & 1; c.iif = f >> 1; if (!visit(c)) return ctx.finish(); }
                        }
                    // (3) restart through the files that the reconstruction saves
                    if (th || (start == 1 && data == 0)) { Cfg c = base; c.files = 1; if (!visit(c)) return ctx.finish(); if (th) { c.iif = 1; c.rc = 1; if (!visit(c)) return ctx.finish(); } }
                  }
    }
  // (4) switched histories on RE-USED objects (see run_switch): work unit = one pair (configuration before, configuration after),
  //     inside it EVERY switch point k = 1..3*N_before-1 of the run of the configuration before
  {
    static const int SPM[3][2] = { { 0, 0 }, { 1, 0 }, { 3, 1 } }; // no prior, quadratic/additive, RDP/multiplicative
    // families of the fields that are not switched: add, start image, data, and (thorough) one option away from the defaults
    struct Fam { int add, start, data, pos, rc, sym, filt; };
    std::vector<Fam> fams;
    fams.push_back({ 1, 1, 0, 1, 0, 1, 0 });
    fams.push_back({ 0, 2, 1, 1, 0, 0, 0 }); // no additive term, start image with exact zeros, zero-count LORs, projector symmetries off (more numbers of subsets are balanced)
    if (th)
      {
        fams.push_back({ 0, 2, 1, 1, 0, 1, 0 }); // as the previous one with symmetries
        fams.push_back({ 1, 2, 0, 0, 0, 1, 0 }); // no initial positivity
        fams.push_back({ 1, 1, 1, 1, 1, 1, 0 }); // relative-change clamps
        fams.push_back({ 1, 1, 0, 1, 0, 0, 0 }); // additive term, projector symmetries off
        fams.push_back({ 1, 1, 0, 1, 0, 1, 1 }); // both filters (re-used objects vs fresh objects only)
      }
    long long pairs = 0;
    for (int g = 0; g < ngeom; ++g)
      for (size_t fi = 0; fi < fams.size(); ++fi)
        {
          const Fam& fam = fams[fi];
          const std::vector<int> Ns = accepted_subsets(ctx, g, fam.sym);
          ctx.observe("switched histories: numbers of subsets accepted for geometry " + geom_str(GEOMS[g]) + (fam.sym ? " (projector symmetries on): " : " (projector symmetries off): ") + vmc::join(Ns));
          const bool full = th && fi < 2; // all (before, after) pairs; otherwise the changes of one field, the pairs (uss, N) and the identity
          for (int NA : Ns)
            for (int ussA = 1; ussA >= 0; --ussA)
              for (int pA = 0; pA < 3; ++pA)
                for (int normA = 0; normA < 2; ++normA)
                  {
                    if (!th && pA == 2) continue; // quick: before-configurations without prior / quadratic; RDP appears as after-configuration
                    Cfg a; a.g = g; a.N = NA; a.uss = ussA; a.prior = SPM[pA][0]; a.map = SPM[pA][1]; a.norm = normA;
                    a.add = fam.add; a.start = fam.start; a.data = fam.data; a.pos = fam.pos; a.rc = fam.rc; a.sym = fam.sym; a.iuf = a.iif = fam.filt;
                    for (int NB : Ns)
                      for (int ussB = 1; ussB >= 0; --ussB)
                        for (int pB = 0; pB < 3; ++pB)
                          for (int normB = 0; normB < 2; ++normB)
                            {
                              const int nchanged = (NB != NA) + (ussB != ussA) + (pB != pA) + (normB != normA);
                              const bool uss_and_N = nchanged == 2 && NB != NA && ussB != ussA;
                              if (!full && nchanged > 1 && !uss_and_N) continue;
                              Cfg b = a; b.N = NB; b.uss = ussB; b.prior = SPM[pB][0]; b.map = SPM[pB][1]; b.norm = normB;
                              // set_recompute_sensitivity: (built with, setter at the switch); (1, not called) for every pair, the other
                              // combinations for the identity and the changes of use_subset_sensitivities alone
                              static const int REC[6][2] = { { 1, -1 }, { 1, 1 }, { 1, 0 }, { 0, -1 }, { 0, 1 }, { 0, 0 } };
                              const int nrec = (nchanged == 0 || (nchanged == 1 && ussB != ussA)) ? (th ? 6 : 3) : 1;
                              for (int ri = 0; ri < nrec; ++ri)
                                {
                                  const uint64_t u = unit++;
                                  if (!ctx.mine(u)) continue;
                                  if (ctx.expired()) return ctx.finish();
                                  ++pairs;
                                  const int L = th ? 2 * NB : NB + 1; // every subset of the new configuration at least once (thorough: twice)
                                  for (int k = 1; k < 3 * NA; ++k) run_switch(ctx, a, b, REC[ri][0], REC[ri][1], k, L);
                                }
                            }
                  }
        }
    ctx.count("switch_pairs_before_after", pairs);
  }
  ctx.maxi("geometries", ngeom);
  return ctx.finish();
}
