// C04 - matched projector pairs are linear, adjoint and additive over pieces.
//
// For every generated (scanner, sampling, image grid) and every pair configuration (ProjectorByBinPairUsingProjMatrixByBin over a
// ray tracing matrix with symmetry switches x cache mode x tangential LORs; the forward/back projectors have one code path for a
// caching matrix and another, explicit-symmetry one for a non-caching matrix):
//   adjoint   : ALL unit images e_j forward projected, ALL unit data f_b back projected: (A e_j)_b == (A^T f_b)_j for all (j,b)
//   linear    : superposition family (ones, alternating signs, ramp, bounded pairs e_i+e_j; signed data with zeros) against the columns/rows
//   subsets   : every (subset_num, num_subsets), 1 <= num_subsets <= num_views: forward_project(proj_data, image, s, n, zero) writes
//               exactly the view-segment groups of the subset, leaves the rest (zero=false) or zeroes it (zero=true, n>1); the groups
//               of the n subsets partition the data; sum of back projections over subsets == full back projection
//   groups    : every related-viewgram group, full range and axial / tangential sub-ranges: window == full call, rest untouched;
//               back projection of a window == back projection of the data zeroed outside the window
//   accumulate: start_accumulating_in_new_target(); back_project(y1); back_project(y2); get_output == A^T y1 + A^T y2
//   raytracing: ForwardProjectorByBinUsingRayTracing == forward projector using the ray tracing matrix with identical settings
//   re-use    : histories of set_up calls on ONE pair object / ONE on-the-fly projector (same projection data + other image geometry, same image
//               + other projection data, both orders and back again, same arguments twice): after every set_up all unit projections equal
//               those of new objects set up once with the current arguments, and adjoint / linear / accumulate / raytracing hold again
#include "vmc.h"
#include "stir_small.h"
#include "ref_geom34.h"
#include "stir/recon_buildblock/ProjectorByBinPairUsingProjMatrixByBin.h"
#include "stir/recon_buildblock/ForwardProjectorByBinUsingProjMatrixByBin.h"
#include "stir/recon_buildblock/BackProjectorByBinUsingProjMatrixByBin.h"
#include "stir/recon_buildblock/ForwardProjectorByBinUsingRayTracing.h"
#include "stir/recon_buildblock/DataSymmetriesForBins_PET_CartesianGrid.h"
#include "stir/RelatedViewgrams.h"
#include "stir/SegmentByView.h"

using namespace stir;
using g34::Geo;
typedef std::vector<double> Vec;

static const double EPS = 1.1920929e-7;
static const char* CACHE_NAME[3] = { "off", "all_bins", "basic_only" };

struct PairCfg
{
  int sym = 31, cache = 2, L = 1, fov = 1;
  std::string str() const { return "sym=" + vmc::str(sym) + ";cache=" + vmc::str(cache) + ";L=" + vmc::str(L) + ";fov=" + vmc::str(fov); }
  std::string key() const { return std::string("cache=") + CACHE_NAME[cache] + ";sym=" + (sym == 0 ? "none" : sym == 31 ? "all" : "some"); }
};

// canonical bin index (segment, axial, view, tangential, timing) <-> flat position, and fast read/write of a whole ProjData
struct BinIndex
{
  const ProjDataInfo& p;
  std::map<int, size_t> segbase;
  int nv, nt, nk, vmin, tmin, kmin;
  size_t n = 0;
  std::vector<Bin> bins;
  explicit BinIndex(const ProjDataInfo& pi) : p(pi)
  {
    nv = p.get_num_views(); nt = p.get_num_tangential_poss(); nk = p.get_max_tof_pos_num() - p.get_min_tof_pos_num() + 1;
    vmin = p.get_min_view_num(); tmin = p.get_min_tangential_pos_num(); kmin = p.get_min_tof_pos_num();
    for (int s = p.get_min_segment_num(); s <= p.get_max_segment_num(); ++s) { segbase[s] = n; n += (size_t)p.get_num_axial_poss(s) * nv * nt * nk; }
    bins = small::all_bins(p);
  }
  size_t idx(int s, int a, int v, int t, int k) const { return segbase.at(s) + ((((size_t)(a - p.get_min_axial_pos_num(s))) * nv + (v - vmin)) * nt + (t - tmin)) * nk + (k - kmin); }
  Vec read(const ProjData& pd) const
  {
    Vec r(n);
    for (int k = kmin; k < kmin + nk; ++k)
      for (int s = p.get_min_segment_num(); s <= p.get_max_segment_num(); ++s)
        {
          const SegmentByView<float> seg = pd.get_segment_by_view(s, k);
          for (int v = vmin; v < vmin + nv; ++v)
            for (int a = p.get_min_axial_pos_num(s); a <= p.get_max_axial_pos_num(s); ++a)
              for (int t = tmin; t < tmin + nt; ++t) r[idx(s, a, v, t, k)] = seg[v][a][t];
        }
    return r;
  }
  void write(ProjData& pd, const Vec& x) const
  {
    for (int k = kmin; k < kmin + nk; ++k)
      for (int s = p.get_min_segment_num(); s <= p.get_max_segment_num(); ++s)
        {
          SegmentByView<float> seg = p.get_empty_segment_by_view(s, false, k);
          for (int v = vmin; v < vmin + nv; ++v)
            for (int a = p.get_min_axial_pos_num(s); a <= p.get_max_axial_pos_num(s); ++a)
              for (int t = tmin; t < tmin + nt; ++t) seg[v][a][t] = (float)x[idx(s, a, v, t, k)];
          pd.set_segment(seg);
        }
  }
};

struct World
{
  vmc::Ctx& ctx;
  Geo g; PairCfg pc;
  std::string kase, kkey;
  g34::Built b;
  shared_ptr<ProjMatrixByBinUsingRayTracing> M;
  shared_ptr<ProjectorByBinPairUsingProjMatrixByBin> pair;
  shared_ptr<ForwardProjectorByBin> fwd;
  shared_ptr<BackProjectorByBin> bck;
  std::unique_ptr<BinIndex> bi;
  size_t nb = 0, nvox = 0;
  std::vector<Vec> Acol; // Acol[j][b] = (A e_j)_b
  std::vector<Vec> ATrow; // ATrow[b][j] = (A^T f_b)_j
  World(vmc::Ctx& c) : ctx(c) {}

  shared_ptr<VoxelsOnCartesianGrid<float>> image(const Vec& x) const
  {
    shared_ptr<VoxelsOnCartesianGrid<float>> im(b.im->get_empty_copy());
    small::unflat(*im, x);
    return im;
  }
  shared_ptr<ProjDataInMemory> data(const Vec& y) const
  {
    auto pd = small::make_projdata(b.pdi, 0.F);
    bi->write(*pd, y);
    return pd;
  }
  Vec A(const Vec& x, int s = 0, int n = 1, bool zero = true, float prefill = 0.F) const
  {
    auto pd = small::make_projdata(b.pdi, prefill);
    fwd->forward_project(*pd, *image(x), s, n, zero);
    return bi->read(*pd);
  }
  Vec AT(const Vec& y, int s = 0, int n = 1) const
  {
    shared_ptr<VoxelsOnCartesianGrid<float>> im(b.im->get_empty_copy());
    im->fill(3.F); // must be overwritten, not accumulated into
    bck->back_project(*im, *data(y), s, n);
    return small::flat(*im);
  }
  void viol(const std::string& clause, const std::string& extra, const std::string& msg) { ctx.violation("clause=" + clause + ";" + kkey, kase + extra, msg); }
};

static std::string voxel_str(const World& w, size_t j)
{
  const int nx = w.b.im->get_x_size(), ny = w.b.im->get_y_size();
  const int x = (int)(j % nx) + w.b.im->get_min_x(), y = (int)((j / nx) % ny) + w.b.im->get_min_y(), z = (int)(j / ((size_t)nx * ny)) + w.b.im->get_min_z();
  return "(z" + vmc::str(z) + ",y" + vmc::str(y) + ",x" + vmc::str(x) + ")";
}

// creates the matrix and the (not yet set up) pair of w.pc
static void new_pair(World& w)
{
  w.M.reset(new ProjMatrixByBinUsingRayTracing());
  w.M->set_do_symmetry_90degrees_min_phi(w.pc.sym & 1);
  w.M->set_do_symmetry_180degrees_min_phi(w.pc.sym & 2);
  w.M->set_do_symmetry_swap_segment(w.pc.sym & 4);
  w.M->set_do_symmetry_swap_s(w.pc.sym & 8);
  w.M->set_do_symmetry_shift_z(w.pc.sym & 16);
  w.M->set_num_tangential_LORs(w.pc.L);
  w.M->set_restrict_to_cylindrical_FOV(w.pc.fov);
  w.M->enable_cache(w.pc.cache != 0);
  w.M->store_only_basic_bins_in_cache(w.pc.cache == 2);
  w.pair.reset(new ProjectorByBinPairUsingProjMatrixByBin(w.M));
}

// the projectors of w.pair and the index of the geometry w.b
static void bind_world(World& w)
{
  w.fwd = w.pair->get_forward_projector_sptr();
  w.bck = w.pair->get_back_projector_sptr();
  w.bi.reset(new BinIndex(*w.b.pdi));
  w.nb = w.bi->n;
  w.nvox = (size_t)w.b.im->get_z_size() * w.b.im->get_y_size() * w.b.im->get_x_size();
}

// creates the matrix and the pair of w.pc and sets the pair up (once) with the geometry w.b
static bool setup_pair(World& w)
{
  std::string what;
  {
    ExamInfo ex; ex.imaging_modality = ImagingModality::PT;
    w.b.im->set_exam_info(ex);
  }
  new_pair(w);
  if (small::throws([&] { w.pair->set_up(w.b.pdi, w.b.im); }, &what)) { w.ctx.count("rejected_configs"); w.ctx.observe("pair set_up rejected " + w.g.str() + ": " + what.substr(0, 100)); return false; }
  bind_world(w);
  return true;
}

static bool setup_world(World& w)
{
  std::string what;
  if (small::throws([&] { w.b = g34::build(w.g); }, &what)) { w.ctx.count("rejected_configs"); return false; }
  return setup_pair(w);
}

// ---------------------------------------------------------------- adjointness on the full basis (also fills the columns / rows)
static void check_adjoint(World& w)
{
  w.Acol.assign(w.nvox, Vec());
  w.ATrow.assign(w.nb, Vec());
  Vec e(w.nvox, 0.0), f(w.nb, 0.0);
  // every unit image / unit data set is a distinct case; it is non-trivial when its projection is not identically zero
  auto nz = [](const Vec& v) { for (double x : v) if (x != 0) return true; return false; };
  for (size_t j = 0; j < w.nvox; ++j) { e[j] = 1; w.Acol[j] = w.A(e); e[j] = 0; w.ctx.count("evaluations"); if (nz(w.Acol[j])) w.ctx.nontrivial(w.kase + ";unit_voxel=" + vmc::str(j)); }
  for (size_t b = 0; b < w.nb; ++b) { f[b] = 1; w.ATrow[b] = w.AT(f); f[b] = 0; w.ctx.count("evaluations"); if (nz(w.ATrow[b])) w.ctx.nontrivial(w.kase + ";unit_bin=" + vmc::str(b)); }
  size_t nnz = 0;
  for (size_t b = 0; b < w.nb; ++b)
    {
      double rowsum = 0;
      for (size_t j = 0; j < w.nvox; ++j) rowsum += std::fabs(w.ATrow[b][j]);
      const double tol = 10 * EPS * rowsum;
      bool reported = false;
      for (size_t j = 0; j < w.nvox; ++j)
        {
          const double a = w.Acol[j][b], at = w.ATrow[b][j];
          if (a != 0 || at != 0) { ++nnz; }
          if (!(std::fabs(a - at) <= tol) && !reported)
            {
              reported = true;
              w.viol("adjoint", ";bin=" + small::bin_str(w.bi->bins[b]) + ";voxel=" + vmc::str(j),
                     "(A e_j)_b = " + vmc::str(a) + " but (A^T f_b)_j = " + vmc::str(at) + " for bin b=" + small::bin_str(w.bi->bins[b]) + ", voxel j=" + voxel_str(w, j) + " (tolerance " + vmc::str(tol) + ")");
            }
        }
    }
  w.ctx.count("adjoint_pairs_compared", (long long)(w.nb * w.nvox));
  w.ctx.count("adjoint_pairs_nonzero", (long long)nnz);
  if (nnz == 0) w.viol("vacuous_all_zero", "", "all projections are zero: nothing compared");
  w.ctx.nontrivial(w.kase);
}

// ---------------------------------------------------------------- linearity
static void check_linear(World& w)
{
  auto refA = [&](const Vec& x, Vec& sumabs) {
    Vec y(w.nb, 0.0); sumabs.assign(w.nb, 0.0);
    for (size_t j = 0; j < w.nvox; ++j) if (x[j] != 0) for (size_t b = 0; b < w.nb; ++b) { y[b] += x[j] * w.Acol[j][b]; sumabs[b] += std::fabs(x[j] * w.Acol[j][b]); }
    return y;
  };
  auto refAT = [&](const Vec& yv, Vec& sumabs) {
    Vec x(w.nvox, 0.0); sumabs.assign(w.nvox, 0.0);
    for (size_t b = 0; b < w.nb; ++b) if (yv[b] != 0) for (size_t j = 0; j < w.nvox; ++j) { x[j] += yv[b] * w.ATrow[b][j]; sumabs[j] += std::fabs(yv[b] * w.ATrow[b][j]); }
    return x;
  };
  std::vector<std::pair<std::string, Vec>> imgs, dats;
  {
    Vec v(w.nvox, 1.0); imgs.push_back({ "ones", v });
    for (size_t j = 0; j < w.nvox; ++j) v[j] = (j % 2) ? -1. : 1.; imgs.push_back({ "alternating", v });
    for (size_t j = 0; j < w.nvox; ++j) v[j] = 1 + (double)(j % 7); imgs.push_back({ "ramp", v });
    for (size_t j = 0; j < w.nvox; ++j) v[j] = (j % 3 == 0) ? 0. : ((j % 3 == 1) ? 2. : -0.5); imgs.push_back({ "zeros_and_signs", v });
    const size_t c = w.nvox / 2;
    const size_t cand[] = { 0, 1, c, c + 1, w.nvox - 1 };
    for (size_t a = 0; a < 5; ++a) for (size_t bb = a + 1; bb < 5; ++bb)
      { if (cand[a] >= w.nvox || cand[bb] >= w.nvox || cand[a] == cand[bb]) continue; Vec p(w.nvox, 0.0); p[cand[a]] = 1; p[cand[bb]] = 1; imgs.push_back({ "pair", p }); }
  }
  {
    Vec v(w.nb, 1.0); dats.push_back({ "ones", v });
    for (size_t b = 0; b < w.nb; ++b) v[b] = (b % 2) ? -1. : 1.; dats.push_back({ "alternating", v });
    for (size_t b = 0; b < w.nb; ++b) v[b] = 1 + (double)(b % 7); dats.push_back({ "ramp", v });
    for (size_t b = 0; b < w.nb; ++b) v[b] = (b % 3 == 0) ? 0. : ((b % 3 == 1) ? 2. : -0.5); dats.push_back({ "zeros_and_signs", v });
    for (size_t b = 0; b < w.nb; ++b) v[b] = (b % 3 == 2) ? 0. : ((b % 3 == 1) ? 2. : -0.5); dats.push_back({ "zeros_and_signs2", v });
    const size_t c = w.nb / 2;
    const size_t cand[] = { 0, 1, c, c + 1, w.nb - 1 };
    for (size_t a = 0; a < 5; ++a) for (size_t bb = a + 1; bb < 5; ++bb)
      { if (cand[a] >= w.nb || cand[bb] >= w.nb || cand[a] == cand[bb]) continue; Vec p(w.nb, 0.0); p[cand[a]] = 1; p[cand[bb]] = -2; dats.push_back({ "pair", p }); }
  }
  for (auto& im : imgs)
    {
      Vec sa; const Vec ref = refA(im.second, sa); const Vec got = w.A(im.second);
      w.ctx.count("evaluations"); w.ctx.count("linearity_cases");
      for (size_t b = 0; b < w.nb; ++b)
        if (!(std::fabs(ref[b] - got[b]) <= 100 * EPS * sa[b] + 1e-30))
          { w.viol("linear;op=forward;input=" + im.first, ";lin=f_" + im.first, "A(sum c_j e_j) != sum c_j A e_j on image '" + im.first + "' at bin " + small::bin_str(w.bi->bins[b]) + ": " + vmc::str(got[b]) + " vs " + vmc::str(ref[b])); break; }
    }
  for (auto& d : dats)
    {
      Vec sa; const Vec ref = refAT(d.second, sa); const Vec got = w.AT(d.second);
      w.ctx.count("evaluations"); w.ctx.count("linearity_cases");
      for (size_t j = 0; j < w.nvox; ++j)
        if (!(std::fabs(ref[j] - got[j]) <= 100 * EPS * sa[j] + 1e-30))
          { w.viol("linear;op=back;input=" + d.first, ";lin=b_" + d.first, "A^T(sum c_b f_b) != sum c_b A^T f_b on data '" + d.first + "' at voxel " + voxel_str(w, j) + ": " + vmc::str(got[j]) + " vs " + vmc::str(ref[j])); break; }
    }
}

// ---------------------------------------------------------------- subsets
static void check_subsets(World& w)
{
  const ProjDataInfo& p = *w.b.pdi;
  const DataSymmetriesForViewSegmentNumbers* sym = w.fwd->get_symmetries_used();
  Vec x(w.nvox), y(w.nb);
  for (size_t j = 0; j < w.nvox; ++j) x[j] = 1 + (double)(j % 5);
  for (size_t b = 0; b < w.nb; ++b) y[b] = (b % 4 == 0) ? 0. : (double)(b % 5) - 1.5;
  Vec saA, saT;
  Vec Ax(w.nb, 0.0); saA.assign(w.nb, 0.0);
  for (size_t j = 0; j < w.nvox; ++j) for (size_t b = 0; b < w.nb; ++b) { Ax[b] += x[j] * w.Acol[j][b]; saA[b] += std::fabs(x[j] * w.Acol[j][b]); }
  Vec ATy(w.nvox, 0.0); saT.assign(w.nvox, 0.0);
  for (size_t b = 0; b < w.nb; ++b) if (y[b] != 0) for (size_t j = 0; j < w.nvox; ++j) { ATy[j] += y[b] * w.ATrow[b][j]; saT[j] += std::fabs(y[b] * w.ATrow[b][j]); }
  const float SENT = 7.F;
  for (int n = 1; n <= p.get_num_views(); ++n)
    {
      std::vector<int> owner(w.nb, -1); // which subset writes a bin
      Vec backsum(w.nvox, 0.0);
      bool closed = true;
      for (int s = 0; s < n; ++s)
        {
          const std::string ex = ";subset=" + vmc::str(s) + "/" + vmc::str(n);
          // the view-segment groups of this subset: basic view-segments with view = s mod n, with all their related view-segments
          std::vector<char> touched(w.nb, 0);
          for (int seg = p.get_min_segment_num(); seg <= p.get_max_segment_num(); ++seg)
            for (int v = p.get_min_view_num() + s; v <= p.get_max_view_num(); v += n)
              {
                const ViewSegmentNumbers vs(v, seg);
                if (!sym->is_basic(vs)) continue;
                std::vector<ViewSegmentNumbers> rel;
                sym->get_related_view_segment_numbers(rel, vs);
                for (auto& r : rel)
                  {
                    for (int a = p.get_min_axial_pos_num(r.segment_num()); a <= p.get_max_axial_pos_num(r.segment_num()); ++a)
                      for (int t = p.get_min_tangential_pos_num(); t <= p.get_max_tangential_pos_num(); ++t)
                        for (int k = p.get_min_tof_pos_num(); k <= p.get_max_tof_pos_num(); ++k) touched[w.bi->idx(r.segment_num(), a, r.view_num(), t, k)] = 1;
                  }
              }
          for (size_t b = 0; b < w.nb; ++b)
            if ((touched[b] != 0) != ((w.bi->bins[b].view_num() - p.get_min_view_num() - s) % n == 0)) closed = false;
          for (int zero = 0; zero < 2; ++zero)
            {
              std::string what;
              Vec got;
              if (small::throws([&] { got = w.A(x, s, n, zero != 0, SENT); }, &what)) { w.viol("subset_forward_throws", ex, what); continue; }
              w.ctx.count("evaluations"); w.ctx.count("subset_forward_calls");
              for (size_t b = 0; b < w.nb; ++b)
                {
                  const double expect_other = (zero && n > 1) ? 0. : SENT;
                  if (touched[b])
                    {
                      if (!(std::fabs(got[b] - Ax[b]) <= 100 * EPS * saA[b] + 1e-30))
                        { w.viol("subset_forward_value", ex + ";zero=" + vmc::str(zero), "forward_project(subset " + vmc::str(s) + " of " + vmc::str(n) + ", zero=" + vmc::str(zero) + "): bin " + small::bin_str(w.bi->bins[b]) + " = " + vmc::str(got[b]) + ", full projection gives " + vmc::str(Ax[b])); break; }
                    }
                  else if (got[b] != expect_other)
                    {
                      w.viol(std::string("subset_forward_other_bins;zero=") + vmc::str(zero), ex + ";zero=" + vmc::str(zero),
                             "forward_project(subset " + vmc::str(s) + " of " + vmc::str(n) + ", zero=" + vmc::str(zero) + "): bin " + small::bin_str(w.bi->bins[b]) + " outside the subset is " + vmc::str(got[b]) + ", expected "
                                 + vmc::str(expect_other) + " (data pre-filled with " + vmc::str(SENT) + ")");
                      break;
                    }
                }
            }
          for (size_t b = 0; b < w.nb; ++b)
            if (touched[b])
              {
                if (owner[b] >= 0) { w.viol("subsets_overlap", ex, "bin " + small::bin_str(w.bi->bins[b]) + " belongs to subsets " + vmc::str(owner[b]) + " and " + vmc::str(s) + " of " + vmc::str(n)); break; }
                owner[b] = s;
              }
          Vec bs;
          std::string what;
          if (small::throws([&] { bs = w.AT(y, s, n); }, &what)) { w.viol("subset_back_throws", ex, what); continue; }
          w.ctx.count("evaluations"); w.ctx.count("subset_back_calls");
          for (size_t j = 0; j < w.nvox; ++j) backsum[j] += bs[j];
        }
      for (size_t b = 0; b < w.nb; ++b)
        if (owner[b] < 0) { w.viol("subsets_do_not_cover", ";subset=*/" + vmc::str(n), "bin " + small::bin_str(w.bi->bins[b]) + " is in no subset of " + vmc::str(n) + ": sum over subsets != full projection"); break; }
      for (size_t j = 0; j < w.nvox; ++j)
        if (!(std::fabs(backsum[j] - ATy[j]) <= 200 * EPS * saT[j] + 1e-30))
          { w.viol("subset_back_sum", ";subset=*/" + vmc::str(n), "sum over the " + vmc::str(n) + " subsets of A_S^T y = " + vmc::str(backsum[j]) + " != A^T y = " + vmc::str(ATy[j]) + " at voxel " + voxel_str(w, j)); break; }
      w.ctx.count(closed ? "subset_partitions_closed_under_symmetries" : "subset_partitions_not_closed_under_symmetries");
      if (!closed) w.ctx.observe("num_subsets not compatible with the view symmetries: forward_project(subset) then covers the related view-segment groups of the basic views of the subset (counted, checked against that reading)");
    }
}

// ---------------------------------------------------------------- related-viewgram groups and sub-ranges
static void check_groups(World& w, bool all_ranges)
{
  const ProjDataInfo& p = *w.b.pdi;
  shared_ptr<DataSymmetriesForViewSegmentNumbers> sym(w.fwd->get_symmetries_used()->clone());
  Vec x(w.nvox), y(w.nb);
  for (size_t j = 0; j < w.nvox; ++j) x[j] = 1 + (double)(j % 5);
  for (size_t b = 0; b < w.nb; ++b) y[b] = (b % 4 == 1) ? 0. : (double)(b % 5) - 1.5;
  Vec Ax(w.nb, 0.0), saA(w.nb, 0.0);
  for (size_t j = 0; j < w.nvox; ++j) for (size_t b = 0; b < w.nb; ++b) { Ax[b] += x[j] * w.Acol[j][b]; saA[b] += std::fabs(x[j] * w.Acol[j][b]); }
  auto ydat = w.data(y);
  auto ximg = w.image(x);
  const float SENT = 7.F;
  const int tmin = p.get_min_tangential_pos_num(), tmax = p.get_max_tangential_pos_num();
  for (int seg = p.get_min_segment_num(); seg <= p.get_max_segment_num(); ++seg)
    for (int v = p.get_min_view_num(); v <= p.get_max_view_num(); ++v)
      for (int k = p.get_min_tof_pos_num(); k <= p.get_max_tof_pos_num(); ++k)
        {
          const ViewSegmentNumbers vs(v, seg);
          if (!sym->is_basic(vs)) continue;
          w.ctx.count("related_viewgram_groups");
          const int amin = p.get_min_axial_pos_num(seg), amax = p.get_max_axial_pos_num(seg);
          // sub-ranges: all [a0,a1] x full tang and full ax x all [t0,t1] (all_ranges), else extreme/median combinations
          std::vector<std::array<int, 4>> ranges;
          ranges.push_back({ amin, amax, tmin, tmax });
          if (all_ranges)
            {
              for (int a0 = amin; a0 <= amax; ++a0) for (int a1 = a0; a1 <= amax; ++a1) ranges.push_back({ a0, a1, tmin, tmax });
              for (int t0 = tmin; t0 <= tmax; ++t0) for (int t1 = t0; t1 <= tmax; ++t1) ranges.push_back({ amin, amax, t0, t1 });
              ranges.push_back({ amin, amin, tmin, tmin }); ranges.push_back({ amax, amax, tmax, tmax }); ranges.push_back({ amin, amin, 0, 0 });
              if (tmin < 0 && tmax > 0) { ranges.push_back({ amin, amax, 1, tmax }); ranges.push_back({ amin, amax, tmin, -1 }); ranges.push_back({ amax, amax, -1, 1 }); }
            }
          else
            {
              const int am = (amin + amax) / 2, tm = 0;
              for (auto ar : std::vector<std::pair<int, int>>{ { amin, amin }, { am, amax }, { amax, amax } })
                for (auto tr : std::vector<std::pair<int, int>>{ { tmin, tm }, { tm, tm }, { 1 <= tmax ? 1 : tmax, tmax } }) ranges.push_back({ ar.first, ar.second, tr.first, tr.second });
            }
          for (auto& r : ranges)
            {
              const std::string ex = ";group=s" + vmc::str(seg) + "v" + vmc::str(v) + "k" + vmc::str(k) + ";range=" + vmc::str(r[0]) + "," + vmc::str(r[1]) + "," + vmc::str(r[2]) + "," + vmc::str(r[3]);
              const bool full = r[0] == amin && r[1] == amax && r[2] == tmin && r[3] == tmax;
              const std::string rk = full ? "full" : ((r[2] == tmin && r[3] == tmax) ? "axial" : (r[0] == amin && r[1] == amax) ? "tangential" : "both");
              std::string what;
              // forward
              stir::RelatedViewgrams<float> vg = ydat->get_empty_related_viewgrams(vs, sym, false, k);
              vg.fill(SENT);
              if (small::throws([&] { w.fwd->set_input(*ximg); w.fwd->forward_project(vg, r[0], r[1], r[2], r[3]); }, &what)) { w.viol("subrange_forward_throws;range=" + rk, ex, what); continue; }
              w.ctx.count("evaluations"); w.ctx.count("subrange_forward_calls");
              bool bad = false;
              for (auto it = vg.begin(); it != vg.end() && !bad; ++it)
                for (int a = it->get_min_axial_pos_num(); a <= it->get_max_axial_pos_num() && !bad; ++a)
                  for (int t = it->get_min_tangential_pos_num(); t <= it->get_max_tangential_pos_num() && !bad; ++t)
                    {
                      const size_t b = w.bi->idx(it->get_segment_num(), a, it->get_view_num(), t, k);
                      const bool inwin = a >= r[0] && a <= r[1] && t >= r[2] && t <= r[3];
                      const double got = (*it)[a][t];
                      if (inwin && !(std::fabs(got - Ax[b]) <= 100 * EPS * saA[b] + 1e-30))
                        { bad = true; w.viol("subrange_forward_window;range=" + rk, ex, "forward_project(group, range) bin " + small::bin_str(w.bi->bins[b]) + " = " + vmc::str(got) + ", full call gives " + vmc::str(Ax[b])); }
                      if (!inwin && got != SENT)
                        { bad = true; w.viol("subrange_forward_outside;range=" + rk, ex, "forward_project(group, range) changed bin " + small::bin_str(w.bi->bins[b]) + " outside the requested range: " + vmc::str(got) + " (pre-filled " + vmc::str(SENT) + ")"); }
                    }
              // back: window call == full-range call on data zeroed outside the window
              stir::RelatedViewgrams<float> yg = ydat->get_related_viewgrams(vs, sym, false, k);
              stir::RelatedViewgrams<float> yz = yg;
              for (auto it = yz.begin(); it != yz.end(); ++it)
                for (int a = it->get_min_axial_pos_num(); a <= it->get_max_axial_pos_num(); ++a)
                  for (int t = it->get_min_tangential_pos_num(); t <= it->get_max_tangential_pos_num(); ++t)
                    if (!(a >= r[0] && a <= r[1] && t >= r[2] && t <= r[3])) (*it)[a][t] = 0;
              shared_ptr<VoxelsOnCartesianGrid<float>> o1(w.b.im->get_empty_copy()), o2(w.b.im->get_empty_copy());
              if (small::throws([&] {
                    w.bck->start_accumulating_in_new_target(); w.bck->back_project(yg, r[0], r[1], r[2], r[3]); w.bck->get_output(*o1);
                    w.bck->start_accumulating_in_new_target(); w.bck->back_project(yz); w.bck->get_output(*o2);
                  }, &what))
                { w.viol("subrange_back_throws;range=" + rk, ex, what); continue; }
              w.ctx.count("evaluations", 2); w.ctx.count("subrange_back_calls");
              // reference from the rows
              Vec ref(w.nvox, 0.0), sa(w.nvox, 0.0);
              for (auto it = yz.begin(); it != yz.end(); ++it)
                for (int a = it->get_min_axial_pos_num(); a <= it->get_max_axial_pos_num(); ++a)
                  for (int t = it->get_min_tangential_pos_num(); t <= it->get_max_tangential_pos_num(); ++t)
                    {
                      const double val = (*it)[a][t];
                      if (val == 0) continue;
                      const size_t b = w.bi->idx(it->get_segment_num(), a, it->get_view_num(), t, k);
                      for (size_t j = 0; j < w.nvox; ++j) { ref[j] += val * w.ATrow[b][j]; sa[j] += std::fabs(val * w.ATrow[b][j]); }
                    }
              const Vec f1 = small::flat(*o1), f2 = small::flat(*o2);
              for (size_t j = 0; j < w.nvox; ++j)
                {
                  if (!(std::fabs(f1[j] - ref[j]) <= 200 * EPS * sa[j] + 1e-30))
                    { w.viol("subrange_back_window;range=" + rk, ex, "back_project(group, range) at voxel " + voxel_str(w, j) + " = " + vmc::str(f1[j]) + ", rows of the windowed data give " + vmc::str(ref[j])); break; }
                  if (!(std::fabs(f2[j] - ref[j]) <= 200 * EPS * sa[j] + 1e-30))
                    { w.viol("group_back_full;range=" + rk, ex, "back_project(group) of data zeroed outside the window at voxel " + voxel_str(w, j) + " = " + vmc::str(f2[j]) + ", rows give " + vmc::str(ref[j])); break; }
                }
            }
        }
}

// ---------------------------------------------------------------- accumulation
static void check_accumulate(World& w)
{
  Vec y1(w.nb), y2(w.nb);
  for (size_t b = 0; b < w.nb; ++b) { y1[b] = (b % 3 == 0) ? 0. : 1 + (double)(b % 4); y2[b] = (b % 5 == 0) ? 2. : -(double)(b % 3); }
  auto d1 = w.data(y1), d2 = w.data(y2);
  shared_ptr<VoxelsOnCartesianGrid<float>> o(w.b.im->get_empty_copy());
  std::string what;
  if (small::throws([&] { w.bck->start_accumulating_in_new_target(); w.bck->back_project(*d1); w.bck->back_project(*d2); w.bck->get_output(*o); }, &what)) { w.viol("accumulate_throws", "", what); return; }
  w.ctx.count("evaluations", 2); w.ctx.count("accumulation_cases");
  Vec ref(w.nvox, 0.0), sa(w.nvox, 0.0);
  for (size_t b = 0; b < w.nb; ++b) for (size_t j = 0; j < w.nvox; ++j) { const double c = (y1[b] + y2[b]); ref[j] += y1[b] * w.ATrow[b][j] + y2[b] * w.ATrow[b][j]; sa[j] += (std::fabs(y1[b]) + std::fabs(y2[b])) * std::fabs(w.ATrow[b][j]); (void)c; }
  const Vec got = small::flat(*o);
  for (size_t j = 0; j < w.nvox; ++j)
    if (!(std::fabs(got[j] - ref[j]) <= 200 * EPS * sa[j] + 1e-30))
      { w.viol("accumulate", "", "two back_project calls after start_accumulating_in_new_target: voxel " + voxel_str(w, j) + " = " + vmc::str(got[j]) + ", A^T y1 + A^T y2 = " + vmc::str(ref[j])); break; }
  // a new target starts from zero
  shared_ptr<VoxelsOnCartesianGrid<float>> o2(w.b.im->get_empty_copy());
  w.bck->start_accumulating_in_new_target(); w.bck->back_project(*d1); w.bck->get_output(*o2);
  Vec ref1(w.nvox, 0.0), sa1(w.nvox, 0.0);
  for (size_t b = 0; b < w.nb; ++b) if (y1[b] != 0) for (size_t j = 0; j < w.nvox; ++j) { ref1[j] += y1[b] * w.ATrow[b][j]; sa1[j] += std::fabs(y1[b] * w.ATrow[b][j]); }
  const Vec got1 = small::flat(*o2);
  for (size_t j = 0; j < w.nvox; ++j)
    if (!(std::fabs(got1[j] - ref1[j]) <= 200 * EPS * sa1[j] + 1e-30))
      { w.viol("new_target_not_zero", "", "back_project after start_accumulating_in_new_target: voxel " + voxel_str(w, j) + " = " + vmc::str(got1[j]) + ", A^T y1 = " + vmc::str(ref1[j])); break; }
}

// ---------------------------------------------------------------- on-the-fly ray tracing forward projector vs matrix
// rings whose centre falls exactly on the boundary between two image planes (e.g. an even number of planes with z spacing =
// ring spacing / 2): which plane a direct LOR "lies in" is a rounding tie (excluded by the statement of C03), and the on-the-fly
// projector and the matrix resolve it differently.  Such grids are not compared.
static bool rings_on_plane_boundaries(const World& w)
{
  const int R = w.b.pdi->get_scanner_ptr()->get_num_rings();
  const double nz = (double)w.b.im->get_z_size();
  const double planes_per_ring = w.b.pdi->get_scanner_ptr()->get_ring_spacing() / w.b.im->get_voxel_size().z();
  for (int r = 0; r < R; ++r)
    {
      const double zp = (nz - 1) / 2 + (r - (R - 1) / 2.0) * planes_per_ring + w.b.im->get_origin().z() / w.b.im->get_voxel_size().z() * 0; // origin shifts are whole planes
      if (std::fabs(zp - std::floor(zp + 0.5)) > 1e-6) return true;
    }
  return false;
}

static void check_raytracing_projector(World& w)
{
  // identical settings: one ray per bin, same FOV shape; the on-the-fly projector needs z spacing = ring spacing / 2
  if (w.pc.L != 1 || w.g.zd != 2 || w.g.tof) return;
  if (rings_on_plane_boundaries(w)) { w.ctx.count("raytracing_projector_configs_skipped_rings_on_plane_boundaries"); return; }
  shared_ptr<ForwardProjectorByBinUsingRayTracing> rt(new ForwardProjectorByBinUsingRayTracing());
  rt->restrict_to_cylindrical_FOV = w.pc.fov != 0;
  std::string what;
  if (small::throws([&] { rt->set_up(w.b.pdi, w.b.im); }, &what)) { w.ctx.count("raytracing_projector_rejected_configs"); w.ctx.observe("ForwardProjectorByBinUsingRayTracing rejects " + w.g.str() + ": " + what.substr(0, 120)); return; }
  w.ctx.count("raytracing_projector_configs");
  const double delta = g34::delta_of(*w.b.pdi, *w.b.im);
  // bins on rounding ties of the ray end points are excluded as in C03
  std::vector<char> screened(w.nb, 0);
  size_t ns = 0;
  for (size_t b = 0; b < w.nb; ++b) { screened[b] = g34::screen(*w.b.pdi, *w.b.im, w.bi->bins[b], 1, w.pc.fov != 0, g34::screen_thr(delta)); ns += screened[b]; }
  w.ctx.count("raytracing_bins_screened", (long long)ns);
  w.ctx.count("raytracing_bins", (long long)w.nb);
  Vec rowmax(w.nb, 0.0);
  for (size_t b = 0; b < w.nb; ++b) for (size_t j = 0; j < w.nvox; ++j) rowmax[b] = std::max(rowmax[b], std::fabs(w.ATrow[b][j]));
  Vec e(w.nvox, 0.0);
  std::set<std::string> reported;
  for (size_t j = 0; j < w.nvox; ++j)
    {
      e[j] = 1;
      auto pd = small::make_projdata(w.b.pdi, 0.F);
      if (small::throws([&] { rt->forward_project(*pd, *w.image(e)); }, &what)) { w.viol("raytracing_projector_throws", "", what); return; }
      const Vec got = w.bi->read(*pd);
      e[j] = 0;
      w.ctx.count("evaluations");
      for (size_t b = 0; b < w.nb; ++b)
        {
          if (screened[b]) continue;
          const double tol = 100 * delta * rowmax[b] + 1e-30;
          w.ctx.count("raytracing_elements_compared");
          if (!(std::fabs(got[b] - w.Acol[j][b]) <= tol))
            {
              const Bin& bin = w.bi->bins[b];
              const std::string cls = std::string(bin.segment_num() == 0 ? "direct" : "oblique");
              if (reported.insert(cls).second)
                w.viol("raytracing_vs_matrix;segment=" + cls, ";rt=1;bin=" + small::bin_str(bin) + ";voxel=" + vmc::str(j),
                       "ForwardProjectorByBinUsingRayTracing gives " + vmc::str(got[b]) + " for unit voxel " + voxel_str(w, j) + " in bin " + small::bin_str(bin) + ", the matrix projector gives " + vmc::str(w.Acol[j][b])
                           + " (row maximum " + vmc::str(rowmax[b]) + ")");
            }
        }
    }
}

// sub-range calls of the on-the-fly ray-tracing projector: bins outside the requested window untouched, bins inside equal to the
// matrix projector's value (either written or accumulated onto the pre-filled value, the same way for the whole call)
static void check_raytracing_subranges(World& w, bool all_ranges)
{
  if (w.pc.L != 1 || w.g.zd != 2 || w.g.tof || rings_on_plane_boundaries(w)) return;
  shared_ptr<ForwardProjectorByBinUsingRayTracing> rt(new ForwardProjectorByBinUsingRayTracing());
  rt->restrict_to_cylindrical_FOV = w.pc.fov != 0;
  std::string what;
  if (small::throws([&] { rt->set_up(w.b.pdi, w.b.im); }, &what)) return;
  const ProjDataInfo& p = *w.b.pdi;
  shared_ptr<DataSymmetriesForViewSegmentNumbers> sym(rt->get_symmetries_used()->clone());
  const double delta = g34::delta_of(*w.b.pdi, *w.b.im);
  Vec x(w.nvox), Ax(w.nb, 0.0), saA(w.nb, 0.0), rowmax(w.nb, 0.0);
  double sx = 0;
  for (size_t j = 0; j < w.nvox; ++j) { x[j] = 1 + (double)(j % 5); sx += x[j]; }
  for (size_t j = 0; j < w.nvox; ++j) for (size_t b = 0; b < w.nb; ++b) { Ax[b] += x[j] * w.Acol[j][b]; saA[b] += std::fabs(x[j] * w.Acol[j][b]); rowmax[b] = std::max(rowmax[b], std::fabs(w.Acol[j][b])); }
  std::vector<char> screened(w.nb, 0);
  for (size_t b = 0; b < w.nb; ++b) screened[b] = g34::screen(*w.b.pdi, *w.b.im, w.bi->bins[b], 1, w.pc.fov != 0, g34::screen_thr(delta));
  auto ximg = w.image(x);
  auto ydat = w.data(Vec(w.nb, 0.0));
  const float SENT = 7.F;
  const int tmin = p.get_min_tangential_pos_num(), tmax = p.get_max_tangential_pos_num();
  for (int seg = p.get_min_segment_num(); seg <= p.get_max_segment_num(); ++seg)
    for (int v = p.get_min_view_num(); v <= p.get_max_view_num(); ++v)
      {
        const ViewSegmentNumbers vs(v, seg);
        if (!sym->is_basic(vs)) continue;
        w.ctx.count("raytracing_related_viewgram_groups");
        const int amin = p.get_min_axial_pos_num(seg), amax = p.get_max_axial_pos_num(seg);
        std::vector<std::array<int, 4>> ranges;
        if (all_ranges)
          {
            for (int t0 = tmin; t0 <= tmax; ++t0) for (int t1 = t0; t1 <= tmax; ++t1) ranges.push_back({ amin, amax, t0, t1 });
            for (int a0 = amin; a0 <= amax; ++a0) for (int a1 = a0; a1 <= amax; ++a1) ranges.push_back({ a0, a1, tmin, tmax });
          }
        else
          { // the window entirely on the negative side, entirely on the positive side, around 0, single columns, axial pieces
            for (auto tr : std::vector<std::pair<int, int>>{ { tmin, tmax }, { tmin, -1 }, { tmin, tmin }, { -1, -1 }, { 0, 0 }, { 1, tmax }, { tmax, tmax }, { -1, 1 }, { tmin, 0 }, { 0, tmax } })
              if (tr.first >= tmin && tr.second <= tmax && tr.first <= tr.second) ranges.push_back({ amin, amax, tr.first, tr.second });
            if (amax > amin) { ranges.push_back({ amin, amin, tmin, tmax }); ranges.push_back({ amax, amax, tmin, -1 < tmax ? -1 : tmax }); ranges.push_back({ amin + 1, amax, 0, tmax }); }
          }
        for (auto& r : ranges)
          {
            const std::string ex = ";rtgroup=s" + vmc::str(seg) + "v" + vmc::str(v) + ";range=" + vmc::str(r[0]) + "," + vmc::str(r[1]) + "," + vmc::str(r[2]) + "," + vmc::str(r[3]);
            const std::string rk = r[3] < 0 ? "negative_side" : (r[2] > 0 ? "positive_side" : "spans_zero");
            stir::RelatedViewgrams<float> vg = ydat->get_empty_related_viewgrams(vs, sym);
            vg.fill(SENT);
            if (small::throws([&] { rt->set_input(*ximg); rt->forward_project(vg, r[0], r[1], r[2], r[3]); }, &what)) { w.viol("raytracing_subrange_throws;tangential=" + rk, ex, what); continue; }
            w.ctx.count("evaluations"); w.ctx.count("raytracing_subrange_calls");
            int mode = -1; // 0: values written, 1: accumulated onto the pre-filled value
            bool bad = false;
            for (auto it = vg.begin(); it != vg.end() && !bad; ++it)
              for (int a = it->get_min_axial_pos_num(); a <= it->get_max_axial_pos_num() && !bad; ++a)
                for (int t = it->get_min_tangential_pos_num(); t <= it->get_max_tangential_pos_num() && !bad; ++t)
                  {
                    const size_t b = w.bi->idx(it->get_segment_num(), a, it->get_view_num(), t, 0);
                    const bool inwin = a >= r[0] && a <= r[1] && t >= r[2] && t <= r[3];
                    const double got = (*it)[a][t];
                    if (!inwin)
                      {
                        if (got != SENT)
                          { bad = true; w.viol("raytracing_subrange_outside;tangential=" + rk, ex, "ForwardProjectorByBinUsingRayTracing::forward_project(group, range) changed bin " + small::bin_str(w.bi->bins[b]) + " outside the requested range: " + vmc::str(got) + " (pre-filled " + vmc::str(SENT) + ")"); }
                        continue;
                      }
                    if (screened[b]) continue;
                    const double tol = 100 * delta * rowmax[b] * sx + 100 * EPS * (saA[b] + SENT) + 1e-30;
                    const bool as_written = std::fabs(got - Ax[b]) <= tol, as_added = std::fabs(got - SENT - Ax[b]) <= tol;
                    int m = as_written && !as_added ? 0 : (as_added && !as_written ? 1 : (as_written ? mode : -2));
                    if (m == -2 || (mode >= 0 && m >= 0 && m != mode))
                      { bad = true; w.viol("raytracing_subrange_window;tangential=" + rk, ex, "ForwardProjectorByBinUsingRayTracing::forward_project(group, range) bin " + small::bin_str(w.bi->bins[b]) + " = " + vmc::str(got) + ", the matrix projector gives " + vmc::str(Ax[b]) + " (pre-filled " + vmc::str(SENT) + ")"); }
                    else if (m >= 0) mode = m;
                  }
          }
      }
}

// ---------------------------------------------------------------- re-used projector objects: histories of set_up calls
// One pair object (matrix + forward + back projector; cache per pair configuration) and one on-the-fly ray tracing projector are
// set up several times in a row with different arguments and used after every set_up.  The arguments come from a small alphabet
// derived from the base geometry: S0 (base), image variants with the SAME projection data object (number of planes, z origin, z voxel
// size, x/y size, x/y voxel size) and projection data variants with the SAME image object (fewer segments, other span, fewer views,
// fewer tangential positions).  After every set_up the object must be the projector of the CURRENT arguments:
//   * all unit images forward projected / all unit data back projected == the results of a new pair set up once with these arguments
//   * the pair is still adjoint on the full basis, linear on the superposition family, accumulates, (thorough: subsets partition)
//   * the re-used on-the-fly projector == a new on-the-fly projector, and == the matrix projector (same oracle as for new objects)
struct RState { std::string name; Geo g; };
static std::string hist_str(const std::vector<std::string>& h) { std::string s; for (size_t i = 0; i < h.size(); ++i) s += (i ? ">" : "") + h[i]; return s; }

static std::vector<RState> reuse_alphabet(const Geo& gr)
{
  std::vector<RState> v;
  v.push_back({ "S0", gr });
  { Geo g = gr; g.nz += 2; v.push_back({ "Inz", g }); }                    // number of planes
  { Geo g = gr; g.oz += 1; v.push_back({ "Ioz", g }); }                    // z origin (whole planes)
  { Geo g = gr; g.zd = gr.zd == 2 ? 4 : 2; v.push_back({ "Izd", g }); }    // z voxel size (matrix pair only: the on-the-fly projector is compared for zd=2 only)
  { Geo g = gr; g.nxy += 2; v.push_back({ "Inxy", g }); }                  // x/y size
  { Geo g = gr; g.vxy = gr.vxy == 100 ? 125 : 100; v.push_back({ "Ivxy", g }); } // x/y voxel size
  if (gr.md > 0) { Geo g = gr; g.md = 0; v.push_back({ "Pseg", g }); }      // fewer segments
  { Geo g = gr; g.span = gr.span == 1 ? 3 : 1; v.push_back({ "Pspan", g }); } // other span
  { Geo g = gr; g.mash *= 2; v.push_back({ "Pviews", g }); }               // fewer views
  if (gr.tang >= 4) { Geo g = gr; g.tang -= 2; v.push_back({ "Ptang", g }); } // fewer tangential positions
  return v;
}

// which arguments differ between two consecutive set_up calls (class of the transition, goes into the violation key)
static std::string changed_between(const Geo& a, const Geo& b)
{
  std::string s;
  auto add = [&](bool c, const char* n) { if (c) s += (s.empty() ? "" : "+") + std::string(n); };
  add(a.nz != b.nz || a.oz != b.oz || a.zd != b.zd, "image_z");
  add(a.nxy != b.nxy || a.vxy != b.vxy, "image_xy");
  add(a.span != b.span || a.md != b.md, "data_axial");
  add(a.mash != b.mash || a.tang != b.tang, "data_transaxial");
  return s.empty() ? "nothing" : s;
}

struct Fresh
{
  World w;
  bool ok = false, rt_ok = false, rt_cmp = false;
  bool adopted = false; // a history has continued on the objects of this state (w.M, w.pair, rt): only the results below stay valid
  shared_ptr<ForwardProjectorByBinUsingRayTracing> rt;
  std::vector<Vec> rtcols; // columns of a new on-the-fly projector
  double delta = 0, amax = 0;
  std::vector<char> screened;
  Vec rowmax;
  explicit Fresh(vmc::Ctx& c) : w(c) {}
};

struct ReuseEnv
{
  vmc::Ctx& ctx;
  Geo gr; PairCfg pc;
  bool with_rt = true; // re-use histories of the on-the-fly projector (it does not depend on the matrix settings except the FOV flag)
  std::string kase0, kkey0;
  std::vector<RState> states;
  // equal arguments are the SAME objects in all set_up calls of a unit (a shortcut keyed on the pointer or on operator== both see "no change")
  std::map<std::string, shared_ptr<ProjDataInfo>> pdis;
  std::map<std::string, shared_ptr<Scanner>> scs;
  std::map<std::string, shared_ptr<VoxelsOnCartesianGrid<float>>> ims;
  std::map<std::string, std::unique_ptr<Fresh>> fresh;
  explicit ReuseEnv(vmc::Ctx& c) : ctx(c) {}
  bool rt_wanted(const Geo& g) const { return with_rt && pc.L == 1 && g.zd == 2 && !g.tof; }

  bool built(const Geo& g, g34::Built& b)
  {
    const std::string pk = vmc::str(g.D) + "," + vmc::str(g.R) + "," + vmc::str(g.span) + "," + vmc::str(g.md) + "," + vmc::str(g.mash) + "," + vmc::str(g.tof) + "," + vmc::str(g.tang) + "," + g.blk;
    const std::string ik = vmc::str(g.D) + "," + vmc::str(g.R) + "," + vmc::str(g.tof) + "," + vmc::str(g.nz) + "," + vmc::str(g.nxy) + "," + vmc::str(g.vxy) + "," + vmc::str(g.zd) + "," + vmc::str(g.oz) + "," + g.blk;
    if (!pdis.count(pk) || !ims.count(ik))
      {
        g34::Built n;
        if (small::throws([&] { n = g34::build(g); })) return false;
        if (!pdis.count(pk)) { pdis[pk] = n.pdi; scs[pk] = n.sc; }
        if (!ims.count(ik))
          {
            ExamInfo ex; ex.imaging_modality = ImagingModality::PT;
            n.im->set_exam_info(ex);
            ims[ik] = n.im;
          }
      }
    b.pdi = pdis[pk]; b.sc = scs[pk]; b.im = ims[ik];
    return true;
  }
  const RState* state(const std::string& name) const { for (auto& s : states) if (s.name == name) return &s; return nullptr; }
};

static bool rt_columns(World& w, ForwardProjectorByBinUsingRayTracing& rt, std::vector<Vec>& cols, std::string& what)
{
  cols.assign(w.nvox, Vec());
  Vec e(w.nvox, 0.0);
  for (size_t j = 0; j < w.nvox; ++j)
    {
      e[j] = 1;
      auto pd = small::make_projdata(w.b.pdi, 0.F);
      if (small::throws([&] { rt.forward_project(*pd, *w.image(e)); }, &what)) return false;
      cols[j] = w.bi->read(*pd);
      e[j] = 0;
      w.ctx.count("evaluations");
    }
  return true;
}

// same oracle as check_raytracing_projector: columns of an on-the-fly projector against the columns of the (new) matrix pair f.w
static void rt_against_matrix(World& wv, const Fresh& f, const std::vector<Vec>& cols)
{
  std::set<std::string> reported;
  for (size_t j = 0; j < f.w.nvox; ++j)
    for (size_t b = 0; b < f.w.nb; ++b)
      {
        if (f.screened[b]) continue;
        const double tol = 100 * f.delta * f.rowmax[b] + 1e-30;
        wv.ctx.count("raytracing_elements_compared");
        if (!(std::fabs(cols[j][b] - f.w.Acol[j][b]) <= tol))
          {
            const Bin& bin = f.w.bi->bins[b];
            const std::string cls = std::string(bin.segment_num() == 0 ? "direct" : "oblique");
            if (reported.insert(cls).second)
              wv.viol("raytracing_vs_matrix;segment=" + cls, ";bin=" + small::bin_str(bin) + ";voxel=" + vmc::str(j),
                      "ForwardProjectorByBinUsingRayTracing gives " + vmc::str(cols[j][b]) + " for unit voxel " + voxel_str(f.w, j) + " in bin " + small::bin_str(bin) + ", the matrix projector gives "
                          + vmc::str(f.w.Acol[j][b]) + " (row maximum " + vmc::str(f.rowmax[b]) + ")");
          }
      }
}

// results of new objects set up ONCE with the arguments of a state (= the history of length 1)
static Fresh* fresh_of(ReuseEnv& env, const RState& st)
{
  auto it = env.fresh.find(st.name);
  if (it != env.fresh.end()) return it->second.get();
  vmc::Ctx& ctx = env.ctx;
  std::unique_ptr<Fresh>& fp = env.fresh[st.name];
  fp.reset(new Fresh(ctx));
  Fresh& f = *fp;
  f.w.g = st.g; f.w.pc = env.pc;
  f.w.kase = env.kase0 + ";reuse=" + st.name;
  f.w.kkey = env.kkey0;
  if (!env.built(st.g, f.w.b)) { ctx.count("reuse_states_rejected"); return fp.get(); }
  if (!setup_pair(f.w)) { ctx.count("reuse_states_rejected"); return fp.get(); }
  f.ok = true;
  ctx.count("reuse_states_new_objects");
  check_adjoint(f.w);
  for (auto& c : f.w.Acol) for (double x : c) f.amax = std::max(f.amax, std::fabs(x));
  if (env.rt_wanted(st.g))
    {
      shared_ptr<ForwardProjectorByBinUsingRayTracing> rt(new ForwardProjectorByBinUsingRayTracing());
      rt->restrict_to_cylindrical_FOV = env.pc.fov != 0;
      std::string what;
      if (small::throws([&] { rt->set_up(f.w.b.pdi, f.w.b.im); }, &what)) { ctx.count("reuse_raytracing_states_rejected"); return fp.get(); }
      f.rt = rt;
      if (!rt_columns(f.w, *rt, f.rtcols, what)) { f.w.viol("raytracing_projector_throws", "", what); return fp.get(); }
      f.rt_ok = true;
      f.rt_cmp = !rings_on_plane_boundaries(f.w);
      if (f.rt_cmp)
        {
          f.delta = g34::delta_of(*f.w.b.pdi, *f.w.b.im);
          f.screened.assign(f.w.nb, 0);
          size_t ns = 0;
          for (size_t b = 0; b < f.w.nb; ++b) { f.screened[b] = g34::screen(*f.w.b.pdi, *f.w.b.im, f.w.bi->bins[b], 1, env.pc.fov != 0, g34::screen_thr(f.delta)); ns += f.screened[b]; }
          ctx.count("raytracing_bins_screened", (long long)ns);
          ctx.count("raytracing_bins", (long long)f.w.nb);
          f.rowmax.assign(f.w.nb, 0.0);
          for (size_t b = 0; b < f.w.nb; ++b) for (size_t j = 0; j < f.w.nvox; ++j) f.rowmax[b] = std::max(f.rowmax[b], std::fabs(f.w.ATrow[b][j]));
          if (st.name != "S0") rt_against_matrix(f.w, f, f.rtcols); // S0 is compared by check_raytracing_projector already
        }
      else
        ctx.count("reuse_raytracing_states_rings_on_plane_boundaries");
    }
  return fp.get();
}

static bool operators_differ(const Fresh& a, const Fresh& b)
{
  if (a.w.nb != b.w.nb || a.w.nvox != b.w.nvox) return true;
  const double tol = 100 * EPS * std::max(a.amax, b.amax);
  for (size_t j = 0; j < a.w.nvox; ++j) for (size_t k = 0; k < a.w.nb; ++k) if (std::fabs(a.w.Acol[j][k] - b.w.Acol[j][k]) > tol) return true;
  return false;
}

static void run_history(ReuseEnv& env, const std::vector<std::string>& hist)
{
  vmc::Ctx& ctx = env.ctx;
  const std::string kase = env.kase0 + ";reuse=" + hist_str(hist);
  ctx.current(env.kkey0 + ";reused=1", kase);
  std::vector<const RState*> sts;
  std::vector<Fresh*> frs;
  for (auto& n : hist)
    {
      const RState* s = env.state(n);
      if (!s) { ctx.count("reuse_histories_with_state_not_in_alphabet"); return; }
      Fresh* f = fresh_of(env, *s);
      if (!f->ok) { ctx.count("reuse_histories_skipped_rejected_state"); return; }
      sts.push_back(s); frs.push_back(f);
    }
  ctx.count("reuse_histories");
  if (hist.size() == 1) return; // a new object set up once: done in fresh_of
  World wr(ctx);
  wr.pc = env.pc;
  shared_ptr<ForwardProjectorByBinUsingRayTracing> rt;
  int rtprev = -1;
  size_t k0 = 0;
  if (!frs[0]->adopted)
    { // the new objects of the first state were set up once and used on the full basis: that IS the first step; continue on them
      frs[0]->adopted = true;
      wr.M = frs[0]->w.M; wr.pair = frs[0]->w.pair;
      if (frs[0]->rt_ok) { rt = frs[0]->rt; rtprev = 0; }
      k0 = 1;
      ctx.count("reuse_histories_continuing_the_new_objects");
    }
  else
    new_pair(wr);
  for (size_t k = k0; k < hist.size(); ++k)
    {
      const Fresh& f = *frs[k];
      const std::string changed = k == 0 ? "first_set_up" : changed_between(sts[k - 1]->g, sts[k]->g);
      wr.g = sts[k]->g; wr.b = f.w.b;
      wr.kase = kase + ";step=" + vmc::str((int)k);
      wr.kkey = env.kkey0 + ";reused=1;changed=" + changed;
      const std::string where = "set_up call " + vmc::str((int)k + 1) + " of the history " + hist_str(hist) + " (arguments " + sts[k]->g.str() + ")";
      std::string what;
      if (small::throws([&] { wr.pair->set_up(wr.b.pdi, wr.b.im); }, &what)) { wr.viol("reuse_set_up_throws", "", "pair " + where + " throws, a new pair accepts these arguments: " + what.substr(0, 200)); return; }
      bind_world(wr);
      ctx.count("reuse_set_up_calls");
      if (k > 0)
        {
          ctx.count("reuse_re_set_up_calls");
          ctx.count(operators_differ(*frs[k - 1], f) ? "reuse_re_set_ups_changing_the_operator" : "reuse_re_set_ups_not_changing_the_operator");
        }
      check_adjoint(wr); // uses the object: fills wr.Acol / wr.ATrow (and the cache of the matrix); the pair must still be adjoint
      {
        const double tol = 100 * EPS * f.amax + 1e-30;
        bool badf = false, badb = false;
        for (size_t j = 0; j < wr.nvox && !badf; ++j)
          for (size_t b = 0; b < wr.nb; ++b)
            if (!(std::fabs(wr.Acol[j][b] - f.w.Acol[j][b]) <= tol))
              {
                badf = true;
                wr.viol("reuse_forward_differs_from_new_projector", ";bin=" + small::bin_str(wr.bi->bins[b]) + ";voxel=" + vmc::str(j),
                        "forward projector (matrix) after " + where + ": unit voxel " + voxel_str(wr, j) + " gives " + vmc::str(wr.Acol[j][b]) + " in bin " + small::bin_str(wr.bi->bins[b])
                            + ", a new projector set up once with the same arguments gives " + vmc::str(f.w.Acol[j][b]));
                break;
              }
        for (size_t b = 0; b < wr.nb && !badb; ++b)
          for (size_t j = 0; j < wr.nvox; ++j)
            if (!(std::fabs(wr.ATrow[b][j] - f.w.ATrow[b][j]) <= tol))
              {
                badb = true;
                wr.viol("reuse_back_differs_from_new_projector", ";bin=" + small::bin_str(wr.bi->bins[b]) + ";voxel=" + vmc::str(j),
                        "back projector (matrix) after " + where + ": unit bin " + small::bin_str(wr.bi->bins[b]) + " gives " + vmc::str(wr.ATrow[b][j]) + " in voxel " + voxel_str(wr, j)
                            + ", a new projector set up once with the same arguments gives " + vmc::str(f.w.ATrow[b][j]));
                break;
              }
        ctx.count("reuse_elements_compared_with_new_projector", (long long)(2 * wr.nb * wr.nvox));
      }
      if (k > 0)
        {
          check_linear(wr);
          check_accumulate(wr);
          if (ctx.thorough()) check_subsets(wr);
        }
      // the on-the-fly projector is set up with the states it is compared for (zd = 2, accepted by a new object); others are not shown to it
      if (f.rt_ok)
        {
          if (!rt) { rt.reset(new ForwardProjectorByBinUsingRayTracing()); rt->restrict_to_cylindrical_FOV = env.pc.fov != 0; }
          const std::string rtchanged = rtprev < 0 ? "first_set_up" : changed_between(sts[rtprev]->g, sts[k]->g);
          wr.kkey = env.kkey0 + ";reused=1;changed=" + rtchanged;
          if (small::throws([&] { rt->set_up(wr.b.pdi, wr.b.im); }, &what))
            { wr.viol("reuse_raytracing_set_up_throws", "", "ForwardProjectorByBinUsingRayTracing " + where + " throws, a new projector accepts these arguments: " + what.substr(0, 200)); return; }
          ctx.count("reuse_raytracing_set_up_calls");
          if (rtprev >= 0) ctx.count("reuse_raytracing_re_set_up_calls");
          rtprev = (int)k;
          std::vector<Vec> cols;
          if (!rt_columns(wr, *rt, cols, what)) { wr.viol("reuse_raytracing_projector_throws", "", "ForwardProjectorByBinUsingRayTracing after " + where + ": " + what.substr(0, 200)); return; }
          double rmax = 0;
          for (auto& c : f.rtcols) for (double x : c) rmax = std::max(rmax, std::fabs(x));
          const double tol = 100 * EPS * rmax + 1e-30;
          bool bad = false;
          for (size_t j = 0; j < wr.nvox && !bad; ++j)
            for (size_t b = 0; b < wr.nb; ++b)
              if (!(std::fabs(cols[j][b] - f.rtcols[j][b]) <= tol))
                {
                  bad = true;
                  wr.viol("reuse_raytracing_forward_differs_from_new_projector", ";bin=" + small::bin_str(wr.bi->bins[b]) + ";voxel=" + vmc::str(j),
                          "ForwardProjectorByBinUsingRayTracing after " + where + ": unit voxel " + voxel_str(wr, j) + " gives " + vmc::str(cols[j][b]) + " in bin " + small::bin_str(wr.bi->bins[b])
                              + ", a new projector set up once with the same arguments gives " + vmc::str(f.rtcols[j][b]));
                  break;
                }
          ctx.count("reuse_elements_compared_with_new_projector", (long long)(wr.nb * wr.nvox));
          if (f.rt_cmp) rt_against_matrix(wr, f, cols);
        }
    }
  if (ctx.samples.size() < 6)
    ctx.sample("re-used objects, history " + hist_str(hist) + " of " + env.gr.str() + " " + env.pc.str() + ": after every set_up all unit projections compared with new objects");
}

// one work unit: the histories given (names of the alphabet) on the base geometry g and pair configuration pc
static void run_reuse_unit(vmc::Ctx& ctx, const Geo& g, const PairCfg& pc, bool with_rt, const std::vector<std::vector<std::string>>& hists)
{
  ReuseEnv env(ctx);
  env.pc = pc; env.with_rt = with_rt;
  env.kase0 = g.str() + ";" + pc.str() + ";rt=" + vmc::str((int)with_rt);
  env.kkey0 = "pair=matrix_raytracing;" + pc.key() + ";tof=" + vmc::str(g.tof) + (g.blk.empty() ? "" : ";geom=blocks");
  ctx.current(env.kkey0 + ";reused=1", env.kase0 + ";reuse=S0");
  g34::Built b0;
  if (small::throws([&] { b0 = g34::build(g); })) { ctx.count("rejected_configs"); return; }
  // the base geometry with the defaulted sizes written out (same objects), such that one coordinate can be varied at a time
  env.gr = g;
  env.gr.nz = b0.im->get_z_size(); env.gr.nxy = b0.im->get_x_size(); env.gr.tang = b0.pdi->get_num_tangential_poss();
  if (env.gr.md < 0) env.gr.md = g.R - 1;
  {
    g34::Built b1;
    if (small::throws([&] { b1 = g34::build(env.gr); }) || !(*b1.pdi == *b0.pdi) || !b1.im->has_same_characteristics(*b0.im))
      { ctx.count("reuse_base_not_reproduced"); ctx.observe("re-use histories: explicit sizes do not reproduce the base geometry " + g.str()); return; }
  }
  env.states = reuse_alphabet(env.gr);
  for (auto& h : hists)
    {
      if (ctx.expired()) break;
      run_history(env, h);
    }
}

// the histories of a tier, grouped into work units
static std::vector<std::vector<std::vector<std::string>>> reuse_units(const Geo& g, bool th)
{
  // names only; variants that do not exist for a geometry (Pseg for 1 ring, Ptang for < 4 positions) are counted at run time
  const std::vector<std::string> V = { "Inz", "Ioz", "Izd", "Inxy", "Ivxy", "Pseg", "Pspan", "Pviews", "Ptang" };
  std::vector<std::vector<std::vector<std::string>>> u;
  u.push_back({ { "S0", "S0" } }); // set_up again with the same arguments
  for (auto& v : V)
    { // S0 -> v -> S0: both orders and back again; thorough: also starting from the variant
      if (th) u.push_back({ { "S0", v, "S0" }, { v, "S0", v } });
      else u.push_back({ { "S0", v, "S0" } });
    }
  if (th)
    for (size_t a = 0; a < V.size(); ++a)
      for (size_t b = a + 1; b < V.size(); ++b) u.push_back({ { V[a], V[b], V[a] }, { V[b], V[a], V[b] } }); // image change <-> data change, two image / two data changes
  (void)g;
  return u;
}

// ---------------------------------------------------------------- one case
static void run_case(vmc::Ctx& ctx, const Geo& g, const PairCfg& pc, bool all_ranges, bool with_rt)
{
  World w(ctx);
  w.g = g; w.pc = pc;
  w.kase = g.str() + ";" + pc.str() + ";ar=" + vmc::str((int)all_ranges) + ";rt=" + vmc::str((int)with_rt);
  w.kkey = "pair=matrix_raytracing;" + pc.key() + ";tof=" + vmc::str(g.tof) + (g.blk.empty() ? "" : ";geom=blocks");
  ctx.current(w.kkey, w.kase);
  if (!setup_world(w)) return;
  ctx.count("pair_configs");
  ctx.maxi("max_bins", (long long)w.nb); ctx.maxi("max_voxels", (long long)w.nvox);
  check_adjoint(w);
  check_linear(w);
  check_subsets(w);
  check_groups(w, all_ranges);
  check_accumulate(w);
  if (with_rt) { check_raytracing_projector(w); check_raytracing_subranges(w, all_ranges); }
  if (ctx.samples.size() < 4)
    ctx.sample(g.str() + " " + pc.str() + ": " + vmc::str(w.nvox) + " unit images x " + vmc::str(w.nb) + " unit data compared element-wise; subsets 1.." + vmc::str(w.b.pdi->get_num_views()));
}

int main(int argc, char** argv)
{
  vmc::Ctx ctx(argc, argv, "C04");
  small::quiet();
  ctx.rule = "per (scanner, sampling, image grid, pair configuration): ALL unit images forward projected and ALL unit data back projected (adjointness decided on the full basis), superposition family, every "
             "(subset_num, num_subsets), every related-viewgram group x sub-ranges, accumulation, on-the-fly ray tracing projector vs matrix projector; non-trivial = configuration with non-zero matrix elements; "
             "re-used objects: per (base geometry, pair configuration) every history S0>v>S0 (thorough also v>S0>v and a>b>a, b>a>b for all pairs of variants) of set_up calls on one pair object and one on-the-fly "
             "projector, v in {planes+2, z origin+1, z voxel size, x/y size+2, x/y voxel size | fewer segments, other span, half the views, 2 tangential positions less}, equal arguments being the same objects; after "
             "every set_up ALL unit images / unit data are projected again and compared with new objects set up once (each (history, step, unit vector) with a non-zero result counts as distinct non-trivial)";
  ctx.assume("adjointness: |(A e_j)_b - (A^T f_b)_j| <= 10 eps_float * sum_j |(A^T f_b)_j|; linearity / additivity: <= 100-200 eps_float * sum |terms| against the columns/rows obtained from the unit projections (reference sums in double)");
  ctx.assume("a subset (subset_num, num_subsets) is read as the projectors implement it: the related view-segment groups of the basic view-segments with view = subset_num mod num_subsets; the check requires these groups to "
             "partition the data and every other bin to be untouched (zero=false) or zero (zero=true, num_subsets>1); partitions that are not closed under the view symmetries are counted");
  ctx.assume("on-the-fly ray tracing projector vs matrix projector: one ray per bin, same FOV shape, z spacing = ring spacing/2 (assert-only precondition of the Siddon code); bins on rounding ties of the ray end points excluded by "
             "the C03 screen; tolerance 100*delta*row maximum");
  ctx.assume("re-used objects: after set_up(P, I) a projector is the projector of (P, I) whatever it was set up with and used for before: its unit projections must equal those of a new object set up once with (P, I) within "
             "100 eps_float * largest matrix element (both are the same deterministic computation; a stale member is O(1) wrong); the on-the-fly projector is only shown image grids with z spacing = ring spacing/2 that a new "
             "on-the-fly projector accepts, and is compared with the matrix only for grids without rings on plane boundaries (as for new objects); histories containing arguments that new objects reject are counted and skipped");
  const bool th = ctx.thorough();
  if (ctx.replaying())
    {
      auto m = vmc::kv(ctx.replay);
      Geo g = Geo::parse(m);
      PairCfg pc; pc.sym = atoi(m["sym"].c_str()); pc.cache = atoi(m["cache"].c_str()); pc.L = atoi(m["L"].c_str()); pc.fov = atoi(m["fov"].c_str());
      if (m.count("reuse")) run_reuse_unit(ctx, g, pc, atoi(m["rt"].c_str()) != 0, { vmc::split(m["reuse"], '>') });
      else run_case(ctx, g, pc, atoi(m["ar"].c_str()) != 0, atoi(m["rt"].c_str()) != 0);
      return ctx.finish();
    }
  auto G = [](int D, int R, int span, int mash, int tof, int nz, int nxy, int vxy, int zd, int oz, const char* blk = "") {
    Geo g; g.D = D; g.R = R; g.span = span; g.mash = mash; g.tof = tof; g.nz = nz; g.nxy = nxy; g.vxy = vxy; g.zd = zd; g.oz = oz; g.blk = blk; return g;
  };
  std::vector<Geo> geos;
  geos.push_back(G(8, 2, 1, 1, 0, 0, 5, 100, 2, 0));  // 128 bins x 75 voxels
  geos.push_back(G(8, 2, 3, 1, 0, 0, 0, 100, 2, 0));  // span 3
  if (th)
    {
      geos.push_back(G(8, 1, 1, 1, 0, 0, 0, 100, 2, 0));
      geos.push_back(G(8, 2, 1, 1, 0, 4, 4, 100, 2, 0));  // even sizes
      geos.push_back(G(12, 2, 1, 1, 0, 0, 9, 125, 2, 1)); // 6 views, shifted origin
      geos.push_back(G(16, 2, 1, 2, 0, 0, 6, 100, 4, 0)); // view mashing, z spacing ring/4
      geos.push_back(G(16, 2, 1, 1, 0, 0, 7, 100, 2, 0));
      geos.push_back(G(8, 3, 1, 1, 0, 0, 5, 100, 2, 0));
      geos.push_back(G(8, 2, 1, 1, 5, 0, 5, 100, 2, 0));  // TOF
      geos.push_back(G(8, 2, 1, 1, 0, 0, 15, 40, 2, 0, "B")); // blocks on cylindrical
    }
  std::vector<PairCfg> pcs;
  auto P = [](int sym, int cache, int L, int fov) { PairCfg p; p.sym = sym; p.cache = cache; p.L = L; p.fov = fov; return p; };
  pcs.push_back(P(31, 2, 1, 1)); // defaults: all symmetries, cache of basic bins
  pcs.push_back(P(31, 0, 1, 1)); // no cache: explicit-symmetry code path of the projectors
  pcs.push_back(P(0, 0, 1, 1));
  pcs.push_back(P(31, 1, 2, 0));
  if (th) { pcs.push_back(P(16 + 8, 0, 1, 0)); pcs.push_back(P(4 + 2, 0, 2, 1)); pcs.push_back(P(1 + 2, 2, 1, 1)); pcs.push_back(P(0, 2, 3, 1)); }
  uint64_t unit = 0;
  size_t gi = 0;
  for (const Geo& g : geos)
    {
      size_t pi = 0;
      for (const PairCfg& pc : pcs)
        {
          const bool all_ranges = gi < 2;
          const bool with_rt = pc.L == 1;
          ++pi;
          if (!ctx.mine(unit++)) continue;
          if (ctx.expired()) break;
          run_case(ctx, g, pc, all_ranges, with_rt);
        }
      ++gi;
    }
  // re-used projector objects: histories of set_up calls (work unit = base geometry x pair configuration x group of histories)
  for (const Geo& g : geos)
    {
      std::set<int> fov_done;
      for (const PairCfg& pc : pcs)
        {
          // the on-the-fly projector: once per FOV flag (first pair configuration with one ray per bin and that flag)
          const bool with_rt = pc.L == 1 && fov_done.insert(pc.fov).second;
          if (!th && pc.cache == 0 && pc.sym == 0) continue; // quick: one of the two configurations without cache (the one with symmetries)
          for (auto& hists : reuse_units(g, th))
            {
              if (!ctx.mine(unit++)) continue;
              if (ctx.expired()) break;
              run_reuse_unit(ctx, g, pc, with_rt, hists);
            }
        }
    }
  return ctx.finish();
}
