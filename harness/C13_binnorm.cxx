// C13 - bin normalisation: apply and undo are inverse and match the bin efficiency.
//
// For every generated (scanner, sampling, image grid) x symmetry object {none, DataSymmetriesForBins_PET_CartesianGrid with every
// combination of the 90 degrees / 180 degrees / swap-segment switches (x swap_s+shift_z on / off in the thorough tier)} x normalisation
// object {trivial, from projection data (non-TOF factors, TOF factors, factors with more segments than the data; labelling factors and
// "all 1 except one bin = 2" for EVERY bin), from an attenuation image (matrix projector with the symmetries of the case / cached and
// uncached / 1 and 2 rays, on-the-fly ray tracing projector; uniform, labelling and EVERY unit-voxel mu map), PET components
// (efficiencies, dead crystal, all ones, nothing allocated, all three components), a calibrated table (base-class apply/undo through
// get_bin_efficiency, calibration factor, branching ratio, one zero efficiency), chains of every ordered pair of kinds and of every
// ordered triple of distinct kinds in both nestings}:
//   the REAL object is set up and called (a) on a whole ProjData with the symmetry object and (b) on every group of related viewgrams
//   x every TOF bin, with data = all ones, labelling data and (sweep) EVERY unit bin, and compared bin by bin with the reference
//   efficiencies of engine/ref_binnorm.h:
//     undo_factor   undo(x)_b == x_b * eff_b                        apply_factor   apply(x)_b == x_b / eff_b   (eff_b != 0)
//     diagonal      unit bin in => every other bin stays exactly 0
//     roundtrip     undo(apply(x)) == x and apply(undo(x)) == x where the efficiency is non-zero
//     reported      get_bin_efficiency(b) (where the class implements it) == undo(1)_b, and == the reference where one is known
//     trivial       is_trivial() => apply and undo leave the data bit-for-bit unchanged
//     path          whole-ProjData call == related-viewgrams calls
// Configurations STIR rejects with error() / Succeeded::no are counted, not failures.
#include "vmc.h"
#include "stir_small.h"
#include "ref_geom34.h"
#include "ref_binnorm.h"
#include "stir/recon_buildblock/find_basic_vs_nums_in_subsets.h"
#include "stir/RelatedViewgrams.h"
#include <limits>

using namespace stir;
using bn::Vec;
using bn::World;
using g34::Geo;
static const double EPS = bn::EPS;

enum Op { UNDO = 0, APPLY = 1, APPLY_UNDO = 2, UNDO_APPLY = 3 };
static const char* PATHN[2] = { "projdata", "viewgrams" };

static void do_op(const BinNormalisation& N, RelatedViewgrams<float>& rv, Op op)
{
  if (op == UNDO || op == UNDO_APPLY) N.undo(rv); else N.apply(rv);
  if (op == APPLY_UNDO) N.undo(rv);
  if (op == UNDO_APPLY) N.apply(rv);
}
static void do_op(const BinNormalisation& N, ProjData& pd, const shared_ptr<DataSymmetriesForViewSegmentNumbers>& sym, Op op)
{
  if (op == UNDO || op == UNDO_APPLY) N.undo(pd, sym); else N.apply(pd, sym);
  if (op == APPLY_UNDO) N.undo(pd, sym);
  if (op == UNDO_APPLY) N.apply(pd, sym);
}

// executes one operation on the real object; false if STIR threw (message in what)
static bool exec(World& w, const BinNormalisation& N, int path, Op op, const Vec& x, Vec& y, std::string& what)
{
  w.ctx.count("evaluations");
  auto pd = bn::projdata_from(w.b.pdi, w.exam, *w.bi, x);
  if (path == 0)
    {
      if (small::throws([&] { do_op(N, *pd, w.sym, op); }, &what)) return false;
      y = w.bi->read(*pd);
      return true;
    }
  y.assign(w.nb, std::numeric_limits<double>::quiet_NaN());
  const ProjDataInfo& p = *w.b.pdi;
  bool ok = true;
  if (small::throws(
          [&] {
            const std::vector<ViewSegmentNumbers> basic = detail::find_basic_vs_nums_in_subset(p, *w.sym_for_vg, p.get_min_segment_num(), p.get_max_segment_num(), 0, 1);
            for (const ViewSegmentNumbers& vs : basic)
              for (int k = p.get_min_tof_pos_num(); k <= p.get_max_tof_pos_num(); ++k)
                {
                  RelatedViewgrams<float> rv = pd->get_related_viewgrams(vs, w.sym_for_vg, false, k);
                  if (rv.get_num_viewgrams() > 1) w.ctx.count("related_groups_with_more_than_1_viewgram");
                  w.ctx.count("related_groups");
                  do_op(N, rv, op);
                  for (auto it = rv.begin(); it != rv.end(); ++it)
                    for (int a = it->get_min_axial_pos_num(); a <= it->get_max_axial_pos_num(); ++a)
                      for (int t = it->get_min_tangential_pos_num(); t <= it->get_max_tangential_pos_num(); ++t)
                        {
                          const Bin q(it->get_segment_num(), it->get_view_num(), a, t, it->get_timing_pos_num());
                          if (!w.bi->has(q)) { ok = false; continue; }
                          y[w.bi->idx(q)] = (*it)[a][t];
                        }
                }
          },
          &what))
    return false;
  if (!ok) { what = "harness: a related viewgram lies outside the data"; return false; }
  return true;
}

struct Case
{
  Geo g; int sy = 0; std::string spec; int sweep = 0;
  std::string str() const { return g.str() + ";sy=" + vmc::str(sy) + ";norm=" + spec + ";sweep=" + vmc::str(sweep); }
};

static void run_case(vmc::Ctx& ctx, const Case& c)
{
  const std::string kase = c.str();
  ctx.current("norm_spec=" + c.spec.substr(0, 1), kase);
  World w(ctx);
  w.g = c.g; w.sy = c.sy;
  std::string what;
  if (small::throws([&] { w.setup(); }, &what)) { ctx.count("rejected_geometries"); ctx.observe("geometry rejected by STIR: " + c.g.str() + " sy=" + vmc::str(c.sy) + ": " + what.substr(0, 120)); return; }
  bn::BuiltNorm bnm;
  if (small::throws([&] { bnm = bn::build(w, c.spec); }, &what)) { ctx.count("rejected_constructions"); ctx.observe("construction of " + c.spec + " rejected: " + what.substr(0, 120)); return; }
  if (bnm.skipped) { ctx.count("not_applicable_specs"); return; }
  const bn::Ref& r = bnm.r;
  BinNormalisation& N = *bnm.n;
  const size_t nb = w.nb;
  const std::string keytail0 = ";norm=" + r.sig + ";sym=" + (c.sy == 0 ? "none" : "pet") + ";tof=" + vmc::str((int)w.tof);
  Vec X1(nb, 1.0), XL(nb), y;
  for (size_t i = 0; i < nb; ++i) XL[i] = 1 + (double)((i * 5) % 13);

  // ---- use before set_up: the statement is silent; recorded, never a violation
  if (r.leaves == 1)
    {
      const bool thrown = !exec(w, N, 1, UNDO, X1, y, what);
      ctx.count(std::string(thrown ? "use_before_set_up_rejected:" : "use_before_set_up_accepted:") + r.sig);
      if (!thrown && r.sig != "trivial") ctx.observe("undo() before set_up() is accepted by " + r.sig);
    }
  // ---- set_up
  bool ok = false;
  if (small::throws([&] { ok = N.set_up(w.exam, w.b.pdi) == Succeeded::yes; }, &what) || !ok)
    {
      ctx.count("rejected_configs");
      ctx.count("rejected_set_up:" + r.sig);
      if (r.leaves == 1) ctx.observe("set_up rejected: " + r.sig + " on tof=" + vmc::str((int)w.tof) + " span=" + vmc::str(c.g.span) + " mash=" + vmc::str(c.g.mash) + (ok ? "" : (": " + what.substr(0, 100))));
      return;
    }
  // ---- efficiencies the object reports
  Vec gbe(nb, 0.0);
  bool reports = true;
  for (size_t i = 0; i < nb && reports; ++i)
    {
      float v = 0;
      if (small::throws([&] { v = N.get_bin_efficiency(w.bi->bins[i]); }, &what)) reports = false;
      gbe[i] = v;
    }
  ctx.count(reports ? "objects_reporting_efficiencies" : "objects_not_reporting_efficiencies");
  bool trivial = false;
  if (small::throws([&] { trivial = N.is_trivial(); }, &what)) trivial = false;
  if (trivial) ctx.count("objects_reporting_trivial");

  // reference used for the factor clauses: independent value where known, else the reported efficiency
  Vec eff(nb, 0.0), rtol(nb, 0.0);
  std::vector<char> have(nb, 0);
  const double tol_chain = (4 * r.leaves + 4) * EPS;
  size_t n_known = 0, n_zero = 0;
  for (size_t i = 0; i < nb; ++i)
    {
      if (r.known[i]) { eff[i] = r.eff[i]; rtol[i] = r.reltol[i] + tol_chain; have[i] = 1; ++n_known; }
      else if (reports) { eff[i] = gbe[i]; rtol[i] = tol_chain; have[i] = 1; }
      if (have[i] && eff[i] == 0) ++n_zero;
    }
  ctx.count("bins_with_independent_reference", (long long)n_known);
  ctx.count("bins_without_independent_reference", (long long)(nb - n_known));
  if (r.atten)
    {
      ctx.count("attenuation_bins", (long long)r.atten_bins);
      ctx.count("attenuation_bins_tie_screened", (long long)r.atten_bins_screened);
      if (r.atten_bins_screened * 10 > r.atten_bins) // vacuous rather than pass: the generated geometries are chosen so that this does not happen
        ctx.violation("clause=vacuous_too_many_ray_tracing_ties" + keytail0, kase, vmc::str(r.atten_bins_screened) + " of " + vmc::str(r.atten_bins) + " attenuation bins are on ray tracing ties (no reference)");
    }
  if (n_zero) ctx.count("bins_with_zero_efficiency", (long long)n_zero);
  if (w.tof && r.sig.find("projdata") != std::string::npos && r.sig.find("projdata_tof") == std::string::npos) ctx.count("units_tof_data_with_non_tof_factors");

  if (reports)
    for (size_t i = 0; i < nb; ++i)
      {
        if (!r.known[i]) continue;
        ctx.count("reported_efficiencies_compared_with_model");
        if (!(std::fabs(gbe[i] - r.eff[i]) <= (r.reltol[i] + tol_chain) * std::fabs(r.eff[i])))
          {
            ctx.violation("clause=reported_efficiency_vs_model" + keytail0, kase,
                          "get_bin_efficiency(" + small::bin_str(w.bi->bins[i]) + ") = " + vmc::str(gbe[i]) + ", the documented model gives " + vmc::str(r.eff[i]));
            break;
          }
      }

  bool any_accepted = false;
  Vec undoL[2];
  bool haveL[2] = { false, false };
  for (int path = 0; path < 2; ++path)
    {
      const std::string keytail = keytail0 + ";path=" + PATHN[path];
      auto viol = [&](const std::string& clause, const std::string& msg) { ctx.violation("clause=" + clause + keytail, kase, msg); };
      // generic comparison of one execution; returns false if something was reported
      // mode UNDO: expect x*eff ; APPLY: x/eff where eff != 0 ; round trips: x where eff != 0
      auto check = [&](Op op, const Vec& x, const Vec& got, const Vec& u1, const std::string& dataname) {
        std::set<std::string> reported; // one report per clause and execution; all bins are looked at
        long long n_checked = 0, n_skipped = 0;
        for (size_t i = 0; i < nb; ++i)
          {
            double expect = 0, tol = 0;
            bool chk = false;
            const bool nonzero_eff = have[i] ? eff[i] != 0 : (!u1.empty() && u1[i] != 0);
            if (op == UNDO) { if (have[i]) { expect = x[i] * eff[i]; tol = rtol[i] * std::fabs(expect); chk = true; } else if (x[i] == 0) { expect = 0; chk = true; } }
            else if (op == APPLY) { if (have[i] && eff[i] != 0) { expect = x[i] / eff[i]; tol = rtol[i] * std::fabs(expect); chk = true; } }
            else { if (nonzero_eff) { expect = x[i]; tol = 2 * tol_chain * std::fabs(expect); chk = true; } }
            if (!chk) { ++n_skipped; continue; }
            ++n_checked;
            if (!(std::fabs(got[i] - expect) <= tol))
              {
                const Bin& q = w.bi->bins[i];
                std::string clause = op == UNDO ? "undo_factor" : op == APPLY ? "apply_factor" : op == APPLY_UNDO ? "roundtrip_apply_undo" : "roundtrip_undo_apply";
                if (x[i] == 0 && (op == UNDO || op == APPLY)) clause = "diagonal";
                else if (op == UNDO && got[i] == 0) clause += ";got=zero";
                if (!reported.insert(clause).second) continue;
                viol(clause, std::string(op == UNDO ? "undo" : op == APPLY ? "apply" : op == APPLY_UNDO ? "apply then undo" : "undo then apply") + " on " + dataname + ": bin " + small::bin_str(q)
                                 + " input " + vmc::str(x[i]) + " gives " + vmc::str(got[i]) + ", expected " + vmc::str(expect) + " (efficiency " + (have[i] ? vmc::str(eff[i]) : std::string("unknown"))
                                 + (r.known[i] ? ", documented model" : ", as reported by the object") + "; tolerance " + vmc::str(tol) + ")");
              }
          }
        ctx.count("bin_checks", n_checked);
        if (n_skipped) ctx.count("bin_checks_skipped", n_skipped);
        return reported.empty();
      };
      // is_trivial() => bit-for-bit unchanged; the key says whether the changed bins are all outside the tangentially symmetric range
      auto check_trivial = [&](const char* opname, const Vec& got) {
        const int h = std::min(w.b.pdi->get_max_tangential_pos_num(), -w.b.pdi->get_min_tangential_pos_num());
        size_t changed = 0, changed_inside = 0, first = nb;
        for (size_t i = 0; i < nb; ++i)
          if ((float)got[i] != (float)XL[i])
            {
              ++changed;
              if (std::abs(w.bi->bins[i].tangential_pos_num()) <= h) { if (!changed_inside++) first = i; }
              else if (first == nb) first = i;
            }
        if (!changed) return;
        if (changed_inside) for (size_t i = 0; i < nb; ++i) if ((float)got[i] != (float)XL[i] && std::abs(w.bi->bins[i].tangential_pos_num()) <= h) { first = i; break; }
        viol(std::string("trivial_changes_data;bins=") + (changed_inside ? "any" : "outside_symmetric_tangential_range"),
             std::string("is_trivial() is true but ") + opname + " changes " + vmc::str(changed) + " bins (" + vmc::str(changed_inside) + " of them with |tangential position| <= " + vmc::str(h) + "), e.g. bin "
                 + small::bin_str(w.bi->bins[first]) + " from " + vmc::str(XL[first]) + " to " + vmc::str(got[first]));
      };
      // ---- undo(1): the efficiencies as applied
      Vec u1;
      if (!exec(w, N, path, UNDO, X1, u1, what))
        {
          ctx.count("rejected_calls");
          ctx.count(std::string("rejected_call:") + PATHN[path] + ":" + r.sig + ":sym=" + (c.sy == 0 ? "none" : "pet"));
          if (r.leaves == 1) ctx.observe(std::string("call rejected by STIR (symmetries ") + (c.sy == 0 ? "none/trivial" : "PET_CartesianGrid") + ", " + r.sig + "): " + what.substr(0, 110));
          continue;
        }
      any_accepted = true;
      ctx.count(std::string("accepted_calls:") + PATHN[path]);
      for (size_t i = 0; i < nb; ++i)
        if (!(u1[i] >= 0) || !std::isfinite(u1[i]))
          { viol("factor_sign", "undo(1) at bin " + small::bin_str(w.bi->bins[i]) + " = " + vmc::str(u1[i]) + ": not a non-negative finite factor"); break; }
      check(UNDO, X1, u1, u1, "all ones");
      // ---- STIR-independent tie for a uniform mu map (cylindrical FOV, one ray): the line integral of a direct bin lies between
      //      mu*chord and mu*(chord + 2 voxel diagonals), chord = 2 sqrt(R_fov^2 - s^2)
      if (c.spec == "A0" || c.spec == "B0")
        {
          const auto vs = w.b.im->get_voxel_size();
          const double fovrad = std::min(std::min(w.b.im->get_max_x(), -w.b.im->get_min_x()) * vs.x(), std::min(w.b.im->get_max_y(), -w.b.im->get_min_y()) * vs.y());
          const double diag = std::sqrt(vs.x() * vs.x() + vs.y() * vs.y() + vs.z() * vs.z()), mu = 0.096;
          for (size_t i = 0; i < nb; ++i)
            {
              const Bin& q = w.bi->bins[i];
              if (!r.known[i] || w.b.pdi->get_tantheta(q) != 0) continue;
              // the ray tracing spreads a direct bin over the planes zc-1..zc+1 and the projectors clip z: only bins that stay inside
              const double zc = w.b.pdi->get_m(q) / vs.z() + (w.b.im->get_min_z() + w.b.im->get_max_z()) / 2.;
              if (!(zc - 1 >= w.b.im->get_min_z() - 1e-3 && zc + 1 <= w.b.im->get_max_z() + 1e-3)) { ctx.count("chord_length_ties_skipped_axial_edge"); continue; }
              const double s = w.b.pdi->get_s(q);
              const double chord = 2 * std::sqrt(std::max(0., fovrad * fovrad - s * s));
              const double hi = std::exp(-mu * (chord * (1 - 1e-3) - 1e-3) / 10) * (1 + 1e-5), lo = std::exp(-mu * (chord * (1 + 1e-3) + 2 * diag * 1.001) / 10) * (1 - 1e-5);
              ctx.count("chord_length_ties_checked");
              if (chord > 0) ctx.count("chord_length_ties_nonzero_chord");
              if (!(u1[i] >= lo && u1[i] <= hi))
                {
                  viol("attenuation_chord_tie", "uniform mu = 0.096 cm^-1: undo(1) at direct bin " + small::bin_str(q) + " = " + vmc::str(u1[i]) + " outside [" + vmc::str(lo) + ", " + vmc::str(hi)
                                                    + "] = exp(-mu*[chord, chord+2 voxel diagonals]/10), chord " + vmc::str(chord) + " mm");
                  break;
                }
            }
        }
      if (reports)
        for (size_t i = 0; i < nb; ++i)
          {
            ctx.count("reported_efficiencies_compared_with_undo");
            if (!(std::fabs(u1[i] - gbe[i]) <= tol_chain * std::fabs(gbe[i])))
              {
                viol("undo_vs_reported_efficiency", "undo(1) at bin " + small::bin_str(w.bi->bins[i]) + " = " + vmc::str(u1[i]) + " but get_bin_efficiency reports " + vmc::str(gbe[i]));
                break;
              }
          }
      // ---- labelling data: same fixed factor, inverse, round trips
      if (exec(w, N, path, UNDO, XL, y, what)) { check(UNDO, XL, y, u1, "labelling data"); undoL[path] = y; haveL[path] = true; }
      else viol("throws_after_accepting", "undo of the labelling data throws although undo(1) was accepted: " + what.substr(0, 120));
      for (Op op : { APPLY, APPLY_UNDO, UNDO_APPLY })
        {
          if (!exec(w, N, path, op, XL, y, what)) { viol("throws_after_accepting", "an operation throws although undo(1) was accepted: " + what.substr(0, 120)); break; }
          check(op, XL, y, u1, "labelling data");
          if (op == APPLY && trivial) check_trivial("apply", y);
        }
      if (exec(w, N, path, APPLY, X1, y, what)) check(APPLY, X1, y, u1, "all ones");
      if (trivial && haveL[path])
        {
          ctx.count("trivial_objects_checked_bitwise");
          check_trivial("undo", undoL[path]);
        }
      // ---- every unit bin: the operator is diagonal
      if (c.sweep)
        {
          Vec e(nb, 0.0);
          for (size_t i = 0; i < nb; ++i)
            {
              e[i] = 3;
              bool good = true;
              if (exec(w, N, path, UNDO, e, y, what)) good = check(UNDO, e, y, u1, "unit bin") && good;
              if (exec(w, N, path, APPLY, e, y, what)) good = check(APPLY, e, y, u1, "unit bin") && good;
              e[i] = 0;
              ctx.count("unit_bins_swept");
              if (!good) break;
            }
        }
    }
  if (haveL[0] && haveL[1])
    for (size_t i = 0; i < nb; ++i)
      if (!(std::fabs(undoL[0][i] - undoL[1][i]) <= 2 * tol_chain * std::fabs(undoL[0][i])))
        {
          ctx.violation("clause=path_dependence" + keytail0, kase,
                        "undo of the labelling data at bin " + small::bin_str(w.bi->bins[i]) + ": whole ProjData call gives " + vmc::str(undoL[0][i]) + ", related-viewgrams call gives " + vmc::str(undoL[1][i]));
          break;
        }
  if (any_accepted)
    {
      ctx.count("units_accepted");
      for (const std::string& k : r.kinds) ctx.count("accepted_units_with:" + k);
      if (r.leaves > 1) ctx.count("accepted_chains_of_" + vmc::str(r.leaves));
      if (r.nonunit) ctx.nontrivial(kase);
      ctx.maxi("max_bins", (long long)nb);
      ctx.maxi("max_chain_members", r.leaves);
      if (ctx.samples.size() < 6 && r.leaves >= 2 && c.sy > 1)
        ctx.sample(kase + " : " + r.sig + ", " + vmc::str(nb) + " bins, efficiency of bin " + small::bin_str(w.bi->bins[nb / 2]) + " = " + vmc::str(eff[nb / 2]) + (reports ? " (reported " + vmc::str(gbe[nb / 2]) + ")" : " (class reports none)"));
    }
  else
    ctx.count("units_with_every_call_rejected");
}

// ------------------------------------------------------------------------------------------------ enumeration
static void specs_for(const Geo& g, int sy, bool th, std::vector<std::pair<std::string, int>>& out)
{
  // sizes of the families
  g34::Built b = g34::build(g);
  const bool tof = b.pdi->get_num_tof_poss() > 1;
  auto pdi_nt = tof ? b.pdi->create_non_tof_clone() : b.pdi;
  const size_t nb = small::all_bins(*b.pdi).size(), nb_nt = small::all_bins(*pdi_nt).size();
  const size_t nvox = (size_t)b.im->get_z_size() * b.im->get_y_size() * b.im->get_x_size();
  const bool comp_ok = !tof && g.span == 1 && g.mash == 1;
  const bool full_sy = sy == 0 || sy == 8;
  auto add = [&](const std::string& s, int sweep) { out.push_back({ s, sweep }); };
  // ---- leaves
  for (const char* s : { "T", "P0", "P1", "W0", "W1", "Wz", "Ce", "Cz", "C1", "Ct", "Cn", "Cx", "A0", "A1", "D1", "B0", "B1", "S0" }) add(s, 1);
  if (th) add("D0", 1);
  if (tof) { add("Q0", 1); add("Q1", 1); }
  if (th || full_sy)
    {
      for (size_t k = 0; k < nb_nt; ++k) add("Pu" + vmc::str(k), 0);
      if (tof) for (size_t k = 0; k < nb; ++k) add("Qu" + vmc::str(k), 0);
      if (!tof)
        for (size_t j = 0; j < nvox; ++j)
          {
            add("Av" + vmc::str(j), 0);
            if (sy == 8) add("Bv" + vmc::str(j), 0);
            if (th) add("Dv" + vmc::str(j), 0);
          }
    }
  // ---- chains
  std::vector<char> kinds = { 'T', 'P', 'W' };
  if (tof) kinds.push_back('Q');
  if (!tof) kinds.push_back('A');
  if (comp_ok) kinds.push_back('C');
  const std::string centre = vmc::str(nvox / 2);
  auto leaf = [&](char k, int pos) -> std::string {
    switch (k)
      {
      case 'T': return "T";
      case 'P': return pos == 0 ? "P0" : pos == 1 ? "P1" : "Pu3";
      case 'Q': return pos == 0 ? "Q0" : pos == 1 ? "Q1" : "Qu2";
      case 'A': return pos == 0 ? "A1" : pos == 1 ? "A0" : "Av" + centre;
      case 'C': return pos == 0 ? "Ce" : pos == 1 ? "Cz" : "C1";
      default: return pos == 0 ? "W1" : pos == 1 ? "W0" : "Wz";
      }
  };
  for (char k1 : kinds)
    for (char k2 : kinds) add("(" + leaf(k1, 0) + "," + leaf(k2, 1) + ")", 1);
  if (!tof) { add("(P0,B0)", 1); add("(B1,P1)", 0); add("(D1,A0)", 0); }
  if (comp_ok) add("(Cx,P1)", 0);
  if (th || full_sy)
    for (char k1 : kinds)
      for (char k2 : kinds)
        for (char k3 : kinds)
          {
            if (k1 == k2 || k1 == k3 || k2 == k3) continue;
            add("((" + leaf(k1, 0) + "," + leaf(k2, 1) + ")," + leaf(k3, 2) + ")", th ? 1 : 0);
            add("(" + leaf(k1, 0) + ",(" + leaf(k2, 1) + "," + leaf(k3, 2) + "))", 0);
          }
}

int main(int argc, char** argv)
{
  vmc::Ctx ctx(argc, argv, "C13");
  small::quiet();
  ctx.rule = "one unit = (geometry, symmetry object, normalisation object); the real object is called on the whole ProjData and on every related-viewgram group x TOF bin with all-ones, labelling and (sweep) every "
             "unit-bin data set, undo/apply/both round trips; one evaluation = one such call sequence over all bins; non-trivial = unit accepted by STIR whose reference efficiencies are not all 1";
  ctx.assume("reference efficiencies: 1/factor (from projection data), exp(-sum_j P_bj mu_j voxel_size_x/10) with P = STIR's own ray tracing matrix with all symmetries off and no cache (attenuation, mu in cm^-1), "
             "product of the two crystal efficiencies (components, efficiencies only), table/(calibration*branching ratio), product over chain members");
  ctx.assume("tolerance of undo(1) against the reference: (4*members+4)*eps_float relative, plus for attenuation expm1(voxel_x/10*(100*delta*row maximum*sum(mu)) + 200 eps*line integral) with delta the C03 "
             "geometric rounding bound; attenuation bins on ray-tracing ties (C03 screen, computed from the geometry only) have no independent reference and are counted");
  ctx.assume("components with geometric/block factors: no independent model here (C20), the efficiency the object reports is the reference; uniform-mu analytic chord tie: exp(-mu*(chord+2 voxel diagonals)/10) <= eff <= exp(-mu*chord/10) for direct bins");
  ctx.assume("round trips and apply are only checked where the efficiency is non-zero; calls rejected by STIR with error() (e.g. attenuation projector with other symmetries than the viewgrams) are counted, not failures; "
             "use before set_up is recorded as an observation only (the statement is silent)");
  if (ctx.replaying())
    {
      auto m = vmc::kv(ctx.replay);
      Case c; c.g = Geo::parse(m); c.sy = atoi(m["sy"].c_str()); c.spec = m["norm"]; c.sweep = atoi(m["sweep"].c_str());
      run_case(ctx, c);
      return ctx.finish();
    }
  const bool th = ctx.thorough();
  auto G = [](int D, int R, int span, int md, int mash, int tof, int tang, int nz, int nxy, int vxy) {
    Geo g; g.D = D; g.R = R; g.span = span; g.md = md; g.mash = mash; g.tof = tof; g.tang = tang; g.nz = nz; g.nxy = nxy; g.vxy = vxy; return g;
  };
  std::vector<Geo> geos;
  geos.push_back(G(8, 2, 1, -1, 1, 0, 3, 0, 3, 100));  // span 1, 3 tangential positions
  geos.push_back(G(8, 2, 1, 0, 1, 0, 0, 5, 5, 50));    // 4 (even) tangential positions, only segment 0 of 3, voxels of half a bin, 5 planes (no axial clipping)
  geos.push_back(G(8, 2, 3, -1, 1, 0, 3, 0, 3, 100));  // span 3
  geos.push_back(G(8, 2, 1, -1, 1, 3, 3, 0, 3, 100));  // TOF, 3 bins
  geos.push_back(G(16, 1, 1, -1, 1, 0, 5, 0, 5, 100)); // 8 views, 4 transaxial blocks (geo/block factors defined for every bin)
  if (th)
    {
      geos.push_back(G(12, 2, 1, -1, 1, 0, 5, 0, 5, 110)); // 6 views: no 90 degree symmetry, voxels of 1.1 bins
      geos.push_back(G(16, 2, 1, -1, 2, 0, 5, 0, 5, 100)); // view mashing
      geos.push_back(G(8, 3, 1, 1, 1, 0, 3, 0, 3, 100));   // 3 rings, max ring difference 1 of 2
      geos.push_back(G(16, 2, 1, -1, 1, 0, 6, 0, 7, 100)); // 8 views, 2 rings, even tangential size
      geos.push_back(G(8, 2, 1, -1, 1, 5, 3, 0, 3, 100));  // TOF, 5 bins
      geos.push_back(G(8, 3, 3, -1, 1, 3, 3, 0, 3, 100));  // TOF, span 3
    }
  uint64_t unit = 0;
  for (const Geo& g : geos)
    for (int sy = 0; sy <= (th ? 16 : 8); ++sy)
      {
        std::vector<std::pair<std::string, int>> specs;
        specs_for(g, sy, th, specs);
        for (auto& s : specs)
          {
            if (!ctx.mine(unit++)) continue;
            if (ctx.expired()) return ctx.finish();
            Case c; c.g = g; c.sy = sy; c.spec = s.first; c.sweep = s.second;
            run_case(ctx, c);
            ctx.count("units");
          }
      }
  return ctx.finish();
}
