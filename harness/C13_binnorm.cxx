// C13 - bin normalisation: apply and undo are inverse and match the bin efficiency.
//
// For every generated (scanner, sampling, image grid) x symmetry object {none, DataSymmetriesForBins_PET_CartesianGrid with every
// combination of the 90 degrees / 180 degrees / swap-segment switches (x swap_s+shift_z on / off in the thorough tier)} x normalisation
// object {trivial, from projection data (non-TOF factors, TOF factors, factors with more segments than the data; labelling factors and
// "all 1 except one bin = 2" for EVERY bin), from an attenuation image (matrix projector with the symmetries of the case / cached and
// uncached / 1 and 2 rays, on-the-fly ray tracing projector; uniform, labelling and EVERY unit-voxel mu map), PET components
// (efficiencies, dead crystal, all ones, nothing allocated, all three components), a calibrated table (base-class apply/undo through
// get_bin_efficiency, calibration factor, branching ratio, one zero efficiency), chains of every ordered pair of kinds and of every
// ordered triple of distinct kinds in both nestings}:
//   the REAL object is set up and called (a) on a whole ProjData with the symmetry object and (b) on every group of related viewgrams
//   x every TOF bin, with data = all ones, labelling data and (sweep) EVERY unit bin, and compared bin by bin with the reference
//   efficiencies of engine/ref_binnorm.h:
//     undo_factor   undo(x)_b == x_b * eff_b                        apply_factor   apply(x)_b == x_b / eff_b   (eff_b != 0)
//     diagonal      unit bin in => every other bin stays exactly 0
//     roundtrip     undo(apply(x)) == x and apply(undo(x)) == x where the efficiency is non-zero
//     reported      get_bin_efficiency(b) (where the class implements it) == undo(1)_b, and == the reference where one is known
//     trivial       is_trivial() => apply and undo leave the data bit-for-bit unchanged
//     path          whole-ProjData call == related-viewgrams calls
//     entry points  every data-changing public entry point in BOTH overload families: undo/apply(ProjData&) without a symmetries argument
//                   (every class), ChainedBinNormalisation::apply_only_first/second, undo_only_first/second on RelatedViewgrams and on a whole
//                   ProjData (the chain under test and, recursively, its members that are chains): member_undo_factor / member_apply_factor
//                   (x * or / the reference efficiency of THAT member), member_roundtrip_* (apply_only_x then undo_only_x and the reverse
//                   restore the data), member_path_dependence (whole-data-set overload == viewgram overload bin by bin), member_product_*
//                   (only_first then only_second == the chain), member_trivial_changes_data
// HISTORIES (hist=...): the object under test is not built once but has a past - it was built with OTHER factors (hist lists the
// earlier states "spec/flags" separated by '>'), set up (flag g<k>: with another sampling - 0 only segment 0, 1 other span, 2 TOF <->
// non-TOF, 3 same sampling - and another ExamInfo), used or not (flag u), then its factors were changed IN PLACE through the public
// routes (bn::morph: crystal_efficiencies()/geometric_factors()/block_factors(), the ProjData of get_norm_proj_data_sptr(),
// set_calibration_factor()/set_radionuclide(), the members of a chain) WITHOUT a new allocate()/new object, and set_up was called
// again (flag m: on the two members of the chain directly instead of through the chain).  All clauses above are then checked
// against the reference of the CURRENT factors, and additionally the object must behave like a freshly built object with the
// current factors (history_* clauses: set_up result, accepted calls, undo(1), apply(labelling), get_bin_efficiency, is_trivial).
// All histories with 1 earlier state (and 2 earlier states for the component tables / in the thorough tier) over the small factor
// alphabets of hist_specs_for() are enumerated; every prefix of a history is itself a case, so the uses in between need no oracle.
// Configurations STIR rejects with error() / Succeeded::no are counted, not failures.
#include "vmc.h"
#include "stir_small.h"
#include "ref_geom34.h"
#include "ref_binnorm.h"
#include "stir/recon_buildblock/find_basic_vs_nums_in_subsets.h"
#include "stir/RelatedViewgrams.h"
#include <limits>
#include <functional>
#include <array>

using namespace stir;
using bn::Vec;
using bn::World;
using g34::Geo;
static const double EPS = bn::EPS;

enum Op { UNDO = 0, APPLY = 1, APPLY_UNDO = 2, UNDO_APPLY = 3 };
static const char* PATHN[2] = { "projdata", "viewgrams" };

static void do_op(const BinNormalisation& N, RelatedViewgrams<float>& rv, Op op)
{
  if (op == UNDO || op == UNDO_APPLY) N.undo(rv); else N.apply(rv);
  if (op == APPLY_UNDO) N.undo(rv);
  if (op == UNDO_APPLY) N.apply(rv);
}
static void do_op(const BinNormalisation& N, ProjData& pd, const shared_ptr<DataSymmetriesForViewSegmentNumbers>& sym, Op op)
{
  if (op == UNDO || op == UNDO_APPLY) N.undo(pd, sym); else N.apply(pd, sym);
  if (op == APPLY_UNDO) N.undo(pd, sym);
  if (op == UNDO_APPLY) N.apply(pd, sym);
}

// executes one call sequence on a fresh data set: path 0 on the whole ProjData (fpd), path 1 on every group of related viewgrams x TOF bin
// (frv); false if STIR threw (message in what)
typedef std::function<void(ProjData&)> FPD;
typedef std::function<void(RelatedViewgrams<float>&)> FRV;
static bool exec_g(World& w, int path, const FPD& fpd, const FRV& frv, const Vec& x, Vec& y, std::string& what)
{
  w.ctx.count("evaluations");
  auto pd = bn::projdata_from(w.b.pdi, w.exam, *w.bi, x);
  if (path == 0)
    {
      if (small::throws([&] { fpd(*pd); }, &what)) return false;
      y = w.bi->read(*pd);
      return true;
    }
  y.assign(w.nb, std::numeric_limits<double>::quiet_NaN());
  const ProjDataInfo& p = *w.b.pdi;
  bool ok = true;
  if (small::throws(
          [&] {
            const std::vector<ViewSegmentNumbers> basic = detail::find_basic_vs_nums_in_subset(p, *w.sym_for_vg, p.get_min_segment_num(), p.get_max_segment_num(), 0, 1);
            for (const ViewSegmentNumbers& vs : basic)
              for (int k = p.get_min_tof_pos_num(); k <= p.get_max_tof_pos_num(); ++k)
                {
                  RelatedViewgrams<float> rv = pd->get_related_viewgrams(vs, w.sym_for_vg, false, k);
                  if (rv.get_num_viewgrams() > 1) w.ctx.count("related_groups_with_more_than_1_viewgram");
                  w.ctx.count("related_groups");
                  frv(rv);
                  for (auto it = rv.begin(); it != rv.end(); ++it)
                    for (int a = it->get_min_axial_pos_num(); a <= it->get_max_axial_pos_num(); ++a)
                      for (int t = it->get_min_tangential_pos_num(); t <= it->get_max_tangential_pos_num(); ++t)
                        {
                          const Bin q(it->get_segment_num(), it->get_view_num(), a, t, it->get_timing_pos_num());
                          if (!w.bi->has(q)) { ok = false; continue; }
                          y[w.bi->idx(q)] = (*it)[a][t];
                        }
                }
          },
          &what))
    return false;
  if (!ok) { what = "harness: a related viewgram lies outside the data"; return false; }
  return true;
}
// executes one operation (undo / apply / both round trips) on the real object
static bool exec(World& w, const BinNormalisation& N, int path, Op op, const Vec& x, Vec& y, std::string& what)
{
  return exec_g(w, path, [&](ProjData& pd) { do_op(N, pd, w.sym, op); }, [&](RelatedViewgrams<float>& rv) { do_op(N, rv, op); }, x, y, what);
}

// ---- every public entry point that changes data, in both overload families.  Path 0 uses the whole-data-set overloads WITHOUT a symmetries
//      argument (BinNormalisation::undo/apply(ProjData&) with the default argument, ChainedBinNormalisation::*_only_*(ProjData&)), path 1 the
//      RelatedViewgrams overloads; ents is the sequence of calls made on one data set
enum Ent { E_UNDO = 0, E_APPLY, E_UNDO_FIRST, E_UNDO_SECOND, E_APPLY_FIRST, E_APPLY_SECOND };
static const char* ENTN[6] = { "undo", "apply", "undo_only_first", "undo_only_second", "apply_only_first", "apply_only_second" };
template <class DataT>
static void call_ent(const BinNormalisation& N, DataT& d, int e)
{
  const ChainedBinNormalisation* C = e >= E_UNDO_FIRST ? &dynamic_cast<const ChainedBinNormalisation&>(N) : nullptr;
  switch (e)
    {
    case E_UNDO: N.undo(d); break;
    case E_APPLY: N.apply(d); break;
    case E_UNDO_FIRST: C->undo_only_first(d); break;
    case E_UNDO_SECOND: C->undo_only_second(d); break;
    case E_APPLY_FIRST: C->apply_only_first(d); break;
    case E_APPLY_SECOND: C->apply_only_second(d); break;
    default: throw std::runtime_error("harness: unknown entry point");
    }
}
static bool exec_ents(World& w, const BinNormalisation& N, int path, const std::vector<int>& ents, const Vec& x, Vec& y, std::string& what)
{
  return exec_g(w, path, [&](ProjData& pd) { for (int e : ents) call_ent(N, pd, e); }, [&](RelatedViewgrams<float>& rv) { for (int e : ents) call_ent(N, rv, e); }, x, y, what);
}
static std::string ents_str(const std::vector<int>& ents)
{
  std::string s;
  for (int e : ents) s += (s.empty() ? "" : " then ") + std::string(ENTN[e]);
  return s;
}

struct Case
{
  Geo g; int sy = 0; std::string spec; int sweep = 0;
  std::string hist; // earlier states of the object ("" : built once), see the top of the file
  std::string str() const { return g.str() + ";sy=" + vmc::str(sy) + ";norm=" + spec + ";sweep=" + vmc::str(sweep) + (hist.empty() ? "" : ";hist=" + hist); }
};

// one earlier state of a history
struct Step
{
  std::string spec;
  int alt = -1;         // -1: set up with the geometry and exam info of the case; 0..3: alternative (see alt_world)
  bool use = false;     // the object is used after this set_up
  bool members = false; // the NEXT set_up is done on the two members of the chain directly
};
static std::vector<Step> parse_hist(const std::string& h)
{
  std::vector<Step> out;
  size_t pos = 0;
  while (pos <= h.size())
    {
      size_t e = h.find('>', pos);
      if (e == std::string::npos) e = h.size();
      const std::string t = h.substr(pos, e - pos);
      Step st;
      const size_t sl = t.find('/');
      st.spec = t.substr(0, sl);
      if (sl != std::string::npos)
        for (size_t i = sl + 1; i < t.size(); ++i)
          {
            if (t[i] == 'u') st.use = true;
            else if (t[i] == 'm') st.members = true;
            else if (t[i] == 'g' && i + 1 < t.size()) st.alt = t[++i] - '0';
          }
      if (!st.spec.empty()) out.push_back(st);
      pos = e + 1;
    }
  return out;
}
// the geometry of alternative k for the case geometry g; false: not available
static bool alt_geo(const Geo& g, int k, Geo& a)
{
  a = g;
  const int md = g.md < 0 ? g.R - 1 : g.md;
  switch (k)
    {
    case 0: if (md == 0 || g.span != 1) return false; a.md = 0; return true;                           // only segment 0
    case 1: if (g.span == 1 && (g.R < 2 || md < 1)) return false; a.span = g.span == 1 ? 3 : 1; return true; // other axial compression
    case 2: if (g.tof == 0) a.tof = 3; return true;                                 // TOF data: its non-TOF clone (pdi_override); else a TOF scanner
    case 3: return true;                                                            // same sampling, other exam info
    default: return false;
    }
}
// world of alternative k; every alternative has another ExamInfo (energy window) than the case
static std::unique_ptr<World> alt_world(vmc::Ctx& ctx, const World& w, int k)
{
  std::unique_ptr<World> a(new World(ctx));
  if (!alt_geo(w.g, k, a->g)) return nullptr;
  a->sy = w.sy;
  if (k == 2 && w.tof) a->pdi_override = w.b.pdi->create_non_tof_clone();
  a->setup();
  ExamInfo ex(*a->exam);
  ex.set_low_energy_thres(350.F);
  ex.set_high_energy_thres(650.F);
  a->exam.reset(new ExamInfo(ex));
  return a;
}
static bool do_set_up(BinNormalisation& N, bool members, const shared_ptr<ExamInfo>& exam, const shared_ptr<ProjDataInfo>& pdi, std::string& what)
{
  bool ok = false;
  what.clear();
  const bool thrown = small::throws(
      [&] {
        if (!members) { ok = N.set_up(exam, pdi) == Succeeded::yes; return; }
        ChainedBinNormalisation& ch = dynamic_cast<ChainedBinNormalisation&>(N);
        ok = ch.get_first_norm()->set_up(exam, pdi) == Succeeded::yes;
        ok = (ch.get_second_norm()->set_up(exam, pdi) == Succeeded::yes) && ok;
      },
      &what);
  return !thrown && ok;
}

static void run_case(vmc::Ctx& ctx, const Case& c)
{
  const std::string kase = c.str();
  const bool hist = !c.hist.empty();
  ctx.current(std::string(hist ? "history;" : "") + "norm_spec=" + c.spec.substr(0, 1), kase);
  World w(ctx);
  w.g = c.g; w.sy = c.sy;
  std::string what;
  if (small::throws([&] { w.setup(); }, &what)) { ctx.count("rejected_geometries"); ctx.observe("geometry rejected by STIR: " + c.g.str() + " sy=" + vmc::str(c.sy) + ": " + what.substr(0, 120)); return; }
  bn::BuiltNorm bnm;
  if (small::throws([&] { bnm = bn::build(w, c.spec); }, &what)) { ctx.count("rejected_constructions"); ctx.observe("construction of " + c.spec + " rejected: " + what.substr(0, 120)); return; }
  if (bnm.skipped) { ctx.count("not_applicable_specs"); return; }
  const bn::Ref& r = bnm.r;
  const size_t nb = w.nb;
  Vec X1(nb, 1.0), XL(nb), y;
  for (size_t i = 0; i < nb; ++i) XL[i] = 1 + (double)((i * 5) % 13);

  // ---- history: the object under test is the one built for the FIRST state, taken through the earlier states; bnm.n stays fresh
  shared_ptr<BinNormalisation> obj = bnm.n, fresh;
  std::string route; // class of the history for the violation keys: what changed between the set_ups
  bool final_via_members = false, hist_nonunit = false;
  if (hist)
    {
      const std::vector<Step> steps = parse_hist(c.hist);
      if (steps.empty()) { ctx.count("not_applicable_specs"); return; }
      bn::BuiltNorm first;
      if (small::throws([&] { first = bn::build(w, steps[0].spec); }, &what)) { ctx.count("rejected_constructions"); ctx.observe("construction of " + steps[0].spec + " rejected: " + what.substr(0, 120)); return; }
      if (first.skipped) { ctx.count("not_applicable_specs"); return; }
      fresh = bnm.n;
      obj = first.n;
      hist_nonunit = first.r.nonunit;
      bool r_factors = false, r_geometry = false, r_exam = false, r_members = false;
      std::map<int, std::unique_ptr<World>> alts;
      for (size_t k = 0; k < steps.size(); ++k)
        {
          const Step& st = steps[k];
          World* wk = &w;
          if (st.alt >= 0)
            {
              if (!alts.count(st.alt))
                {
                  std::unique_ptr<World> a;
                  if (small::throws([&] { a = alt_world(ctx, w, st.alt); }, &what) || !a) { ctx.count("history_alternative_geometry_not_available"); ctx.observe("alternative geometry " + vmc::str(st.alt) + " of " + c.g.str() + " sy=" + vmc::str(c.sy) + " not available: " + what.substr(0, 100)); return; }
                  alts[st.alt] = std::move(a);
                }
              wk = alts[st.alt].get();
              (st.alt == 3 ? r_exam : r_geometry) = true;
            }
          const bool via_members = k > 0 && steps[k - 1].members;
          r_members = r_members || via_members;
          const bool ok = do_set_up(*obj, via_members, wk->exam, wk->b.pdi, what);
          ctx.count(ok ? "history_earlier_set_ups_accepted" : "history_earlier_set_ups_rejected");
          if (ok && st.use)
            {
              // a use in between: no oracle here (this prefix is a case of its own); it only has to leave no trace
              Vec x1(wk->nb, 1.0), xl(wk->nb);
              for (size_t i = 0; i < wk->nb; ++i) xl[i] = 1 + (double)((i * 5) % 13);
              const bool a0 = exec(*wk, *obj, 0, UNDO, x1, y, what);
              const bool a1 = exec(*wk, *obj, 1, APPLY_UNDO, xl, y, what);
              float v = 0; bool t = false;
              small::throws([&] { v = obj->get_bin_efficiency(wk->bi->bins[wk->nb / 2]); t = obj->is_trivial(); }, &what);
              (void)v; (void)t;
              ctx.count((a0 || a1) ? "history_uses_in_between_accepted" : "history_uses_in_between_rejected");
            }
          const std::string& next = k + 1 < steps.size() ? steps[k + 1].spec : c.spec;
          if (next != st.spec) { r_factors = true; ctx.count("history_factor_changes:" + r.sig); }
          bool bad = false;
          try { bn::morph(w, *obj, st.spec, next); }
          catch (const bn::HarnessError& e) { bad = true; what = e.what(); }
          if (bad) { ctx.count("not_applicable_specs"); ctx.observe("history not executable: " + what.substr(0, 120)); return; }
          ctx.count("history_steps");
        }
      final_via_members = steps.back().members;
      r_members = r_members || final_via_members;
      route = std::string(r_factors ? "factors" : "repeat") + (r_geometry ? "+geometry" : "") + (r_exam ? "+exam" : "") + (r_members ? "+members" : "");
      ctx.count("history_units");
      ctx.count("history_units:" + route);
      ctx.maxi("max_history_set_ups", (long long)steps.size() + 1);
    }
  BinNormalisation& N = *obj;
  // keys of history cases: class(es) of the object and what changed between the set_ups (symmetry object, TOF and call path are in the case)
  std::string hsig = r.sig;
  if (hist && r.leaves > 1)
    {
      std::set<std::string> ks(r.kinds.begin(), r.kinds.end());
      hsig = "chain_of";
      for (const std::string& k : ks) hsig += (hsig == "chain_of" ? "_" : "+") + k;
    }
  const std::string keytail0 = hist ? ";norm=" + hsig + ";hist=" + route : ";norm=" + r.sig + ";sym=" + (c.sy == 0 ? "none" : "pet") + ";tof=" + vmc::str((int)w.tof);

  // ---- use before set_up: the statement is silent; recorded, never a violation
  if (r.leaves == 1 && !hist)
    {
      const bool thrown = !exec(w, N, 1, UNDO, X1, y, what);
      ctx.count(std::string(thrown ? "use_before_set_up_rejected:" : "use_before_set_up_accepted:") + r.sig);
      if (!thrown && r.sig != "trivial") ctx.observe("undo() before set_up() is accepted by " + r.sig);
    }
  // ---- set_up
  const bool set_up_ok = do_set_up(N, final_via_members, w.exam, w.b.pdi, what);
  bool fresh_ok = false;
  if (hist)
    {
      std::string whatf;
      fresh_ok = do_set_up(*fresh, false, w.exam, w.b.pdi, whatf);
      if (fresh_ok && !set_up_ok)
        ctx.violation("clause=history_set_up_rejected" + keytail0, kase, "set_up is rejected after the history " + c.hist + " although a freshly built object with the same factors accepts it: " + what.substr(0, 120));
      if (!fresh_ok && set_up_ok) ctx.observe("set_up accepted after a history although a freshly built " + r.sig + " rejects it (" + whatf.substr(0, 80) + ")");
    }
  if (!set_up_ok)
    {
      ctx.count("rejected_configs");
      ctx.count("rejected_set_up:" + r.sig);
      if (r.leaves == 1 && !hist) ctx.observe("set_up rejected: " + r.sig + " on tof=" + vmc::str((int)w.tof) + " span=" + vmc::str(c.g.span) + " mash=" + vmc::str(c.g.mash) + (what.empty() ? "" : (": " + what.substr(0, 100))));
      return;
    }
  // ---- efficiencies the object reports
  Vec gbe(nb, 0.0);
  bool reports = true;
  for (size_t i = 0; i < nb && reports; ++i)
    {
      float v = 0;
      if (small::throws([&] { v = N.get_bin_efficiency(w.bi->bins[i]); }, &what)) reports = false;
      gbe[i] = v;
    }
  ctx.count(reports ? "objects_reporting_efficiencies" : "objects_not_reporting_efficiencies");
  bool trivial = false;
  if (small::throws([&] { trivial = N.is_trivial(); }, &what)) trivial = false;
  if (trivial) ctx.count("objects_reporting_trivial");

  // reference used for the factor clauses: independent value where known, else the reported efficiency
  Vec eff(nb, 0.0), rtol(nb, 0.0);
  std::vector<char> have(nb, 0);
  const double tol_chain = (4 * r.leaves + 4) * EPS;
  size_t n_known = 0, n_zero = 0;
  for (size_t i = 0; i < nb; ++i)
    {
      if (r.known[i]) { eff[i] = r.eff[i]; rtol[i] = r.reltol[i] + tol_chain; have[i] = 1; ++n_known; }
      else if (reports) { eff[i] = gbe[i]; rtol[i] = tol_chain; have[i] = 1; }
      if (have[i] && eff[i] == 0) ++n_zero;
    }
  ctx.count("bins_with_independent_reference", (long long)n_known);
  ctx.count("bins_without_independent_reference", (long long)(nb - n_known));
  if (r.atten)
    {
      ctx.count("attenuation_bins", (long long)r.atten_bins);
      ctx.count("attenuation_bins_tie_screened", (long long)r.atten_bins_screened);
      if (r.atten_bins_screened * 10 > r.atten_bins) // vacuous rather than pass: the generated geometries are chosen so that this does not happen
        ctx.violation("clause=vacuous_too_many_ray_tracing_ties" + keytail0, kase, vmc::str(r.atten_bins_screened) + " of " + vmc::str(r.atten_bins) + " attenuation bins are on ray tracing ties (no reference)");
    }
  if (n_zero) ctx.count("bins_with_zero_efficiency", (long long)n_zero);
  if (w.tof && r.sig.find("projdata") != std::string::npos && r.sig.find("projdata_tof") == std::string::npos) ctx.count("units_tof_data_with_non_tof_factors");

  if (reports)
    for (size_t i = 0; i < nb; ++i)
      {
        if (!r.known[i]) continue;
        ctx.count("reported_efficiencies_compared_with_model");
        if (!(std::fabs(gbe[i] - r.eff[i]) <= (r.reltol[i] + tol_chain) * std::fabs(r.eff[i])))
          {
            ctx.violation("clause=reported_efficiency_vs_model" + keytail0, kase,
                          "get_bin_efficiency(" + small::bin_str(w.bi->bins[i]) + ") = " + vmc::str(gbe[i]) + ", the documented model gives " + vmc::str(r.eff[i]));
            break;
          }
      }

  bool any_accepted = false;
  Vec undoL[2];
  bool haveL[2] = { false, false };
  Vec U1[2], AL[2]; // history cases: undo(1) and apply(labelling data) of the object under test, per path
  bool acc[2] = { false, false }, haveAL[2] = { false, false };
  for (int path = 0; path < 2; ++path)
    {
      const std::string keytail = hist ? keytail0 : keytail0 + ";path=" + PATHN[path];
      auto viol = [&](const std::string& clause, const std::string& msg) { ctx.violation("clause=" + clause + keytail, kase, msg); };
      // generic comparison of one execution; returns false if something was reported
      // mode UNDO: expect x*eff ; APPLY: x/eff where eff != 0 ; round trips: x where eff != 0
      auto check = [&](Op op, const Vec& x, const Vec& got, const Vec& u1, const std::string& dataname) {
        std::set<std::string> reported; // one report per clause and execution; all bins are looked at
        long long n_checked = 0, n_skipped = 0;
        for (size_t i = 0; i < nb; ++i)
          {
            double expect = 0, tol = 0;
            bool chk = false;
            const bool nonzero_eff = have[i] ? eff[i] != 0 : (!u1.empty() && u1[i] != 0);
            if (op == UNDO) { if (have[i]) { expect = x[i] * eff[i]; tol = rtol[i] * std::fabs(expect); chk = true; } else if (x[i] == 0) { expect = 0; chk = true; } }
            else if (op == APPLY) { if (have[i] && eff[i] != 0) { expect = x[i] / eff[i]; tol = rtol[i] * std::fabs(expect); chk = true; } }
            else { if (nonzero_eff) { expect = x[i]; tol = 2 * tol_chain * std::fabs(expect); chk = true; } }
            if (!chk) { ++n_skipped; continue; }
            ++n_checked;
            if (!(std::fabs(got[i] - expect) <= tol))
              {
                const Bin& q = w.bi->bins[i];
                std::string clause = op == UNDO ? "undo_factor" : op == APPLY ? "apply_factor" : op == APPLY_UNDO ? "roundtrip_apply_undo" : "roundtrip_undo_apply";
                if (x[i] == 0 && (op == UNDO || op == APPLY)) clause = "diagonal";
                else if (op == UNDO && got[i] == 0) clause += ";got=zero";
                if (!reported.insert(clause).second) continue;
                viol(clause, std::string(op == UNDO ? "undo" : op == APPLY ? "apply" : op == APPLY_UNDO ? "apply then undo" : "undo then apply") + " on " + dataname + ": bin " + small::bin_str(q)
                                 + " input " + vmc::str(x[i]) + " gives " + vmc::str(got[i]) + ", expected " + vmc::str(expect) + " (efficiency " + (have[i] ? vmc::str(eff[i]) : std::string("unknown"))
                                 + (r.known[i] ? ", documented model" : ", as reported by the object") + "; tolerance " + vmc::str(tol) + ")");
              }
          }
        ctx.count("bin_checks", n_checked);
        if (n_skipped) ctx.count("bin_checks_skipped", n_skipped);
        return reported.empty();
      };
      // is_trivial() => bit-for-bit unchanged; the key says whether the changed bins are all outside the tangentially symmetric range
      auto check_trivial = [&](const char* opname, const Vec& got) {
        const int h = std::min(w.b.pdi->get_max_tangential_pos_num(), -w.b.pdi->get_min_tangential_pos_num());
        size_t changed = 0, changed_inside = 0, first = nb;
        for (size_t i = 0; i < nb; ++i)
          if ((float)got[i] != (float)XL[i])
            {
              ++changed;
              if (std::abs(w.bi->bins[i].tangential_pos_num()) <= h) { if (!changed_inside++) first = i; }
              else if (first == nb) first = i;
            }
        if (!changed) return;
        if (changed_inside) for (size_t i = 0; i < nb; ++i) if ((float)got[i] != (float)XL[i] && std::abs(w.bi->bins[i].tangential_pos_num()) <= h) { first = i; break; }
        viol(std::string("trivial_changes_data;bins=") + (changed_inside ? "any" : "outside_symmetric_tangential_range"),
             std::string("is_trivial() is true but ") + opname + " changes " + vmc::str(changed) + " bins (" + vmc::str(changed_inside) + " of them with |tangential position| <= " + vmc::str(h) + "), e.g. bin "
                 + small::bin_str(w.bi->bins[first]) + " from " + vmc::str(XL[first]) + " to " + vmc::str(got[first]));
      };
      // ---- undo(1): the efficiencies as applied
      Vec u1;
      if (!exec(w, N, path, UNDO, X1, u1, what))
        {
          ctx.count("rejected_calls");
          ctx.count(std::string("rejected_call:") + PATHN[path] + ":" + r.sig + ":sym=" + (c.sy == 0 ? "none" : "pet"));
          if (r.leaves == 1) ctx.observe(std::string("call rejected by STIR (symmetries ") + (c.sy == 0 ? "none/trivial" : "PET_CartesianGrid") + ", " + r.sig + "): " + what.substr(0, 110));
          continue;
        }
      any_accepted = true;
      acc[path] = true;
      U1[path] = u1;
      ctx.count(std::string("accepted_calls:") + PATHN[path]);
      for (size_t i = 0; i < nb; ++i)
        if (!(u1[i] >= 0) || !std::isfinite(u1[i]))
          { viol("factor_sign", "undo(1) at bin " + small::bin_str(w.bi->bins[i]) + " = " + vmc::str(u1[i]) + ": not a non-negative finite factor"); break; }
      check(UNDO, X1, u1, u1, "all ones");
      // ---- STIR-independent tie for a uniform mu map (cylindrical FOV, one ray): the line integral of a direct bin lies between
      //      mu*chord and mu*(chord + 2 voxel diagonals), chord = 2 sqrt(R_fov^2 - s^2)
      if (c.spec == "A0" || c.spec == "B0")
        {
          const auto vs = w.b.im->get_voxel_size();
          const double fovrad = std::min(std::min(w.b.im->get_max_x(), -w.b.im->get_min_x()) * vs.x(), std::min(w.b.im->get_max_y(), -w.b.im->get_min_y()) * vs.y());
          const double diag = std::sqrt(vs.x() * vs.x() + vs.y() * vs.y() + vs.z() * vs.z()), mu = 0.096;
          for (size_t i = 0; i < nb; ++i)
            {
              const Bin& q = w.bi->bins[i];
              if (!r.known[i] || w.b.pdi->get_tantheta(q) != 0) continue;
              // the ray tracing spreads a direct bin over the planes zc-1..zc+1 and the projectors clip z: only bins that stay inside
              const double zc = w.b.pdi->get_m(q) / vs.z() + (w.b.im->get_min_z() + w.b.im->get_max_z()) / 2.;
              if (!(zc - 1 >= w.b.im->get_min_z() - 1e-3 && zc + 1 <= w.b.im->get_max_z() + 1e-3)) { ctx.count("chord_length_ties_skipped_axial_edge"); continue; }
              const double s = w.b.pdi->get_s(q);
              const double chord = 2 * std::sqrt(std::max(0., fovrad * fovrad - s * s));
              const double hi = std::exp(-mu * (chord * (1 - 1e-3) - 1e-3) / 10) * (1 + 1e-5), lo = std::exp(-mu * (chord * (1 + 1e-3) + 2 * diag * 1.001) / 10) * (1 - 1e-5);
              ctx.count("chord_length_ties_checked");
              if (chord > 0) ctx.count("chord_length_ties_nonzero_chord");
              if (!(u1[i] >= lo && u1[i] <= hi))
                {
                  viol("attenuation_chord_tie", "uniform mu = 0.096 cm^-1: undo(1) at direct bin " + small::bin_str(q) + " = " + vmc::str(u1[i]) + " outside [" + vmc::str(lo) + ", " + vmc::str(hi)
                                                    + "] = exp(-mu*[chord, chord+2 voxel diagonals]/10), chord " + vmc::str(chord) + " mm");
                  break;
                }
            }
        }
      if (reports)
        for (size_t i = 0; i < nb; ++i)
          {
            ctx.count("reported_efficiencies_compared_with_undo");
            if (!(std::fabs(u1[i] - gbe[i]) <= tol_chain * std::fabs(gbe[i])))
              {
                viol("undo_vs_reported_efficiency", "undo(1) at bin " + small::bin_str(w.bi->bins[i]) + " = " + vmc::str(u1[i]) + " but get_bin_efficiency reports " + vmc::str(gbe[i]));
                break;
              }
          }
      // ---- labelling data: same fixed factor, inverse, round trips
      if (exec(w, N, path, UNDO, XL, y, what)) { check(UNDO, XL, y, u1, "labelling data"); undoL[path] = y; haveL[path] = true; }
      else viol("throws_after_accepting", "undo of the labelling data throws although undo(1) was accepted: " + what.substr(0, 120));
      for (Op op : { APPLY, APPLY_UNDO, UNDO_APPLY })
        {
          if (!exec(w, N, path, op, XL, y, what)) { viol("throws_after_accepting", "an operation throws although undo(1) was accepted: " + what.substr(0, 120)); break; }
          check(op, XL, y, u1, "labelling data");
          if (op == APPLY) { AL[path] = y; haveAL[path] = true; }
          if (op == APPLY && trivial) check_trivial("apply", y);
        }
      if (exec(w, N, path, APPLY, X1, y, what)) check(APPLY, X1, y, u1, "all ones");
      if (trivial && haveL[path])
        {
          ctx.count("trivial_objects_checked_bitwise");
          check_trivial("undo", undoL[path]);
        }
      // ---- every unit bin: the operator is diagonal
      if (c.sweep)
        {
          Vec e(nb, 0.0);
          for (size_t i = 0; i < nb; ++i)
            {
              e[i] = 3;
              bool good = true;
              if (exec(w, N, path, UNDO, e, y, what)) good = check(UNDO, e, y, u1, "unit bin") && good;
              if (exec(w, N, path, APPLY, e, y, what)) good = check(APPLY, e, y, u1, "unit bin") && good;
              e[i] = 0;
              ctx.count("unit_bins_swept");
              if (!good) break;
            }
        }
    }
  if (haveL[0] && haveL[1])
    for (size_t i = 0; i < nb; ++i)
      if (!(std::fabs(undoL[0][i] - undoL[1][i]) <= 2 * tol_chain * std::fabs(undoL[0][i])))
        {
          ctx.violation("clause=path_dependence" + keytail0, kase,
                        "undo of the labelling data at bin " + small::bin_str(w.bi->bins[i]) + ": whole ProjData call gives " + vmc::str(undoL[0][i]) + ", related-viewgrams call gives " + vmc::str(undoL[1][i]));
          break;
        }
  // ---- every public entry point in BOTH overload families (whole data set without symmetries argument / related viewgrams)
  if (any_accepted)
    {
      // compares got with expect on the bins of mask (relative tolerance rt); one report per key; all bins count as bin checks
      auto cmp = [&](const std::string& key, const Vec& got, const Vec& expect, const Vec& rt, const std::vector<char>& mask, const std::string& msg) {
        long long n = 0;
        bool good = true;
        for (size_t i = 0; i < nb; ++i)
          {
            if (!mask[i]) continue;
            ++n;
            if (good && !(std::fabs(got[i] - expect[i]) <= rt[i] * std::fabs(expect[i])))
              {
                good = false;
                ctx.violation("clause=" + key + keytail0, kase, msg + ": bin " + small::bin_str(w.bi->bins[i]) + " (labelling value " + vmc::str(XL[i]) + ") gives " + vmc::str(got[i]) + ", expected " + vmc::str(expect[i])
                                                                   + " (relative tolerance " + vmc::str(rt[i]) + ")");
              }
          }
        ctx.count("bin_checks", n);
        ctx.count("entry_point_bin_checks", n);
        return good;
      };
      const std::vector<char> all(nb, 1);
      // (1) undo(ProjData&) / apply(ProjData&) with the DEFAULT symmetries argument, every class (sy == 0: that is path 0 above)
      if (c.sy != 0 && haveL[1])
        {
          const Vec rt2(nb, 2 * tol_chain);
          std::vector<char> nz(nb, 0);
          for (size_t i = 0; i < nb; ++i) nz[i] = have[i] ? eff[i] != 0 : U1[1][i] != 0;
          if (exec_ents(w, N, 0, { E_UNDO }, XL, y, what))
            {
              ctx.count("accepted_calls:projdata_default_symmetries");
              if (r.nonunit) ctx.nontrivial(kase + ";entry=projdata_default_symmetries");
              cmp("path_dependence;path=projdata_default_symmetries;op=undo", y, undoL[1], rt2, all, "undo(ProjData&) without a symmetries argument against the related-viewgrams calls, labelling data");
              if (haveAL[1] && exec_ents(w, N, 0, { E_APPLY }, XL, y, what))
                cmp("path_dependence;path=projdata_default_symmetries;op=apply", y, AL[1], rt2, nz, "apply(ProjData&) without a symmetries argument against the related-viewgrams calls, labelling data");
              if (exec_ents(w, N, 0, { E_APPLY, E_UNDO }, XL, y, what))
                cmp("roundtrip_apply_undo;path=projdata_default_symmetries", y, XL, rt2, nz, "apply(ProjData&) then undo(ProjData&) without a symmetries argument, labelling data");
            }
          else
            ctx.count(std::string("rejected_call:projdata_default_symmetries:") + (r.leaves > 1 ? (r.atten ? "chain_with_attenuation_member" : "chain_without_attenuation_member") : r.sig));
        }
      // (2) chains: apply_only_first/second, undo_only_first/second on related viewgrams AND on a whole ProjData, for the chain under test and
      //     (recursively) for its members that are chains: each is multiplication / division by the reference efficiency of THAT member,
      //     apply_only_x then undo_only_x (and the reverse) restores the data, the whole-data-set overload gives what the viewgram overload gives,
      //     undo_only_first then undo_only_second is undo of the chain (product of the members' efficiencies), same for apply
      std::function<void(const BinNormalisation&, const bn::Ref&, const std::string&)> members = [&](const BinNormalisation& Nc, const bn::Ref& rc, const std::string& where) {
        const ChainedBinNormalisation* C = dynamic_cast<const ChainedBinNormalisation*>(&Nc);
        if (!C || !rc.first || !rc.second) return;
        ctx.count("chains_with_member_entry_points_exercised");
        // reference of an object: the independent value where known, else the efficiency it reports
        auto ref_of = [&](const BinNormalisation& M, const bn::Ref& rm, Vec& e, Vec& rt, std::vector<char>& hv) {
          e.assign(nb, 0.0); rt.assign(nb, 0.0); hv.assign(nb, 0);
          const double tolm = (4 * rm.leaves + 4) * EPS;
          bool rep = true;
          for (size_t i = 0; i < nb; ++i)
            {
              if (rm.known[i]) { e[i] = rm.eff[i]; rt[i] = rm.reltol[i] + tolm; hv[i] = 1; continue; }
              float v = 0;
              if (rep && small::throws([&] { v = M.get_bin_efficiency(w.bi->bins[i]); }, &what)) rep = false;
              if (rep) { e[i] = v; rt[i] = tolm; hv[i] = 1; }
            }
        };
        Vec effc, rtc; std::vector<char> hvc;
        ref_of(Nc, rc, effc, rtc, hvc);
        bool accp[2] = { false, false };
        for (int m = 0; m < 2; ++m)
          {
            const BinNormalisation& M = m == 0 ? *C->get_first_norm() : *C->get_second_norm();
            const bn::Ref& rm = m == 0 ? *rc.first : *rc.second;
            const std::string mname = where + (m == 0 ? "first" : "second");
            const int EU = m == 0 ? E_UNDO_FIRST : E_UNDO_SECOND, EA = m == 0 ? E_APPLY_FIRST : E_APPLY_SECOND;
            Vec e, rt; std::vector<char> hv;
            ref_of(M, rm, e, rt, hv);
            Vec rt2(nb, 2 * (4 * rm.leaves + 4) * EPS);
            bool mtrivial = false;
            if (small::throws([&] { mtrivial = m == 0 ? C->is_first_trivial() : C->is_second_trivial(); }, &what)) mtrivial = false;
            Vec resU[2], resA[2];
            bool got[2] = { false, false };
            std::vector<char> nz(nb, 0);
            for (int path = 1; path >= 0; --path) // viewgrams first: they give the efficiencies as applied where there is no reference
              {
                const std::string kt = ";member=" + mname + ";path=" + PATHN[path];
                const std::string on = std::string(" of the ") + mname + " member on " + (path == 0 ? "a whole ProjData" : "related viewgrams");
                Vec u1, v;
                if (!exec_ents(w, Nc, path, { EU }, X1, u1, what))
                  {
                    ctx.count("rejected_calls");
                    ctx.count(std::string("rejected_member_call:") + PATHN[path] + ":" + rm.sig + ":sym=" + (c.sy == 0 ? "none" : "pet"));
                    continue;
                  }
                ctx.count(std::string("accepted_member_calls:") + PATHN[path]);
                ctx.count(std::string("accepted_member_calls:") + (m == 0 ? "first" : "second") + (rm.nonunit ? ":efficiencies_not_all_1" : ":efficiencies_all_1"));
                accp[path] = true;
                if (rm.nonunit) ctx.nontrivial(kase + ";entry=only_" + mname + ";path=" + PATHN[path]);
                if (path == 1 || !got[1]) for (size_t i = 0; i < nb; ++i) nz[i] = hv[i] ? e[i] != 0 : u1[i] != 0;
                std::vector<char> hvnz(nb, 0);
                for (size_t i = 0; i < nb; ++i) hvnz[i] = hv[i] && e[i] != 0;
                Vec expU1(nb), expUL(nb), expAL(nb, 0.0);
                for (size_t i = 0; i < nb; ++i) { expU1[i] = e[i]; expUL[i] = XL[i] * e[i]; if (hvnz[i]) expAL[i] = XL[i] / e[i]; }
                cmp("member_undo_factor" + kt, u1, expU1, rt, hv, std::string(ENTN[EU]) + on + ", all ones, against the reference efficiency of that member");
                if (!exec_ents(w, Nc, path, { EU }, XL, resU[path], what)) { ctx.violation("clause=throws_after_accepting" + kt + keytail0, kase, std::string(ENTN[EU]) + " of the labelling data throws although all ones were accepted: " + what.substr(0, 120)); continue; }
                cmp("member_undo_factor" + kt, resU[path], expUL, rt, hv, std::string(ENTN[EU]) + on + ", labelling data, against the reference efficiency of that member");
                if (!exec_ents(w, Nc, path, { EA }, XL, resA[path], what)) { ctx.violation("clause=throws_after_accepting" + kt + keytail0, kase, std::string(ENTN[EA]) + " throws although " + ENTN[EU] + " was accepted: " + what.substr(0, 120)); continue; }
                got[path] = true;
                cmp("member_apply_factor" + kt, resA[path], expAL, rt, hvnz, std::string(ENTN[EA]) + on + ", labelling data, against the reference efficiency of that member");
                if (exec_ents(w, Nc, path, { EA, EU }, XL, v, what)) cmp("member_roundtrip_apply_undo" + kt, v, XL, rt2, nz, ents_str({ EA, EU }) + on + " does not restore the labelling data");
                if (exec_ents(w, Nc, path, { EU, EA }, XL, v, what)) cmp("member_roundtrip_undo_apply" + kt, v, XL, rt2, nz, ents_str({ EU, EA }) + on + " does not restore the labelling data");
                if (mtrivial)
                  {
                    ctx.count("trivial_members_checked_bitwise");
                    for (int k = 0; k < 2; ++k)
                      for (size_t i = 0; i < nb; ++i)
                        if ((float)(k == 0 ? resU[path] : resA[path])[i] != (float)XL[i])
                          {
                            ctx.violation("clause=member_trivial_changes_data" + kt + keytail0, kase, std::string("the ") + mname + " member reports itself trivial but " + ENTN[k == 0 ? EU : EA] + on + " changes bin " + small::bin_str(w.bi->bins[i]) + " from " + vmc::str(XL[i]) + " to " + vmc::str((k == 0 ? resU[path] : resA[path])[i]));
                            break;
                          }
                  }
              }
            if (got[0] && got[1])
              {
                ctx.count("member_calls_compared_between_overload_families");
                cmp("member_path_dependence;member=" + mname + ";op=undo", resU[0], resU[1], rt2, all, std::string(ENTN[EU]) + "(ProjData&) against " + ENTN[EU] + "(RelatedViewgrams&) of the " + mname + " member, labelling data");
                cmp("member_path_dependence;member=" + mname + ";op=apply", resA[0], resA[1], rt2, nz, std::string(ENTN[EA]) + "(ProjData&) against " + ENTN[EA] + "(RelatedViewgrams&) of the " + mname + " member, labelling data");
              }
          }
        // the chain is the product of its members
        std::vector<char> hvcnz(nb, 0);
        Vec expU(nb, 0.0), expA(nb, 0.0);
        for (size_t i = 0; i < nb; ++i) { hvcnz[i] = hvc[i] && effc[i] != 0; expU[i] = XL[i] * effc[i]; if (hvcnz[i]) expA[i] = XL[i] / effc[i]; }
        for (int path = 0; path < 2; ++path)
          {
            if (!accp[path]) continue;
            const std::string kt = std::string(";member=") + where + "both;path=" + PATHN[path];
            const std::string on = std::string(" on ") + (path == 0 ? "a whole ProjData" : "related viewgrams") + " against the product of the members' efficiencies, labelling data";
            Vec v;
            if (exec_ents(w, Nc, path, { E_UNDO_FIRST, E_UNDO_SECOND }, XL, v, what)) cmp("member_product_undo" + kt, v, expU, rtc, hvc, ents_str({ E_UNDO_FIRST, E_UNDO_SECOND }) + on);
            if (exec_ents(w, Nc, path, { E_APPLY_SECOND, E_APPLY_FIRST }, XL, v, what)) cmp("member_product_apply" + kt, v, expA, rtc, hvcnz, ents_str({ E_APPLY_SECOND, E_APPLY_FIRST }) + on);
          }
        members(*C->get_first_norm(), *rc.first, where + "first.");
        members(*C->get_second_norm(), *rc.second, where + "second.");
      };
      members(N, r, "");
    }
  // ---- history: the object must be indistinguishable from a freshly built object with the current factors
  if (hist && fresh_ok)
    {
      BinNormalisation& F = *fresh;
      const double tolH = 2 * tol_chain + (r.atten ? 2e-5 : 0.0); // same code on the same numbers; attenuation: cached / uncached rows may be summed in another order
      auto differs = [&](double a, double b) { return !(a == b) && !(std::fabs(a - b) <= tolH * std::fabs(b)) && (std::isfinite(a) || std::isfinite(b)); };
      ctx.count("history_fresh_object_comparisons");
      bool trivialF = false;
      if (small::throws([&] { trivialF = F.is_trivial(); }, &what)) trivialF = false;
      if (trivialF != trivial)
        ctx.violation("clause=history_is_trivial_differs_from_fresh" + keytail0, kase, std::string("is_trivial() is ") + (trivial ? "true" : "false") + " after the history " + c.hist + " but " + (trivialF ? "true" : "false") + " for a freshly built object with the same factors");
      bool reportsF = true;
      for (size_t i = 0; i < nb && reportsF; ++i)
        {
          float v = 0;
          if (small::throws([&] { v = F.get_bin_efficiency(w.bi->bins[i]); }, &what)) { reportsF = false; break; }
          ctx.count("history_reported_efficiencies_compared_with_fresh");
          if (reports && differs(gbe[i], v))
            {
              ctx.violation("clause=history_reported_efficiency_differs_from_fresh" + keytail0, kase, "get_bin_efficiency(" + small::bin_str(w.bi->bins[i]) + ") = " + vmc::str(gbe[i]) + " after the history " + c.hist + ", " + vmc::str(v) + " for a freshly built object with the same factors");
              break;
            }
        }
      if (reportsF != reports) ctx.violation("clause=history_reported_efficiency_differs_from_fresh" + keytail0, kase, std::string("get_bin_efficiency ") + (reports ? "answers" : "throws") + " after the history " + c.hist + " but " + (reportsF ? "answers" : "throws") + " for a freshly built object");
      for (int path = 0; path < 2; ++path)
        {
          const std::string& keytail = keytail0;
          Vec uf, af;
          const bool accF = exec(w, F, path, UNDO, X1, uf, what);
          if (accF && !acc[path]) { ctx.violation("clause=history_call_rejected" + keytail, kase, "undo(1) is rejected after the history " + c.hist + " although a freshly built object with the same factors accepts it"); continue; }
          if (!accF && acc[path]) { ctx.observe("a call is accepted after a history although a freshly built " + r.sig + " rejects it: " + what.substr(0, 80)); continue; }
          if (!accF) continue;
          for (size_t i = 0; i < nb; ++i)
            {
              ctx.count("history_bins_compared_with_fresh");
              if (differs(U1[path][i], uf[i]))
                {
                  ctx.violation("clause=history_undo_differs_from_fresh" + keytail, kase, "undo(1) at bin " + small::bin_str(w.bi->bins[i]) + " = " + vmc::str(U1[path][i]) + " after the history " + c.hist + ", " + vmc::str(uf[i]) + " for a freshly built object with the same factors");
                  break;
                }
            }
          if (haveAL[path] && exec(w, F, path, APPLY, XL, af, what))
            for (size_t i = 0; i < nb; ++i)
              {
                ctx.count("history_bins_compared_with_fresh");
                if (differs(AL[path][i], af[i]))
                  {
                    ctx.violation("clause=history_apply_differs_from_fresh" + keytail, kase, "apply(labelling data) at bin " + small::bin_str(w.bi->bins[i]) + " = " + vmc::str(AL[path][i]) + " after the history " + c.hist + ", " + vmc::str(af[i]) + " for a freshly built object with the same factors");
                    break;
                  }
              }
        }
    }
  if (any_accepted)
    {
      ctx.count("units_accepted");
      for (const std::string& k : r.kinds) ctx.count("accepted_units_with:" + k);
      if (r.leaves > 1) ctx.count("accepted_chains_of_" + vmc::str(r.leaves));
      if (r.nonunit || (hist && (hist_nonunit || route.find("factors") == 0))) ctx.nontrivial(kase);
      ctx.maxi("max_bins", (long long)nb);
      ctx.maxi("max_chain_members", r.leaves);
      if (ctx.samples.size() < 6 && r.leaves >= 2 && c.sy > 1)
        ctx.sample(kase + " : " + r.sig + ", " + vmc::str(nb) + " bins, efficiency of bin " + small::bin_str(w.bi->bins[nb / 2]) + " = " + vmc::str(eff[nb / 2]) + (reports ? " (reported " + vmc::str(gbe[nb / 2]) + ")" : " (class reports none)"));
    }
  else
    ctx.count("units_with_every_call_rejected");
}

// ------------------------------------------------------------------------------------------------ enumeration
static void specs_for(const Geo& g, int sy, bool th, std::vector<std::pair<std::string, int>>& out)
{
  // sizes of the families
  g34::Built b = g34::build(g);
  const bool tof = b.pdi->get_num_tof_poss() > 1;
  auto pdi_nt = tof ? b.pdi->create_non_tof_clone() : b.pdi;
  const size_t nb = small::all_bins(*b.pdi).size(), nb_nt = small::all_bins(*pdi_nt).size();
  const size_t nvox = (size_t)b.im->get_z_size() * b.im->get_y_size() * b.im->get_x_size();
  const bool comp_ok = !tof && g.span == 1 && g.mash == 1;
  const bool full_sy = sy == 0 || sy == 8;
  auto add = [&](const std::string& s, int sweep) { out.push_back({ s, sweep }); };
  // ---- leaves
  for (const char* s : { "T", "P0", "P1", "W0", "W1", "Wz", "Ce", "Cz", "C1", "Ct", "Cn", "Cx", "A0", "A1", "D1", "B0", "B1", "S0" }) add(s, 1);
  if (th) add("D0", 1);
  if (tof) { add("Q0", 1); add("Q1", 1); }
  if (th || full_sy)
    {
      for (size_t k = 0; k < nb_nt; ++k) add("Pu" + vmc::str(k), 0);
      if (tof) for (size_t k = 0; k < nb; ++k) add("Qu" + vmc::str(k), 0);
      if (!tof)
        for (size_t j = 0; j < nvox; ++j)
          {
            add("Av" + vmc::str(j), 0);
            if (sy == 8) add("Bv" + vmc::str(j), 0);
            if (th) add("Dv" + vmc::str(j), 0);
          }
    }
  // ---- chains
  std::vector<char> kinds = { 'T', 'P', 'W' };
  if (tof) kinds.push_back('Q');
  if (!tof) kinds.push_back('A');
  if (comp_ok) kinds.push_back('C');
  const std::string centre = vmc::str(nvox / 2);
  auto leaf = [&](char k, int pos) -> std::string {
    switch (k)
      {
      case 'T': return "T";
      case 'P': return pos == 0 ? "P0" : pos == 1 ? "P1" : "Pu3";
      case 'Q': return pos == 0 ? "Q0" : pos == 1 ? "Q1" : "Qu2";
      case 'A': return pos == 0 ? "A1" : pos == 1 ? "A0" : "Av" + centre;
      case 'C': return pos == 0 ? "Ce" : pos == 1 ? "Cz" : "C1";
      default: return pos == 0 ? "W1" : pos == 1 ? "W0" : "Wz";
      }
  };
  for (char k1 : kinds)
    for (char k2 : kinds) add("(" + leaf(k1, 0) + "," + leaf(k2, 1) + ")", 1);
  if (!tof) { add("(P0,B0)", 1); add("(B1,P1)", 0); add("(D1,A0)", 0); }
  if (comp_ok) add("(Cx,P1)", 0);
  if (th || full_sy)
    for (char k1 : kinds)
      for (char k2 : kinds)
        for (char k3 : kinds)
          {
            if (k1 == k2 || k1 == k3 || k2 == k3) continue;
            add("((" + leaf(k1, 0) + "," + leaf(k2, 1) + ")," + leaf(k3, 2) + ")", th ? 1 : 0);
            add("(" + leaf(k1, 0) + ",(" + leaf(k2, 1) + "," + leaf(k3, 2) + "))", 0);
          }
}

// histories: (final spec, earlier states); simplest first.  Factor alphabets per leaf kind (first letter = the set used in chains):
//   P/Q {0 labelling A, i all ones, 1 labelling B}, S {0, 1}, C efficiencies only {e labelling A, 1 all ones, b labelling B, z dead crystal},
//   C three components {a,1,b}^3 reached from aaa / 111 by changing ONE component or all, W {0, 1, r, z} (table, calibration factor,
//   branching ratio; 1 -> r changes the radionuclide only), T / A / D / B one state (repeated set_up, other geometry / exam info only)
static void hist_specs_for(const Geo& g, int sy, bool th, std::vector<std::array<std::string, 2>>& out)
{
  g34::Built b = g34::build(g);
  const bool tof = b.pdi->get_num_tof_poss() > 1;
  const bool comp_ok = !tof && g.span == 1 && g.mash == 1;
  std::string why;
  const bool geo_ok = comp_ok && bn::block_tables_cover_all_bins(*b.sc, *b.pdi, why);
  const int md = g.md < 0 ? g.R - 1 : g.md;
  const bool big = !tof && g.span == 1 && md < g.R - 1;
  std::vector<int> alts;
  for (int k = 0; k < 4; ++k) { Geo a; if (alt_geo(g, k, a)) alts.push_back(k); }
  auto step = [](const std::string& spec, int alt, bool use, bool members = false) {
    return spec + "/" + (alt >= 0 ? "g" + vmc::str(alt) : std::string()) + (use ? "u" : "") + (members ? "m" : "");
  };
  auto add = [&](const std::string& fin, const std::string& h) { out.push_back({ fin, h }); };
  struct Fam { std::string kind; std::vector<std::string> args; };
  std::vector<Fam> fams;
  if (comp_ok) fams.push_back({ "C", { "e", "1", "b", "z" } });
  fams.push_back({ "P", { "0", "i", "1" } });
  if (tof) fams.push_back({ "Q", { "0", "i", "1" } });
  if (big) fams.push_back({ "S", { "0", "1" } });
  fams.push_back({ "W", { "0", "1", "r", "z" } });
  fams.push_back({ "T", { "" } });
  if (!tof) { fams.push_back({ "A", { "1" } }); fams.push_back({ "B", { "0" } }); if (th) fams.push_back({ "D", { "1" } }); }
  // ---- one earlier state, leaves: every ordered pair of factor sets (also the same twice) x {no use, use} in the geometry of the
  //      case; earlier set_up with every alternative geometry / exam info (quick: with a use; thorough: both)
  for (const Fam& f : fams)
    for (const std::string& a0 : f.args)
      for (const std::string& a1 : f.args)
        {
          for (int use = 0; use < 2; ++use) add(f.kind + a1, step(f.kind + a0, -1, use));
          for (int k : alts)
            for (int use = th ? 0 : 1; use < 2; ++use) add(f.kind + a1, step(f.kind + a0, k, use));
        }
  // ---- three component tables: change exactly ONE of them (to each other letter), or all
  std::vector<std::array<std::string, 2>> comp3; // (from, to)
  if (geo_ok)
    {
      const std::string letters = "a1b";
      for (const std::string& s0 : { std::string("aaa"), std::string("111") })
        {
          comp3.push_back({ s0, s0 });
          for (int comp = 0; comp < 3; ++comp)
            for (char l : letters)
              if (l != s0[comp]) { std::string t = s0; t[comp] = l; comp3.push_back({ s0, t }); }
          for (char l : letters)
            if (l != s0[0]) comp3.push_back({ s0, std::string(3, l) });
        }
      for (auto& ft : comp3)
        {
          for (int use = 0; use < 2; ++use) add("C" + ft[1], step("C" + ft[0], -1, use));
          if (ft[0] == ft[1] || ft[1][0] == ft[1][1]) // alternative geometries: repeated set_up and "all changed"
            for (int k : alts) add("C" + ft[1], step("C" + ft[0], k, true));
        }
    }
  // ---- two earlier states
  for (const Fam& f : fams)
    {
      if (f.args.size() < 2 || !(th || f.kind == "C")) continue;
      const size_t n = th ? f.args.size() : 3;
      for (size_t i0 = 0; i0 < n; ++i0)
        for (size_t i1 = 0; i1 < n; ++i1)
          for (size_t i2 = 0; i2 < n; ++i2)
            for (int u0 = 0; u0 < 2; ++u0)
              for (int u1 = 0; u1 < 2; ++u1)
                add(f.kind + f.args[i2], step(f.kind + f.args[i0], -1, u0) + ">" + step(f.kind + f.args[i1], -1, u1));
    }
  if (geo_ok)
    for (auto& ft : comp3)
      {
        if (ft[0] != "aaa" || ft[1] == ft[0]) continue;
        for (auto& ft2 : comp3)
          {
            // second change: the change ft2 makes to its own start, applied to ft[1]
            std::string t = ft[1];
            int changed = 0;
            for (int comp = 0; comp < 3; ++comp) if (ft2[1][comp] != ft2[0][comp]) { t[comp] = ft2[1][comp]; ++changed; }
            if (ft2[0] != "aaa" || changed != 1 || (!th && t == ft[1])) continue;
            add("C" + t, step("Caaa", -1, true) + ">" + step("C" + ft[1], -1, true));
            if (th) add("C" + t, step("Caaa", -1, false) + ">" + step("C" + ft[1], -1, false));
          }
      }
  // ---- chains of two: first member changed, second member changed, both, none; re-set-up through the chain / on the members
  std::vector<Fam> ck;
  ck.push_back({ "P", { "0", "i" } });
  ck.push_back({ "W", { "1", "0" } });
  if (tof) ck.push_back({ "Q", { "1", "i" } });
  if (!tof) ck.push_back({ "A", { "1", "1" } });
  if (comp_ok) ck.push_back({ "C", { "e", "1" } });
  ck.push_back({ "T", { "", "" } });
  std::vector<std::array<std::string, 2>> chain_changes; // (from, to) of chains, reused for the triples
  for (const Fam& x : ck)
    for (const Fam& y : ck)
      {
        if (x.kind == y.kind && x.kind != "P") continue;
        const std::string s0 = "(" + x.kind + x.args[0] + "," + y.kind + y.args[0] + ")";
        std::vector<std::string> finals = { s0 };
        if (x.args[1] != x.args[0]) finals.push_back("(" + x.kind + x.args[1] + "," + y.kind + y.args[0] + ")");
        if (y.args[1] != y.args[0]) finals.push_back("(" + x.kind + x.args[0] + "," + y.kind + y.args[1] + ")");
        if (x.args[1] != x.args[0] && y.args[1] != y.args[0]) finals.push_back("(" + x.kind + x.args[1] + "," + y.kind + y.args[1] + ")");
        for (const std::string& fin : finals)
          {
            add(fin, step(s0, -1, true));
            add(fin, step(s0, -1, true, true));
            if (th || fin == finals.back()) { add(fin, step(s0, -1, false)); add(fin, step(s0, -1, false, true)); }
            if (th || fin == finals.front()) // quick: other geometry / exam info with unchanged members only (a changed member: leaves above)
              for (int k : alts) add(fin, step(s0, k, true));
            if (fin != s0) chain_changes.push_back({ s0, fin });
          }
      }
  // ---- chains of three (thorough): a chain of two with a changed member inside / beside a third member
  if (th)
    for (auto& cc : chain_changes)
      for (const Fam& z : ck)
        {
          if (cc[0].find(z.kind) != std::string::npos || z.kind == "T") continue;
          const std::string zl = z.kind + z.args[0];
          add("(" + cc[1] + "," + zl + ")", step("(" + cc[0] + "," + zl + ")", -1, true));
          add("(" + zl + "," + cc[1] + ")", step("(" + zl + "," + cc[0] + ")", -1, true));
          add("(" + zl + "," + cc[1] + ")", step("(" + zl + "," + cc[0] + ")", -1, true, true));
        }
}

int main(int argc, char** argv)
{
  vmc::Ctx ctx(argc, argv, "C13");
  small::quiet();
  ctx.rule = "one unit = (geometry, symmetry object, normalisation object); the real object is called on the whole ProjData and on every related-viewgram group x TOF bin with all-ones, labelling and (sweep) every "
             "unit-bin data set, undo/apply/both round trips; one evaluation = one such call sequence over all bins; non-trivial = unit accepted by STIR whose reference efficiencies are not all 1; "
             "every public entry point is exercised in both overload families: undo/apply(ProjData&) without a symmetries argument for every class, and for every chain (and, recursively, every member that is a chain) "
             "apply_only_first/second and undo_only_first/second on related viewgrams and on a whole ProjData - each against the reference efficiency of THAT member, apply_only_x then undo_only_x (and reverse) restores the data, "
             "whole-data-set overload = viewgram overload bin by bin, only_first then only_second = the product (each such accepted entry point with efficiencies not all 1 is a non-trivial case of its own); "
             "history units: the object was built with other factors, set up (also with another sampling / exam info) and used or not, its factors were then changed in place through the public accessors "
             "(no new allocate()/object) and set_up was called again (through the chain or on its members) - all histories with 1 (components, thorough: all kinds: 2) earlier states over the factor alphabets "
             "{labelling A, all ones, labelling B, dead crystal} x which component table x {no use, use in between} are enumerated and must behave like a freshly built object with the current factors";
  ctx.assume("reference efficiencies: 1/factor (from projection data), exp(-sum_j P_bj mu_j voxel_size_x/10) with P = STIR's own ray tracing matrix with all symmetries off and no cache (attenuation, mu in cm^-1), "
             "product of the two crystal efficiencies (components, efficiencies only), table/(calibration*branching ratio), product over chain members");
  ctx.assume("tolerance of undo(1) against the reference: (4*members+4)*eps_float relative, plus for attenuation expm1(voxel_x/10*(100*delta*row maximum*sum(mu)) + 200 eps*line integral) with delta the C03 "
             "geometric rounding bound; attenuation bins on ray-tracing ties (C03 screen, computed from the geometry only) have no independent reference and are counted");
  ctx.assume("components with geometric/block factors: no independent model here (C20), the efficiency the object reports is the reference; uniform-mu analytic chord tie: exp(-mu*(chord+2 voxel diagonals)/10) <= eff <= exp(-mu*chord/10) for direct bins");
  ctx.assume("round trips and apply are only checked where the efficiency is non-zero; calls rejected by STIR with error() (e.g. attenuation projector with other symmetries than the viewgrams) are counted, not failures; "
             "use before set_up is recorded as an observation only (the statement is silent)");
  ctx.assume("histories: a re-set-up object is compared with the reference of its CURRENT factors (same tolerances) and with a freshly built object (2*(4*members+4)*eps_float relative, attenuation + 2e-5 for another summation "
             "order of cached rows); a use after a REJECTED earlier set_up is never made; a history object accepting what a fresh object rejects is an observation only");
  if (ctx.replaying())
    {
      auto m = vmc::kv(ctx.replay);
      Case c; c.g = Geo::parse(m); c.sy = atoi(m["sy"].c_str()); c.spec = m["norm"]; c.sweep = atoi(m["sweep"].c_str());
      if (m.count("hist")) c.hist = m["hist"];
      run_case(ctx, c);
      return ctx.finish();
    }
  const bool th = ctx.thorough();
  auto G = [](int D, int R, int span, int md, int mash, int tof, int tang, int nz, int nxy, int vxy) {
    Geo g; g.D = D; g.R = R; g.span = span; g.md = md; g.mash = mash; g.tof = tof; g.tang = tang; g.nz = nz; g.nxy = nxy; g.vxy = vxy; return g;
  };
  std::vector<Geo> geos;
  geos.push_back(G(8, 2, 1, -1, 1, 0, 3, 0, 3, 100));  // span 1, 3 tangential positions
  geos.push_back(G(8, 2, 1, 0, 1, 0, 0, 5, 5, 50));    // 4 (even) tangential positions, only segment 0 of 3, voxels of half a bin, 5 planes (no axial clipping)
  geos.push_back(G(8, 2, 3, -1, 1, 0, 3, 0, 3, 100));  // span 3
  geos.push_back(G(8, 2, 1, -1, 1, 3, 3, 0, 3, 100));  // TOF, 3 bins
  geos.push_back(G(16, 1, 1, -1, 1, 0, 5, 0, 5, 100)); // 8 views, 4 transaxial blocks (geo/block factors defined for every bin)
  if (th)
    {
      geos.push_back(G(12, 2, 1, -1, 1, 0, 5, 0, 5, 110)); // 6 views: no 90 degree symmetry, voxels of 1.1 bins
      geos.push_back(G(16, 2, 1, -1, 2, 0, 5, 0, 5, 100)); // view mashing
      geos.push_back(G(8, 3, 1, 1, 1, 0, 3, 0, 3, 100));   // 3 rings, max ring difference 1 of 2
      geos.push_back(G(16, 2, 1, -1, 1, 0, 6, 0, 7, 100)); // 8 views, 2 rings, even tangential size
      geos.push_back(G(8, 2, 1, -1, 1, 5, 3, 0, 3, 100));  // TOF, 5 bins
      geos.push_back(G(8, 3, 3, -1, 1, 3, 3, 0, 3, 100));  // TOF, span 3
    }
  uint64_t unit = 0;
  for (const Geo& g : geos)
    for (int sy = 0; sy <= (th ? 16 : 8); ++sy)
      {
        std::vector<std::pair<std::string, int>> specs;
        specs_for(g, sy, th, specs);
        for (auto& s : specs)
          {
            if (!ctx.mine(unit++)) continue;
            if (ctx.expired()) return ctx.finish();
            Case c; c.g = g; c.sy = sy; c.spec = s.first; c.sweep = s.second;
            run_case(ctx, c);
            ctx.count("units");
          }
      }
  // histories of objects (after all objects built once, so that the first case of a key is a simple one)
  for (const Geo& g : geos)
    for (int sy : { 0, 8, 16 })
      {
        if (sy == 16 && !th) continue;
        std::vector<std::array<std::string, 2>> hs;
        hist_specs_for(g, sy, th, hs);
        for (auto& h : hs)
          {
            if (!ctx.mine(unit++)) continue;
            if (ctx.expired()) return ctx.finish();
            Case c; c.g = g; c.sy = sy; c.spec = h[0]; c.sweep = 0; c.hist = h[1];
            run_case(ctx, c);
            ctx.count("units");
          }
      }
  return ctx.finish();
}
