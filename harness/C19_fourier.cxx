// C19 - Fourier transforms invert; filters are the convolutions they claim to be.
//
// Bounded-exhaustive enumeration on the real STIR code against the reference model of engine/ref_fourier.h.
// Parts (argument --parts a,b,..; default: the numeric parts; the registration C19_fourier_mem runs conv2d,conv3d,imgfilter
// under AddressSanitizer with one forked child per unit, because these classes read/write out of bounds for some kernel ranges):
//   dft      fourier / inverse_fourier / fourier_for_real_data / inverse_fourier_for_real_data / pos_frequencies_to_all
//            for ALL power-of-two shapes of the tier, both signs, EVERY unit impulse (real and imaginary): closed form,
//            inverse, real route == complex route, Gram matrix (Parseval), a fixed family of superpositions (linearity).
//   conv1d   ArrayFilter1DUsingConvolution: every kernel index range within the bound x kernel family x data range x
//            output range x data family x boundary condition against the direct sum.
//   conv1s   ArrayFilter1DUsingConvolutionSymmetricKernel likewise.
//   conv2d / conv3d  ArrayFilter2D/3DUsingConvolution likewise.
//   dftfilt  ArrayFilterUsingRealDFTWithPadding<1|2|3> == direct convolution whenever padded length >= 2 x data span.
//   sep      SeparableArrayFunctionObject<3> == successive 1-D filters in all 6 axis orders == reference.
//   gauss    SeparableGaussianArrayFilter<3>: kernel shape, truncation, sum 1, mean preserved.
//   metz     SeparableMetzArrayFilter<3>: symmetric, acts on the right axis, DC gain 1 at power 0 when not truncated.
//   imgfilter SeparableConvolutionImageFilter (constructor and setter routes) == reference.
#include "vmc.h"
#include "stir_small.h"
#include "ref_fourier.h"
#include "stir/Array.h"
#include "stir/Array_complex_numbers.h"
#include "stir/IndexRange.h"
#include "stir/BasicCoordinate.h"
#include "stir/numerics/fourier.h"
#include "stir/ArrayFilter1DUsingConvolution.h"
#include "stir/ArrayFilter1DUsingConvolutionSymmetricKernel.h"
#include "stir/ArrayFilter2DUsingConvolution.h"
#include "stir/ArrayFilter3DUsingConvolution.h"
#include "stir/ArrayFilterUsingRealDFTWithPadding.h"
#include "stir/SeparableArrayFunctionObject.h"
#include "stir/SeparableGaussianArrayFilter.h"
#include "stir/SeparableMetzArrayFilter.h"
#include "stir/SeparableConvolutionImageFilter.h"
#include "stir/Succeeded.h"
#include <complex>
#include <functional>
#include <sys/wait.h>
#include <signal.h>
#include <errno.h>

using namespace stir;
using rf::ND;
using rf::Rg;
typedef std::complex<float> cf;
typedef std::complex<double> cd;
static const double EPSF = 1.1920929e-7;

// ------------------------------------------------------------------------------------------------
// conversions reference <-> STIR arrays
// ------------------------------------------------------------------------------------------------
template <int D>
static IndexRange<D> stir_range(const ND& a)
{
  BasicCoordinate<D, int> lo, hi;
  for (int d = 1; d <= D; ++d) { lo[d] = a.r[d - 1].lo; hi[d] = a.r[d - 1].hi; }
  return IndexRange<D>(lo, hi);
}
template <int D>
static Array<D, float> to_stir(const ND& a)
{
  Array<D, float> r(stir_range<D>(a));
  size_t i = 0;
  for (auto it = r.begin_all(); it != r.end_all(); ++it) *it = (float)a.v[i++];
  return r;
}
// false if the array is not regular any more
template <int D>
static bool from_stir(ND& out, const Array<D, float>& a)
{
  BasicCoordinate<D, int> lo, hi;
  if (!a.get_regular_range(lo, hi)) return false;
  Rg r[3];
  for (int d = 1; d <= D; ++d) r[d - 1] = Rg(lo[d], hi[d]);
  out = ND(r[0], r[1], r[2]);
  size_t i = 0;
  for (auto it = a.begin_all(); it != a.end_all(); ++it) out.v[i++] = *it;
  return i == out.v.size();
}
static VectorWithOffset<float> to_vwo(const ND& k, bool empty)
{
  if (empty) return VectorWithOffset<float>();
  VectorWithOffset<float> v(k.r[0].lo, k.r[0].hi);
  for (int i = k.r[0].lo; i <= k.r[0].hi; ++i) v[i] = (float)k.at(i);
  return v;
}
static std::string clean(std::string s) { for (char& c : s) if (c == '\t' || c == '\n' || c == '\r') c = ' '; return s; }
static uint64_t hmix(std::initializer_list<long long> l)
{
  uint64_t h = 1469598103934665603ULL;
  for (long long x : l) h = vmc::fnv(&x, sizeof x, h);
  return h;
}

// ------------------------------------------------------------------------------------------------
// part dft
// ------------------------------------------------------------------------------------------------
static double dft_tol(size_t N, int extra = 0) { return 32 * EPSF * (std::log2((double)N) + 4 + extra); }

template <int D>
struct Dft
{
  typedef Array<D, cf> AC;
  typedef Array<D, float> AR;
  static IndexRange<D> rng(const int* n)
  {
    BasicCoordinate<D, int> lo, hi;
    for (int d = 1; d <= D; ++d) { lo[d] = 0; hi[d] = n[d - 1] - 1; }
    return IndexRange<D>(lo, hi);
  }
  static BasicCoordinate<D, int> coord(size_t flat, const int* n)
  {
    BasicCoordinate<D, int> c;
    for (int d = D; d >= 1; --d) { c[d] = (int)(flat % n[d - 1]); flat /= n[d - 1]; }
    return c;
  }
  template <class A, class T>
  static bool flat(std::vector<T>& out, const A& a, const int* n, int last_len)
  {
    // expected regular 0-based shape n[0..D-2] x last_len
    BasicCoordinate<D, int> lo, hi;
    if (!a.get_regular_range(lo, hi)) return false;
    for (int d = 1; d <= D; ++d)
      if (lo[d] != 0 || hi[d] != (d == D ? last_len : n[d - 1]) - 1) return false;
    out.clear();
    for (auto it = a.begin_all(); it != a.end_all(); ++it) out.push_back(*it);
    return true;
  }

  static void unit(vmc::Ctx& ctx, const int* n, int sign, const std::string& kase)
  {
    size_t N = 1;
    for (int d = 0; d < D; ++d) N *= (size_t)n[d];
    const std::string kt = ";dim=" + vmc::str(D);
    ctx.current("part=dft" + kt, kase);
    const bool real_ok = n[D - 1] % 2 == 0;
    const int nl = n[D - 1], nh = nl / 2 + 1; // positive frequencies of the last dimension
    const size_t Nh = N / nl * nh;
    const double tol = dft_tol(N), tolr = dft_tol(N, 4);
    const size_t gram_max = ctx.thorough() ? 1024 : 256;
    const bool do_gram = N <= gram_max;
    std::vector<std::vector<cd>> w(D);
    for (int d = 0; d < D; ++d)
      {
        w[d].resize(n[d]);
        for (int m = 0; m < n[d]; ++m) w[d][m] = std::polar(1.0, sign * 2 * M_PI * m / n[d]);
      }
    // superposition family (linearity / Parseval on non-basis inputs)
    const int NS = 6;
    std::vector<std::vector<cd>> sx(NS, std::vector<cd>(N)), sref(NS, std::vector<cd>(N, cd(0, 0)));
    for (size_t k = 0; k < N; ++k)
      {
        int par = 0; size_t kk = k;
        for (int d = D - 1; d >= 0; --d) { par += (int)(kk % n[d]); kk /= n[d]; }
        sx[0][k] = 1; sx[1][k] = par % 2 ? -1 : 1; sx[2][k] = (double)(k + 1);
        sx[3][k] = cd((double)(k % 7), (double)(k % 5) - 2);
        sx[4][k] = (k == 0 || k == N - 1) ? 1 : 0;
        sx[5][k] = k == 1 % N ? cd(1, 0) : (k == N / 2 ? cd(0, -1) : cd(0, 0));
      }
    std::vector<cf> gram; if (do_gram) gram.resize(N * N);
    std::vector<cd> ref(N), tmp;
    std::vector<cf> f, fpos, fall, keep;
    std::vector<float> fr;
    long bad_reported = 0;
    auto viol = [&](const std::string& clause, const std::string& route, size_t k, int im, const std::string& msg) {
      if (bad_reported++ < 6)
        ctx.violation("part=dft;clause=" + clause + kt + ";route=" + route, kase, "impulse " + vmc::str(k) + (im ? " (imaginary)" : " (real)") + ": " + msg);
    };
    for (size_t k = 0; k < N; ++k)
      {
        // closed form F(delta_k)[j] = prod_d exp(sign 2 pi i j_d k_d / n_d) (convention documented in fourier.h)
        {
          size_t kk = k, len = 1;
          ref[0] = cd(1, 0);
          // build by successive outer products, last dimension fastest
          std::vector<int> kd(D);
          for (int d = D - 1; d >= 0; --d) { kd[d] = (int)(kk % n[d]); kk /= n[d]; }
          for (int d = 0; d < D; ++d)
            {
              tmp.assign(ref.begin(), ref.begin() + len);
              for (size_t a = 0; a < len; ++a)
                for (int j = 0; j < n[d]; ++j) ref[a * n[d] + j] = tmp[a] * w[d][(size_t)j * kd[d] % n[d]];
              len *= n[d];
            }
        }
        for (int s = 0; s < NS; ++s)
          if (sx[s][k] != cd(0, 0))
            for (size_t j = 0; j < N; ++j) sref[s][j] += sx[s][k] * ref[j];
        for (int im = 0; im < 2; ++im)
          {
            const cd ph = im ? cd(0, 1) : cd(1, 0);
            AC a(rng(n));
            a.fill(cf(0, 0));
            a[coord(k, n)] = cf((float)ph.real(), (float)ph.imag());
            fourier(a, sign);
            ctx.count("evaluations");
            if (!flat(f, a, n, nl)) { viol("shape", "complex", k, im, "fourier() changed the index range"); continue; }
            double m = 0; size_t mj = 0;
            for (size_t j = 0; j < N; ++j) { double e = std::abs(cd(f[j]) - ph * ref[j]); if (!(e <= m)) { m = e; mj = j; } }
            if (!(m <= tol))
              viol("closed_form", "complex", k, im, "F[j=" + vmc::str(mj) + "] = (" + vmc::str(f[mj].real()) + "," + vmc::str(f[mj].imag()) + ") closed form (" + vmc::str((ph * ref[mj]).real()) + "," + vmc::str((ph * ref[mj]).imag()) + ") |diff| " + vmc::str(m) + " > tol " + vmc::str(tol));
            if (k == 0 && im == 0)
              {
                double mc = 0;
                for (size_t j = 0; j < N; ++j) mc = std::max(mc, (double)std::abs(f[j] - cf(1, 0)));
                if (!(mc <= tol)) viol("impulse_constant", "complex", k, im, "transform of the unit impulse at 0 is not the constant 1: max deviation " + vmc::str(mc));
              }
            if (!im) { keep = f; if (do_gram) std::copy(f.begin(), f.end(), gram.begin() + k * N); }
            if (k > 0 && N > 1) ctx.nontrivial(hmix({ 1, D, n[0], D > 1 ? n[1] : 0, D > 2 ? n[2] : 0, sign, (long long)k, im }));
            // inverse o forward = id
            inverse_fourier(a, sign);
            ctx.count("evaluations");
            if (!flat(f, a, n, nl)) { viol("shape", "complex", k, im, "inverse_fourier() changed the index range"); continue; }
            m = 0;
            for (size_t j = 0; j < N; ++j) { double e = std::abs(cd(f[j]) - (j == k ? ph : cd(0, 0))); if (!(e <= m)) { m = e; mj = j; } }
            if (!(m <= tol)) viol("inverse", "complex", k, im, "inverse_fourier(fourier(x)) differs from x at j=" + vmc::str(mj) + " by " + vmc::str(m) + " > tol " + vmc::str(tol));
          }
        if (!real_ok) continue;
        // real-data route on the real impulse
        {
          AR r(rng(n));
          r.fill(0.F);
          r[coord(k, n)] = 1.F;
          Array<D, cf> pos = fourier_for_real_data(r, sign);
          ctx.count("evaluations"); ctx.count("real_route_evaluations");
          if (!flat(fpos, pos, n, nh)) { viol("shape", "real", k, 0, "fourier_for_real_data() result does not have sizes (n1,..,nd/2+1) from 0"); continue; }
          double m = 0; size_t mj = 0;
          for (size_t jo = 0; jo < N / nl; ++jo)
            for (int jl = 0; jl < nh; ++jl)
              { double e = std::abs(fpos[jo * nh + jl] - keep[jo * nl + jl]); if (!(e <= m)) { m = e; mj = jo * nl + jl; } }
          if (!(m <= tolr)) viol("real_vs_complex", "real", k, 0, "fourier_for_real_data differs from fourier on the positive frequencies at j=" + vmc::str(mj) + " by " + vmc::str(m) + " > tol " + vmc::str(tolr));
          Array<D, cf> all = pos_frequencies_to_all(pos);
          if (!flat(fall, all, n, nl)) viol("shape", "pos_frequencies_to_all", k, 0, "result does not have the sizes of the real array");
          else
            {
              m = 0;
              for (size_t j = 0; j < N; ++j) { double e = std::abs(fall[j] - keep[j]); if (!(e <= m)) { m = e; mj = j; } }
              if (!(m <= tolr)) viol("real_vs_complex", "pos_frequencies_to_all", k, 0, "pos_frequencies_to_all(fourier_for_real_data(x)) differs from fourier(x) at j=" + vmc::str(mj) + " by " + vmc::str(m) + " > tol " + vmc::str(tolr));
            }
          AR back;
          std::string what;
          if (small::throws([&] { back = inverse_fourier_for_real_data(pos, sign); }, &what))
            { // STIR refuses to invert what it transformed: recorded, not a failure (rule: rejected configurations)
              if (k == 0) { ctx.count("rejected_configs"); ctx.observe("inverse_fourier_for_real_data rejects the result of fourier_for_real_data for last dimension of length " + vmc::str(nl) + ": " + clean(what.substr(0, 100))); }
              continue;
            }
          ctx.count("evaluations");
          if (!flat(fr, back, n, nl)) viol("shape", "real", k, 0, "inverse_fourier_for_real_data() result does not have the sizes of the original");
          else
            {
              m = 0;
              for (size_t j = 0; j < N; ++j) { double e = std::fabs(fr[j] - (j == k ? 1.0 : 0.0)); if (!(e <= m)) { m = e; mj = j; } }
              if (!(m <= tolr)) viol("inverse", "real", k, 0, "inverse_fourier_for_real_data(fourier_for_real_data(x)) differs from x at j=" + vmc::str(mj) + " by " + vmc::str(m) + " > tol " + vmc::str(tolr));
            }
          (void)Nh;
        }
      }
    // Gram matrix <F d_i, F d_j> = N delta_ij  (Parseval on the basis)
    if (do_gram)
      {
        double worst = 0; size_t wi = 0, wj = 0;
        for (size_t i = 0; i < N; ++i)
          for (size_t j = i; j < N; ++j)
            {
              double re = 0, imv = 0;
              const cf* a = &gram[i * N]; const cf* b = &gram[j * N];
              for (size_t m = 0; m < N; ++m)
                {
                  re += (double)a[m].real() * b[m].real() + (double)a[m].imag() * b[m].imag();
                  imv += (double)a[m].imag() * b[m].real() - (double)a[m].real() * b[m].imag();
                }
              const double e = std::hypot(re - (i == j ? (double)N : 0.0), imv);
              if (!(e <= worst)) { worst = e; wi = i; wj = j; }
            }
        ctx.count("gram_entries", (long long)(N * (N + 1) / 2));
        ctx.maxi("gram_max_N", (long long)N);
        if (!(worst <= 4 * N * tol))
          ctx.violation("part=dft;clause=parseval_gram" + kt, kase, "<F d_" + vmc::str(wi) + ", F d_" + vmc::str(wj) + "> deviates from N delta_ij by " + vmc::str(worst) + " > " + vmc::str(4 * N * tol));
      }
    // superpositions
    for (int s = 0; s < NS; ++s)
      {
        double sa = 0, e2 = 0;
        for (size_t k = 0; k < N; ++k) { sa += std::abs(sx[s][k]); e2 += std::norm(sx[s][k]); }
        AC a(rng(n));
        { size_t k = 0; for (auto it = a.begin_all(); it != a.end_all(); ++it, ++k) *it = cf((float)sx[s][k].real(), (float)sx[s][k].imag()); }
        fourier(a, sign);
        ctx.count("evaluations"); ctx.count("superposition_evaluations");
        if (!flat(f, a, n, nl)) continue;
        double m = 0, p2 = 0; size_t mj = 0;
        for (size_t j = 0; j < N; ++j) { double e = std::abs(cd(f[j]) - sref[s][j]); if (!(e <= m)) { m = e; mj = j; } p2 += std::norm(cd(f[j])); }
        if (!(m <= tol * sa))
          ctx.violation("part=dft;clause=linearity" + kt + ";route=complex", kase, "superposition " + vmc::str(s) + ": F[j=" + vmc::str(mj) + "] differs from the sum of closed forms by " + vmc::str(m) + " > " + vmc::str(tol * sa));
        if (!(std::fabs(p2 - N * e2) <= 1e-4 * N * e2))
          ctx.violation("part=dft;clause=parseval" + kt, kase, "superposition " + vmc::str(s) + ": sum|F x|^2 = " + vmc::str(p2) + " but N sum|x|^2 = " + vmc::str(N * e2));
        if (s < 3 && real_ok)
          {
            AR r(rng(n));
            { size_t k = 0; for (auto it = r.begin_all(); it != r.end_all(); ++it, ++k) *it = (float)sx[s][k].real(); }
            Array<D, cf> pos = fourier_for_real_data(r, sign);
            ctx.count("evaluations");
            if (flat(fpos, pos, n, nh))
              {
                m = 0;
                for (size_t jo = 0; jo < N / nl; ++jo)
                  for (int jl = 0; jl < nh; ++jl)
                    { double e = std::abs(cd(fpos[jo * nh + jl]) - sref[s][jo * nl + jl]); if (!(e <= m)) { m = e; mj = jo * nl + jl; } }
                if (!(m <= tolr * sa))
                  ctx.violation("part=dft;clause=linearity" + kt + ";route=real", kase, "superposition " + vmc::str(s) + ": fourier_for_real_data[j=" + vmc::str(mj) + "] differs from the sum of closed forms by " + vmc::str(m) + " > " + vmc::str(tolr * sa));
                AR back;
                if (!small::throws([&] { back = inverse_fourier_for_real_data(pos, sign); }) && flat(fr, back, n, nl))
                  {
                    m = 0;
                    for (size_t j = 0; j < N; ++j) { double e = std::fabs(fr[j] - sx[s][j].real()); if (!(e <= m)) { m = e; mj = j; } }
                    if (!(m <= tolr * sa))
                      ctx.violation("part=dft;clause=inverse" + kt + ";route=real_superposition", kase, "superposition " + vmc::str(s) + ": real inverse differs from x at " + vmc::str(mj) + " by " + vmc::str(m));
                  }
              }
          }
      }
    ctx.count("dft_units");
    ctx.maxi(D == 1 ? "dft_1d_max_length" : (D == 2 ? "dft_2d_max_elements" : "dft_3d_max_elements"), (long long)N);
    if (D == 1 && N == 8 && sign == 1) ctx.sample("dft 1-D N=8 sign=+1: all 8 real and 8 imaginary impulses: closed form, inverse, real route, 36 Gram entries, 6 superpositions");
  }
};

static void run_dft(vmc::Ctx& ctx, const std::string& kase)
{
  auto m = vmc::kv(kase);
  std::vector<int> n = vmc::ints(m["n"]);
  const int sign = atoi(m["sign"].c_str());
  if (n.size() == 1) Dft<1>::unit(ctx, n.data(), sign, kase);
  else if (n.size() == 2) Dft<2>::unit(ctx, n.data(), sign, kase);
  else if (n.size() == 3) Dft<3>::unit(ctx, n.data(), sign, kase);
}
static void list_dft(bool th, std::vector<std::string>& units)
{
  std::vector<std::pair<long, std::string>> v;
  auto add = [&](std::vector<int> n) {
    long N = 1; for (int x : n) N *= x;
    for (int sign : { 1, -1 }) v.push_back({ N * 8 + (long)n.size() * 2 + (sign < 0), "part=dft;n=" + vmc::join(n) + ";sign=" + vmc::str(sign) });
  };
  for (int a = 1; a <= 10; ++a) add({ 1 << a });
  const int m2 = th ? 12 : 8;
  for (int a = 0; a <= m2; ++a) for (int b = 0; a + b <= m2; ++b) if (a + b > 0) add({ 1 << a, 1 << b });
  const int m3 = th ? 4 : 2;
  for (int a = 0; a <= m3; ++a) for (int b = 0; b <= m3; ++b) for (int c = 0; c <= m3; ++c) if (a + b + c > 0) add({ 1 << a, 1 << b, 1 << c });
  std::stable_sort(v.begin(), v.end(), [](const std::pair<long, std::string>& x, const std::pair<long, std::string>& y) { return x.first < y.first; });
  for (auto& p : v) units.push_back(p.second);
}

// ------------------------------------------------------------------------------------------------
// kernel and data families (shared by the convolution parts)
// ------------------------------------------------------------------------------------------------
// kernels on a given shape: every unit tap; 2*e_origin; e_origin + e_j (superpositions through the "trivial kernel" shortcut);
// two labelling kernels (all taps distinct; the second with value 1 at the origin)
static std::vector<ND> kernel_family(const ND& shape, bool pairs = true)
{
  std::vector<ND> v;
  const size_t n = shape.size();
  const bool has0 = shape.inside(0, 0, 0);
  const size_t o = has0 ? shape.idx(0, 0, 0) : 0;
  for (size_t j = 0; j < n; ++j) { ND k = shape; k.v.assign(n, 0.0); k.v[j] = 1; v.push_back(k); }
  if (has0) { ND k = shape; k.v.assign(n, 0.0); k.v[o] = 2; v.push_back(k); }
  if (has0 && pairs)
    for (size_t j = 0; j < n; ++j) if (j != o) { ND k = shape; k.v.assign(n, 0.0); k.v[o] = 1; k.v[j] = 1; v.push_back(k); }
  if (n > 1)
    {
      ND k = shape; for (size_t j = 0; j < n; ++j) k.v[j] = (double)(j + 1); v.push_back(k);
      if (has0) { ND k2 = shape; for (size_t j = 0; j < n; ++j) k2.v[j] = j == o ? 1.0 : (double)(j + 2); v.push_back(k2); }
    }
  return v;
}
// data on a given shape: every unit impulse, the labelling data set, all ones
static std::vector<ND> data_family(const ND& shape)
{
  std::vector<ND> v;
  const size_t n = shape.size();
  for (size_t j = 0; j < n; ++j) { ND x = shape; x.v.assign(n, 0.0); x.v[j] = 1; v.push_back(x); }
  if (n > 1)
    {
      ND x = shape; for (size_t j = 0; j < n; ++j) x.v[j] = (double)(j + 1); v.push_back(x);
      ND y = shape; y.v.assign(n, 1.0); v.push_back(y);
    }
  return v;
}
static const int MINS[3] = { 0, -3, 2 };

// ------------------------------------------------------------------------------------------------
// part conv1d : ArrayFilter1DUsingConvolution
//   group = (kernel, bc, input range); inside: output mode x data family
//   modes: 0 one-argument operator() (in place), 1 two arguments same range, 2 larger output range, 3 smaller,
//          4 disjoint (to the right), 5 the range returned by get_influenced_indices()
// ------------------------------------------------------------------------------------------------
static std::string conv1d_case(const ND& k, bool kempty, int bc, const Rg& in)
{
  return "part=conv1d;k=" + (kempty ? std::string("none") : rf::rg_str(k.r[0])) + ";kv=" + (kempty ? "" : rf::vals_str(k)) + ";bc=" + vmc::str(bc) + ";in=" + rf::rg_str(in);
}
static void conv1d_group(vmc::Ctx& ctx, const ND& k, bool kempty, int bc, const Rg& in, int only_mode = -1, const std::string& only_x = "")
{
  const std::string gcase = conv1d_case(k, kempty, bc, in);
  const std::string kt = ";bc=" + std::string(bc == 0 ? "zero" : (bc == 1 ? "constant" : "periodic"));
  ctx.current("part=conv1d" + kt, gcase);
  const BoundaryConditions::BC sbc = bc == 0 ? BoundaryConditions::zero : (bc == 1 ? BoundaryConditions::constant : BoundaryConditions::periodic);
  ArrayFilter1DUsingConvolution<float> filter(to_vwo(k, kempty), sbc);
  const ND xshape(in);
  if (bc == 2)
    { // not supported by STIR: recorded, not a failure
      Array<1, float> a = to_stir<1>(xshape);
      std::string what;
      if (small::throws([&] { filter(a); }, &what)) ctx.count("rejected_configs");
      else ctx.observe("ArrayFilter1DUsingConvolution accepted BoundaryConditions::periodic for " + gcase + " (result not checked)");
      return;
    }
  const bool trivial_ref = kempty || (k.r[0] == Rg(0, 0) && k.at(0) == 1);
  if (filter.is_trivial() != trivial_ref)
    ctx.violation("part=conv1d;clause=is_trivial", gcase, std::string("is_trivial() returns ") + (filter.is_trivial() ? "true" : "false") + " for this kernel");
  std::vector<Rg> outs;
  outs.push_back(in); outs.push_back(in); outs.push_back(Rg(in.lo - 2, in.hi + 3));
  outs.push_back(in.len() > 2 ? Rg(in.lo + 1, in.hi - 1) : Rg(0, -1));
  outs.push_back(Rg(in.hi + 1, in.hi + 2));
  {
    IndexRange<1> infl;
    filter.get_influenced_indices(infl, IndexRange<1>(in.lo, in.hi));
    outs.push_back(Rg(infl.get_min_index(), infl.get_max_index()));
    // documented meaning: union of the supports of the PSF
    const Rg want = kempty ? in : Rg(in.lo + k.r[0].lo, in.hi + k.r[0].hi);
    if (!(outs.back() == want))
      ctx.violation("part=conv1d;clause=influenced_indices", gcase, "get_influenced_indices gives " + rf::rg_str(outs.back()) + " expected " + rf::rg_str(want));
  }
  const std::vector<ND> data = data_family(xshape);
  for (int mode = 0; mode < (int)outs.size(); ++mode)
    {
      if (only_mode >= 0 && mode != only_mode) continue;
      const Rg orng = outs[mode];
      if (orng.len() <= 0) continue;
      for (const ND& x : data)
        {
          if (!only_x.empty() && rf::vals_str(x) != only_x) continue;
          ND ref(orng);
          rf::conv_axis(ref, k, kempty, x, 0, bc);
          Array<1, float> in_a = to_stir<1>(x);
          Array<1, float> out_a(orng.lo, orng.hi);
          out_a.fill(-77.F); // stale content must not survive
          if (mode == 0) { out_a = in_a; filter(out_a); }
          else filter(out_a, in_a);
          ctx.count("evaluations"); ctx.count("conv1d_cases");
          ND got;
          const bool ok_shape = from_stir<1>(got, out_a) && got.same_shape(ref);
          const double scale = (kempty ? 1.0 : k.sum_abs()) * x.sum_abs();
          std::string where;
          const double md = ok_shape ? rf::max_diff(got, ref, &where) : 0;
          const bool clipped = !kempty && (k.r[0].hi > 0 || k.r[0].lo < 0);
          if (clipped) ctx.count("conv1d_cases_kernel_reaches_outside_data");
          if (!(orng == in)) ctx.count("conv1d_cases_output_range_differs");
          if (ref.sum_abs() > 0 && !trivial_ref) ctx.nontrivial(vmc::fnv(gcase + "|" + vmc::str(mode) + "|" + rf::vals_str(x)));
          if (!ok_shape || !(md <= 1e-5 * scale))
            ctx.violation("part=conv1d;clause=convolution" + kt + ";mode=" + vmc::str(mode) + ";trivial=" + vmc::str((int)trivial_ref),
                          gcase + ";mode=" + vmc::str(mode) + ";out=" + rf::rg_str(orng) + ";x=" + rf::vals_str(x),
                          ok_shape ? "out" + where + " (reference: direct sum out_i = sum_j k_j in_{i-j})" : "output index range changed");
        }
    }
}
static void run_conv1d(vmc::Ctx& ctx, const std::string& kase)
{
  auto m = vmc::kv(kase);
  const bool kempty = m["k"] == "none";
  ND k = kempty ? ND() : rf::parse_nd(m["k"], m["kv"]);
  conv1d_group(ctx, k, kempty, atoi(m["bc"].c_str()), rf::rg_parse(m["in"]), m.count("mode") ? atoi(m["mode"].c_str()) : -1, m.count("x") ? m["x"] : "");
}
// unit = (kernel range, bc); "u" strings are expanded by conv1d_unit
static std::vector<Rg> conv1d_ranges(bool th)
{
  std::vector<Rg> v;
  const int K = th ? 4 : 2;
  for (int len = 1; len <= 2 * K + 1; ++len)
    for (int lo = -K; lo + len - 1 <= K; ++lo) v.push_back(Rg(lo, lo + len - 1));
  v.push_back(Rg(5, 6)); v.push_back(Rg(-7, -6)); v.push_back(Rg(17, 18)); v.push_back(Rg(-18, -17));
  return v;
}
static void conv1d_unit(vmc::Ctx& ctx, const std::string& u)
{
  auto m = vmc::kv(u);
  const bool th = ctx.thorough();
  const bool kempty = m["k"] == "none";
  const int bc = atoi(m["bc"].c_str());
  const int Lmax = th ? 16 : 8;
  std::vector<ND> ks;
  if (kempty) ks.push_back(ND());
  else ks = kernel_family(ND(rf::rg_parse(m["k"])));
  for (const ND& k : ks)
    for (int L = 1; L <= Lmax; ++L)
      for (int mi = 0; mi < 3; ++mi)
        {
          conv1d_group(ctx, k, kempty, bc, Rg(MINS[mi], MINS[mi] + L - 1));
          if (bc == 2) goto done; // one probe of the unsupported setting per unit is enough... per kernel range
        }
done:
  ctx.count("conv1d_units");
  ctx.maxi("conv1d_max_data_length", Lmax);
}
static void list_conv1d(bool th, std::vector<std::string>& units)
{
  for (int bc = 0; bc < 3; ++bc) units.push_back("part=conv1d;u=1;k=none;bc=" + vmc::str(bc));
  for (const Rg& r : conv1d_ranges(th))
    for (int bc = 0; bc < 3; ++bc) units.push_back("part=conv1d;u=1;k=" + rf::rg_str(r) + ";bc=" + vmc::str(bc));
}

// ------------------------------------------------------------------------------------------------
// part conv1s : ArrayFilter1DUsingConvolutionSymmetricKernel (kernel given for indices 0..K, output range == input range)
// ------------------------------------------------------------------------------------------------
static void conv1s_group(vmc::Ctx& ctx, const ND& kh, bool kempty, const Rg& in, int only_mode = -1, const std::string& only_x = "")
{
  const std::string gcase = "part=conv1s;k=" + (kempty ? std::string("none") : rf::rg_str(kh.r[0])) + ";kv=" + (kempty ? "" : rf::vals_str(kh)) + ";in=" + rf::rg_str(in);
  ctx.current("part=conv1s", gcase);
  ArrayFilter1DUsingConvolutionSymmetricKernel<float> filter(to_vwo(kh, kempty));
  ND k; // the full symmetric kernel
  if (!kempty)
    {
      k = ND(Rg(-kh.r[0].hi, kh.r[0].hi));
      for (int j = 0; j <= kh.r[0].hi; ++j) k.at(j) = k.at(-j) = kh.at(j);
    }
  const ND xshape(in);
  for (int mode = 0; mode < 2; ++mode)
    {
      if (only_mode >= 0 && mode != only_mode) continue;
      for (const ND& x : data_family(xshape))
        {
          if (!only_x.empty() && rf::vals_str(x) != only_x) continue;
          ND ref(in);
          rf::conv_axis(ref, k, kempty, x, 0, 0);
          Array<1, float> in_a = to_stir<1>(x);
          Array<1, float> out_a(in.lo, in.hi);
          out_a.fill(-77.F);
          if (mode == 0) { out_a = in_a; filter(out_a); }
          else filter(out_a, in_a);
          ctx.count("evaluations"); ctx.count("conv1s_cases");
          ND got;
          const bool ok_shape = from_stir<1>(got, out_a) && got.same_shape(ref);
          std::string where;
          const double md = ok_shape ? rf::max_diff(got, ref, &where) : 0;
          if (!kempty && kh.r[0].hi > 0 && ref.sum_abs() > 0) ctx.nontrivial(vmc::fnv(gcase + "|" + vmc::str(mode) + "|" + rf::vals_str(x)));
          if (!kempty && kh.r[0].hi >= in.len()) ctx.count("conv1s_cases_kernel_longer_than_data");
          if (!ok_shape || !(md <= 1e-5 * (kempty ? 1.0 : k.sum_abs()) * x.sum_abs()))
            ctx.violation("part=conv1s;clause=convolution;mode=" + vmc::str(mode), gcase + ";mode=" + vmc::str(mode) + ";x=" + rf::vals_str(x),
                          ok_shape ? "out" + where + " (reference: direct sum with the kernel mirrored around 0)" : "output index range changed");
        }
    }
}
static void run_conv1s(vmc::Ctx& ctx, const std::string& kase)
{
  auto m = vmc::kv(kase);
  const bool kempty = m["k"] == "none";
  if (m.count("u"))
    {
      std::vector<ND> ks;
      if (kempty) ks.push_back(ND()); else ks = kernel_family(ND(rf::rg_parse(m["k"])));
      const int Lmax = ctx.thorough() ? 16 : 8;
      for (const ND& k : ks)
        for (int L = 1; L <= Lmax; ++L)
          for (int mi = 0; mi < 3; ++mi) conv1s_group(ctx, k, kempty, Rg(MINS[mi], MINS[mi] + L - 1));
      ctx.count("conv1s_units");
      return;
    }
  ND k = kempty ? ND() : rf::parse_nd(m["k"], m["kv"]);
  conv1s_group(ctx, k, kempty, rf::rg_parse(m["in"]), m.count("mode") ? atoi(m["mode"].c_str()) : -1, m.count("x") ? m["x"] : "");
}
static void list_conv1s(bool th, std::vector<std::string>& units)
{
  units.push_back("part=conv1s;u=1;k=none");
  for (int K = 0; K <= (th ? 6 : 4); ++K) units.push_back("part=conv1s;u=1;k=0:" + vmc::str(K));
}

// ------------------------------------------------------------------------------------------------
// parts conv2d / conv3d : ArrayFilter2DUsingConvolution / ArrayFilter3DUsingConvolution (zero boundary conditions)
//   group = (kernel, input shape); inside: mode {0 in place, 1 two arguments same range, 2 output range larger by 1} x data family
// ------------------------------------------------------------------------------------------------
template <int D> struct ConvFilter;
template <> struct ConvFilter<2> { typedef ArrayFilter2DUsingConvolution<float> type; };
template <> struct ConvFilter<3> { typedef ArrayFilter3DUsingConvolution<float> type; };

static ND grow(const ND& a, int D, int by)
{
  Rg r[3];
  for (int d = 0; d < 3; ++d) r[d] = d < D ? Rg(a.r[d].lo - by, a.r[d].hi + by) : a.r[d];
  return ND(r[0], r[1], r[2]);
}
template <int D>
static void convnd_group(vmc::Ctx& ctx, const ND& k, const ND& xshape, int only_mode = -1, const std::string& only_x = "")
{
  const std::string part = "conv" + vmc::str(D) + "d";
  const std::string gcase = "part=" + part + ";k=" + rf::shape_str(k, D) + ";kv=" + rf::vals_str(k) + ";in=" + rf::shape_str(xshape, D);
  ctx.current("part=" + part, gcase);
  typename ConvFilter<D>::type filter(to_stir<D>(k));
  bool single_origin = k.size() == 1 && k.inside(0, 0, 0) && k.v[0] == 1;
  for (int mode = 0; mode < 3; ++mode)
    {
      if (only_mode >= 0 && mode != only_mode) continue;
      const ND oshape = mode == 2 ? grow(xshape, D, 1) : xshape;
      for (const ND& x : data_family(xshape))
        {
          if (!only_x.empty() && rf::vals_str(x) != only_x) continue;
          ND ref = oshape;
          rf::conv_zero(ref, k, false, x);
          Array<D, float> in_a = to_stir<D>(x);
          Array<D, float> out_a(stir_range<D>(oshape));
          out_a.fill(-77.F);
          if (mode == 0) { out_a = in_a; filter(out_a); }
          else filter(out_a, in_a);
          ctx.count("evaluations"); ctx.count(part + "_cases");
          ND got;
          const bool ok_shape = from_stir<D>(got, out_a) && got.same_shape(ref);
          std::string where;
          const double md = ok_shape ? rf::max_diff(got, ref, &where) : 0;
          if (!single_origin && ref.sum_abs() > 0) ctx.nontrivial(vmc::fnv(gcase + "|" + vmc::str(mode) + "|" + rf::vals_str(x)));
          if (!ok_shape || !(md <= 1e-5 * k.sum_abs() * x.sum_abs()))
            {
              // class of the kernel: what a maintainer needs to tell the defects apart
              int nz = 0; for (double c : k.v) nz += c != 0;
              const std::string kclass = std::string(k.r[0] == Rg(0, 0) ? "outer_range_0:0" : "outer_range_other") + (k.inside(0, 0, 0) && k.at(0, 0, 0) == 1 && nz > 1 ? ",origin_tap_1_plus_others" : "");
              ctx.violation("part=" + part + ";clause=convolution;kernel=" + kclass, gcase + ";mode=" + vmc::str(mode) + ";x=" + rf::vals_str(x),
                            ok_shape ? "out" + where + " (reference: direct sum over all kernel taps, zero outside the input)" : "output index range changed");
            }
        }
    }
}
static std::vector<Rg> convnd_ranges(int D, bool th)
{
  std::vector<Rg> v = { Rg(0, 0), Rg(-1, 1), Rg(0, 1), Rg(-1, 0), Rg(1, 2) };
  if (D == 2 && th) { v.push_back(Rg(-2, 2)); v.push_back(Rg(-2, -1)); }
  return v;
}
template <int D>
static void convnd_unit(vmc::Ctx& ctx, const ND& kshape)
{
  const bool th = ctx.thorough();
  const int Lmax = D == 2 ? (th ? 4 : 3) : (th ? 3 : 2);
  const int shifts[3][3] = { { 0, 0, 0 }, { -3, 2, 0 }, { 2, -3, -3 } };
  for (const ND& k : kernel_family(kshape, D == 2 || kshape.size() <= 12))
    {
      vmc::Odometer od(std::vector<int>(D, Lmax));
      for (; !od.done; od.next())
        for (int s = 0; s < (th ? 3 : 2); ++s)
          {
            Rg r[3];
            for (int d = 0; d < D; ++d) r[d] = Rg(shifts[s][d], shifts[s][d] + od[d]);
            convnd_group<D>(ctx, k, ND(r[0], r[1], r[2]));
          }
    }
  ctx.count("conv" + vmc::str(D) + "d_units");
}
template <int D>
static void run_convnd(vmc::Ctx& ctx, const std::string& kase)
{
  auto m = vmc::kv(kase);
  if (m.count("u")) { convnd_unit<D>(ctx, rf::parse_nd(m["k"], "")); return; }
  convnd_group<D>(ctx, rf::parse_nd(m["k"], m["kv"]), rf::parse_nd(m["in"], ""), m.count("mode") ? atoi(m["mode"].c_str()) : -1, m.count("x") ? m["x"] : "");
}
static void list_convnd(int D, bool th, std::vector<std::string>& units)
{
  const std::vector<Rg> rs = convnd_ranges(D, th);
  vmc::Odometer od(std::vector<int>(D, (int)rs.size()));
  for (; !od.done; od.next())
    {
      Rg r[3];
      for (int d = 0; d < D; ++d) r[d] = rs[od[d]];
      units.push_back("part=conv" + vmc::str(D) + "d;u=1;k=" + rf::shape_str(ND(r[0], r[1], r[2]), D));
    }
}

// ------------------------------------------------------------------------------------------------
// part dftfilt : ArrayFilterUsingRealDFTWithPadding<D> == direct convolution when there is enough padding
//   unit = (D, padded sizes P, kernel index range type); kernel: every unit tap + labelling; data: data_family
//   precondition of the comparison (from the statement and the class documentation), per dimension with S = span of the
//   union of input and output range:  P >= 2 S  and no non-zero kernel tap j outside [-(S-1),S-1] has a periodic image j+mP inside.
// ------------------------------------------------------------------------------------------------
static bool dft_nowrap(const ND& k, const ND& in, const ND& out, int D)
{
  for (int d = 0; d < D; ++d)
    {
      const int P = k.r[d].len();
      const int S = std::max(in.r[d].hi, out.r[d].hi) - std::min(in.r[d].lo, out.r[d].lo) + 1;
      if (P < 2 * S) return false;
    }
  for (int a = k.r[0].lo; a <= k.r[0].hi; ++a)
    for (int b = k.r[1].lo; b <= k.r[1].hi; ++b)
      for (int c = k.r[2].lo; c <= k.r[2].hi; ++c)
        if (k.at(a, b, c) != 0)
          {
            const int j[3] = { a, b, c };
            for (int d = 0; d < D; ++d)
              {
                const int P = k.r[d].len();
                const int S = std::max(in.r[d].hi, out.r[d].hi) - std::min(in.r[d].lo, out.r[d].lo) + 1;
                if (std::abs(j[d]) <= S - 1) continue;
                for (int m = -3; m <= 3; ++m)
                  if (m != 0 && std::abs(j[d] + m * P) <= S - 1) return false;
              }
          }
  return true;
}
template <int D>
static void dftfilt_group(vmc::Ctx& ctx, const ND& k, const ND& xshape, int only_mode = -1, const std::string& only_x = "")
{
  const std::string gcase = "part=dftfilt;D=" + vmc::str(D) + ";k=" + rf::shape_str(k, D) + ";kv=" + rf::vals_str(k) + ";in=" + rf::shape_str(xshape, D);
  const std::string kt = ";dim=" + vmc::str(D);
  ctx.current("part=dftfilt" + kt, gcase);
  std::unique_ptr<ArrayFilterUsingRealDFTWithPadding<D, float>> filter;
  std::string what;
  if (small::throws([&] { filter.reset(new ArrayFilterUsingRealDFTWithPadding<D, float>(to_stir<D>(k))); }, &what))
    {
      static std::set<std::string> seen0;
      if (seen0.insert(rf::shape_str(k, D)).second) { ctx.count("rejected_configs"); ctx.observe("dftfilt kernel shape " + rf::shape_str(k, D) + " rejected: " + clean(what.substr(0, 100))); }
      return;
    }
  size_t Ptot = k.size();
  for (int mode = 0; mode < 3; ++mode)
    {
      if (only_mode >= 0 && mode != only_mode) continue;
      const ND oshape = mode == 2 ? grow(xshape, D, 1) : xshape;
      if (!dft_nowrap(k, xshape, oshape, D)) { ctx.count("dftfilt_groups_outside_precondition"); continue; }
      for (const ND& x : data_family(xshape))
        {
          if (!only_x.empty() && rf::vals_str(x) != only_x) continue;
          ND ref = oshape;
          rf::conv_zero(ref, k, false, x);
          Array<D, float> in_a = to_stir<D>(x);
          Array<D, float> out_a(stir_range<D>(oshape));
          out_a.fill(-77.F);
          if (small::throws([&] { if (mode == 0) { out_a = in_a; (*filter)(out_a); } else (*filter)(out_a, in_a); }, &what))
            {
              static std::set<std::string> seen;
              if (seen.insert(rf::shape_str(k, D)).second) { ctx.count("rejected_configs"); ctx.observe("dftfilt kernel shape " + rf::shape_str(k, D) + ": filter constructed but operator() throws: " + clean(what.substr(0, 100))); }
              ctx.count("dftfilt_groups_rejected_at_apply");
              return;
            }
          ctx.count("evaluations"); ctx.count("dftfilt_cases");
          ND got;
          const bool ok_shape = from_stir<D>(got, out_a) && got.same_shape(ref);
          std::string where;
          const double md = ok_shape ? rf::max_diff(got, ref, &where) : 0;
          const double tol = 64 * EPSF * (std::log2((double)Ptot) + 8) * k.sum_abs() * x.sum_abs();
          if (ref.sum_abs() > 0) { ctx.nontrivial(vmc::fnv(gcase + "|" + vmc::str(mode) + "|" + rf::vals_str(x))); ctx.count("dftfilt_cases_nonzero_result"); }
          if (!ok_shape || !(md <= tol))
            ctx.violation("part=dftfilt;clause=dft_equals_direct" + kt + ";mode=" + vmc::str(mode) + ";kernel_from_0=" + vmc::str((int)(k.r[0].lo == 0 && k.r[1].lo == 0 && k.r[2].lo == 0)),
                          gcase + ";mode=" + vmc::str(mode) + ";x=" + rf::vals_str(x),
                          ok_shape ? "out" + where + " tol " + vmc::str(tol) + " (reference: direct convolution with the same kernel, zero outside the input)" : "output index range changed");
        }
    }
}
// kernel index range of length P of a type: 0 centred [-P/2,P/2-1], 1 from 0, 2 [-P/2+1,P/2], 3 [-P+1,0]
static Rg dft_krange(int P, int type)
{
  switch (type) { case 0: return Rg(-P / 2, P / 2 - 1); case 1: return Rg(0, P - 1); case 2: return Rg(-P / 2 + 1, P / 2); default: return Rg(-P + 1, 0); }
}
template <int D>
static void dftfilt_unit(vmc::Ctx& ctx, const std::vector<int>& P, int type)
{
  Rg kr[3];
  for (int d = 0; d < D; ++d) kr[d] = dft_krange(P[d], D == 1 ? type : (type == 4 ? (d == D - 1 ? 1 : 0) : type));
  const ND kshape(kr[0], kr[1], kr[2]);
  std::vector<int> Lmax(D);
  for (int d = 0; d < D; ++d) Lmax[d] = std::max(1, P[d] / 2);
  for (const ND& k : kernel_family(kshape, false))
    {
      vmc::Odometer od(Lmax);
      for (; !od.done; od.next())
        for (int s = 0; s < (D == 1 ? 3 : 2); ++s)
          {
            Rg r[3];
            for (int d = 0; d < D; ++d) { const int lo = D == 1 ? MINS[s] : (s == 0 ? 0 : (d % 2 ? 2 : -3)); r[d] = Rg(lo, lo + od[d]); }
            dftfilt_group<D>(ctx, k, ND(r[0], r[1], r[2]));
          }
    }
  ctx.count("dftfilt_units");
  long long pt = 1; for (int p : P) pt *= p;
  ctx.maxi("dftfilt_" + vmc::str(D) + "d_max_padded_elements", pt);
}
static void run_dftfilt(vmc::Ctx& ctx, const std::string& kase)
{
  auto m = vmc::kv(kase);
  const int D = atoi(m["D"].c_str());
  if (m.count("u"))
    {
      const std::vector<int> P = vmc::ints(m["P"]);
      const int type = atoi(m["type"].c_str());
      if (D == 1) dftfilt_unit<1>(ctx, P, type); else if (D == 2) dftfilt_unit<2>(ctx, P, type); else dftfilt_unit<3>(ctx, P, type);
      return;
    }
  const ND k = rf::parse_nd(m["k"], m["kv"]), in = rf::parse_nd(m["in"], "");
  const int mode = m.count("mode") ? atoi(m["mode"].c_str()) : -1;
  const std::string x = m.count("x") ? m["x"] : "";
  if (D == 1) dftfilt_group<1>(ctx, k, in, mode, x); else if (D == 2) dftfilt_group<2>(ctx, k, in, mode, x); else dftfilt_group<3>(ctx, k, in, mode, x);
}
static void list_dftfilt(bool th, std::vector<std::string>& units)
{
  auto add = [&](int D, std::vector<int> P, int type) { units.push_back("part=dftfilt;u=1;D=" + vmc::str(D) + ";P=" + vmc::join(P) + ";type=" + vmc::str(type)); };
  for (int P = 2; P <= (th ? 64 : 16); P *= 2) for (int t = 0; t < 4; ++t) add(1, { P }, t);
  add(1, { 1 }, 1); add(1, { 6 }, 0); // odd / non power-of-two lengths: rejected by STIR
  const int m2 = th ? 16 : 8;
  for (int p = 2; p <= m2; p *= 2) for (int q = 2; q <= m2; q *= 2) if (p * q <= (th ? 128 : 32)) for (int t : { 0, 1, 4 }) add(2, { p, q }, t);
  const int m3 = th ? 8 : 4;
  for (int p = 2; p <= m3; p *= 2) for (int q = 2; q <= m3; q *= 2) for (int r = 2; r <= m3; r *= 2) if (p * q * r <= (th ? 128 : 32)) for (int t : { 0, 1, 4 }) add(3, { p, q, r }, t);
}

// ------------------------------------------------------------------------------------------------
// part sep : SeparableArrayFunctionObject<3,float> built from ArrayFilter1DUsingConvolution
//   unit = triple of 1-D kernels from a small alphabet; data shapes x data family
//   (a) in-place operator() == reference (1-D reference convolutions along axis 1,2,3)
//   (b) two-argument operator() == the same
//   (c) the three real single-axis filters applied successively in each of the 6 axis orders == (a)
// ------------------------------------------------------------------------------------------------
struct K1 { ND k; bool empty; int bc; };
static std::vector<K1> sep_alphabet(bool th)
{
  auto mk = [](int lo, std::vector<double> v, int bc) { K1 a; a.k = ND(Rg(lo, lo + (int)v.size() - 1)); a.k.v = v; a.empty = false; a.bc = bc; return a; };
  std::vector<K1> v;
  { K1 e; e.empty = true; e.bc = 0; v.push_back(e); }
  v.push_back(mk(-1, { 1, 2, 3 }, 0));
  v.push_back(mk(0, { 1, 5 }, 0));
  v.push_back(mk(-1, { 7, 1 }, 0));
  v.push_back(mk(1, { 2, 3 }, 0));
  v.push_back(mk(0, { 2 }, 0));
  if (th)
    {
      v.push_back(mk(-2, { 1, 2, 3, 4, 5 }, 0));
      v.push_back(mk(-1, { 1, 2, 3 }, 1));
      v.push_back(mk(0, { 1, 5 }, 1));
    }
  return v;
}
static shared_ptr<ArrayFunctionObject<1, float>> make_1d(const K1& a)
{
  if (a.empty) return shared_ptr<ArrayFunctionObject<1, float>>(new ArrayFilter1DUsingConvolution<float>());
  return shared_ptr<ArrayFunctionObject<1, float>>(
      new ArrayFilter1DUsingConvolution<float>(to_vwo(a.k, false), a.bc ? BoundaryConditions::constant : BoundaryConditions::zero));
}
static ND sep_ref(const ND& x, const K1* ks, const int* order)
{
  ND cur = x;
  for (int s = 0; s < 3; ++s)
    {
      const int ax = order[s];
      ND nxt = cur;
      rf::conv_axis(nxt, ks[ax].k, ks[ax].empty, cur, ax, ks[ax].bc);
      cur = nxt;
    }
  return cur;
}
static const int PERMS[6][3] = { { 0, 1, 2 }, { 0, 2, 1 }, { 1, 0, 2 }, { 1, 2, 0 }, { 2, 0, 1 }, { 2, 1, 0 } };
static void sep_group(vmc::Ctx& ctx, int a0, int a1, int a2, const ND& xshape, const std::string& only_x = "")
{
  const std::vector<K1> al = sep_alphabet(true);
  const K1 ks[3] = { al[a0], al[a1], al[a2] };
  const std::string gcase = "part=sep;a=" + vmc::str(a0) + "," + vmc::str(a1) + "," + vmc::str(a2) + ";in=" + rf::shape_str(xshape, 3);
  ctx.current("part=sep", gcase);
  VectorWithOffset<shared_ptr<ArrayFunctionObject<1, float>>> fs(3);
  for (int d = 0; d < 3; ++d) fs[d] = make_1d(ks[d]);
  SeparableArrayFunctionObject<3, float> sep(fs);
  // single-axis objects (the other two axes get trivial filters)
  std::vector<shared_ptr<SeparableArrayFunctionObject<3, float>>> single(3);
  for (int d = 0; d < 3; ++d)
    {
      VectorWithOffset<shared_ptr<ArrayFunctionObject<1, float>>> g(3);
      K1 e; e.empty = true; e.bc = 0;
      for (int q = 0; q < 3; ++q) g[q] = make_1d(q == d ? ks[d] : e);
      single[d].reset(new SeparableArrayFunctionObject<3, float>(g));
    }
  int nontriv_axes = 0;
  for (int d = 0; d < 3; ++d) nontriv_axes += !ks[d].empty;
  for (const ND& x : data_family(xshape))
    {
      if (!only_x.empty() && rf::vals_str(x) != only_x) continue;
      const ND ref = sep_ref(x, ks, PERMS[0]);
      double scale = x.sum_abs();
      for (int d = 0; d < 3; ++d) if (!ks[d].empty) scale *= ks[d].k.sum_abs();
      const double tol = 1e-5 * scale;
      const std::string kase = gcase + ";x=" + rf::vals_str(x);
      // the reference itself must not depend on the order (exact for these integer data)
      for (int p = 1; p < 6; ++p)
        if (rf::max_diff(sep_ref(x, ks, PERMS[p]), ref) > 1e-9 * scale) ctx.violation("part=sep;clause=reference_self_check", kase, "reference model depends on the axis order");
      std::string where;
      ND got;
      Array<3, float> a = to_stir<3>(x);
      sep(a);
      ctx.count("evaluations"); ctx.count("sep_cases");
      if (nontriv_axes >= 2 && ref.sum_abs() > 0) ctx.nontrivial(vmc::fnv(kase));
      if (!from_stir<3>(got, a) || !got.same_shape(ref) || !(rf::max_diff(got, ref, &where) <= tol))
        ctx.violation("part=sep;clause=separable_equals_reference;call=in_place", kase, "out" + where);
      const ND got_sep = got;
      Array<3, float> o(stir_range<3>(xshape));
      o.fill(-77.F);
      sep(o, to_stir<3>(x));
      ctx.count("evaluations");
      if (!from_stir<3>(got, o) || !got.same_shape(ref) || !(rf::max_diff(got, ref, &where) <= tol))
        ctx.violation("part=sep;clause=separable_equals_reference;call=two_arguments", kase, "out" + where);
      for (int p = 0; p < 6; ++p)
        {
          Array<3, float> b = to_stir<3>(x);
          for (int s = 0; s < 3; ++s) (*single[PERMS[p][s]])(b);
          ctx.count("evaluations"); ctx.count("sep_axis_orders");
          if (!from_stir<3>(got, b) || !got.same_shape(ref) || !(rf::max_diff(got, got_sep, &where) <= tol))
            ctx.violation("part=sep;clause=separable_equals_successive_1d", kase + ";order=" + vmc::str(PERMS[p][0]) + vmc::str(PERMS[p][1]) + vmc::str(PERMS[p][2]),
                          "successive single-axis filters in order " + vmc::str(PERMS[p][0]) + vmc::str(PERMS[p][1]) + vmc::str(PERMS[p][2]) + " (impl) vs separable filter (ref): " + where);
        }
    }
}
static std::vector<ND> sep_shapes(bool th)
{
  std::vector<ND> v;
  v.push_back(ND(Rg(0, 1), Rg(0, 2), Rg(0, 3)));
  v.push_back(ND(Rg(-3, -2), Rg(0, 2), Rg(2, 5)));
  v.push_back(ND(Rg(0, 0), Rg(0, 0), Rg(0, 4)));
  if (th) { v.push_back(ND(Rg(2, 5), Rg(-3, -3), Rg(0, 0))); v.push_back(ND(Rg(2, 4), Rg(-3, -1), Rg(0, 2))); }
  return v;
}
static void run_sep(vmc::Ctx& ctx, const std::string& kase)
{
  auto m = vmc::kv(kase);
  const std::vector<int> a = vmc::ints(m["a"]);
  if (m.count("u")) { for (const ND& s : sep_shapes(ctx.thorough())) sep_group(ctx, a[0], a[1], a[2], s); ctx.count("sep_units"); return; }
  sep_group(ctx, a[0], a[1], a[2], rf::parse_nd(m["in"], ""), m.count("x") ? m["x"] : "");
}
static void list_sep(bool th, std::vector<std::string>& units)
{
  const int n = (int)sep_alphabet(th).size();
  for (int a = 0; a < n; ++a) for (int b = 0; b < n; ++b) for (int c = 0; c < n; ++c)
    units.push_back("part=sep;u=1;a=" + vmc::str(a) + "," + vmc::str(b) + "," + vmc::str(c));
}

// ------------------------------------------------------------------------------------------------
// parts gauss / metz : SeparableGaussianArrayFilter<3,float>, SeparableMetzArrayFilter<3,float>
// ------------------------------------------------------------------------------------------------
static const double FWHMS[5] = { 0, 0.5, 1, 2.5, 6 };
static const double VOXS[3] = { 0.5, 1, 3 };
static const int MKS[5] = { -1, 1, 3, 9, 0 };
static const bool g_debug = getenv("C19_DEBUG") != nullptr;

static ND line_shape(int axis, int n, int other = 2)
{
  Rg r[3];
  for (int d = 0; d < 3; ++d) r[d] = d == axis ? Rg(0, n - 1) : Rg(0, other - 1);
  return ND(r[0], r[1], r[2]);
}
static double& along(ND& a, int axis, int i, int o1 = 0, int o2 = 0)
{
  int c[3]; int q = 0;
  for (int d = 0; d < 3; ++d) c[d] = d == axis ? i : (q++ == 0 ? o1 : o2);
  return a.at(c[0], c[1], c[2]);
}
// apply f in place to x, read back; false if the shape changed
template <class F>
static bool apply3(const F& f, const ND& x, ND& got)
{
  Array<3, float> a = to_stir<3>(x);
  f(a);
  return from_stir<3>(got, a) && got.same_shape(x);
}
// checks shared by both filters on the response to a centred impulse: only the filtered axis is touched, symmetric
static bool axis_response(vmc::Ctx& ctx, const std::string& name, const std::string& kase, const ND& got, int axis, int n, int c, std::vector<double>& r)
{
  r.assign(n, 0.0);
  ND g = got;
  double off = 0;
  for (int i = 0; i < n; ++i)
    for (int o1 = 0; o1 < 2; ++o1)
      for (int o2 = 0; o2 < 2; ++o2)
        {
          const double v = along(g, axis, i, o1, o2);
          if (o1 == 0 && o2 == 0) r[i] = v; else off = std::max(off, std::fabs(v));
        }
  if (off != 0) { ctx.violation("part=" + name + ";clause=acts_on_its_axis_only", kase, "impulse on the line (.,0,0) of axis " + vmc::str(axis) + " leaks to other lines: max " + vmc::str(off)); return false; }
  double asym = 0;
  for (int i = 0; c + i < n && c - i >= 0; ++i) asym = std::max(asym, std::fabs(r[c + i] - r[c - i]));
  if (!(asym <= 1e-6 * std::fabs(r[c]))) { ctx.violation("part=" + name + ";clause=symmetric_kernel", kase, "impulse response not symmetric: max difference " + vmc::str(asym)); return false; }
  return true;
}

static void run_gauss_single(vmc::Ctx& ctx, int axis, int fi, int vi, int mi)
{
  const std::string kase = "part=gauss;axis=" + vmc::str(axis) + ";f=" + vmc::str(fi) + ";v=" + vmc::str(vi) + ";m=" + vmc::str(mi);
  ctx.current("part=gauss", kase);
  const float fw = (float)(FWHMS[fi] / VOXS[vi]);
  const int mks = MKS[mi];
  BasicCoordinate<3, float> f(0.F); BasicCoordinate<3, int> m(-1);
  f[axis + 1] = fw; m[axis + 1] = mks;
  std::unique_ptr<SeparableGaussianArrayFilter<3, float>> g;
  std::string what;
  if (small::throws([&] { g.reset(new SeparableGaussianArrayFilter<3, float>(f, m, true)); }, &what))
    { ctx.count("rejected_configs"); if (mks != 0) ctx.observe("gauss " + kase + " rejected: " + what.substr(0, 120)); return; }
  ctx.count("gauss_configs");
  const std::string kt = std::string(";max_kernel_size=") + (mks < 0 ? "auto" : "given");
  ND got;
  if (fw == 0)
    { // FWHM 0: the identity
      ND x = line_shape(axis, 5); for (size_t j = 0; j < x.v.size(); ++j) x.v[j] = (double)(j + 1);
      ctx.count("evaluations");
      if (!apply3(*g, x, got) || rf::max_diff(got, x) != 0) ctx.violation("part=gauss;clause=fwhm0_identity", kase, "FWHM 0 does not leave the data unchanged");
      return;
    }
  const double sigma = (double)fw / std::sqrt(8 * std::log(2.));
  const int hdoc = mks > 0 ? mks / 2 : (int)std::ceil(sigma * std::sqrt(-2 * std::log(1e-6)));
  const int hb = hdoc + 1, n = 2 * hb + 3, c = hb + 1;
  ND x = line_shape(axis, n);
  along(x, axis, c) = 1;
  ctx.count("evaluations");
  if (!apply3(*g, x, got)) { ctx.violation("part=gauss;clause=shape", kase, "index range changed"); return; }
  std::vector<double> r;
  if (!axis_response(ctx, "gauss", kase, got, axis, n, c, r)) return;
  int hobs = 0;
  for (int i = 0; i < n; ++i) if (r[i] != 0) hobs = std::max(hobs, std::abs(i - c));
  if (mks > 0 && hobs > mks / 2)
    { ctx.violation("part=gauss;clause=truncation" + kt, kase, "impulse response extends to +-" + vmc::str(hobs) + " with max_kernel_size " + vmc::str(mks)); return; }
  if (hobs > hb) { ctx.observe("gauss " + kase + ": automatic kernel half-length " + vmc::str(hobs) + " larger than documented ~1e-6 rule " + vmc::str(hdoc) + "; interior checks skipped"); ctx.count("gauss_configs_skipped"); return; }
  const int h = mks > 0 ? mks / 2 : hobs;
  // sampled Gaussian: k_i / k_0 = exp(-i^2 / (2 sigma^2))
  double worst = 0; int wi = 0;
  for (int i = 1; i <= h; ++i)
    {
      const double want = std::exp(-(double)i * i / (2 * sigma * sigma));
      const double e = std::fabs(r[c + i] / r[c] - want) - (1e-4 * want + 2e-6); // taps below the documented ~1e-6 cut-off may be dropped
      if (e > worst) { worst = e; wi = i; }
    }
  if (worst > 0)
    ctx.violation("part=gauss;clause=gaussian_samples" + kt, kase, "k[" + vmc::str(wi) + "]/k[0] = " + vmc::str(r[c + wi] / r[c]) + " expected exp(-i^2/(2 sigma^2)) = " + vmc::str(std::exp(-(double)wi * wi / (2 * sigma * sigma))) + " sigma " + vmc::str(sigma));
  double sum = 0; for (double v : r) sum += v;
  if (g_debug) fprintf(stderr, "gauss %s fw=%g h=%d sum-1=%g\n", kase.c_str(), fw, h, sum - 1);
  if (!(std::fabs(sum - 1) <= 1e-5))
    ctx.violation("part=gauss;clause=kernel_sum_one" + kt, kase, "sum of the impulse response is " + rf::num_str(sum) + " (kernel half-length " + vmc::str(h) + ")");
  // constant data: preserved wherever the kernel support is inside the data
  ND cst = line_shape(axis, n); cst.v.assign(cst.v.size(), 3.0);
  ctx.count("evaluations");
  if (apply3(*g, cst, got))
    {
      double dev = 0; int points = 0;
      for (int i = h; i <= n - 1 - h; ++i) { dev = std::max(dev, std::fabs(along(got, axis, i, 1, 1) - 3.0)); ++points; }
      ctx.count("mean_preservation_points", points);
      if (!(dev <= 3e-5 * 3))
        ctx.violation("part=gauss;clause=mean_preserved" + kt, kase, "constant data 3 become " + rf::num_str(3 + dev) + "/" + rf::num_str(3 - dev) + " where the whole kernel support is inside the data");
    }
  if (h > 0) ctx.nontrivial(vmc::fnv(kase));
  if (mks > 0 && std::exp(-(double)(h + 1) * (h + 1) / (2 * sigma * sigma)) > 1e-3) ctx.count("gauss_configs_truncated_by_max_kernel_size");
  if (ctx.samples.size() < 2 && h >= 2) ctx.sample(kase + ": fwhm/voxel " + vmc::str(fw) + " half-length " + vmc::str(h) + " k1/k0 " + vmc::str(r[c + 1] / r[c]) + " sum " + rf::num_str(sum));
}
// all three axes filtered: the response to a 3-D impulse is the outer product of the three single-axis responses
static void run_gauss_mixed(vmc::Ctx& ctx, int idx)
{
  const std::string kase = "part=gauss;mix=" + vmc::str(idx);
  ctx.current("part=gauss", kase);
  BasicCoordinate<3, float> f(0.F); BasicCoordinate<3, int> m(-1);
  int hb[3];
  for (int d = 0; d < 3; ++d)
    {
      const int cfg = (idx + d * 7 + d * d * 3) % 48; // 4 non-zero FWHM x 3 voxel sizes x 4 kernel sizes
      const int fi = 1 + cfg % 4, vi = (cfg / 4) % 3, mi = cfg / 12;
      f[d + 1] = (float)(FWHMS[fi] / VOXS[vi]); m[d + 1] = MKS[mi];
      const double sigma = (double)f[d + 1] / std::sqrt(8 * std::log(2.));
      hb[d] = std::min(6, (m[d + 1] > 0 ? m[d + 1] / 2 : (int)std::ceil(sigma * std::sqrt(-2 * std::log(1e-6)))));
    }
  SeparableGaussianArrayFilter<3, float> g(f, m, true);
  ND x(Rg(0, 2 * hb[0]), Rg(0, 2 * hb[1]), Rg(0, 2 * hb[2]));
  x.at(hb[0], hb[1], hb[2]) = 1;
  ND got;
  ctx.count("evaluations"); ctx.count("gauss_mixed_configs");
  if (!apply3(g, x, got)) { ctx.violation("part=gauss;clause=shape", kase, "index range changed"); return; }
  // single-axis responses from three separate objects
  std::vector<double> r[3];
  for (int d = 0; d < 3; ++d)
    {
      BasicCoordinate<3, float> f1(0.F); BasicCoordinate<3, int> m1(-1);
      f1[d + 1] = f[d + 1]; m1[d + 1] = m[d + 1];
      SeparableGaussianArrayFilter<3, float> g1(f1, m1, true);
      ND y = x, gy;
      apply3(g1, y, gy);
      r[d].resize(2 * hb[d] + 1);
      for (int i = 0; i <= 2 * hb[d]; ++i) { int c[3] = { hb[0], hb[1], hb[2] }; c[d] = i; r[d][i] = gy.at(c[0], c[1], c[2]); }
    }
  ND ref = x;
  for (int i = 0; i <= 2 * hb[0]; ++i) for (int j = 0; j <= 2 * hb[1]; ++j) for (int l = 0; l <= 2 * hb[2]; ++l) ref.at(i, j, l) = r[0][i] * r[1][j] * r[2][l];
  std::string where;
  if (!(rf::max_diff(got, ref, &where) <= 1e-5 * r[0][hb[0]] * r[1][hb[1]] * r[2][hb[2]]))
    ctx.violation("part=gauss;clause=separable_product", kase, "3-D impulse response is not the product of the single-axis responses: " + where);
  ctx.nontrivial(vmc::fnv(kase));
}
static void run_gauss(vmc::Ctx& ctx, const std::string& kase)
{
  auto m = vmc::kv(kase);
  if (m.count("mix")) run_gauss_mixed(ctx, atoi(m["mix"].c_str()));
  else run_gauss_single(ctx, atoi(m["axis"].c_str()), atoi(m["f"].c_str()), atoi(m["v"].c_str()), atoi(m["m"].c_str()));
}
static void list_gauss(bool th, std::vector<std::string>& units)
{
  for (int axis = 0; axis < 3; ++axis) for (int fi = 0; fi < 5; ++fi) for (int vi = 0; vi < 3; ++vi) for (int mi = 0; mi < 5; ++mi)
    units.push_back("part=gauss;axis=" + vmc::str(axis) + ";f=" + vmc::str(fi) + ";v=" + vmc::str(vi) + ";m=" + vmc::str(mi));
  for (int i = 0; i < (th ? 48 : 8); ++i) units.push_back("part=gauss;mix=" + vmc::str(i));
}

// ---- Metz
static const double METZ_GAIN_TOL = 2e-3;
static SeparableMetzArrayFilter<3, float>* make_metz(int axis, double fwhm, double vox, int mks, double power)
{
  VectorWithOffset<float> fw(1, 3), pw(1, 3); VectorWithOffset<int> mk(1, 3);
  fw.fill(0.F); pw.fill(0.F); mk.fill(-1);
  fw[axis + 1] = (float)fwhm; pw[axis + 1] = (float)power; mk[axis + 1] = mks;
  BasicCoordinate<3, float> sd((float)vox);
  return new SeparableMetzArrayFilter<3, float>(fw, pw, sd, mk);
}
static int metz_klen(const SeparableMetzArrayFilter<3, float>& f, int axis, std::vector<double>* coeffs = nullptr)
{
  auto* p = dynamic_cast<const ArrayFilter1DUsingConvolutionSymmetricKernel<float>*>(f.all_1d_array_filters[axis].get());
  if (!p) return -1;
  if (coeffs) { coeffs->clear(); for (int i = p->filter_coefficients.get_min_index(); i <= p->filter_coefficients.get_max_index(); ++i) coeffs->push_back(p->filter_coefficients[i]); }
  return p->filter_coefficients.get_length();
}
static void run_metz(vmc::Ctx& ctx, const std::string& kase)
{
  auto mm = vmc::kv(kase);
  const int axis = atoi(mm["axis"].c_str()), fi = atoi(mm["f"].c_str()), vi = atoi(mm["v"].c_str()), mi = atoi(mm["m"].c_str()), pw = atoi(mm["p"].c_str());
  ctx.current("part=metz", kase);
  const int mks = MKS[mi];
  const std::string kt = ";power=" + vmc::str(pw);
  std::unique_ptr<SeparableMetzArrayFilter<3, float>> g, full;
  std::string what;
  if (small::throws([&] { g.reset(make_metz(axis, FWHMS[fi], VOXS[vi], mks, pw)); full.reset(make_metz(axis, FWHMS[fi], VOXS[vi], -1, pw)); }, &what))
    { ctx.count("rejected_configs"); ctx.observe("metz " + kase + " rejected: " + what.substr(0, 120)); return; }
  ctx.count("metz_configs");
  std::vector<double> coeffs;
  const int klen = metz_klen(*g, axis, &coeffs), klen_full = metz_klen(*full, axis);
  if (klen < 0 || klen_full < 0) { ctx.observe("metz: 1-D filter is not an ArrayFilter1DUsingConvolutionSymmetricKernel; part skipped"); return; }
  ND got;
  if (FWHMS[fi] == 0 || klen == 0 || (klen == 1 && coeffs[0] == 1))
    {
      ND x = line_shape(axis, 5); for (size_t j = 0; j < x.v.size(); ++j) x.v[j] = (double)(j + 1);
      ctx.count("evaluations"); ctx.count("metz_identity_configs");
      if (!apply3(*g, x, got) || rf::max_diff(got, x) != 0) ctx.violation("part=metz;clause=trivial_identity", kase, "FWHM 0 / empty kernel does not leave the data unchanged");
      return;
    }
  const int h = klen - 1, n = 2 * h + 3, c = h + 1;
  ND x = line_shape(axis, n);
  along(x, axis, c) = 1;
  ctx.count("evaluations");
  if (!apply3(*g, x, got)) { ctx.violation("part=metz;clause=shape", kase, "index range changed"); return; }
  std::vector<double> r;
  if (!axis_response(ctx, "metz", kase, got, axis, n, c, r)) return;
  // the filter is the convolution with its (symmetric) kernel coefficients
  double dev = 0;
  for (int i = 0; i < n; ++i) { const int a = std::abs(i - c); dev = std::max(dev, std::fabs(r[i] - (a < klen ? coeffs[a] : 0.0))); }
  if (!(dev <= 1e-6 * std::fabs(coeffs[0])))
    ctx.violation("part=metz;clause=convolution_with_own_kernel", kase, "impulse response differs from the kernel coefficients by " + vmc::str(dev));
  if (mks > 0 && 2 * klen - 1 > mks)
    ctx.violation("part=metz;clause=truncation", kase, "kernel has " + vmc::str(2 * klen - 1) + " elements with max_kernel_size " + vmc::str(mks));
  double sum = 0; for (double v : r) sum += v;
  const bool truncated = klen < klen_full;
  if (g_debug) fprintf(stderr, "metz %s fwhm=%g vox=%g mks=%d p=%d klen=%d full=%d gain-1=%g\n", kase.c_str(), FWHMS[fi], VOXS[vi], mks, pw, klen, klen_full, sum - 1);
  if (truncated) { ctx.count("metz_configs_truncated_not_normalised"); ctx.observe("metz kernel truncated by max_kernel_size is not renormalised (sum " + vmc::str(sum) + " for " + kase + "): 'kernel sums to one' does not apply, mean not checked"); return; }
  if (pw != 0) { ctx.count("metz_configs_power_nonzero_gain_observed_only"); ctx.maxi("metz_power1_max_gain_error_ppm", (long long)std::llround(std::fabs(sum - 1) * 1e6)); return; }
  ctx.maxi("metz_power0_max_gain_error_ppm", (long long)std::llround(std::fabs(sum - 1) * 1e6));
  ctx.nontrivial(vmc::fnv(kase));
  if (!(std::fabs(sum - 1) <= METZ_GAIN_TOL))
    ctx.violation("part=metz;clause=kernel_sum_one" + kt, kase, "sum of the impulse response (zero power, not truncated) is " + rf::num_str(sum));
  ND cst = line_shape(axis, n); cst.v.assign(cst.v.size(), 3.0);
  ctx.count("evaluations");
  if (apply3(*g, cst, got))
    {
      double d2 = 0; int points = 0;
      for (int i = h; i <= n - 1 - h; ++i) { d2 = std::max(d2, std::fabs(along(got, axis, i, 1, 1) - 3.0)); ++points; }
      ctx.count("mean_preservation_points", points);
      if (!(d2 <= METZ_GAIN_TOL * 3))
        ctx.violation("part=metz;clause=mean_preserved" + kt, kase, "constant data 3 become " + rf::num_str(3 + d2) + "/" + rf::num_str(3 - d2) + " where the whole kernel support is inside the data");
    }
}
static void list_metz(bool, std::vector<std::string>& units)
{
  for (int axis = 0; axis < 3; ++axis) for (int pw = 0; pw < 2; ++pw) for (int fi = 0; fi < 5; ++fi) for (int vi = 0; vi < 3; ++vi) for (int mi = 0; mi < 4; ++mi)
    units.push_back("part=metz;axis=" + vmc::str(axis) + ";f=" + vmc::str(fi) + ";v=" + vmc::str(vi) + ";m=" + vmc::str(mi) + ";p=" + vmc::str(pw));
}

// ------------------------------------------------------------------------------------------------
// part imgfilter : SeparableConvolutionImageFilter<float> (z,y,x kernels; constructor and setter routes)
// ------------------------------------------------------------------------------------------------
static void imgfilter_group(vmc::Ctx& ctx, int route, int a0, int a1, int a2, const ND& xshape, int only_mode = -1, const std::string& only_x = "")
{
  const std::vector<K1> al = sep_alphabet(false);
  const K1 ks[3] = { al[a0], al[a1], al[a2] };
  const std::string gcase = "part=imgfilter;route=" + vmc::str(route) + ";a=" + vmc::str(a0) + "," + vmc::str(a1) + "," + vmc::str(a2) + ";in=" + rf::shape_str(xshape, 3);
  const std::string kt = std::string(";route=") + (route == 0 ? "constructor" : "setters");
  ctx.current("part=imgfilter" + kt, gcase);
  VectorWithOffset<VectorWithOffset<float>> coeffs(3);
  for (int d = 0; d < 3; ++d) coeffs[d] = to_vwo(ks[d].k, ks[d].empty);
  std::unique_ptr<SeparableConvolutionImageFilter<float>> filter;
  if (route == 0) filter.reset(new SeparableConvolutionImageFilter<float>(coeffs));
  else { filter.reset(new SeparableConvolutionImageFilter<float>()); for (int d = 0; d < 3; ++d) filter->set_filter_coefficients(d, coeffs[d]); }
  const CartesianCoordinate3D<float> org(0.F, 0.F, 0.F), vox(2.F, 1.5F, 1.5F);
  for (int mode = 0; mode < 2; ++mode)
    {
      if (only_mode >= 0 && mode != only_mode) continue;
      for (const ND& x : data_family(xshape))
        {
          if (!only_x.empty() && rf::vals_str(x) != only_x) continue;
          const ND ref = sep_ref(x, ks, PERMS[0]);
          VoxelsOnCartesianGrid<float> in_im(to_stir<3>(x), org, vox), out_im(to_stir<3>(x), org, vox);
          out_im.fill(-77.F);
          if (mode == 0) { out_im = in_im; filter->apply(out_im); }
          else filter->apply(out_im, in_im);
          ctx.count("evaluations"); ctx.count("imgfilter_cases");
          ND got;
          std::string where;
          double scale = x.sum_abs();
          for (int d = 0; d < 3; ++d) if (!ks[d].empty) scale *= ks[d].k.sum_abs();
          const bool ok_shape = from_stir<3>(got, out_im) && got.same_shape(ref);
          if (ref.sum_abs() > 0 && (!ks[0].empty || !ks[1].empty || !ks[2].empty)) ctx.nontrivial(vmc::fnv(gcase + "|" + vmc::str(mode) + "|" + rf::vals_str(x)));
          if (!ok_shape || !(rf::max_diff(got, ref, &where) <= 1e-5 * scale))
            ctx.violation("part=imgfilter;clause=convolution" + kt + ";mode=" + vmc::str(mode), gcase + ";mode=" + vmc::str(mode) + ";x=" + rf::vals_str(x),
                          ok_shape ? "out" + where + " (reference: 1-D convolutions along z, y, x)" : "output index range changed");
        }
    }
}
static void run_imgfilter(vmc::Ctx& ctx, const std::string& kase)
{
  auto m = vmc::kv(kase);
  const std::vector<int> a = vmc::ints(m["a"]);
  const int route = atoi(m["route"].c_str());
  if (m.count("u"))
    {
      for (const ND& s : sep_shapes(false)) imgfilter_group(ctx, route, a[0], a[1], a[2], s);
      ctx.count("imgfilter_units");
      return;
    }
  imgfilter_group(ctx, route, a[0], a[1], a[2], rf::parse_nd(m["in"], ""), m.count("mode") ? atoi(m["mode"].c_str()) : -1, m.count("x") ? m["x"] : "");
}
static void list_imgfilter(bool, std::vector<std::string>& units)
{
  const int n = (int)sep_alphabet(false).size();
  for (int route = 0; route < 2; ++route)
    for (int a = 0; a < n; ++a) for (int b = 0; b < n; ++b) for (int c = 0; c < n; ++c)
      units.push_back("part=imgfilter;u=1;route=" + vmc::str(route) + ";a=" + vmc::str(a) + "," + vmc::str(b) + "," + vmc::str(c));
}

// ------------------------------------------------------------------------------------------------
// dispatch, forked execution (memory-unsafe parts), main
// ------------------------------------------------------------------------------------------------
static void run_case(vmc::Ctx& ctx, const std::string& kase)
{
  auto m = vmc::kv(kase);
  const std::string part = m["part"];
  if (part == "dft") run_dft(ctx, kase);
  else if (part == "conv1d") { if (m.count("u")) conv1d_unit(ctx, kase); else run_conv1d(ctx, kase); }
  else if (part == "conv1s") run_conv1s(ctx, kase);
  else if (part == "conv2d") run_convnd<2>(ctx, kase);
  else if (part == "conv3d") run_convnd<3>(ctx, kase);
  else if (part == "dftfilt") run_dftfilt(ctx, kase);
  else if (part == "sep") run_sep(ctx, kase);
  else if (part == "gauss") run_gauss(ctx, kase);
  else if (part == "metz") run_metz(ctx, kase);
  else if (part == "imgfilter") run_imgfilter(ctx, kase);
  else { fprintf(stderr, "unknown part in case '%s'\n", kase.c_str()); exit(2); }
}

// Run one unit in a forked child with its own Ctx; merge the child's results.  If the child dies (SEGV, ASan report)
// the case it recorded with Ctx::current becomes a "crash;" violation and the enumeration continues with the next unit.
static void run_forked(vmc::Ctx& ctx, const std::string& unit_case)
{
  static int seq = 0;
  const std::string base = ctx.tmpdir + "/c19_child_" + vmc::str((int)getpid()) + "_" + vmc::str(seq++);
  fflush(stdout); fflush(stderr);
  const pid_t pid = fork();
  if (pid < 0) { perror("fork"); exit(2); }
  if (pid == 0)
    {
      int fd = ::open((base + ".err").c_str(), O_CREAT | O_WRONLY | O_TRUNC, 0644);
      if (fd >= 0) { dup2(fd, 2); close(fd); }
      vmc::Ctx sub(0, nullptr, "C19");
      sub.tier = ctx.tier; sub.tmpdir = ctx.tmpdir; sub.out = base; sub.t0 = ctx.t0; sub.deadline_s = ctx.deadline_s;
      run_case(sub, unit_case);
      FILE* f = fopen((base + ".res").c_str(), "w");
      if (!f) _exit(3);
      for (auto& kv : sub.counters) fprintf(f, "C\t%s\t%lld\n", kv.first.c_str(), kv.second);
      for (auto& kv : sub.maxima) fprintf(f, "M\t%s\t%lld\n", kv.first.c_str(), kv.second);
      for (auto& v : sub.violations) fprintf(f, "V\t%s\t%s\t%s\n", clean(v.key).c_str(), clean(v.kase).c_str(), clean(v.msg).c_str());
      for (auto& s : sub.samples) fprintf(f, "S\t%s\n", clean(s).c_str());
      for (auto& s : sub.observations) fprintf(f, "O\t%s\n", clean(s).c_str());
      for (uint64_t h : sub.distinct) fprintf(f, "D\t%llu\n", (unsigned long long)h);
      fprintf(f, "E\tend\n");
      fclose(f);
      _exit(0);
    }
  int status = 0;
  while (waitpid(pid, &status, 0) < 0 && errno == EINTR) {}
  bool complete = false;
  {
    std::ifstream f(base + ".res");
    std::string line;
    std::vector<std::string> lines;
    while (std::getline(f, line)) { lines.push_back(line); if (line == "E\tend") complete = true; }
    if (complete && WIFEXITED(status) && WEXITSTATUS(status) == 0)
      for (auto& l : lines)
        {
          std::vector<std::string> p = vmc::split(l, '\t');
          if (p[0] == "C" && p.size() == 3) { if (p[1] != "distinct_nontrivial") ctx.counters[p[1]] += atoll(p[2].c_str()); }
          else if (p[0] == "M" && p.size() == 3) ctx.maxi(p[1], atoll(p[2].c_str()));
          else if (p[0] == "V" && p.size() == 4) { ctx.violation(p[1], p[2], p[3]); ctx.counters["violating_cases"]--; }
          else if (p[0] == "S" && p.size() == 2) ctx.sample(p[1]);
          else if (p[0] == "O" && p.size() == 2) ctx.observe(p[1]);
          else if (p[0] == "D" && p.size() == 2) ctx.nontrivial((uint64_t)strtoull(p[1].c_str(), nullptr, 10));
        }
    else complete = false;
  }
  if (!complete)
    {
      std::string key = "part=?", kase = unit_case, summary;
      { std::ifstream c(base + ".current"); std::string l1, l2; if (std::getline(c, l1) && std::getline(c, l2)) { key = l1; kase = l2; while (!kase.empty() && kase.back() == ' ') kase.pop_back(); while (!key.empty() && key.back() == ' ') key.pop_back(); } }
      std::string site;
      {
        std::ifstream e(base + ".err"); std::string l;
        std::string file;
        while (std::getline(e, l))
          {
            // first stack frame in a .cxx file of the library: the site a maintainer would look at
            const size_t cx = l.find(".cxx:");
            if (file.empty() && l.find("    #") == 0 && cx != std::string::npos)
              { const size_t sl = l.rfind('/', cx); if (sl != std::string::npos && l.find("/harness/") == std::string::npos) file = l.substr(sl + 1, cx + 4 - sl - 1); }
            if (l.find("SUMMARY: AddressSanitizer:") != std::string::npos)
              {
                summary = l;
                std::vector<std::string> w = vmc::split(l, ' ');
                if (w.size() > 2) site = ";asan=" + w[2];
                break;
              }
          }
        if (!file.empty()) site += ";file=" + file;
      }
      ctx.count("crashed_units");
      ctx.violation("crash;" + key + site, kase,
                    "child process died (" + (WIFSIGNALED(status) ? "signal " + vmc::str(WTERMSIG(status)) : "exit code " + vmc::str(WEXITSTATUS(status))) + ") while executing this case. " + summary);
    }
  for (const char* ext : { ".err", ".res", ".current" }) unlink((base + ext).c_str());
}

static int run_main(vmc::Ctx& ctx)
{
  ctx.rule = "one evaluation = one call of the real transform/filter on one (configuration, input): dft: (shape, sign, unit impulse k real|imaginary or one of 6 superpositions) "
             "x {fourier, inverse_fourier, real-data route}; filters: (kernel index range, kernel from {unit taps, 2e_0, e_0+e_j, 2 labelling kernels}, boundary condition, "
             "input range, output range/call form, data from {unit impulses, labelling, ones}); distinct non-trivial = distinct cases with a non-identity kernel/impulse position and a non-zero reference result";
  ctx.assume("DFT convention as documented in fourier.h: F(x)_s = sum_r x_r exp(sign 2 pi i r s / n); reference in double; tolerance 32 eps_float (log2 N + 4) x sum|x| (real-data route: log2 N + 8)");
  ctx.assume("completeness by (bi)linearity: agreement on every unit impulse (x every unit kernel tap) is agreement for all data up to rounding; shortcuts that break linearity in the kernel (is_trivial) are covered by the kernels 2e_0, e_0+e_j and the labelling kernels");
  ctx.assume("convolution parts use small-integer kernels and data, exact in float: tolerance 1e-5 x sum|kernel| x sum|data|");
  ctx.assume("padded-DFT filter is compared with direct convolution only if, per dimension, padded length >= 2 x span(input range U output range) and no non-zero tap outside [-(S-1),S-1] has a periodic image inside (otherwise counted in dftfilt_groups_outside_precondition); tolerance 64 eps_float (log2 P + 8) sum|k| sum|x|");
  ctx.assume("Gaussian: FWHM in units of the sampling distance (fwhm/voxel); sigma = fwhm/sqrt(8 ln 2); k_i/k_0 within 1e-4 relative + 2e-6 absolute (the documented kernel cut-off is ~1e-6 of the peak); sum within 1e-5; even max_kernel_size values are not enumerated (2*(m/2)+1 > m elements, not part of the statement)");
  ctx.assume("Metz: the kernel is truncated at 1e-4 of its peak and at max_kernel_size WITHOUT renormalisation, so 'kernel sums to one' is checked with tolerance 2e-3 (measured on the pinned tree: <= 1e-4) and only for power 0 and kernels not shortened by max_kernel_size (others are counted and observed); kernel length read from the private coefficients");
  ctx.assume("BoundaryConditions::periodic is not supported by ArrayFilter1DUsingConvolution (error()): recorded as rejected configuration");
  if (freopen("/dev/null", "w", stdout) == nullptr) {} // SeparableMetzArrayFilter prints its kernels with printf
  if (ctx.replaying()) { run_case(ctx, ctx.replay); return ctx.finish(); }
  std::string parts = "dft,conv1d,conv1s,dftfilt,sep,gauss,metz";
  bool forked = false;
  for (size_t i = 0; i < ctx.extra_args.size(); ++i)
    {
      if (ctx.extra_args[i] == "--parts" && i + 1 < ctx.extra_args.size()) parts = ctx.extra_args[++i];
      else if (ctx.extra_args[i] == "--fork") forked = true;
    }
  const bool th = ctx.thorough();
  std::vector<std::string> units;
  for (const std::string& p : vmc::split(parts, ','))
    {
      if (p == "dft") list_dft(th, units);
      else if (p == "conv1d") list_conv1d(th, units);
      else if (p == "conv1s") list_conv1s(th, units);
      else if (p == "conv2d") list_convnd(2, th, units);
      else if (p == "conv3d") list_convnd(3, th, units);
      else if (p == "dftfilt") list_dftfilt(th, units);
      else if (p == "sep") list_sep(th, units);
      else if (p == "gauss") list_gauss(th, units);
      else if (p == "metz") list_metz(th, units);
      else if (p == "imgfilter") list_imgfilter(th, units);
      else { fprintf(stderr, "unknown part %s\n", p.c_str()); return 2; }
    }
  for (uint64_t u = 0; u < units.size(); ++u)
    {
      if (!ctx.mine(u)) continue;
      if (ctx.expired()) break;
      if (forked) run_forked(ctx, units[u]); else run_case(ctx, units[u]);
      ctx.count("units");
    }
  return ctx.finish();
}

// ------------------------------------------------------------------------------------------------
int main(int argc, char** argv)
{
  vmc::Ctx ctx(argc, argv, "C19");
  small::quiet();
  return run_main(ctx);
}
