// C01 - detector pairs and sinogram bins form a consistent partition.
//
// Shape E (exhaustive configuration x input enumeration) on the real ProjDataInfoCylindricalNoArcCorr,
// ProjDataInfoBlocksOnCylindricalNoArcCorr and ProjDataInfoGenericNoArcCorr.
//
// For every configuration (scanner x span x max ring difference x view mashing x tangential size x TOF mashing x
// segment reduction) that STIR accepts:
//   pass A  pairs -> bins : ALL ordered detector pairs (d1 != d2) x ALL ring pairs x ALL unmashed TOF indices go through
//           get_bin_for_det_pos_pair.  Checked per pair: the two representations of the same event, (p1,p2,t) and
//           (p2,p1,-t), get the same bin; exchanging the detectors with the same t gives the same spatial bin with the
//           TOF index negated; "no" only if the ring difference is not covered, "yes" only with a segment that covers it;
//           uncompressed data: get_det_pos_pair_for_bin(get_bin_for_det_pos_pair(p)) == p.
//           The number of events assigned to every bin is accumulated (per ring-pair/TOF "combo", so memory stays small).
//   pass A' bins -> pairs, completeness : for every in-range bin the number of elements of get_all_det_pos_pairs_for_bin
//           that belong to the combo equals the number of events of that combo assigned to the bin in pass A.
//   pass B  bins -> pairs, soundness : for every bin, get_all_det_pos_pairs_for_bin has get_num_det_pos_pairs_for_bin
//           elements, all valid, pairwise different (as events), and each is assigned to this very bin by
//           get_bin_for_det_pos_pair.  Soundness + no duplicates + equal counts  <=>  list == preimage.
//           Uncompressed: get_bin_for_det_pos_pair(get_det_pos_pair_for_bin(b)) == b.
//   ring pairs : every ordered ring pair whose difference is covered by a segment (reference: min/max ring difference
//           tables) is given an in-range (segment, axial position) by get_segment_axial_pos_num_for_ring_pair and occurs in
//           get_all_ring_pairs_for_segment_axial_pos_num of exactly that (segment, axial position) and of no other; uncovered
//           pairs occur nowhere; get_num_ring_pairs... equals the list size.
//   ring tables vs integer reference : the same tables against a Michelogram written in plain integer arithmetic on ring numbers
//           (segment = the one whose [min,max] ring difference interval contains ring2-ring1; axial position from the ring sum with
//           the axial positions of a segment centred on the scanner); span-1 segments: (segment, axial) <-> ring pair are inverses.
// Large (predefined) scanners: all detector pairs, ring pairs from {0,1,2,R-2,R-1}^2, TOF from {min,-1,0,1,max}; the ring-pair
// check is always complete.
// Real ring geometries (`rt=1`, ring tables only, both tiers): every predefined Scanner::Type with rings, native ring spacing and
// number of rings, x span {1,2,3,5,7,9,11} x max ring difference {0,(span-1)/2,(R-1)/2,R-1} + the GE mixed-span layout; and every
// distinct ring spacing of the scanner database on a generated cylinder with 1..10 (thorough: 1..64) rings (`rs=<Scanner::Type>`).
#include "ref_pdi.h"
#include <algorithm>
#include <array>

using namespace stir;
using rpdi::Cfg;
typedef DetectionPositionPair<> DPP;

template <class P> struct Api;
template <> struct Api<ProjDataInfoCylindricalNoArcCorr>
{
  static unsigned num(const ProjDataInfoCylindricalNoArcCorr& p, const Bin& b, bool ign) { return p.get_num_det_pos_pairs_for_bin(b, ign); }
  static void all(const ProjDataInfoCylindricalNoArcCorr& p, std::vector<DPP>& v, const Bin& b, bool ign) { p.get_all_det_pos_pairs_for_bin(v, b, ign); }
};
template <> struct Api<ProjDataInfoGenericNoArcCorr>
{
  static unsigned num(const ProjDataInfoGenericNoArcCorr& p, const Bin& b, bool) { return p.get_num_det_pos_pairs_for_bin(b); }
  static void all(const ProjDataInfoGenericNoArcCorr& p, std::vector<DPP>& v, const Bin& b, bool) { p.get_all_det_pos_pairs_for_bin(v, b); }
};

struct Combo
{
  int r1, r2, t;
  bool operator<(const Combo& o) const { return std::tie(r1, r2, t) < std::tie(o.r1, o.r2, o.t); }
  bool operator==(const Combo& o) const { return r1 == o.r1 && r2 == o.r2 && t == o.t; }
  Combo swapped() const { return Combo{ r2, r1, -t }; }
  Combo canon() const { Combo s = swapped(); return s < *this ? s : *this; }
};

struct Run
{
  vmc::Ctx& ctx;
  Cfg c;
  std::string cs, keybase;
  int nviol = 0;
  Run(vmc::Ctx& x, const Cfg& cfg) : ctx(x), c(cfg), cs(cfg.str()) {}
  bool too_many() const { return nviol > 40; }
  void viol(const std::string& clause, const std::string& what, const std::string& msg)
  {
    ++nviol;
    ctx.violation("clause=" + clause + ";" + keybase + ";what=" + what, cs, msg);
  }
};

// ------------------------------------------------------------------------------------------------ ring pairs (v)
static void check_ring_pairs(Run& run, const ProjDataInfoCylindrical& p)
{
  vmc::Ctx& ctx = run.ctx;
  const int R = p.get_scanner_ptr()->get_num_rings();
  const int smin = p.get_min_segment_num(), smax = p.get_max_segment_num();
  auto covering = [&](int rd) { int n = 0; for (int s = smin; s <= smax; ++s) if (rd >= p.get_min_ring_difference(s) && rd <= p.get_max_ring_difference(s)) ++n; return n; };
  std::vector<int> ncov_by_rd((size_t)(2 * R - 1)); // covering() tabulated (it is evaluated for every ring pair)
  for (int rd = -(R - 1); rd <= R - 1; ++rd) ncov_by_rd[(size_t)(rd + R - 1)] = covering(rd);
  // occurrences of every ring pair in the lists
  std::vector<std::vector<std::pair<int, int>>> occ((size_t)R * R);
  long long n_sa = 0, n_sa2 = 0, n_rp = 0, n_rp_unc = 0;
  for (int s = smin; s <= smax; ++s)
    for (int a = p.get_min_axial_pos_num(s); a <= p.get_max_axial_pos_num(s); ++a)
      {
        const ProjDataInfoCylindrical::RingNumPairs& rp = p.get_all_ring_pairs_for_segment_axial_pos_num(s, a);
        const unsigned n = p.get_num_ring_pairs_for_segment_axial_pos_num(s, a);
        ++n_sa;
        if (rp.size() >= 2) ++n_sa2;
        if (n != rp.size())
          run.viol("ringpairs", "count", "get_num_ring_pairs_for_segment_axial_pos_num(" + std::to_string(s) + "," + std::to_string(a) + ")=" + std::to_string(n) + " but the list has " + std::to_string(rp.size()));
        for (auto& e : rp)
          {
            if (e.first < 0 || e.first >= R || e.second < 0 || e.second >= R)
              {
                run.viol("ringpairs", "invalid_ring", "segment " + std::to_string(s) + " axial " + std::to_string(a) + " lists ring pair (" + std::to_string(e.first) + "," + std::to_string(e.second) + ") outside the scanner");
                continue;
              }
            occ[(size_t)e.first * R + e.second].push_back({ s, a });
          }
      }
  ctx.count("seg_ax_checked", n_sa);
  ctx.count("seg_ax_with_ge2_ring_pairs", n_sa2);
  for (int r1 = 0; r1 < R && !run.too_many(); ++r1)
    for (int r2 = 0; r2 < R; ++r2)
      {
        const int rd = r2 - r1; // STIR's convention: ring difference = ring2 - ring1
        const int ncov = ncov_by_rd[(size_t)(rd + R - 1)];
        int s = 0, a = 0;
        const bool ok = p.get_segment_axial_pos_num_for_ring_pair(s, a, r1, r2) == Succeeded::yes;
        auto& o = occ[(size_t)r1 * R + r2];
        const struct LazyRp { int r1, r2; std::string operator+(const std::string& t) const { return "ring pair (" + std::to_string(r1) + "," + std::to_string(r2) + ")" + t; } } rp{ r1, r2 }; // text only when needed
        ++n_rp;
        if (ncov == 0)
          {
            ++n_rp_unc;
            if (ok) run.viol("ringpairs", "uncovered_assigned", rp + " has an uncovered ring difference but get_segment_axial_pos_num_for_ring_pair says segment " + std::to_string(s) + " axial " + std::to_string(a));
            if (!o.empty()) run.viol("ringpairs", "uncovered_listed", rp + " has an uncovered ring difference but is listed in segment " + std::to_string(o[0].first) + " axial " + std::to_string(o[0].second));
            continue;
          }
        if (ncov > 1) { ctx.observe("configuration with overlapping segments: " + run.cs); continue; }
        if (!ok) { run.viol("ringpairs", "covered_unassigned", rp + " is covered by a segment but get_segment_axial_pos_num_for_ring_pair returns no"); continue; }
        if (s < smin || s > smax || rd < p.get_min_ring_difference(s) || rd > p.get_max_ring_difference(s))
          { run.viol("ringpairs", "wrong_segment", rp + " assigned to segment " + std::to_string(s) + " which does not cover ring difference " + std::to_string(rd)); continue; }
        if (a < p.get_min_axial_pos_num(s) || a > p.get_max_axial_pos_num(s))
          {
            run.viol("ringpairs", "axial_out_of_range", rp + " assigned to segment " + std::to_string(s) + " axial position " + std::to_string(a) + " outside [" + std::to_string(p.get_min_axial_pos_num(s)) + "," + std::to_string(p.get_max_axial_pos_num(s)) + "]: it lies in no (segment, axial position)");
            continue;
          }
        if (o.size() != 1 || o[0].first != s || o[0].second != a)
          {
            std::string w;
            for (auto& e : o) w += " (s" + std::to_string(e.first) + ",a" + std::to_string(e.second) + ")";
            run.viol("ringpairs", o.empty() ? "not_listed" : (o.size() > 1 ? "listed_twice" : "listed_elsewhere"),
                     rp + " is assigned to (s" + std::to_string(s) + ",a" + std::to_string(a) + ") by get_segment_axial_pos_num_for_ring_pair but get_all_ring_pairs_for_segment_axial_pos_num lists it in:" + (w.empty() ? " nothing" : w));
          }
      }
  ctx.count("ring_pairs_checked", n_rp);
  ctx.count("ring_pairs_uncovered", n_rp_unc);
}

// ------------------------------------------------------------------------------------------------ ring tables vs integer reference
// Reference Michelogram in plain integer arithmetic on ring numbers (no float, nothing taken from STIR but the DEFINITION of the
// sampling: ring-difference interval and axial index range of every segment):
//   segment(r1,r2)  = the s with min_rd[s] <= r2-r1 <= max_rd[s]
//   axial(r1,r2)    = ((r1+r2-(R-1))*inc + amin+amax)/2, inc = 1 for a segment with a single ring difference, else 2
//                     (ring sum <-> axial index, the axial positions of a segment being centred on the scanner)
//   pairs(s,a)      = { (r1,r2) : segment = s, axial = a }
// Compared: get_segment_axial_pos_num_for_ring_pair, get_all/num_ring_pairs_for_segment_axial_pos_num, and for segments with one ring
// difference get_ring_pair_for_segment_axial_pos_num in both compositions (mutual inverses).
struct RingRefStats { long long pairs = 0, seg_ax = 0, seg_ax_ge2 = 0, inverse = 0, skipped_parity = 0, outside_axial = 0, inexact_float = 0; };
static RingRefStats check_ring_tables_vs_integer_reference(Run& run, const ProjDataInfoCylindrical& p)
{
  RingRefStats st;
  const int R = p.get_scanner_ptr()->get_num_rings();
  const int smin = p.get_min_segment_num(), smax = p.get_max_segment_num();
  auto S = [](int v) { return std::to_string(v); };
  // overlapping segments are not a partition by definition of the sampling: nothing to compare (observed by check_ring_pairs)
  for (int s = smin; s <= smax; ++s)
    for (int s2 = s + 1; s2 <= smax; ++s2)
      if (p.get_min_ring_difference(s) <= p.get_max_ring_difference(s2) && p.get_min_ring_difference(s2) <= p.get_max_ring_difference(s)) return st;
  typedef std::pair<int, int> RP;
  for (int s = smin; s <= smax; ++s)
    {
      const int lo = p.get_min_ring_difference(s), hi = p.get_max_ring_difference(s);
      const int amin = p.get_min_axial_pos_num(s), amax = p.get_max_axial_pos_num(s);
      if (amax < amin) continue;
      const int inc = lo == hi ? 1 : 2;
      std::vector<std::vector<RP>> ref((size_t)(amax - amin + 1));
      bool shifted = false;
      for (int r1 = 0; r1 < R; ++r1)
        for (int r2 = std::max(0, r1 + lo); r2 <= std::min(R - 1, r1 + hi); ++r2)
          {
            if (run.too_many()) return st;
            const int num = (r1 + r2 - (R - 1)) * inc + amin + amax;
            if (num % 2 != 0) { ++st.skipped_parity; shifted = true; continue; } // sampling shifted w.r.t. the rings: the statement is silent
            const int a_ref = num / 2;
            if (a_ref < amin || a_ref > amax) { ++st.outside_axial; continue; } // axially trimmed data: not enumerated, see assumptions
            ref[(size_t)(a_ref - amin)].push_back(RP(r1, r2));
            ++st.pairs;
            const struct LazyRp { int r1, r2; std::string operator+(const std::string& t) const { return "ring pair (" + std::to_string(r1) + "," + std::to_string(r2) + ")" + t; } } rp{ r1, r2 };
            int s2 = 0, a2 = 0;
            const bool ok = p.get_segment_axial_pos_num_for_ring_pair(s2, a2, r1, r2) == Succeeded::yes;
            if (!ok || s2 != s || a2 != a_ref)
              run.viol("ringpairs", "pair_to_segax_vs_integer_reference",
                       rp + " (ring difference " + S(r2 - r1) + ", ring sum " + S(r1 + r2) + ") belongs to (s" + S(s) + ",a" + S(a_ref) + ") by integer arithmetic, get_segment_axial_pos_num_for_ring_pair says "
                           + (ok ? "(s" + S(s2) + ",a" + S(a2) + ")" : std::string("no")));
            if (inc == 1 && ok && s2 >= smin && s2 <= smax && p.get_min_ring_difference(s2) == p.get_max_ring_difference(s2) && a2 >= p.get_min_axial_pos_num(s2)
                && a2 <= p.get_max_axial_pos_num(s2))
              {
                int q1 = -1, q2 = -1;
                p.get_ring_pair_for_segment_axial_pos_num(q1, q2, s2, a2);
                ++st.inverse;
                if (q1 != r1 || q2 != r2)
                  run.viol("inverse", "ringpair_segax_ringpair", "single ring difference: " + (rp + (" -> (s" + S(s2) + ",a" + S(a2) + ") by get_segment_axial_pos_num_for_ring_pair -> ring pair (" + S(q1) + "," + S(q2) + ") by get_ring_pair_for_segment_axial_pos_num")));
              }
          }
      if (shifted) continue;
      for (int a = amin; a <= amax; ++a)
        {
          if (run.too_many()) return st;
          std::vector<RP>& want = ref[(size_t)(a - amin)];
          std::vector<RP> got(p.get_all_ring_pairs_for_segment_axial_pos_num(s, a));
          const unsigned n = p.get_num_ring_pairs_for_segment_axial_pos_num(s, a);
          std::sort(want.begin(), want.end());
          std::sort(got.begin(), got.end());
          ++st.seg_ax;
          if (want.size() >= 2) ++st.seg_ax_ge2;
          if (got != want || n != want.size())
            {
              auto lst = [&](const std::vector<RP>& v) { std::string w; for (size_t i = 0; i < v.size() && i < 6; ++i) w += " (" + S(v[i].first) + "," + S(v[i].second) + ")"; if (v.size() > 6) w += " ..."; return w.empty() ? std::string(" nothing") : w; };
              run.viol("ringpairs", got.size() < want.size() ? "list_vs_integer_reference_missing" : (got.size() > want.size() ? "list_vs_integer_reference_extra" : "list_vs_integer_reference_different"),
                       "(s" + S(s) + ",a" + S(a) + ") [ring differences " + S(lo) + ".." + S(hi) + ", ring sum " + S((2 * a - amin - amax) / inc + R - 1) + "] holds " + S((int)want.size()) + " ring pairs by integer arithmetic:" + lst(want)
                           + "; get_all_ring_pairs_for_segment_axial_pos_num lists " + S((int)got.size()) + ":" + lst(got) + "; get_num_ring_pairs_for_segment_axial_pos_num=" + S((int)n));
            }
          if (inc == 1 && want.size() == 1)
            {
              int q1 = -1, q2 = -1;
              p.get_ring_pair_for_segment_axial_pos_num(q1, q2, s, a);
              ++st.inverse;
              if (q1 != want[0].first || q2 != want[0].second)
                {
                  const bool valid = q1 >= 0 && q1 < R && q2 >= 0 && q2 < R;
                  run.viol("inverse", !valid ? "segax_to_ringpair_invalid_ring" : (q2 - q1 != lo ? "segax_to_ringpair_wrong_ring_difference" : "segax_to_ringpair_vs_integer_reference"),
                           "single ring difference " + S(lo) + ": (s" + S(s) + ",a" + S(a) + ") is ring pair (" + S(want[0].first) + "," + S(want[0].second) + ") by integer arithmetic, get_ring_pair_for_segment_axial_pos_num gives (" + S(q1) + "," + S(q2) + ")");
                }
              else
                {
                  int s2 = 0, a2 = 0;
                  const bool ok = p.get_segment_axial_pos_num_for_ring_pair(s2, a2, q1, q2) == Succeeded::yes;
                  if (!ok || s2 != s || a2 != a)
                    run.viol("inverse", "segax_ringpair_segax", "single ring difference: (s" + S(s) + ",a" + S(a) + ") -> ring pair (" + S(q1) + "," + S(q2) + ") -> " + (ok ? "(s" + S(s2) + ",a" + S(a2) + ")" : std::string("no")));
                }
            }
        }
      // vacuity indicator only (NOT part of the oracle): is the float quotient that STIR's tables are built from inexact for this segment?
      if (p.m_offset.get_min_index() <= s && s <= p.m_offset.get_max_index() && p.ring_spacing > 0)
        {
          const volatile float q = 2 * p.m_offset[s] / p.ring_spacing;
          if (q != std::floor(q)) ++st.inexact_float;
        }
    }
  run.ctx.count("ringref_ring_pairs_vs_integer_reference", st.pairs);
  run.ctx.count("ringref_seg_ax_lists_vs_integer_reference", st.seg_ax);
  run.ctx.count("ringref_seg_ax_with_ge2_ring_pairs", st.seg_ax_ge2);
  run.ctx.count("ringref_single_ring_difference_inverse_checks", st.inverse);
  run.ctx.count("ringref_pairs_skipped_sampling_shifted_wrt_rings", st.skipped_parity);
  run.ctx.count("ringref_pairs_outside_axial_range", st.outside_axial);
  run.ctx.count("ringref_segments_with_inexact_float_ring_offset", st.inexact_float);
  run.ctx.count("evaluations", st.pairs + st.seg_ax);
  return st;
}

// ------------------------------------------------------------------------------------------------ detector pairs
template <class P>
static void check_det_pairs(Run& run, const P& p)
{
  vmc::Ctx& ctx = run.ctx;
  const Scanner& sc = *p.get_scanner_ptr();
  const int D = sc.get_num_detectors_per_ring(), R = sc.get_num_rings();
  const int V = p.get_num_views();
  const int tmash = p.get_tof_mash_factor();
  const bool is_tof = tmash > 0;
  const bool tof_lists = !is_tof || (tmash % 2 == 1); // get_all_det_pos_pairs_for_bin(...,false) assert()s an odd mashing factor
  const int Tsc = sc.get_max_num_timing_poss();
  const int tu = is_tof ? (Tsc - 1) / 2 : 0; // unmashed TOF indices -tu..tu
  const int smin = p.get_min_segment_num(), smax = p.get_max_segment_num();
  const int tmin = p.get_min_tangential_pos_num(), tmax = p.get_max_tangential_pos_num();
  const int kmin = p.get_min_tof_pos_num(), kmax = p.get_max_tof_pos_num();
  bool uncompressed = p.get_view_mashing_factor() == 1 && tmash <= 1;
  bool symmetric = true;
  for (int s = smin; s <= smax; ++s)
    if (p.get_min_ring_difference(s) != p.get_max_ring_difference(s)) uncompressed = false;
  auto covered = [&](int rd) { for (int s = smin; s <= smax; ++s) if (rd >= p.get_min_ring_difference(s) && rd <= p.get_max_ring_difference(s)) return true; return false; };
  for (int rd = 0; rd < R; ++rd) if (covered(rd) != covered(-rd)) symmetric = false;

  // ring / TOF subsets
  std::vector<int> RS, TS;
  const double full_cost = double(D) * D * R * R * (2 * tu + 1);
  const bool restricted = R > 5 && full_cost > 2e7;
  if (!restricted) { for (int r = 0; r < R; ++r) RS.push_back(r); }
  else { for (int r : { 0, 1, 2, R - 2, R - 1 }) if (r >= 0 && r < R && std::find(RS.begin(), RS.end(), r) == RS.end()) RS.push_back(r); }
  if (!is_tof || !tof_lists) TS.push_back(0);
  else if (!restricted) { for (int t = -tu; t <= tu; ++t) TS.push_back(t); }
  else { for (int t : { -tu, -1, 0, 1, tu }) if (t >= -tu && t <= tu && std::find(TS.begin(), TS.end(), t) == TS.end()) TS.push_back(t); }
  if (restricted) ctx.count("configs_restricted_ring_tof_subset");
  if (is_tof && !tof_lists) ctx.count("configs_even_tof_mash_spatial_only");

  auto in_range = [&](const Bin& b) {
    return b.segment_num() >= smin && b.segment_num() <= smax && b.view_num() >= 0 && b.view_num() < V && b.tangential_pos_num() >= tmin
           && b.tangential_pos_num() <= tmax && b.timing_pos_num() >= kmin && b.timing_pos_num() <= kmax
           && b.axial_pos_num() >= p.get_min_axial_pos_num(b.segment_num()) && b.axial_pos_num() <= p.get_max_axial_pos_num(b.segment_num());
  };
  auto binof = [&](Bin& b, int d1, int r1, int d2, int r2, int t) { return p.get_bin_for_det_pos_pair(b, rpdi::mk_dp(d1, r1, d2, r2, t)) == Succeeded::yes; };

  typedef std::array<int, 3> Slot; // segment, axial, tof
  std::set<Slot> visited_slots;
  std::vector<DPP> lst;
  const int TOFF = D / 2, TW = D + 1; // table range of tangential positions: -(D/2)+1 .. D/2
  long long n_pairs = 0, n_no = 0, n_outside = 0, n_swapped_orientation = 0, n_roundtrip = 0;

  // ---------------- pass A / A' per canonical combo
  for (int r1 : RS)
    for (int r2 : RS)
      for (int t : TS)
        {
          if (run.too_many()) return;
          const Combo cb{ r1, r2, t };
          if (!(cb == cb.canon())) continue;
          const bool self = cb == cb.swapped();
          std::vector<Slot> slots;
          std::vector<std::vector<int>> cnt;
          for (int d1 = 0; d1 < D; ++d1)
            for (int d2 = 0; d2 < D; ++d2)
              {
                if (d1 == d2) continue;
                Bin b1, b2, b3;
                const bool ok1 = binof(b1, d1, r1, d2, r2, t);
                const bool ok3 = binof(b3, d2, r2, d1, r1, -t); // the same event written the other way round
                const bool ok2 = binof(b2, d2, r2, d1, r1, t);  // detectors exchanged, TOF index kept
                ++n_pairs;
                const std::string ps = rpdi::dp_str(rpdi::mk_dp(d1, r1, d2, r2, t));
                if (ok1 != ok3 || (ok1 && !rpdi::same_bin(b1, b3)))
                  run.viol("exchange", "same_event_two_bins", "event " + ps + " -> " + (ok1 ? small::bin_str(b1) : std::string("no")) + " but written as (pos2,pos1,-t) -> " + (ok3 ? small::bin_str(b3) : std::string("no")));
                if (ok1 != ok2 || (ok1 && (!rpdi::same_spatial_bin(b1, b2) || b2.timing_pos_num() != -b1.timing_pos_num())))
                  run.viol("exchange", "tof_not_negated", "pair " + ps + " -> " + (ok1 ? small::bin_str(b1) : std::string("no")) + " but with detectors exchanged (same t) -> " + (ok2 ? small::bin_str(b2) : std::string("no")) + "; expected same spatial bin and negated TOF bin");
                const int rd = r2 - r1;
                if (!ok1)
                  {
                    ++n_no;
                    if (covered(rd) && covered(-rd)) run.viol("function", "covered_pair_unassigned", "pair " + ps + " has covered ring difference " + std::to_string(rd) + " but get_bin_for_det_pos_pair returns no");
                    continue;
                  }
                const int s = b1.segment_num();
                bool seg_ok = s >= smin && s <= smax;
                bool plus = false, minus = false;
                if (seg_ok)
                  {
                    plus = rd >= p.get_min_ring_difference(s) && rd <= p.get_max_ring_difference(s);
                    minus = -rd >= p.get_min_ring_difference(s) && -rd <= p.get_max_ring_difference(s);
                    seg_ok = plus || minus;
                  }
                if (!seg_ok)
                  {
                    run.viol("function", symmetric && !covered(rd) ? "uncovered_pair_assigned" : "wrong_segment", "pair " + ps + " -> " + small::bin_str(b1) + " whose segment does not cover ring difference +-" + std::to_string(rd));
                    continue;
                  }
                if (!plus) ++n_swapped_orientation;
                if (b1.view_num() < 0 || b1.view_num() >= V || b1.tangential_pos_num() + TOFF < 0 || b1.tangential_pos_num() + TOFF >= TW)
                  {
                    run.viol("function", "view_or_tang_impossible", "pair " + ps + " -> " + small::bin_str(b1) + " outside any possible sinogram");
                    continue;
                  }
                if (!in_range(b1)) { ++n_outside; continue; } // trimmed tangential range / TOF range (axial range: see ring-pair check)
                if (uncompressed)
                  {
                    DPP back;
                    p.get_det_pos_pair_for_bin(back, b1);
                    ++n_roundtrip;
                    if (!(back == rpdi::mk_dp(d1, r1, d2, r2, t)))
                      run.viol("inverse", "pair_bin_pair", "uncompressed: pair " + ps + " -> " + small::bin_str(b1) + " -> " + rpdi::dp_str(back));
                  }
                if (self && d1 > d2) continue; // (d1,d2) and (d2,d1) are the same event here
                const Slot sl{ b1.segment_num(), b1.axial_pos_num(), b1.timing_pos_num() };
                size_t si = 0;
                while (si < slots.size() && slots[si] != sl) ++si;
                if (si == slots.size()) { slots.push_back(sl); cnt.push_back(std::vector<int>((size_t)V * TW, 0)); visited_slots.insert(sl); }
                cnt[si][(size_t)b1.view_num() * TW + b1.tangential_pos_num() + TOFF]++;
              }
          // A': completeness per bin of the slots this combo maps to
          for (size_t si = 0; si < slots.size(); ++si)
            for (int v = 0; v < V; ++v)
              for (int tp = tmin; tp <= tmax; ++tp)
                {
                  const Bin b(slots[si][0], v, slots[si][1], tp, slots[si][2]);
                  const int expect = cnt[si][(size_t)v * TW + tp + TOFF];
                  Api<P>::all(p, lst, b, !tof_lists);
                  int n = 0;
                  for (const DPP& e : lst)
                    {
                      Combo ce{ (int)e.pos1().axial_coord(), (int)e.pos2().axial_coord(), tof_lists ? e.timing_pos() : 0 };
                      if (ce.canon() == cb) ++n;
                    }
                  if (n != expect)
                    run.viol("bin_lists_pairs", n < expect ? "pair_missing_from_list" : "extra_pair_in_list",
                             "bin " + small::bin_str(b) + ": " + std::to_string(expect) + " events with rings/TOF (" + std::to_string(r1) + "," + std::to_string(r2) + ",t" + std::to_string(t) + ") are assigned to it by get_bin_for_det_pos_pair, but get_all_det_pos_pairs_for_bin lists " + std::to_string(n) + " such events");
                  if (is_tof && tof_lists && t == 0 && slots[si][2] == 0)
                    {
                      // spatial-only list of the same bin
                      Api<P>::all(p, lst, b, true);
                      int m = 0;
                      for (const DPP& e : lst)
                        {
                          Combo ce{ (int)e.pos1().axial_coord(), (int)e.pos2().axial_coord(), 0 };
                          if (ce.canon() == cb) ++m;
                        }
                      if (m != expect)
                        run.viol("bin_lists_pairs", "spatial_list_count", "bin " + small::bin_str(b) + ": " + std::to_string(expect) + " detector pairs with rings (" + std::to_string(r1) + "," + std::to_string(r2) + ") are assigned to it, the spatial-only list has " + std::to_string(m));
                    }
                }
        }
  ctx.count("pairs_evaluated", n_pairs);
  ctx.count("evaluations", 3 * n_pairs);
  ctx.count("pairs_unassigned_ring_difference", n_no);
  ctx.count("pairs_assigned_outside_trimmed_range", n_outside);
  ctx.count("pairs_assigned_with_rings_exchanged", n_swapped_orientation);
  ctx.count("uncompressed_pair_bin_pair_roundtrips", n_roundtrip);

  // ---------------- pass B: every bin (restricted: every bin of the visited (segment, axial, TOF) slots)
  std::vector<Slot> all_slots;
  if (!restricted)
    {
      for (int s = smin; s <= smax; ++s)
        for (int a = p.get_min_axial_pos_num(s); a <= p.get_max_axial_pos_num(s); ++a)
          for (int k = kmin; k <= kmax; ++k) all_slots.push_back(Slot{ s, a, k });
    }
  else all_slots.assign(visited_slots.begin(), visited_slots.end());
  long long n_bins = 0, n_bins2 = 0, n_bins0 = 0, n_listed = 0, max_list = 0;
  std::vector<std::array<int, 5>> keys;
  for (const Slot& sl : all_slots)
    for (int v = 0; v < V; ++v)
      for (int tp = tmin; tp <= tmax; ++tp)
        {
          if (run.too_many()) return;
          const Bin b(sl[0], v, sl[1], tp, sl[2]);
          ++n_bins;
          for (int pass = 0; pass < 2; ++pass)
            {
              // pass 0: with TOF (or non-TOF data); pass 1: spatial-only list of TOF data (bin with TOF index 0 only)
              const bool ign = pass == 1 || !tof_lists;
              if (pass == 1 && !(is_tof && tof_lists && sl[2] == 0)) continue;
              const unsigned num = Api<P>::num(p, b, ign);
              Api<P>::all(p, lst, b, ign);
              if (num != lst.size())
                run.viol("bin_lists_pairs", "reported_count", "bin " + small::bin_str(b) + ": get_num_det_pos_pairs_for_bin=" + std::to_string(num) + " but the list has " + std::to_string(lst.size()) + " elements" + (ign ? " (spatial only)" : ""));
              if (pass == 0)
                {
                  n_listed += (long long)lst.size();
                  if (lst.size() >= 2) ++n_bins2;
                  if (lst.empty()) ++n_bins0;
                  if ((long long)lst.size() > max_list) max_list = (long long)lst.size();
                }
              keys.clear();
              for (const DPP& e : lst)
                {
                  const int d1 = e.pos1().tangential_coord(), r1 = e.pos1().axial_coord(), d2 = e.pos2().tangential_coord(), r2 = e.pos2().axial_coord();
                  const int t = ign ? 0 : e.timing_pos();
                  if (d1 < 0 || d1 >= D || d2 < 0 || d2 >= D || d1 == d2 || r1 < 0 || r1 >= R || r2 < 0 || r2 >= R || t < -tu || t > tu)
                    {
                      run.viol("bin_lists_pairs", "invalid_pair_in_list", "bin " + small::bin_str(b) + " lists " + rpdi::dp_str(e) + " which is not a detector pair / TOF index of the scanner");
                      continue;
                    }
                  Bin bb;
                  const bool ok = binof(bb, d1, r1, d2, r2, t);
                  if (!ok || !(ign ? rpdi::same_spatial_bin(bb, b) : rpdi::same_bin(bb, b)))
                    run.viol("bin_lists_pairs", "listed_pair_assigned_elsewhere", "bin " + small::bin_str(b) + " lists " + rpdi::dp_str(e) + " but get_bin_for_det_pos_pair assigns that pair to " + (ok ? small::bin_str(bb) : std::string("no bin")) + (ign ? " (spatial only)" : ""));
                  std::array<int, 5> k1{ d1, r1, d2, r2, t }, k2{ d2, r2, d1, r1, -t };
                  keys.push_back(k2 < k1 ? k2 : k1);
                }
              std::sort(keys.begin(), keys.end());
              for (size_t i = 1; i < keys.size(); ++i)
                if (keys[i] == keys[i - 1])
                  {
                    run.viol("bin_lists_pairs", "duplicate_in_list", "bin " + small::bin_str(b) + " lists the event (d" + std::to_string(keys[i][0]) + ",r" + std::to_string(keys[i][1]) + ")-(d" + std::to_string(keys[i][2]) + ",r" + std::to_string(keys[i][3]) + ")t" + std::to_string(keys[i][4]) + " twice" + (ign ? " (spatial only)" : ""));
                    break;
                  }
            }
          if (uncompressed)
            {
              DPP dp;
              p.get_det_pos_pair_for_bin(dp, b);
              Bin bb;
              const bool ok = p.get_bin_for_det_pos_pair(bb, dp) == Succeeded::yes;
              if (!ok || !rpdi::same_bin(bb, b))
                run.viol("inverse", "bin_pair_bin", "uncompressed: bin " + small::bin_str(b) + " -> " + rpdi::dp_str(dp) + " -> " + (ok ? small::bin_str(bb) : std::string("no bin")));
              ctx.count("uncompressed_bin_pair_bin_roundtrips");
            }
        }
  ctx.count("bins_checked", n_bins);
  ctx.count("evaluations", n_bins);
  ctx.count("bins_with_ge2_pairs", n_bins2);
  ctx.count("bins_with_0_pairs", n_bins0);
  ctx.count("pairs_listed_by_bins", n_listed);
  ctx.maxi("max_pairs_in_one_bin", max_list);
  if (n_bins2 > 0 || uncompressed) ctx.nontrivial(run.cs);
  if (ctx.samples.size() < 6 && n_bins2 > 0)
    ctx.sample(run.cs + " : " + std::to_string(n_pairs) + " pair evaluations, " + std::to_string(n_bins) + " bins (" + std::to_string(n_bins2) + " with >=2 events, max " + std::to_string(max_list) + "), " + std::to_string(n_no) + " pairs uncovered, " + std::to_string(n_outside) + " outside trimmed range");
}

// generated cylinder as rpdi::make_scanner(geom=cyl), but with the ring spacing of the predefined scanner `type` (a REAL ring spacing:
// the generated scanners of ref_pdi.h all have 4 mm, which is exact in binary)
static shared_ptr<Scanner> make_ring_spacing_scanner(const Cfg& c, int type)
{
  const Scanner proto(static_cast<Scanner::Type>(type));
  const float ring_spacing = proto.get_ring_spacing();
  if (!(ring_spacing > 0)) throw std::runtime_error("harness: predefined scanner without ring spacing");
  const int D = c.D, R = c.R;
  const float radius = 100.F, pitch = float(2 * M_PI * radius / D), bin_size = pitch / 2.F;
  const int tb = rpdi::default_tb(D);
  return shared_ptr<Scanner>(new Scanner(Scanner::User_defined_scanner, std::string("verif_ring"), D, R, D - 1, D / 2, radius, 0.F, ring_spacing, bin_size, 0.F, 1, 1, 1, tb, 1,
                                         tb, 1, 0.15F, 511.F, (short)-1, -1.F, -1.F));
}

// ------------------------------------------------------------------------------------------------ one configuration
static void run_case(vmc::Ctx& ctx, const std::string& cs)
{
  Run run(ctx, Cfg::parse(cs));
  const Cfg& c = run.c;
  // rt=1: ring tables only (real ring geometries); rs=<Scanner::Type>: generated cylinder with the ring spacing of that predefined scanner
  int rt = 0, rs = -1;
  {
    auto m = vmc::kv(cs);
    if (m.count("rt")) rt = atoi(m["rt"].c_str());
    if (m.count("rs")) rs = atoi(m["rs"].c_str());
    if (rt) run.cs += ";rt=" + std::to_string(rt);
    if (rs >= 0) run.cs += ";rs=" + std::to_string(rs);
  }
  ctx.current("geom=" + c.geom, run.cs);
  ctx.count("configurations");
  shared_ptr<Scanner> sc;
  shared_ptr<ProjDataInfo> pdi;
  std::string what;
  if (small::throws([&] { sc = rs >= 0 ? make_ring_spacing_scanner(c, rs) : rpdi::make_scanner(c, ctx.tmpdir); pdi = rpdi::make_pdi(c, sc); }, &what))
    {
      ctx.count("rejected_configs");
      return;
    }
  const ProjDataInfoCylindrical* cyl = dynamic_cast<const ProjDataInfoCylindrical*>(pdi.get());
  if (!cyl) { ctx.count("rejected_configs"); ctx.observe("not a ProjDataInfoCylindrical: " + cs); return; }
  bool compressed = false, single = false;
  for (int s = cyl->get_min_segment_num(); s <= cyl->get_max_segment_num(); ++s)
    {
      if (cyl->get_min_ring_difference(s) != cyl->get_max_ring_difference(s)) compressed = true;
      else single = true;
    }
  const int D = sc->get_num_detectors_per_ring();
  if (D % 2 != 0 || D % (2 * pdi->get_num_views()) != 0) { ctx.count("rejected_configs"); ctx.observe("odd number of detectors or views not dividing: " + cs); return; }
  const int vm = cyl->get_view_mashing_factor(), tm = pdi->get_tof_mash_factor();
  // key fields: class family (Generic and BlocksOnCylindrical share their code), kind of axial compression
  //   none: every segment one ring difference; ge: ProjDataInfoGE; mixed: segments with one and with several ring differences
  //   (e.g. a truncated last segment); oddspan / evenspan
  const std::string family = (c.geom == "blk" || c.geom == "gen" || (rt && sc->get_scanner_geometry() != "Cylindrical")) ? "generic" : "cylindrical";
  const std::string comp = c.ge ? "ge" : (!compressed ? "none" : (single ? "mixed" : (c.span % 2 ? "oddspan" : "evenspan")));
  run.keybase = "family=" + family + ";comp=" + comp + ";sr=" + std::to_string(c.sr) + (c.hist ? ";derived=1" : "");
  if (vm > 1) ctx.count("configs_with_view_mashing");
  if (compressed) ctx.count("configs_with_axial_compression");
  if (tm > 0) ctx.count("configs_tof");
  if (tm > 1) ctx.count("configs_tof_mashed");
  if (pdi->get_num_tangential_poss() < D - 1) ctx.count("configs_tangentially_trimmed");
  if (c.sr) ctx.count("configs_segment_reduced");
  ctx.maxi("max_D", D); ctx.maxi("max_R", sc->get_num_rings());

  if (small::throws([&] {
        check_ring_pairs(run, *cyl);
        const RingRefStats rst = check_ring_tables_vs_integer_reference(run, *cyl);
        if (rt)
          {
            // real ring geometry: the Michelogram tables only (the detector-pair factor does not depend on the ring geometry)
            ctx.count("ring_table_only_configs");
            if (c.geom == "pre") ctx.count("ring_table_only_configs_predefined_scanner");
            if (rst.inexact_float > 0) ctx.count("ring_table_only_configs_with_inexact_float_ring_offset");
            ctx.maxi("max_R_ring_tables", sc->get_num_rings());
            if (rst.seg_ax_ge2 > 0 || rst.inverse > 0) ctx.nontrivial(run.cs);
            if (c.geom == "pre" && ctx.samples.size() < 9 && rst.inexact_float > 0 && c.span > 1 && c.md > 0 && run.nviol == 0)
              ctx.sample(run.cs + " : " + sc->get_name() + ", " + std::to_string(sc->get_num_rings()) + " rings, " + std::to_string(rst.pairs) + " ring pairs and " + std::to_string(rst.seg_ax)
                         + " (segment, axial position) lists against the integer Michelogram (" + std::to_string(rst.seg_ax_ge2) + " with >=2 ring pairs)");
            return;
          }
        if (run.nviol > 0)
          {
            // the detector-pair lists are built from the ring-pair lists: do not report the consequences a second time
            ctx.count("configs_det_pairs_skipped_after_ringpair_violation");
            return;
          }
        run.keybase = "family=" + family + ";comp=" + comp + ";vm=" + (vm > 1 ? "m" : "1") + ";tof=" + (tm == 0 ? "0" : (tm == 1 ? "1" : "m")) + (c.hist ? ";derived=1" : "");
        if (auto* p = dynamic_cast<const ProjDataInfoCylindricalNoArcCorr*>(pdi.get())) check_det_pairs(run, *p);
        else if (auto* g = dynamic_cast<const ProjDataInfoGenericNoArcCorr*>(pdi.get())) check_det_pairs(run, *g);
        else ctx.observe("no detector-pair API for " + cs);
      }, &what))
    {
      // STIR refused an operation by error(): recorded, not a failure (e.g. tangential range too large for the tables)
      ctx.count("rejected_configs");
      ctx.count("rejected_by_error_during_checks");
      ctx.observe("error() during checks: " + cs + " : " + what.substr(0, 160));
    }
}

// ------------------------------------------------------------------------------------------------ enumeration
static void add_samplings(std::vector<std::string>& out, Cfg base, bool full_product, bool tofscan)
{
  const int D = base.D, R = base.R;
  const bool det = base.geom != "cyl"; // Generic/Blocks: no view mashing, no TOF
  std::vector<int> vms = det ? std::vector<int>{ 1 } : rpdi::divisors(D / 2);
  std::vector<int> nts = rpdi::uniq({ D - 1, D - 2, D / 2, 3, 1 });
  std::vector<int> tms = base.T > 0 ? std::vector<int>{ 0, 1, 2, 3, 5, base.T - 1, base.T, base.T + 1 } : std::vector<int>{ 0 };
  tms = rpdi::uniq(tms); tms.insert(tms.begin(), 0); // uniq() drops the 0 (non-TOF data)
  (void)tofscan;
  struct Ax { int span, md, ge; };
  std::vector<Ax> axs;
  for (int span = 1; span <= 2 * R - 1 + 1; ++span) // one beyond the legal maximum: must be rejected
    for (int md = std::max(0, (span - 1) / 2 - 1); md <= R - 1 + (span == 1 ? 1 : 0); ++md) axs.push_back({ span, md, 0 });
  for (int md = 1; md <= R - 1; ++md) axs.push_back({ 1, md, 1 });
  for (const Ax& ax : axs)
    {
      const int ms = rpdi::max_segment_of(ax.span, ax.md, ax.ge);
      std::vector<std::array<int, 3>> srs{ { 0, 0, 0 } };
      for (int k = 0; k < ms; ++k) srs.push_back({ 1, -k, k });
      if (ms > 0) { srs.push_back({ 1, 0, ms }); srs.push_back({ 1, -ms, 0 }); srs.push_back({ 1, -ms, ms - 1 }); }
      for (int vm : vms)
        for (int nt : nts)
          for (int tm : tms)
            for (auto& sr : srs)
              {
                // quick tier: star around the base sampling (only one of nt / tm / sr deviates from its base value); thorough: full product
                const int deviations = (nt != nts[0]) + (tm != (base.T > 0 ? 1 : 0)) + (sr[0] != 0);
                if (!full_product && deviations > 1) continue;
                Cfg c = base;
                c.span = ax.span; c.md = ax.md; c.ge = ax.ge; c.vm = vm; c.nt = nt; c.tm = tm; c.sr = sr[0]; c.smin = sr[1]; c.smax = sr[2];
                out.push_back(c.str());
                // the same sampling reached from an already used object through clone + setters (only where something is derived)
                if (!det && (vm > 1 || nt != nts[0] || tm > 1 || sr[0])) { c.hist = 1; out.push_back(c.str()); }
              }
    }
}

// real ring geometries, ring tables only (`rt=1`): see the head of the file
static void add_real_ring_geometries(std::vector<std::string>& out, bool thorough)
{
  auto samplings = [&](Cfg c, const std::string& suffix) {
    const int R = c.R;
    c.vm = 1; c.nt = 0; c.tm = 0;
    for (int span : { 1, 2, 3, 5, 7, 9, 11 })
      {
        if (span > 2 * R - 1) continue;
        std::vector<int> mds;
        for (int md : { 0, (span - 1) / 2, (R - 1) / 2, R - 1 })
          if (md >= (span - 1) / 2 && md <= R - 1 && std::find(mds.begin(), mds.end(), md) == mds.end()) mds.push_back(md);
        for (int md : mds) { c.span = span; c.md = md; c.ge = 0; out.push_back(c.str() + suffix); }
      }
    std::vector<int> mds;
    for (int md : { 1, (R - 1) / 2, R - 1 })
      if (md >= 1 && md <= R - 1 && std::find(mds.begin(), mds.end(), md) == mds.end()) mds.push_back(md);
    for (int md : mds) { c.span = 1; c.md = md; c.ge = 1; out.push_back(c.str() + suffix); }
  };
  // (a) every distinct ring spacing of the scanner database on a generated cylinder with few rings (simplest first)
  std::vector<std::pair<int, shared_ptr<Scanner>>> pre;
  for (int type = 0; type < (int)Scanner::User_defined_scanner; ++type)
    {
      shared_ptr<Scanner> sc;
      if (small::throws([&] { sc.reset(new Scanner(static_cast<Scanner::Type>(type))); })) continue;
      if (sc->get_num_rings() < 1 || sc->get_num_detectors_per_ring() < 2 || !(sc->get_ring_spacing() > 0)) continue;
      pre.push_back({ type, sc });
    }
  std::vector<int> spacing_types;
  for (auto& e : pre)
    {
      bool seen = false;
      for (int t : spacing_types)
        for (auto& f : pre) if (f.first == t && f.second->get_ring_spacing() == e.second->get_ring_spacing()) seen = true;
      if (!seen) spacing_types.push_back(e.first);
    }
  const int Rmax = thorough ? 64 : 10;
  for (int R = 1; R <= Rmax; ++R)
    for (int t : spacing_types)
      {
        Cfg c; c.geom = "cyl"; c.D = 4; c.R = R; c.T = 0; c.mb = 3;
        samplings(c, ";rt=1;rs=" + std::to_string(t));
      }
  // (b) every predefined scanner with rings, native geometry (Generic scanners would need a crystal map: not predefined)
  for (auto& e : pre)
    {
      if (e.second->get_scanner_geometry() == "Generic") continue;
      if (e.second->get_num_detectors_per_ring() % 2 != 0) continue;
      Cfg c; c.geom = "pre"; c.type = e.first; c.D = e.second->get_num_detectors_per_ring(); c.R = e.second->get_num_rings();
      samplings(c, ";rt=1");
    }
}

static std::vector<std::string> enumerate(bool thorough)
{
  std::vector<std::string> out;
  auto gen = [&](const std::string& geom, int D, int R, int T, bool full) {
    Cfg b; b.geom = geom; b.D = D; b.R = R; b.T = T; b.mb = D - 1;
    add_samplings(out, b, full, T > 0);
  };
  // block 1: D <= 16, R <= 4: every sampling (thorough: full product of all options; quick: star in nt/tm/sr around the base)
  for (int D : { 4, 6, 8, 12, 16 })
    for (int R : { 1, 2, 3, 4 })
      {
        gen("cyl", D, R, 0, thorough);
        if (R <= 3 && (D == 8 || D == 12 || thorough)) gen("cyl", D, R, 9, thorough && D <= 12);
        if (D >= 8) gen("blk", D, R, 0, thorough);
        gen("gen", D, R, 0, thorough);
      }
  // block 1b: real ring geometries (ring spacings / ring counts of the scanner database), Michelogram tables only
  // (thorough: appended after block 4, so that the distribution of the expensive configurations over the shards stays as it was)
  if (!thorough) { add_real_ring_geometries(out, false); return out; }
  // block 2 (axial factor): small D, R up to 8, every span / max ring difference / segment reduction
  for (int D : { 4, 8 })
    for (int R : { 5, 6, 7, 8 }) gen("cyl", D, R, 0, false);
  // block 3 (transaxial factor): every even D 4..64 and five large values, few rings, every view mashing and tangential size
  auto trans = [&](int D, std::vector<int> Rs, std::vector<int> Ts) {
    for (int R : Rs)
      for (int T : Ts)
        for (int span : { 1, 3 })
          {
            if (span > 2 * R - 1) continue;
            for (int vm : rpdi::divisors(D / 2))
              for (int nt : rpdi::uniq({ D - 1, D - 2, D / 2, 3, 1 }))
                for (int tm : (T > 0 ? std::vector<int>{ 1, 3 } : std::vector<int>{ 0 }))
                  {
                    Cfg c; c.geom = "cyl"; c.D = D; c.R = R; c.T = T; c.mb = D - 1; c.span = span; c.md = R - 1; c.vm = vm; c.nt = nt; c.tm = tm;
                    out.push_back(c.str());
                  }
          }
  };
  for (int D = 18; D <= 64; D += 2) trans(D, { 1, 2, 3 }, D % 8 == 0 ? std::vector<int>{ 0, 9 } : std::vector<int>{ 0 });
  for (int D : { 10, 14 }) trans(D, { 1, 2, 3 }, { 0 });
  for (int D : { 96, 128, 256, 504, 1000 }) trans(D, { 1, 3 }, { 0 });
  for (int D : { 20, 32, 64 })
    for (const char* g : { "blk", "gen" })
      for (int R : { 1, 3 })
        for (int span : { 1, 3 })
          {
            if (span > 2 * R - 1) continue;
            for (int nt : rpdi::uniq({ D - 1, D / 2, 3 }))
              { Cfg c; c.geom = g; c.D = D; c.R = R; c.mb = D - 1; c.span = span; c.md = R - 1; c.nt = nt; out.push_back(c.str()); }
          }
  // block 4: every predefined scanner, native D and R
  for (int type = 0; type < (int)Scanner::User_defined_scanner; ++type)
    {
      shared_ptr<Scanner> sc;
      if (small::throws([&] { sc.reset(new Scanner(static_cast<Scanner::Type>(type))); })) continue;
      const int D = sc->get_num_detectors_per_ring(), R = sc->get_num_rings(), T = sc->is_tof_ready() ? sc->get_max_num_timing_poss() : 0;
      std::vector<int> tms{ 0 };
      if (T > 0)
        {
          if (T % 2 == 1) tms.push_back(1);
          for (int m = 3; m <= T; m += 2) if ((T / m) % 2 == 1 && T / m > 1) { tms.push_back(m); break; }
        }
      for (int span : { 1, 2, 3, 7 })
        for (int vm : { 1, 2 })
          for (int tm : tms)
            {
              if (D % 2 == 0 && (D / 2) % vm != 0) continue;
              Cfg c; c.geom = "pre"; c.type = type; c.D = D; c.R = R; c.T = T; c.span = span; c.md = R - 1; c.vm = vm; c.nt = 0; c.tm = tm;
              out.push_back(c.str());
            }
    }
  add_real_ring_geometries(out, true);
  return out;
}

int main(int argc, char** argv)
{
  vmc::Ctx ctx(argc, argv, "C01");
  small::quiet();
  ctx.rule = "unit = one (scanner, sampling) configuration; per configuration ALL ordered detector pairs x ring pairs x unmashed TOF indices through "
             "get_bin_for_det_pos_pair and ALL bins through get_all/get_num_det_pos_pairs_for_bin, plus all ring pairs through the Michelogram API; "
             "a configuration is non-trivial when at least one bin receives >= 2 events (compression/mashing) or the data are uncompressed (inverse maps checked); "
             "in addition the Michelogram tables (ring pair <-> (segment, axial position), lists, counts, span-1 inverses) of every configuration are compared with a plain-integer "
             "reference, and are enumerated alone (rt=1) over the REAL ring geometries: every predefined scanner with rings (native ring spacing and ring count) and every distinct "
             "ring spacing of the scanner database on a generated cylinder with 1..10 (thorough 1..64) rings, each x span {1,2,3,5,7,9,11} x max ring difference "
             "{0,(span-1)/2,(R-1)/2,R-1} + the GE mixed-span layout; such a configuration is non-trivial when a (segment, axial position) holds >= 2 ring pairs or a span-1 inverse was checked";
  ctx.assume("'pair' = DetectionPositionPair up to its own equality: (pos1,pos2,t) == (pos2,pos1,-t)");
  ctx.assume("pairs whose bin falls outside a trimmed tangential or TOF range are 'assigned to no bin of the data' (counted, not failures)");
  ctx.assume("'ring difference covered' is decided from get_min/max_ring_difference of the segments (reference Michelogram), sign convention ring2-ring1");
  ctx.assume("TOF data with an even mashing factor: only the spatial part is checked (get_all_det_pos_pairs_for_bin assert()s an odd factor)");
  ctx.assume("integer Michelogram reference: segment = the one whose [min,max] ring difference (as reported by the object = definition of the sampling) contains ring2-ring1; "
             "axial position = ((ring1+ring2-(R-1))*inc + min_axial_pos+max_axial_pos)/2 with inc=1 for a single ring difference and 2 otherwise, i.e. the axial positions of a segment "
             "are centred on the scanner (documented convention of ProjDataInfoCylindrical: get_m(min_axial_pos) == -get_m(max_axial_pos)); ring pairs for which this is not an integer "
             "or outside the axial range are skipped and counted");
  ctx.assume("axial trimming (set_min/max_axial_pos_num) is not part of the statement and is not enumerated");
  ctx.assume("predefined scanners with > 2e7 pair evaluations: ring pairs from {0,1,2,R-2,R-1}^2 and TOF from {min,-1,0,1,max}, all detector pairs; ring-pair check always complete");
  if (ctx.replaying()) { run_case(ctx, ctx.replay); return ctx.finish(); }
  const std::vector<std::string> cfgs = enumerate(ctx.thorough());
  ctx.maxi("configurations_enumerated", (long long)cfgs.size());
  for (auto& a : ctx.extra_args) if (a == "--list") { for (auto& s : cfgs) std::cout << s << "\n"; return 0; }
  uint64_t unit = 0;
  for (const std::string& cs : cfgs)
    {
      if (!ctx.mine(unit++)) continue;
      if (ctx.expired()) break;
      run_case(ctx, cs);
    }
  return ctx.finish();
}
