// C06 part b - every subset exactly once per full iteration, for every schedule (ASan flavour).
//
// The REAL IterativeReconstruction::reconstruct() loop is run through OSMAPOSLReconstruction with a harness-defined
// objective function (derived from PoissonLogLikelihoodWithLinearModelForMean) whose sensitivities/gradients are all 1
// and which RECORDS the subset number of every sub-iteration, for
//   ALL num_subsets n in 1..6 x start_subset 0..n-1 x start_subiteration_num k0 in 1..2n+1 x randomise_subset_order {0,1},
//   run until the end of the 3rd full iteration after the (possibly partial) first one.
// rand(), srand(), time() are defined HERE (the STIR libraries are linked statically, libc dynamically => these
// definitions are the ones STIR calls).  Each rand() call is a choice point; the tree of answers is explored depth-first,
// on demand (an execution that never calls rand() is one leaf).  Answers are enumerated per equivalence class of
//   index = (int)((float)rand()/(float)RAND_MAX * (n-i))            (IterativeReconstruction::randomly_permute_subset_order)
// i.e. the n-i values of index plus the rand()==RAND_MAX edge, see `policy` below for the bounds per n and tier.
//
// Every configuration is executed in a forked child (state shared through an anonymous shared mapping), so that a crash
// of the code under test (SEGV / ASan report) is turned into a violation by the parent and the enumeration continues.
// In replay mode the case is executed directly, so the process dies as the original did.
//
// Oracle: the recorded subsets are all in 0..n-1; one per sub-iteration k0..K; within every full iteration (sub-iterations
// m*n+1..(m+1)*n) every subset exactly once; the partial first iteration (k0 not at an iteration start) uses no subset twice;
// no crash, no ASan report.
//
// RE-USED OBJECTS (histories): ONE OSMAPOSLReconstruction object is driven through 2 (thorough: also 3) consecutive runs; between the
// runs the setters set_num_subsets / set_num_subiterations / set_start_subiteration_num / set_start_subset_num /
// set_randomise_subset_order are called (variant min=0: all of them, min=1: only those whose value changes) followed by set_up().
// Non-final runs end after one sub-iteration, at the end of the iteration they started in, or one sub-iteration into the next one;
// the next run starts at every position 1..n+1 of an iteration and at the sub-iteration after the last one of the previous run.
// rand() answers: every permutation of every draw of the non-final runs and of the first draw of the final run (other draws of the
// final run: identity).  Oracle per run: the one above, plus: the schedule of a run of the re-used object equals the schedule of a
// FRESHLY built object with the same settings that is given the same rand() answers (when the re-used object legitimately keeps a
// left-over permutation of 0..n-1 for a partial first iteration, the schedules are compared from the first full iteration on).
#include "vmc.h"
#include "stir_small.h"
#include "stir/OSMAPOSL/OSMAPOSLReconstruction.h"
#include "stir/recon_buildblock/PoissonLogLikelihoodWithLinearModelForMean.h"
#include "stir/DiscretisedDensity.h"
#include <sys/mman.h>
#include <sys/wait.h>
#include <csignal>
#include <ctime>

using namespace stir;
typedef DiscretisedDensity<3, float> Target;

// ------------------------------------------------------------------------------------------------ owned nondeterminism
struct Shared
{
  // choice sequence of the execution in progress
  int seq[64]; int seq_len; // answers prescribed (class indices), positions beyond seq_len answer class 0
  int consumed;             // rand() calls made so far by the execution in progress
  int nclasses_seen[64];    // number of classes the policy allows at each consumed choice point
  int cls[64];              // answer class actually given at each consumed choice point
  int srand_calls, time_calls;
  char current_case[512];
  char current_key[200];    // histories: crash key of the run in progress
  long long fresh_executions, fresh_rand_calls, compared_runs, kept_leftover_runs, reused_runs, reused_runs_n_changed, reused_runs_in_seed_region;
  // results accumulated by the child
  long long executions, rand_calls, edge_answers, order_hash_count, duplicates;
  long long viol_count; char viol_key[8][200]; char viol_case[8][512]; char viol_msg[8][600];
  unsigned long long orders[1024]; int n_orders; // distinct orders of a full iteration (encoded), vacuity guard
  int done;
  // resume point
  int resume_seq[64]; int resume_len; int have_resume;
};
static Shared* SH = nullptr;
static int SHcls(int q);
static int g_n = 1;           // num_subsets of the execution in progress
// enumeration policy (bounds), see main():
//   g_mask      bit d set: the d-th permutation draw (= d-th iteration that draws) is "free": all its answer classes are enumerated;
//               other draws use one fixed background answer per call (g_bg 0: class 0 => identity order; 1: last regular class)
//   g_perm_only free draws enumerate the n-i regular classes only, plus the RAND_MAX edge while fewer than g_edge_budget edges were used
//   g_slice     >=0: the first free choice point is restricted to this one class (splits a big tree into work units)
//   g_direct    replay: the prescribed sequence is a list of classes, used as is
static int g_mask = 15, g_bg = 0, g_edge_budget = 1 << 30, g_slice = -1;
static bool g_perm_only = false, g_direct = false;

// histories (re-used objects): g_hist set; g_base = number of rand() calls made before the run in progress; the first g_free_draws
// permutation draws of the run in progress enumerate all their permutations (n-i regular classes at call i), later draws answer class 0
static bool g_hist = false;
static int g_base = 0, g_free_draws = 0;
// fresh-object comparison run in progress: answers are read from g_fresh_ans (further calls: class 0), the choice tree is not touched
static bool g_fresh = false;
static std::vector<int> g_fresh_ans;
static int g_fresh_pos = 0;

static bool is_free(int j) { return (g_mask >> std::min(j / g_n, 30)) & 1; }
static int first_free_point() { for (int d = 0; d < 8; ++d) if ((g_mask >> d) & 1) return d * g_n; return -1; }
// number of answers allowed at choice point j, given the answers (indices) so far
static int nclasses_at(int j, const int* seq)
{
  if (g_direct) return 1;
  if (g_hist) return (j - g_base) / g_n < g_free_draws ? g_n - (j - g_base) % g_n : 1;
  const int i = j % g_n;
  const int regular = g_n - i; // index values 0..n-i-1 ; class `regular` is the RAND_MAX edge
  if (!is_free(j)) return 1;
  if (g_slice >= 0 && j == first_free_point()) return 1;
  if (g_perm_only)
    {
      int edges = 0;
      for (int q = 0; q < j; ++q) if (is_free(q) && SHcls(q) == g_n - q % g_n) ++edges;
      (void)seq;
      return edges < g_edge_budget ? regular + 1 : regular;
    }
  return regular + 1;
}
static int class_at(int j, int idx)
{
  if (g_direct) return idx;
  if (g_hist) return (j - g_base) / g_n < g_free_draws ? idx : 0;
  const int i = j % g_n;
  if (!is_free(j)) return g_bg ? g_n - i - 1 : 0;
  if (g_slice >= 0 && j == first_free_point()) return g_slice;
  return idx;
}

static int SHcls(int q) { return SH->cls[q]; }

extern "C" int rand(void) noexcept
{
  if (!SH) return 0;
  if (g_fresh)
    {
      const int pos = g_fresh_pos++;
      const int c = pos < (int)g_fresh_ans.size() ? g_fresh_ans[pos] : 0;
      const int regular = g_n - pos % g_n;
      SH->fresh_rand_calls++;
      if (c >= regular) return RAND_MAX;
      return (int)(((double)c + 0.5) / regular * (double)RAND_MAX);
    }
  const int j = SH->consumed;
  int idx = (j < SH->seq_len) ? SH->seq[j] : 0;
  if (j < 64) { SH->nclasses_seen[j] = nclasses_at(j, SH->seq); if (j >= SH->seq_len) SH->seq[j] = 0; }
  SH->consumed = j + 1;
  SH->rand_calls++;
  const int i = (j - g_base) % g_n, regular = g_n - i; // g_base is 0 except in histories
  const int c = class_at(j, idx);
  if (j < 64) SH->cls[j] = c;
  if (c >= regular) { SH->edge_answers++; return RAND_MAX; }
  // a value whose (float)r/(float)RAND_MAX*(n-i) lies in the middle of [c, c+1)
  return (int)(((double)c + 0.5) / regular * (double)RAND_MAX);
}
extern "C" void srand(unsigned) noexcept { if (SH) SH->srand_calls++; }
extern "C" time_t time(time_t* t) noexcept { if (SH) SH->time_calls++; if (t) *t = 1000000000; return 1000000000; }

// ------------------------------------------------------------------------------------------------ recording objective function
class RecordingObjective : public PoissonLogLikelihoodWithLinearModelForMean<Target>
{
public:
  std::vector<int> calls;
  shared_ptr<Target> templ;
  shared_ptr<ExamData> data;
  RecordingObjective(shared_ptr<Target> t, shared_ptr<ExamData> d) : templ(std::move(t)), data(std::move(d)) { this->set_defaults(); }
  std::string get_registered_name() const override { return "verif recording objective function"; }
  Target* construct_target_ptr() const override { return templ->get_empty_copy(); }
  int set_num_subsets(const int n) override { this->num_subsets = n; return n; }
  void set_input_data(const shared_ptr<ExamData>& d) override { data = d; }
  const ExamData& get_input_data() const override { return *data; }
  void set_additive_proj_data_sptr(const shared_ptr<ExamData>&) override {}
  void set_normalisation_sptr(const shared_ptr<BinNormalisation>&) override {}
  bool actual_subsets_are_approximately_balanced(std::string&) const override { return true; }
  double actual_compute_objective_function_without_penalty(const Target&, const int) override { return 0.; }
  void add_subset_sensitivity(Target& sensitivity, const int) const override { for (auto it = sensitivity.begin_all(); it != sensitivity.end_all(); ++it) *it += 1.F; }
  Succeeded set_up_before_sensitivity(shared_ptr<const Target> const&) override { return Succeeded::yes; }
  void actual_compute_subset_gradient_without_penalty(Target& gradient, const Target&, const int subset_num, const bool) override
  {
    calls.push_back(subset_num);
    if (subset_num < 0 || subset_num >= this->num_subsets) throw std::out_of_range("verif: subset number " + std::to_string(subset_num) + " out of range");
    gradient.fill(1.F);
  }
};

struct Run { int n = 1, ss = 0, k0 = 1, rnd = 0, K = 1; }; // K = num_subiterations
// a single run of a fresh object (runs empty: n, ss, k0, rnd; as before), or a history of runs of ONE object (n, ss, k0, rnd = those of the last run)
struct Case { int n = 1, ss = 0, k0 = 1, rnd = 0; std::vector<Run> runs; int minset = 0; };
static std::string run_str(const Run& u) { return vmc::str(u.n) + "." + vmc::str(u.ss) + "." + vmc::str(u.k0) + "." + vmc::str(u.rnd) + "." + vmc::str(u.K); }
// replay string: the answer CLASSES given to the successive rand() calls (further calls: class 0)
static std::string case_str(const Case& c, const std::vector<int>& classes)
{
  if (!c.runs.empty())
    { // hist=n.ss.k0.rnd.K/n.ss.k0.rnd.K;min=0|1 : runs of one object, setters between the runs (min=1: only those whose value changes)
      std::string h;
      for (size_t r = 0; r < c.runs.size(); ++r) h += (r ? "/" : "") + run_str(c.runs[r]);
      return "hist=" + h + ";min=" + vmc::str(c.minset) + ";cls=" + vmc::join(classes);
    }
  return "n=" + vmc::str(c.n) + ";ss=" + vmc::str(c.ss) + ";k0=" + vmc::str(c.k0) + ";rnd=" + vmc::str(c.rnd) + ";cls=" + vmc::join(classes);
}
static std::string crash_key(const Case& c)
{
  return "part=b;randomise=" + vmc::str(c.rnd) + ";start_mid_iteration=" + vmc::str((int)((c.k0 - 1) % c.n != 0));
}
static int last_subiter(const Case& c) { return ((c.k0 - 1 + c.n - 1) / c.n + 3) * c.n; }

static void add_violation(const std::string& key, const std::string& kase, const std::string& msg)
{
  const long long k = SH->viol_count++;
  if (k >= 8) return;
  snprintf(SH->viol_key[k], sizeof SH->viol_key[k], "%s", key.c_str());
  snprintf(SH->viol_case[k], sizeof SH->viol_case[k], "%s", kase.c_str());
  snprintf(SH->viol_msg[k], sizeof SH->viol_msg[k], "%s", msg.c_str());
}

// the oracle of one run (sub-iterations k0..K with n subsets) on the recorded subset numbers; returns true when a violation was recorded
static bool judge(const int n, const int k0, const int K, const std::vector<int>& calls, const bool threw, const std::string& what,
                  const std::string& kt, const std::string& kase, const bool record_orders)
{
  auto show = [&] { return "subsets used from sub-iteration " + vmc::str(k0) + ": " + vmc::join(calls, ' '); };
  for (int s : calls)
    if (s < 0 || s >= n) { add_violation("clause=subset_in_range" + kt, kase, "subset number " + vmc::str(s) + " outside 0.." + vmc::str(n - 1) + "; " + show()); return true; }
  if (threw) { add_violation("clause=no_error" + kt, kase, "the reconstruction loop failed: " + what.substr(0, 300)); return true; }
  if ((int)calls.size() != K - k0 + 1)
    { add_violation("clause=one_subset_per_subiteration" + kt, kase, vmc::str(calls.size()) + " gradient evaluations for sub-iterations " + vmc::str(k0) + ".." + vmc::str(K) + "; " + show()); return true; }
  for (int block = (k0 - 1) / n; block * n + 1 <= K; ++block)
    {
      std::vector<int> seen(n, 0);
      unsigned long long code = n; bool full = true;
      for (int k = block * n + 1; k <= (block + 1) * n; ++k)
        {
          if (k < k0 || k > K) { full = false; continue; } // (k > K only in histories: a run may end in the middle of an iteration)
          const int s = calls[k - k0];
          ++seen[s]; code = code * 8 + (unsigned long long)s;
        }
      for (int s = 0; s < n; ++s)
        {
          if (seen[s] > 1)
            { add_violation(std::string("clause=") + (full ? "each_subset_once_per_full_iteration" : "partial_iteration_no_repeat") + kt, kase, "subset " + vmc::str(s) + " used " + vmc::str(seen[s]) + " times in iteration " + vmc::str(block + 1) + "; " + show()); return true; }
          if (full && seen[s] == 0)
            { add_violation("clause=each_subset_once_per_full_iteration" + kt, kase, "subset " + vmc::str(s) + " not used in full iteration " + vmc::str(block + 1) + "; " + show()); return true; }
        }
      if (full && record_orders)
        {
          bool known = false;
          for (int q = 0; q < SH->n_orders; ++q) if (SH->orders[q] == code) { known = true; break; }
          if (!known && SH->n_orders < 1024) SH->orders[SH->n_orders++] = code;
        }
    }
  return false;
}

// one execution of the real reconstruct loop with the choice sequence in SH->seq
static void execute(vmc::Ctx& ctx, const Case& c)
{
  g_n = c.n;
  SH->consumed = 0;
  std::vector<int> planned_cls;
  for (int j = 0; j < SH->seq_len; ++j) planned_cls.push_back(class_at(j, SH->seq[j]));
  const std::string planned = case_str(c, planned_cls);
  snprintf(SH->current_case, sizeof SH->current_case, "%s", planned.c_str());
  ctx.current(crash_key(c), planned);
  const int K = last_subiter(c);
  // tiny geometry: the objective function ignores it, only the image type matters
  static shared_ptr<ProjDataInfo> pdi;
  static shared_ptr<Target> image;
  static shared_ptr<ExamData> data;
  if (!pdi)
    {
      pdi = small::make_pdi(small::cyl_scanner(8, 1), 1, 0);
      auto im = small::make_image(*pdi, 1, 3);
      shared_ptr<ExamInfo> ex(new ExamInfo); ex->imaging_modality = ImagingModality::PT; im->set_exam_info(*ex);
      image = im;
      data = small::make_projdata(pdi);
    }
  shared_ptr<RecordingObjective> obj(new RecordingObjective(image, data));
  OSMAPOSLReconstruction<Target> recon;
  recon.set_objective_function_sptr(obj);
  recon.set_num_subsets(c.n);
  recon.set_num_subiterations(K);
  recon.set_start_subiteration_num(c.k0);
  recon.set_start_subset_num(c.ss);
  recon.set_randomise_subset_order(c.rnd != 0);
  recon.set_save_interval(K);
  recon.set_disable_output(true);
  recon.set_output_filename_prefix(ctx.tmpdir + "/c06b");
  shared_ptr<Target> target(image->clone());
  std::fill(target->begin_all(), target->end_all(), 1.F);
  std::string what;
  const bool threw = small::throws([&] {
    if (recon.set_up(target) != Succeeded::yes) throw std::runtime_error("set_up returned Succeeded::no");
    if (recon.reconstruct(target) != Succeeded::yes) throw std::runtime_error("reconstruct returned Succeeded::no");
  }, &what);
  if (g_slice > 0 && SH->consumed <= first_free_point()) { SH->duplicates++; return; } // never reached the sliced choice point: same execution as in slice 0
  SH->executions++;
  const std::string kase = case_str(c, std::vector<int>(SH->cls, SH->cls + std::min(SH->consumed, 64)));
  const std::string kt = ";randomise=" + vmc::str(c.rnd) + ";start_mid_iteration=" + vmc::str((int)((c.k0 - 1) % c.n != 0));
  judge(c.n, c.k0, K, obj->calls, threw, what, kt, kase, true);
}

// ------------------------------------------------------------------------------------------------ histories: one object, several runs
struct Fixture
{
  shared_ptr<ProjDataInfo> pdi; shared_ptr<Target> image; shared_ptr<ExamData> data;
  Fixture()
  {
    pdi = small::make_pdi(small::cyl_scanner(8, 1), 1, 0);
    auto im = small::make_image(*pdi, 1, 3);
    shared_ptr<ExamInfo> ex(new ExamInfo); ex->imaging_modality = ImagingModality::PT; im->set_exam_info(*ex);
    image = im;
    data = small::make_projdata(pdi);
  }
};
static Fixture& fixture() { static Fixture f; return f; }

// the setters for run `u`; prev != nullptr: only the setters whose value differs from the previous run's are called
static void apply_settings(OSMAPOSLReconstruction<Target>& recon, const Run& u, const Run* prev)
{
  if (!prev || prev->n != u.n) recon.set_num_subsets(u.n);
  if (!prev || prev->K != u.K) recon.set_num_subiterations(u.K);
  if (!prev || prev->k0 != u.k0) recon.set_start_subiteration_num(u.k0);
  if (!prev || prev->ss != u.ss) recon.set_start_subset_num(u.ss); // (checks its argument against the current num_subsets: after set_num_subsets)
  if (!prev || prev->rnd != u.rnd) recon.set_randomise_subset_order(u.rnd != 0);
}
static bool set_up_and_run(OSMAPOSLReconstruction<Target>& recon, std::string& what)
{
  shared_ptr<Target> target(fixture().image->clone());
  std::fill(target->begin_all(), target->end_all(), 1.F);
  return small::throws([&] {
    if (recon.set_up(target) != Succeeded::yes) throw std::runtime_error("set_up returned Succeeded::no");
    if (recon.reconstruct(target) != Succeeded::yes) throw std::runtime_error("reconstruct returned Succeeded::no");
  }, &what);
}
static void basic_settings(vmc::Ctx& ctx, OSMAPOSLReconstruction<Target>& recon, const shared_ptr<RecordingObjective>& obj)
{
  recon.set_objective_function_sptr(obj);
  recon.set_save_interval(1); // (1 <= save_interval <= num_subiterations is demanded by set_up; nothing is written: output is disabled)
  recon.set_disable_output(true);
  recon.set_output_filename_prefix(ctx.tmpdir + "/c06b");
}
// a freshly built object with the settings of `u`, given the rand() answer classes `ans` (further calls: class 0)
static void fresh_run(vmc::Ctx& ctx, const Run& u, const std::vector<int>& ans, std::vector<int>& sched, int& consumed, bool& threw, std::string& what)
{
  const int save_n = g_n;
  g_n = u.n; g_fresh_ans = ans; g_fresh_pos = 0; g_fresh = true;
  {
    shared_ptr<RecordingObjective> obj(new RecordingObjective(fixture().image, fixture().data));
    OSMAPOSLReconstruction<Target> recon;
    basic_settings(ctx, recon, obj);
    apply_settings(recon, u, nullptr);
    threw = set_up_and_run(recon, what);
    sched = obj->calls;
  }
  g_fresh = false; consumed = g_fresh_pos; g_n = save_n;
  SH->fresh_executions++;
}
static std::string run_key(const Case& c, const size_t r)
{
  const Run& u = c.runs[r];
  std::string k = "randomise=" + vmc::str(u.rnd) + ";start_mid_iteration=" + vmc::str((int)((u.k0 - 1) % u.n != 0));
  if (r > 0) k += ";reused_object=1;num_subsets_changed=" + vmc::str((int)(u.n != c.runs[r - 1].n)); // run 0 is a run of a fresh object: same keys as the single runs
  return k;
}

// one execution of a history (the choice sequence is in SH->seq): all runs on ONE reconstruction object
static void execute_history(vmc::Ctx& ctx, const Case& c)
{
  SH->consumed = 0; g_base = 0; g_fresh = false;
  // (in histories the prescribed answers ARE the answer classes: non-free choice points only ever hold 0)
  const std::string planned = case_str(c, std::vector<int>(SH->seq, SH->seq + SH->seq_len));
  snprintf(SH->current_case, sizeof SH->current_case, "%s", planned.c_str());
  const size_t R = c.runs.size();
  shared_ptr<RecordingObjective> obj(new RecordingObjective(fixture().image, fixture().data));
  OSMAPOSLReconstruction<Target> recon;
  basic_settings(ctx, recon, obj);
  std::vector<std::vector<int>> sched(R), answers(R), leftover(R);
  std::vector<int> leftover_len(R, 0);
  std::string what;
  bool bad = false;
  size_t runs_done = 0;
  for (size_t r = 0; r < R && !bad; ++r)
    {
      const Run& u = c.runs[r];
      const std::string ck = "part=b;" + run_key(c, r);
      snprintf(SH->current_key, sizeof SH->current_key, "%s", ck.c_str());
      ctx.current(ck, planned);
      // canonical state read before the run: the permutation left over by the previous runs
      leftover_len[r] = recon._current_subset_array.get_length();
      for (int q = 0; q < leftover_len[r]; ++q) leftover[r].push_back(recon._current_subset_array[recon._current_subset_array.get_min_index() + q]);
      std::string swhat;
      const bool sthrew = small::throws([&] { apply_settings(recon, u, (r > 0 && c.minset) ? &c.runs[r - 1] : nullptr); }, &swhat);
      g_n = u.n; g_base = SH->consumed; g_free_draws = (r + 1 == R) ? 1 : 99;
      obj->calls.clear();
      const bool threw = sthrew ? true : set_up_and_run(recon, what);
      if (sthrew) what = "a setter failed: " + swhat;
      sched[r] = obj->calls;
      for (int j = g_base; j < std::min(SH->consumed, 64); ++j) answers[r].push_back(SH->cls[j]);
      const std::string kase = case_str(c, std::vector<int>(SH->cls, SH->cls + std::min(SH->consumed, 64)));
      bad = judge(u.n, u.k0, u.K, sched[r], threw, what, ";" + run_key(c, r), kase, false);
      ++runs_done;
      if (r > 0)
        {
          SH->reused_runs++;
          if (u.n != c.runs[r - 1].n) SH->reused_runs_n_changed++;
          if (u.n != c.runs[r - 1].n && u.rnd && (u.k0 - 1) % u.n != 0 && leftover_len[r] > 0) SH->reused_runs_in_seed_region++;
        }
    }
  SH->executions++;
  const std::string kase = case_str(c, std::vector<int>(SH->cls, SH->cls + std::min(SH->consumed, 64)));
  // every later run against a freshly built object with the same settings and the same rand() answers
  for (size_t r = 1; r < R && !bad; ++r)
    {
      const Run& u = c.runs[r];
      const std::string kt = ";" + run_key(c, r);
      std::vector<int> f; int fc = 0; bool fthrew = false; std::string fwhat;
      snprintf(SH->current_key, sizeof SH->current_key, "part=b;fresh_object_for_comparison=1;%s", run_key(c, r).c_str());
      fresh_run(ctx, u, answers[r], f, fc, fthrew, fwhat);
      SH->compared_runs++;
      auto both = [&](const std::vector<int>& fr) { return "run " + vmc::str(r + 1) + " (n=" + vmc::str(u.n) + ", start sub-iteration " + vmc::str(u.k0) + ") of the re-used object: " + vmc::join(sched[r], ' ') + " ; fresh object with the same settings and rand() answers: " + vmc::join(fr, ' '); };
      if (fthrew) { add_violation("clause=no_error" + kt + ";fresh_object_for_comparison=1", kase, "the fresh object failed: " + fwhat.substr(0, 300)); bad = true; break; }
      if (fc == (int)answers[r].size())
        {
          if (f != sched[r]) { add_violation("clause=reused_object_same_schedule_as_fresh_object" + kt, kase, both(f)); bad = true; }
          continue;
        }
      // the numbers of rand() calls differ.  Allowed by the property in one situation only: a randomised run that starts in the middle of an
      // iteration may use a LEFT-OVER permutation of 0..n-1 for the partial iteration instead of drawing one (the fresh object has to draw).
      bool leftover_valid = u.rnd && (u.k0 - 1) % u.n != 0 && leftover_len[r] == u.n && fc == (int)answers[r].size() + u.n;
      if (leftover_valid)
        {
          std::vector<int> seen(u.n, 0);
          for (int s : leftover[r]) if (s < 0 || s >= u.n || seen[s]++) leftover_valid = false;
        }
      if (!leftover_valid)
        {
          add_violation("clause=reused_object_same_schedule_as_fresh_object" + kt, kase,
                        "the re-used object made " + vmc::str(answers[r].size()) + " rand() calls, the fresh object " + vmc::str(fc) + " (permutation left over before the run: length "
                            + vmc::str(leftover_len[r]) + ": " + vmc::join(leftover[r], ' ') + "); " + both(f));
          bad = true; break;
        }
      SH->kept_leftover_runs++;
      // fresh object: an arbitrary first draw (identity), then the answers of the re-used object; equal from the first full iteration on
      std::vector<int> ans2(u.n, 0); ans2.insert(ans2.end(), answers[r].begin(), answers[r].end());
      std::vector<int> f2; int fc2 = 0;
      fresh_run(ctx, u, ans2, f2, fc2, fthrew, fwhat);
      const size_t off = (size_t)(((u.k0 - 1 + u.n - 1) / u.n) * u.n + 1 - u.k0);
      bool same = !fthrew && fc2 == (int)ans2.size() && f2.size() == sched[r].size();
      for (size_t q = off; same && q < f2.size(); ++q) same = f2[q] == sched[r][q];
      if (!same) { add_violation("clause=reused_object_same_schedule_as_fresh_object" + kt + ";kept_leftover_permutation=1", kase, both(f2)); bad = true; }
    }
  if (!bad)
    { // vacuity guard: distinct (schedules of all runs) of this configuration
      unsigned long long code = 1469598103934665603ULL;
      for (size_t r = 0; r < R; ++r) { for (int s : sched[r]) code = (code ^ (unsigned long long)(s + 1)) * 1099511628211ULL; code = (code ^ 255ULL) * 1099511628211ULL; }
      bool known = false;
      for (int q = 0; q < SH->n_orders; ++q) if (SH->orders[q] == code) { known = true; break; }
      if (!known && SH->n_orders < 1024) SH->orders[SH->n_orders++] = code;
    }
  (void)runs_done;
}

// advance SH->seq to the next choice sequence in DFS order, given how many choice points the last execution consumed.
// returns false when the tree is exhausted.
static bool next_sequence()
{
  int d = std::min(SH->consumed, 64);
  // positions >= d were not consumed: drop them
  while (d > 0)
    {
      const int j = d - 1;
      if (SH->seq[j] + 1 < SH->nclasses_seen[j]) { SH->seq[j]++; SH->seq_len = d; return true; }
      --d;
    }
  return false;
}

// child body: run the DFS of one configuration from the sequence in SH
static void run_tree(vmc::Ctx& ctx, const Case& c)
{
  for (;;)
    {
      if (c.runs.empty()) execute(ctx, c); else execute_history(ctx, c);
      if (!next_sequence()) break;
    }
  SH->done = 1;
}

static int g_crashes_seen = 0, g_reuse_samples = 0;
static void explore(vmc::Ctx& ctx, const Case& c, const std::string& poltag)
{
  memset(SH, 0, sizeof *SH);
  int crashes = 0;
  for (;;)
    {
      fflush(stdout); fflush(stderr);
      const std::string errfile = ctx.tmpdir + "/c06b_child_" + vmc::str((int)getpid()) + ".err";
      pid_t pid = fork();
      if (pid < 0) { perror("fork"); exit(2); }
      if (pid == 0)
        {
          int fd = ::open(errfile.c_str(), O_CREAT | O_WRONLY | O_TRUNC, 0644);
          if (fd >= 0) { dup2(fd, 2); dup2(fd, 1); close(fd); }
          // the first crash seen by this process is reported by ASan with a symbolised stack (0.5 s); afterwards plain signals are enough
          if (g_crashes_seen > 0) { signal(SIGSEGV, SIG_DFL); signal(SIGBUS, SIG_DFL); }
          run_tree(ctx, c);
          _exit(0);
        }
      int status = 0;
      while (waitpid(pid, &status, 0) < 0 && errno == EINTR) {}
      if (SH->done) break;
      // the child died while executing SH->current_case
      ++crashes;
      if (g_slice > 0 && SH->consumed <= first_free_point())
        { // same execution as in slice 0 of this configuration, reported there
          ctx.count("duplicate_prefix_executions");
          if (!next_sequence()) { SH->done = 1; break; }
          continue;
        }
      ++g_crashes_seen;
      std::string report;
      {
        std::ifstream f(errfile); std::string line; int kept = 0;
        while (std::getline(f, line) && kept < 5)
          if (line.find("ERROR: AddressSanitizer") != std::string::npos || line.find("    #") != std::string::npos || line.find("SUMMARY") != std::string::npos || line.find("of size") != std::string::npos)
            { report += line.substr(0, 220) + " | "; ++kept; }
      }
      const std::string how = WIFSIGNALED(status) ? ("signal " + vmc::str(WTERMSIG(status))) : ("exit code " + vmc::str(WEXITSTATUS(status)));
      fprintf(stderr, "child crashed (%s) in case %s\n%s\n", how.c_str(), SH->current_case, report.c_str());
      ctx.violation("crash;" + (c.runs.empty() ? crash_key(c) : std::string(SH->current_key)), SH->current_case, "the process died (" + how + ") while executing the reconstruction loop; " + report);
      ctx.count("crashed_executions");
      ctx.current("", "");
      if (!next_sequence()) { SH->done = 1; break; } // the crashed execution is a leaf of the choice tree
      if (crashes >= 20) { ctx.count("configurations_abandoned_after_20_crashes"); ctx.exhaustive = false; break; }
    }
  ::unlink((ctx.tmpdir + "/c06b_child_" + vmc::str((int)getpid()) + ".err").c_str());
  ctx.count("evaluations", SH->executions);
  ctx.count("duplicate_prefix_executions", SH->duplicates);
  ctx.count("rand_calls", SH->rand_calls);
  ctx.count("rand_edge_answers", SH->edge_answers);
  ctx.count("srand_calls", SH->srand_calls);
  if (c.rnd) ctx.count("evaluations_randomised", SH->executions);
  if ((c.k0 - 1) % c.n != 0) ctx.count("evaluations_start_mid_iteration", SH->executions);
  for (int q = 0; q < SH->n_orders; ++q) ctx.nontrivial(case_str(c, {}) + poltag + ";order=" + vmc::str(SH->orders[q]));
  ctx.maxi((c.runs.empty() ? "distinct_orders_in_a_configuration_n" : "distinct_schedules_in_a_reuse_history_last_n") + vmc::str(c.n), SH->n_orders);
  if (!c.runs.empty())
    {
      ctx.count("evaluations_reused_object", SH->executions);
      ctx.count("reuse_histories_" + vmc::str(c.runs.size()) + "_runs", SH->executions);
      ctx.count("reuse_configurations");
      ctx.count("reused_runs", SH->reused_runs);
      ctx.count("reused_runs_num_subsets_changed", SH->reused_runs_n_changed);
      ctx.count("reused_runs_randomised_mid_iteration_start_after_num_subsets_change_with_leftover_permutation", SH->reused_runs_in_seed_region);
      ctx.count("reused_runs_compared_with_fresh_object", SH->compared_runs);
      ctx.count("reused_runs_keeping_leftover_permutation_for_partial_iteration", SH->kept_leftover_runs);
      ctx.count("fresh_object_executions_for_comparison", SH->fresh_executions);
      ctx.count("fresh_object_rand_calls", SH->fresh_rand_calls);
      int nmax = 0; for (auto& u : c.runs) nmax = std::max(nmax, u.n);
      ctx.maxi("reuse_num_subsets_completed", nmax);
      ctx.maxi("reuse_runs_per_history", (long long)c.runs.size());
    }
  for (long long k = 0; k < std::min<long long>(SH->viol_count, 8); ++k) ctx.violation(SH->viol_key[k], SH->viol_case[k], SH->viol_msg[k]);
  if (SH->viol_count > 8) ctx.count("violating_cases", SH->viol_count - 8);
  if (!c.runs.empty())
    {
      if (SH->reused_runs_in_seed_region > 0 && SH->n_orders > 1 && ctx.samples.size() < 6 && g_reuse_samples++ < 2)
        ctx.sample("re-used object " + case_str(c, {}) + ": " + vmc::str(SH->executions) + " executions, " + vmc::str(SH->n_orders) + " distinct schedules, "
                   + vmc::str(SH->compared_runs) + " runs compared with a fresh object", 6);
    }
  else if (c.rnd && SH->n_orders > 1 && ctx.samples.size() < 4)
    ctx.sample("n=" + vmc::str(c.n) + " start_subset=" + vmc::str(c.ss) + " start_subiteration=" + vmc::str(c.k0) + " randomised " + poltag + ": " + vmc::str(SH->executions) + " executions, "
               + vmc::str(SH->n_orders) + " distinct subset orders of a full iteration, " + vmc::str(SH->rand_calls) + " rand() calls");
  if (c.runs.empty()) ctx.maxi("num_subsets_completed", c.n);
}

struct Policy { int mask, bg, perm_only, edge_budget, slice; };
static void set_policy(const Policy& p)
{
  g_mask = p.mask; g_bg = p.bg; g_perm_only = p.perm_only != 0; g_edge_budget = p.edge_budget; g_slice = p.slice; g_direct = false;
  g_hist = false; g_base = 0;
}
static void set_history_policy() { g_hist = true; g_slice = -1; g_direct = false; g_base = 0; g_mask = 15; g_bg = 0; g_perm_only = false; }
static Case parse_history(const std::string& h, const int minset)
{
  Case c; c.minset = minset;
  for (auto& rs : vmc::split(h, '/'))
    {
      auto v = vmc::ints(rs, '.');
      if (v.size() != 5) { fprintf(stderr, "bad history '%s'\n", h.c_str()); exit(2); }
      Run u; u.n = v[0]; u.ss = v[1]; u.k0 = v[2]; u.rnd = v[3]; u.K = v[4];
      c.runs.push_back(u);
    }
  c.n = c.runs.back().n; c.ss = c.runs.back().ss; c.k0 = c.runs.back().k0; c.rnd = c.runs.back().rnd;
  return c;
}
static std::string policy_str(const Policy& p)
{
  return "policy(free draws mask " + vmc::str(p.mask) + ", background " + vmc::str(p.bg) + (p.perm_only ? ", permutations + <=" + vmc::str(p.edge_budget) + " RAND_MAX edges" : ", all classes") + ", slice " + vmc::str(p.slice) + ")";
}

int main(int argc, char** argv)
{
  vmc::Ctx ctx(argc, argv, "C06");
  small::quiet();
  SH = (Shared*)mmap(nullptr, sizeof(Shared), PROT_READ | PROT_WRITE, MAP_SHARED | MAP_ANONYMOUS, -1, 0);
  if (SH == MAP_FAILED) { perror("mmap"); return 2; }
  memset(SH, 0, sizeof *SH);
  ctx.rule = "part b: one evaluation = one execution of the real IterativeReconstruction::reconstruct loop (OSMAPOSL + recording objective function) for one "
             "(num_subsets, start_subset, start_subiteration, randomise, sequence of rand() answer classes); non-trivial = distinct (configuration, enumeration policy, order of the subsets within a full iteration) observed. "
             "Re-used objects: one evaluation = one execution of a history of 2 or 3 consecutive runs of ONE reconstruction object (setters + set_up between the runs) for one sequence of rand() answer classes, "
             "every later run also executed on a freshly built object with the same settings and rand() answers; non-trivial = distinct (history, schedules of all its runs)";
  ctx.assume("rand()/srand()/time() are defined by the harness; a rand() answer is enumerated per class of index=(int)(rand()/RAND_MAX*(n-i)) plus the rand()==RAND_MAX edge");
  ctx.assume("bounds on the rand() answers: n<=3: every class at every call. n>=4: (i) one permutation draw at a time enumerates all (n+1)! answer sequences (incl. the RAND_MAX edge at "
             "every call) while the other draws return a fixed order (identity; thorough also 'always the last remaining'); (ii) n=4: all n! permutations of all iterations combined "
             "(key starts; thorough: start_subset 0); (iii) thorough n=5 (start_subset 0 and n-1): every pair of iterations, all permutations combined; n=6 (start_subset 0, starts 1 and n+1): adjacent pairs of iterations. "
             "key starts = start_subiteration in {1,2,n,n+1,2n+1}");
  ctx.assume("randomised runs: start_subset in {0,n-1} (quick) or all (thorough); start_subset is not read by the randomised code path");
  const bool th = ctx.thorough();
  if (ctx.replaying())
    {
      auto m = vmc::kv(ctx.replay);
      if (m.count("hist"))
        {
          Case c = parse_history(m["hist"], atoi(m["min"].c_str()));
          auto ans = vmc::ints(m["cls"]);
          set_history_policy(); g_direct = true;
          memset(SH, 0, sizeof *SH);
          SH->seq_len = std::min<int>(64, ans.size());
          for (int i = 0; i < SH->seq_len; ++i) SH->seq[i] = ans[i];
          execute_history(ctx, c); // directly, as below
          for (long long k = 0; k < std::min<long long>(SH->viol_count, 8); ++k) ctx.violation(SH->viol_key[k], SH->viol_case[k], SH->viol_msg[k]);
          return ctx.finish();
        }
      Case c; c.n = atoi(m["n"].c_str()); c.ss = atoi(m["ss"].c_str()); c.k0 = atoi(m["k0"].c_str()); c.rnd = atoi(m["rnd"].c_str());
      auto ans = vmc::ints(m["cls"]);
      g_direct = true;
      memset(SH, 0, sizeof *SH);
      SH->seq_len = std::min<int>(64, ans.size());
      for (int i = 0; i < SH->seq_len; ++i) SH->seq[i] = ans[i];
      execute(ctx, c); // directly: a crash kills this process, which is what the driver expects of a crash; replay
      for (long long k = 0; k < std::min<long long>(SH->viol_count, 8); ++k) ctx.violation(SH->viol_key[k], SH->viol_case[k], SH->viol_msg[k]);
      return ctx.finish();
    }
  const int inf = 1 << 30;
  uint64_t unit = 0;
  // ---------------------------------------------------------------------------------------------- re-used objects (histories of runs)
  // non-final runs: n, randomise, start_subset, start k0, last sub-iteration K in {k0, end of the iteration of k0, one sub-iteration more (n<=3)}
  auto nonfinal_runs = [&](const int n, const bool all_starts) {
    std::vector<Run> v;
    for (int rnd = 0; rnd < 2; ++rnd)
      for (int ss : { 0, n - 1 })
        {
          if (ss == 0 && n > 1 && rnd) continue; // randomised: start_subset n-1 only (not read by the randomised code path)
          for (int k0 = 1; k0 <= (all_starts ? n + 1 : std::min(2, n + 1)); ++k0)
            {
              const int E = ((k0 - 1) / n + 1) * n;
              std::vector<int> Ks = { k0, E };
              if (n <= 3) Ks.push_back(E + 1);
              std::sort(Ks.begin(), Ks.end()); Ks.erase(std::unique(Ks.begin(), Ks.end()), Ks.end());
              for (int K : Ks) { Run u; u.n = n; u.ss = ss; u.k0 = k0; u.rnd = rnd; u.K = K; v.push_back(u); }
            }
          if (n == 1) break; // 0 == n-1
        }
    return v;
  };
  // the final run after `prev`: every start 1..n+1 and the sub-iteration after the last one of `prev`; runs to the end of the 2nd full iteration after its start
  auto final_runs = [&](const int n, const Run& prev) {
    std::vector<Run> v;
    for (int rnd = 0; rnd < 2; ++rnd)
      for (int ss : { 0, n - 1 })
        {
          if (ss != 0 && rnd) continue; // randomised: start_subset 0 only
          std::vector<int> starts;
          for (int k0 = 1; k0 <= n + 1; ++k0) starts.push_back(k0);
          if (prev.K + 1 > n + 1) starts.push_back(prev.K + 1);
          for (int k0 : starts) { Run u; u.n = n; u.ss = ss; u.k0 = k0; u.rnd = rnd; u.K = ((k0 - 1 + n - 1) / n + 2) * n; v.push_back(u); }
          if (n == 1) break;
        }
    return v;
  };
  auto run_history = [&](const Case& c) -> bool {
    const uint64_t u = unit++;
    if (!ctx.mine(u)) return true;
    if (ctx.expired()) return false;
    set_history_policy();
    explore(ctx, c, "history");
    ctx.count("work_units");
    return true;
  };
  ctx.assume("re-used objects: histories of 2 runs with num_subsets 1..4 (thorough 1..5) and, thorough, of 3 runs with num_subsets 1..3; non-final runs start at sub-iteration 1 or 2 (thorough 2-run histories: 1..n+1) "
             "and end after one sub-iteration, at the end of that iteration or (n<=3) one sub-iteration later; the last run starts at 1..n+1 or right after the previous run and ends after its 2nd full iteration; "
             "rand(): all permutations (no RAND_MAX edge) of every draw of the non-final runs and of the first draw of the last run, identity for its later draws; "
             "randomised runs with one start_subset value; target image re-created for every run");
  // stage 0 (both tiers, BEFORE the single runs so that a deadline cannot cut it): 2-run histories, num_subsets 1..4, non-final runs starting at 1 or 2;
  // stage 1 (thorough, after the single runs): the remaining 2-run histories with num_subsets 1..5 and every start 1..n+1, and the 3-run histories
  auto histories = [&](const int stage) -> bool {
    const int NH2 = stage ? 5 : 4;
    for (int n1 = 1; n1 <= NH2; ++n1)
      for (const Run& r1 : nonfinal_runs(n1, stage != 0))
        for (int n2 = 1; n2 <= NH2; ++n2)
          for (const Run& r2 : final_runs(n2, r1))
            for (int minset = 0; minset < 2; ++minset)
              {
                if (stage && n1 <= 4 && n2 <= 4 && r1.k0 <= 2) continue; // done in stage 0
                Case c; c.runs = { r1, r2 }; c.minset = minset; c.n = r2.n; c.ss = r2.ss; c.k0 = r2.k0; c.rnd = r2.rnd;
                if (!run_history(c)) return false;
              }
    if (stage)
      for (int n1 = 1; n1 <= 3; ++n1)
        for (const Run& r1 : nonfinal_runs(n1, false))
          for (int n2 = 1; n2 <= 3; ++n2)
            for (Run r2 : nonfinal_runs(n2, false))
              for (int cont = 0; cont < 2; ++cont)
                {
                  if (cont) { if (r1.K + 1 <= 2) continue; const int len = r2.K - r2.k0; r2.k0 = r1.K + 1; r2.K = r2.k0 + len; } // the middle run continues where the first one ended
                  for (int n3 = 1; n3 <= 3; ++n3)
                    for (const Run& r3 : final_runs(n3, r2))
                      {
                        Case c; c.runs = { r1, r2, r3 }; c.minset = 0; c.n = r3.n; c.ss = r3.ss; c.k0 = r3.k0; c.rnd = r3.rnd;
                        if (!run_history(c)) return false;
                      }
                }
    return true;
  };
  if (!histories(0)) return ctx.finish();
  for (auto& x : ctx.extra_args) if (x == "--histories-only") { ctx.exhaustive = false; return ctx.finish(); } // (for timing the stage above on its own)
  for (int n = 1; n <= 6; ++n)
    for (int k0 = 1; k0 <= 2 * n + 1; ++k0)
      for (int rnd = 0; rnd < 2; ++rnd)
        for (int ss = 0; ss < n; ++ss)
          {
            if (rnd && !th && ss != 0 && ss != n - 1) continue;
            const bool key_start = k0 == 1 || k0 == 2 || k0 == n || k0 == n + 1 || k0 == 2 * n + 1; // the expensive policies are run for these starts only
            std::vector<Policy> pols;
            auto add = [&](int mask, int bg, int perm_only, int budget) {
              // big trees are split by the class given at the first free choice point
              const int nslices = perm_only && budget == 0 ? n : n + 1;
              for (int sl = 0; sl < nslices; ++sl) pols.push_back({ mask, bg, perm_only, budget, sl });
            };
            if (!rnd || n == 1) pols.push_back({ 15, 0, 0, inf, -1 });
            else if (n <= 3) add(15, 0, 0, inf);                      // every class at every rand() call
            else
              {
                // quick tier: the expensive policies for n >= 5 only at the key starts, and (n=4) the combined permutations at key starts
                for (int f = 0; f < 4; ++f)                             // one draw at a time: all (n+1)! answer sequences
                  for (int bg = 0; bg < (th ? 2 : 1); ++bg)
                    if (th || n == 4 || key_start) add(1 << f, bg, 0, inf);
                // (sizes: n=4 combined = 24^4 = 3.3e5 executions per start; n=5 one pair = 1.4e4; n=6 one pair = 5.2e5; ~1 ms each)
                if (n == 4 && key_start && (!th || ss == 0)) add(15, 0, 1, 0);   // all permutations of all iterations combined
                if (n == 5 && th && (ss == 0 || ss == n - 1))
                  for (int f1 = 0; f1 < 4; ++f1)
                    for (int f2 = f1 + 1; f2 < 4; ++f2) add((1 << f1) | (1 << f2), 0, 1, 0); // every pair of iterations: all permutations combined
                if (n == 6 && th && ss == 0 && (k0 == 1 || k0 == n + 1))
                  for (int f1 = 0; f1 < 2; ++f1) add((1 << f1) | (1 << (f1 + 1)), 0, 1, 0);    // adjacent pairs of iterations: all permutations combined
              }
            for (auto& p : pols)
              {
                const uint64_t u = unit++;
                if (!ctx.mine(u)) continue;
                if (ctx.expired()) return ctx.finish();
                set_policy(p);
                Case c; c.n = n; c.ss = ss; c.k0 = k0; c.rnd = rnd;
                explore(ctx, c, policy_str(p));
                ctx.count("work_units");
              }
          }
  if (th && !histories(1)) return ctx.finish();
  return ctx.finish();
}
