// C06 part b - every subset exactly once per full iteration, for every schedule (ASan flavour).
//
// The REAL IterativeReconstruction::reconstruct() loop is run through OSMAPOSLReconstruction with a harness-defined
// objective function (derived from PoissonLogLikelihoodWithLinearModelForMean) whose sensitivities/gradients are all 1
// and which RECORDS the subset number of every sub-iteration, for
//   ALL num_subsets n in 1..6 x start_subset 0..n-1 x start_subiteration_num k0 in 1..2n+1 x randomise_subset_order {0,1},
//   run until the end of the 3rd full iteration after the (possibly partial) first one.
// rand(), srand(), time() are defined HERE (the STIR libraries are linked statically, libc dynamically => these
// definitions are the ones STIR calls).  Each rand() call is a choice point; the tree of answers is explored depth-first,
// on demand (an execution that never calls rand() is one leaf).  Answers are enumerated per equivalence class of
//   index = (int)((float)rand()/(float)RAND_MAX * (n-i))            (IterativeReconstruction::randomly_permute_subset_order)
// i.e. the n-i values of index plus the rand()==RAND_MAX edge, see `policy` below for the bounds per n and tier.
//
// Every configuration is executed in a forked child (state shared through an anonymous shared mapping), so that a crash
// of the code under test (SEGV / ASan report) is turned into a violation by the parent and the enumeration continues.
// In replay mode the case is executed directly, so the process dies as the original did.
//
// Oracle: the recorded subsets are all in 0..n-1; one per sub-iteration k0..K; within every full iteration (sub-iterations
// m*n+1..(m+1)*n) every subset exactly once; the partial first iteration (k0 not at an iteration start) uses no subset twice;
// no crash, no ASan report.
#include "vmc.h"
#include "stir_small.h"
#include "stir/OSMAPOSL/OSMAPOSLReconstruction.h"
#include "stir/recon_buildblock/PoissonLogLikelihoodWithLinearModelForMean.h"
#include "stir/DiscretisedDensity.h"
#include <sys/mman.h>
#include <sys/wait.h>
#include <csignal>
#include <ctime>

using namespace stir;
typedef DiscretisedDensity<3, float> Target;

// ------------------------------------------------------------------------------------------------ owned nondeterminism
struct Shared
{
  // choice sequence of the execution in progress
  int seq[64]; int seq_len; // answers prescribed (class indices), positions beyond seq_len answer class 0
  int consumed;             // rand() calls made so far by the execution in progress
  int nclasses_seen[64];    // number of classes the policy allows at each consumed choice point
  int cls[64];              // answer class actually given at each consumed choice point
  int srand_calls, time_calls;
  char current_case[512];
  // results accumulated by the child
  long long executions, rand_calls, edge_answers, order_hash_count, duplicates;
  long long viol_count; char viol_key[8][200]; char viol_case[8][512]; char viol_msg[8][600];
  unsigned long long orders[1024]; int n_orders; // distinct orders of a full iteration (encoded), vacuity guard
  int done;
  // resume point
  int resume_seq[64]; int resume_len; int have_resume;
};
static Shared* SH = nullptr;
static int SHcls(int q);
static int g_n = 1;           // num_subsets of the execution in progress
// enumeration policy (bounds), see main():
//   g_mask      bit d set: the d-th permutation draw (= d-th iteration that draws) is "free": all its answer classes are enumerated;
//               other draws use one fixed background answer per call (g_bg 0: class 0 => identity order; 1: last regular class)
//   g_perm_only free draws enumerate the n-i regular classes only, plus the RAND_MAX edge while fewer than g_edge_budget edges were used
//   g_slice     >=0: the first free choice point is restricted to this one class (splits a big tree into work units)
//   g_direct    replay: the prescribed sequence is a list of classes, used as is
static int g_mask = 15, g_bg = 0, g_edge_budget = 1 << 30, g_slice = -1;
static bool g_perm_only = false, g_direct = false;

static bool is_free(int j) { return (g_mask >> std::min(j / g_n, 30)) & 1; }
static int first_free_point() { for (int d = 0; d < 8; ++d) if ((g_mask >> d) & 1) return d * g_n; return -1; }
// number of answers allowed at choice point j, given the answers (indices) so far
static int nclasses_at(int j, const int* seq)
{
  if (g_direct) return 1;
  const int i = j % g_n;
  const int regular = g_n - i; // index values 0..n-i-1 ; class `regular` is the RAND_MAX edge
  if (!is_free(j)) return 1;
  if (g_slice >= 0 && j == first_free_point()) return 1;
  if (g_perm_only)
    {
      int edges = 0;
      for (int q = 0; q < j; ++q) if (is_free(q) && SHcls(q) == g_n - q % g_n) ++edges;
      (void)seq;
      return edges < g_edge_budget ? regular + 1 : regular;
    }
  return regular + 1;
}
static int class_at(int j, int idx)
{
  if (g_direct) return idx;
  const int i = j % g_n;
  if (!is_free(j)) return g_bg ? g_n - i - 1 : 0;
  if (g_slice >= 0 && j == first_free_point()) return g_slice;
  return idx;
}

static int SHcls(int q) { return SH->cls[q]; }

extern "C" int rand(void) noexcept
{
  if (!SH) return 0;
  const int j = SH->consumed;
  int idx = (j < SH->seq_len) ? SH->seq[j] : 0;
  if (j < 64) { SH->nclasses_seen[j] = nclasses_at(j, SH->seq); if (j >= SH->seq_len) SH->seq[j] = 0; }
  SH->consumed = j + 1;
  SH->rand_calls++;
  const int i = j % g_n, regular = g_n - i;
  const int c = class_at(j, idx);
  if (j < 64) SH->cls[j] = c;
  if (c >= regular) { SH->edge_answers++; return RAND_MAX; }
  // a value whose (float)r/(float)RAND_MAX*(n-i) lies in the middle of [c, c+1)
  return (int)(((double)c + 0.5) / regular * (double)RAND_MAX);
}
extern "C" void srand(unsigned) noexcept { if (SH) SH->srand_calls++; }
extern "C" time_t time(time_t* t) noexcept { if (SH) SH->time_calls++; if (t) *t = 1000000000; return 1000000000; }

// ------------------------------------------------------------------------------------------------ recording objective function
class RecordingObjective : public PoissonLogLikelihoodWithLinearModelForMean<Target>
{
public:
  std::vector<int> calls;
  shared_ptr<Target> templ;
  shared_ptr<ExamData> data;
  RecordingObjective(shared_ptr<Target> t, shared_ptr<ExamData> d) : templ(std::move(t)), data(std::move(d)) { this->set_defaults(); }
  std::string get_registered_name() const override { return "verif recording objective function"; }
  Target* construct_target_ptr() const override { return templ->get_empty_copy(); }
  int set_num_subsets(const int n) override { this->num_subsets = n; return n; }
  void set_input_data(const shared_ptr<ExamData>& d) override { data = d; }
  const ExamData& get_input_data() const override { return *data; }
  void set_additive_proj_data_sptr(const shared_ptr<ExamData>&) override {}
  void set_normalisation_sptr(const shared_ptr<BinNormalisation>&) override {}
  bool actual_subsets_are_approximately_balanced(std::string&) const override { return true; }
  double actual_compute_objective_function_without_penalty(const Target&, const int) override { return 0.; }
  void add_subset_sensitivity(Target& sensitivity, const int) const override { for (auto it = sensitivity.begin_all(); it != sensitivity.end_all(); ++it) *it += 1.F; }
  Succeeded set_up_before_sensitivity(shared_ptr<const Target> const&) override { return Succeeded::yes; }
  void actual_compute_subset_gradient_without_penalty(Target& gradient, const Target&, const int subset_num, const bool) override
  {
    calls.push_back(subset_num);
    if (subset_num < 0 || subset_num >= this->num_subsets) throw std::out_of_range("verif: subset number " + std::to_string(subset_num) + " out of range");
    gradient.fill(1.F);
  }
};

struct Case { int n = 1, ss = 0, k0 = 1, rnd = 0; };
// replay string: the answer CLASSES given to the successive rand() calls (further calls: class 0)
static std::string case_str(const Case& c, const std::vector<int>& classes)
{
  return "n=" + vmc::str(c.n) + ";ss=" + vmc::str(c.ss) + ";k0=" + vmc::str(c.k0) + ";rnd=" + vmc::str(c.rnd) + ";cls=" + vmc::join(classes);
}
static std::string crash_key(const Case& c)
{
  return "part=b;randomise=" + vmc::str(c.rnd) + ";start_mid_iteration=" + vmc::str((int)((c.k0 - 1) % c.n != 0));
}
static int last_subiter(const Case& c) { return ((c.k0 - 1 + c.n - 1) / c.n + 3) * c.n; }

static void add_violation(const std::string& key, const std::string& kase, const std::string& msg)
{
  const long long k = SH->viol_count++;
  if (k >= 8) return;
  snprintf(SH->viol_key[k], sizeof SH->viol_key[k], "%s", key.c_str());
  snprintf(SH->viol_case[k], sizeof SH->viol_case[k], "%s", kase.c_str());
  snprintf(SH->viol_msg[k], sizeof SH->viol_msg[k], "%s", msg.c_str());
}

// one execution of the real reconstruct loop with the choice sequence in SH->seq
static void execute(vmc::Ctx& ctx, const Case& c)
{
  g_n = c.n;
  SH->consumed = 0;
  std::vector<int> planned_cls;
  for (int j = 0; j < SH->seq_len; ++j) planned_cls.push_back(class_at(j, SH->seq[j]));
  const std::string planned = case_str(c, planned_cls);
  snprintf(SH->current_case, sizeof SH->current_case, "%s", planned.c_str());
  ctx.current(crash_key(c), planned);
  const int K = last_subiter(c);
  // tiny geometry: the objective function ignores it, only the image type matters
  static shared_ptr<ProjDataInfo> pdi;
  static shared_ptr<Target> image;
  static shared_ptr<ExamData> data;
  if (!pdi)
    {
      pdi = small::make_pdi(small::cyl_scanner(8, 1), 1, 0);
      auto im = small::make_image(*pdi, 1, 3);
      shared_ptr<ExamInfo> ex(new ExamInfo); ex->imaging_modality = ImagingModality::PT; im->set_exam_info(*ex);
      image = im;
      data = small::make_projdata(pdi);
    }
  shared_ptr<RecordingObjective> obj(new RecordingObjective(image, data));
  OSMAPOSLReconstruction<Target> recon;
  recon.set_objective_function_sptr(obj);
  recon.set_num_subsets(c.n);
  recon.set_num_subiterations(K);
  recon.set_start_subiteration_num(c.k0);
  recon.set_start_subset_num(c.ss);
  recon.set_randomise_subset_order(c.rnd != 0);
  recon.set_save_interval(K);
  recon.set_disable_output(true);
  recon.set_output_filename_prefix(ctx.tmpdir + "/c06b");
  shared_ptr<Target> target(image->clone());
  std::fill(target->begin_all(), target->end_all(), 1.F);
  std::string what;
  const bool threw = small::throws([&] {
    if (recon.set_up(target) != Succeeded::yes) throw std::runtime_error("set_up returned Succeeded::no");
    if (recon.reconstruct(target) != Succeeded::yes) throw std::runtime_error("reconstruct returned Succeeded::no");
  }, &what);
  if (g_slice > 0 && SH->consumed <= first_free_point()) { SH->duplicates++; return; } // never reached the sliced choice point: same execution as in slice 0
  SH->executions++;
  const std::string kase = case_str(c, std::vector<int>(SH->cls, SH->cls + std::min(SH->consumed, 64)));
  const std::string kt = ";randomise=" + vmc::str(c.rnd) + ";start_mid_iteration=" + vmc::str((int)((c.k0 - 1) % c.n != 0));
  const std::vector<int>& calls = obj->calls;
  auto show = [&] { return "subsets used from sub-iteration " + vmc::str(c.k0) + ": " + vmc::join(calls, ' '); };
  for (int s : calls)
    if (s < 0 || s >= c.n) { add_violation("clause=subset_in_range" + kt, kase, "subset number " + vmc::str(s) + " outside 0.." + vmc::str(c.n - 1) + "; " + show()); return; }
  if (threw) { add_violation("clause=no_error" + kt, kase, "the reconstruction loop failed: " + what.substr(0, 300)); return; }
  if ((int)calls.size() != K - c.k0 + 1)
    { add_violation("clause=one_subset_per_subiteration" + kt, kase, vmc::str(calls.size()) + " gradient evaluations for sub-iterations " + vmc::str(c.k0) + ".." + vmc::str(K) + "; " + show()); return; }
  for (int block = (c.k0 - 1) / c.n; block * c.n + 1 <= K; ++block)
    {
      std::vector<int> seen(c.n, 0);
      unsigned long long code = c.n; bool full = true;
      for (int k = block * c.n + 1; k <= (block + 1) * c.n; ++k)
        {
          if (k < c.k0) { full = false; continue; }
          const int s = calls[k - c.k0];
          ++seen[s]; code = code * 8 + (unsigned long long)s;
        }
      for (int s = 0; s < c.n; ++s)
        {
          if (seen[s] > 1)
            { add_violation(std::string("clause=") + (full ? "each_subset_once_per_full_iteration" : "partial_iteration_no_repeat") + kt, kase, "subset " + vmc::str(s) + " used " + vmc::str(seen[s]) + " times in iteration " + vmc::str(block + 1) + "; " + show()); return; }
          if (full && seen[s] == 0)
            { add_violation("clause=each_subset_once_per_full_iteration" + kt, kase, "subset " + vmc::str(s) + " not used in full iteration " + vmc::str(block + 1) + "; " + show()); return; }
        }
      if (full)
        {
          bool known = false;
          for (int q = 0; q < SH->n_orders; ++q) if (SH->orders[q] == code) { known = true; break; }
          if (!known && SH->n_orders < 1024) SH->orders[SH->n_orders++] = code;
        }
    }
}

// advance SH->seq to the next choice sequence in DFS order, given how many choice points the last execution consumed.
// returns false when the tree is exhausted.
static bool next_sequence()
{
  int d = std::min(SH->consumed, 64);
  // positions >= d were not consumed: drop them
  while (d > 0)
    {
      const int j = d - 1;
      if (SH->seq[j] + 1 < SH->nclasses_seen[j]) { SH->seq[j]++; SH->seq_len = d; return true; }
      --d;
    }
  return false;
}

// child body: run the DFS of one configuration from the sequence in SH
static void run_tree(vmc::Ctx& ctx, const Case& c)
{
  for (;;)
    {
      execute(ctx, c);
      if (!next_sequence()) break;
    }
  SH->done = 1;
}

static int g_crashes_seen = 0;
static void explore(vmc::Ctx& ctx, const Case& c, const std::string& poltag)
{
  memset(SH, 0, sizeof *SH);
  int crashes = 0;
  for (;;)
    {
      fflush(stdout); fflush(stderr);
      const std::string errfile = ctx.tmpdir + "/c06b_child_" + vmc::str((int)getpid()) + ".err";
      pid_t pid = fork();
      if (pid < 0) { perror("fork"); exit(2); }
      if (pid == 0)
        {
          int fd = ::open(errfile.c_str(), O_CREAT | O_WRONLY | O_TRUNC, 0644);
          if (fd >= 0) { dup2(fd, 2); dup2(fd, 1); close(fd); }
          // the first crash seen by this process is reported by ASan with a symbolised stack (0.5 s); afterwards plain signals are enough
          if (g_crashes_seen > 0) { signal(SIGSEGV, SIG_DFL); signal(SIGBUS, SIG_DFL); }
          run_tree(ctx, c);
          _exit(0);
        }
      int status = 0;
      while (waitpid(pid, &status, 0) < 0 && errno == EINTR) {}
      if (SH->done) break;
      // the child died while executing SH->current_case
      ++crashes;
      if (g_slice > 0 && SH->consumed <= first_free_point())
        { // same execution as in slice 0 of this configuration, reported there
          ctx.count("duplicate_prefix_executions");
          if (!next_sequence()) { SH->done = 1; break; }
          continue;
        }
      ++g_crashes_seen;
      std::string report;
      {
        std::ifstream f(errfile); std::string line; int kept = 0;
        while (std::getline(f, line) && kept < 5)
          if (line.find("ERROR: AddressSanitizer") != std::string::npos || line.find("    #") != std::string::npos || line.find("SUMMARY") != std::string::npos || line.find("of size") != std::string::npos)
            { report += line.substr(0, 220) + " | "; ++kept; }
      }
      const std::string how = WIFSIGNALED(status) ? ("signal " + vmc::str(WTERMSIG(status))) : ("exit code " + vmc::str(WEXITSTATUS(status)));
      fprintf(stderr, "child crashed (%s) in case %s\n%s\n", how.c_str(), SH->current_case, report.c_str());
      ctx.violation("crash;" + crash_key(c), SH->current_case, "the process died (" + how + ") while executing the reconstruction loop; " + report);
      ctx.count("crashed_executions");
      ctx.current("", "");
      if (!next_sequence()) { SH->done = 1; break; } // the crashed execution is a leaf of the choice tree
      if (crashes >= 20) { ctx.count("configurations_abandoned_after_20_crashes"); ctx.exhaustive = false; break; }
    }
  ::unlink((ctx.tmpdir + "/c06b_child_" + vmc::str((int)getpid()) + ".err").c_str());
  ctx.count("evaluations", SH->executions);
  ctx.count("duplicate_prefix_executions", SH->duplicates);
  ctx.count("rand_calls", SH->rand_calls);
  ctx.count("rand_edge_answers", SH->edge_answers);
  ctx.count("srand_calls", SH->srand_calls);
  if (c.rnd) ctx.count("evaluations_randomised", SH->executions);
  if ((c.k0 - 1) % c.n != 0) ctx.count("evaluations_start_mid_iteration", SH->executions);
  for (int q = 0; q < SH->n_orders; ++q) ctx.nontrivial(case_str(c, {}) + poltag + ";order=" + vmc::str(SH->orders[q]));
  ctx.maxi("distinct_orders_in_a_configuration_n" + vmc::str(c.n), SH->n_orders);
  for (long long k = 0; k < std::min<long long>(SH->viol_count, 8); ++k) ctx.violation(SH->viol_key[k], SH->viol_case[k], SH->viol_msg[k]);
  if (SH->viol_count > 8) ctx.count("violating_cases", SH->viol_count - 8);
  if (c.rnd && SH->n_orders > 1 && ctx.samples.size() < 4)
    ctx.sample("n=" + vmc::str(c.n) + " start_subset=" + vmc::str(c.ss) + " start_subiteration=" + vmc::str(c.k0) + " randomised " + poltag + ": " + vmc::str(SH->executions) + " executions, "
               + vmc::str(SH->n_orders) + " distinct subset orders of a full iteration, " + vmc::str(SH->rand_calls) + " rand() calls");
  ctx.maxi("num_subsets_completed", c.n);
}

struct Policy { int mask, bg, perm_only, edge_budget, slice; };
static void set_policy(const Policy& p)
{
  g_mask = p.mask; g_bg = p.bg; g_perm_only = p.perm_only != 0; g_edge_budget = p.edge_budget; g_slice = p.slice; g_direct = false;
}
static std::string policy_str(const Policy& p)
{
  return "policy(free draws mask " + vmc::str(p.mask) + ", background " + vmc::str(p.bg) + (p.perm_only ? ", permutations + <=" + vmc::str(p.edge_budget) + " RAND_MAX edges" : ", all classes") + ", slice " + vmc::str(p.slice) + ")";
}

int main(int argc, char** argv)
{
  vmc::Ctx ctx(argc, argv, "C06");
  small::quiet();
  SH = (Shared*)mmap(nullptr, sizeof(Shared), PROT_READ | PROT_WRITE, MAP_SHARED | MAP_ANONYMOUS, -1, 0);
  if (SH == MAP_FAILED) { perror("mmap"); return 2; }
  memset(SH, 0, sizeof *SH);
  ctx.rule = "part b: one evaluation = one execution of the real IterativeReconstruction::reconstruct loop (OSMAPOSL + recording objective function) for one "
             "(num_subsets, start_subset, start_subiteration, randomise, sequence of rand() answer classes); non-trivial = distinct (configuration, enumeration policy, order of the subsets within a full iteration) observed";
  ctx.assume("rand()/srand()/time() are defined by the harness; a rand() answer is enumerated per class of index=(int)(rand()/RAND_MAX*(n-i)) plus the rand()==RAND_MAX edge");
  ctx.assume("bounds on the rand() answers: n<=3: every class at every call. n>=4: (i) one permutation draw at a time enumerates all (n+1)! answer sequences (incl. the RAND_MAX edge at "
             "every call) while the other draws return a fixed order (identity; thorough also 'always the last remaining'); (ii) n=4: all n! permutations of all iterations combined "
             "(key starts; thorough: start_subset 0); (iii) thorough n=5 (start_subset 0 and n-1): every pair of iterations, all permutations combined; n=6 (start_subset 0, starts 1 and n+1): adjacent pairs of iterations. "
             "key starts = start_subiteration in {1,2,n,n+1,2n+1}");
  ctx.assume("randomised runs: start_subset in {0,n-1} (quick) or all (thorough); start_subset is not read by the randomised code path");
  const bool th = ctx.thorough();
  if (ctx.replaying())
    {
      auto m = vmc::kv(ctx.replay);
      Case c; c.n = atoi(m["n"].c_str()); c.ss = atoi(m["ss"].c_str()); c.k0 = atoi(m["k0"].c_str()); c.rnd = atoi(m["rnd"].c_str());
      auto ans = vmc::ints(m["cls"]);
      g_direct = true;
      memset(SH, 0, sizeof *SH);
      SH->seq_len = std::min<int>(64, ans.size());
      for (int i = 0; i < SH->seq_len; ++i) SH->seq[i] = ans[i];
      execute(ctx, c); // directly: a crash kills this process, which is what the driver expects of a crash; replay
      for (long long k = 0; k < std::min<long long>(SH->viol_count, 8); ++k) ctx.violation(SH->viol_key[k], SH->viol_case[k], SH->viol_msg[k]);
      return ctx.finish();
    }
  const int inf = 1 << 30;
  uint64_t unit = 0;
  for (int n = 1; n <= 6; ++n)
    for (int k0 = 1; k0 <= 2 * n + 1; ++k0)
      for (int rnd = 0; rnd < 2; ++rnd)
        for (int ss = 0; ss < n; ++ss)
          {
            if (rnd && !th && ss != 0 && ss != n - 1) continue;
            const bool key_start = k0 == 1 || k0 == 2 || k0 == n || k0 == n + 1 || k0 == 2 * n + 1; // the expensive policies are run for these starts only
            std::vector<Policy> pols;
            auto add = [&](int mask, int bg, int perm_only, int budget) {
              // big trees are split by the class given at the first free choice point
              const int nslices = perm_only && budget == 0 ? n : n + 1;
              for (int sl = 0; sl < nslices; ++sl) pols.push_back({ mask, bg, perm_only, budget, sl });
            };
            if (!rnd || n == 1) pols.push_back({ 15, 0, 0, inf, -1 });
            else if (n <= 3) add(15, 0, 0, inf);                      // every class at every rand() call
            else
              {
                // quick tier: the expensive policies for n >= 5 only at the key starts, and (n=4) the combined permutations at key starts
                for (int f = 0; f < 4; ++f)                             // one draw at a time: all (n+1)! answer sequences
                  for (int bg = 0; bg < (th ? 2 : 1); ++bg)
                    if (th || n == 4 || key_start) add(1 << f, bg, 0, inf);
                // (sizes: n=4 combined = 24^4 = 3.3e5 executions per start; n=5 one pair = 1.4e4; n=6 one pair = 5.2e5; ~1 ms each)
                if (n == 4 && key_start && (!th || ss == 0)) add(15, 0, 1, 0);   // all permutations of all iterations combined
                if (n == 5 && th && (ss == 0 || ss == n - 1))
                  for (int f1 = 0; f1 < 4; ++f1)
                    for (int f2 = f1 + 1; f2 < 4; ++f2) add((1 << f1) | (1 << f2), 0, 1, 0); // every pair of iterations: all permutations combined
                if (n == 6 && th && ss == 0 && (k0 == 1 || k0 == n + 1))
                  for (int f1 = 0; f1 < 2; ++f1) add((1 << f1) | (1 << (f1 + 1)), 0, 1, 0);    // adjacent pairs of iterations: all permutations combined
              }
            for (auto& p : pols)
              {
                const uint64_t u = unit++;
                if (!ctx.mine(u)) continue;
                if (ctx.expired()) return ctx.finish();
                set_policy(p);
                Case c; c.n = n; c.ss = ss; c.k0 = k0; c.rnd = rnd;
                explore(ctx, c, policy_str(p));
                ctx.count("work_units");
              }
          }
  return ctx.finish();
}
