// C12 - bin coordinates, lines of response and detector positions agree.
//
// Shape E (exhaustive configuration x input enumeration) on the real ProjDataInfoCylindricalNoArcCorr,
// ProjDataInfoCylindricalArcCorr, ProjDataInfoBlocksOnCylindricalNoArcCorr, ProjDataInfoGenericNoArcCorr and ArcCorrection.
//
// Work units (one case string each):
//   what=coords  : one (scanner, sampling) configuration; ALL bins (a stated subset of sinograms for predefined scanners with
//                  > 5e5 bins).  Clauses, one by one:
//      roundtrip : get_bin(get_LOR(b)) (LOR as reported, and the same LOR as two points): arc-corrected => the same bin;
//                  detector based => same segment and TOF bin, view / axial / tangential position at most one step away, with the
//                  sign reversal of segment, tangential position and TOF bin when stepping between last and first view; "misses
//                  the scanner" only for axially compressed bins whose ring-pair set is clipped by the end of the scanner.
//      coords    : get_s/get_m/get_tantheta/get_phi against the straight line through the detector positions, averaged over
//                  get_all_det_pos_pairs_for_bin (reference: rc::line_of, double).  Cylindrical scanners: positions from the
//                  scanner's radius / ring spacing / number of detectors (cross-checked against
//                  find_cartesian_coordinates_of_detection); blocks / generic: positions from Scanner::get_coordinate_for_det_pos.
//                  Arc-corrected data: the chord at offset t*sampling between the rings of get_all_ring_pairs_..., azimuthal angle of
//                  the detector pairs of the central tangential position of the same data without arc correction.
//      symmetry  : s antisymmetric and strictly increasing in the tangential position, m increasing in the axial position, phi in
//                  the view, tan(theta) in the segment and opposite in opposite segments.
//      tof       : get_k antisymmetric and increasing, TOF bin boundaries ordered, contiguous and symmetric, the centre of a TOF
//                  bin maps back to that bin.
//      uniform   : arc-corrected data: s(t+1)-s(t) == tangential sampling for all t.
//   what=arccorr : one (scanner, tangential size, output size, output sampling): ArcCorrection on ALL unit rows, constant rows and
//                  a ramp: constant -> constant on output bins inside the input range, integral over the tangential coordinate
//                  preserved for every unit row whose bin lies inside the output range (=> for all rows, by linearity, which is
//                  checked on constant and ramp).
//   what=coords with der=<mode> : the SAME clauses on a DERIVED object of that configuration, i.e. an object that was not constructed
//                  with its sampling but obtained from an already USED object (warm-up queries build every lazily built table of the
//                  base object): der=1 clone() + set_num_views (+ set_azimuthal_angle_offset, as SSRB does) / set_num_tangential_poss /
//                  reduce_segment_range / set_tof_mash_factor; der=2 SSRB(base, 1, views to combine, tangential positions to trim,
//                  max segment, TOF bins to combine); der=3 the setters on the used object itself; der=4 SSRB combining segments of
//                  span-1 data.  The base sampling (bvm view mashing, bnt tangential positions, btm TOF mashing) is finer OR coarser
//                  than the target.  Extra clause
//      derived_as_fresh : a derived object that compares equal (operator==, both ways) to the freshly constructed object of the
//                  configuration gives the same coordinates (tolerance), the same detector pairs for every bin and the same bin
//                  for EVERY detector pair (exactly).
//   what=coords with der=5;gs=<setter> : GEOMETRY SETTERS on a clone of a used object of the configuration itself (warm-up queries first):
//                  gs=1 set_ring_spacing(1.5x); gs=5 (arc-corrected) set_azimuthal_angle_offset(+ a quarter view step); gs=6 (arc-corrected)
//                  set_tangential_sampling(0.75x): the object's geometry is no longer that of any freshly constructible configuration, the
//                  oracle is SELF-CONSISTENCY with the object's OWN sampling: all clauses above with the reference geometry built from the
//                  object's own ring spacing / azimuthal offset / tangential sampling (detector positions scaled axially about the scanner
//                  centre), plus clause selfconsistent: get_LOR(b) is the line (get_s, get_m, get_tantheta, get_phi)(b), and every detector
//                  pair of get_all_det_pos_pairs_for_bin(b) maps back to b through get_bin_for_det_pos_pair.
//                  gs=2 set_ring_spacing(1.5x), use, set back; gs=3 set_min/max_ring_difference of the outer segments (narrowed if compressed,
//                  else widened), use, set back; gs=4 set_azimuthal_angle_sampling(1.5x) + set_azimuthal_angle_offset(+0.3), use, set back;
//                  gs=7 (arc-corrected) set_tangential_sampling(1.5x), use, set back; gs=8 set_num_axial_poss_per_segment(n-1), use, set back
//                  with set_min/max_axial_pos_num: the object equals the fresh one again => all clauses + derived_as_fresh.
#include "ref_pdi.h"
#include "ref_coords.h"
#include "stir/LORCoordinates.h"
#include "stir/ArcCorrection.h"
#include "stir/Sinogram.h"
#include "stir/SSRB.h"
#include <algorithm>
#include <array>
#include <typeinfo>
#include <filesystem>

using namespace stir;
using rpdi::Cfg;
typedef DetectionPositionPair<> DPP;
typedef LORInAxialAndNoArcCorrSinogramCoordinates<float> SinoLOR;

static const double EPSF = 1.2e-7;
// private directory of this process for the crystal-map files (the shards of one run share ctx.tmpdir)
static std::string g_tmp;

// how a DERIVED object is obtained (mode 0: freshly constructed).  Case-string keys der, bvm, bnt, btm, warm.
struct Der
{
  int mode = 0; // 1 clone + setters, 2 SSRB (views / tangential positions / segment range / TOF bins), 3 setters on the used object itself, 4 SSRB combining segments
  int bvm = 1;  // view mashing factor of the base object
  int bnt = 0;  // number of tangential positions of the base object (0: the scanner's default = maximum)
  int btm = 0;  // TOF mashing factor of the base object (0: non-TOF)
  int warm = 1; // 1: the base object is used (all kinds of queries) before the derivation
  int gs = 0;   // mode 5: which geometry setter(s) are applied to the clone of the used object
  bool own_spacing() const { return mode == 5 && gs == 1; }
  bool own_phi_offset() const { return mode == 5 && gs == 5; }
  bool modified_geometry() const { return mode == 5 && (gs == 1 || gs == 5 || gs == 6); }
  const char* setter() const
  {
    switch (gs)
      {
      case 1: return "set_ring_spacing";
      case 2: return "set_ring_spacing_and_back";
      case 3: return "set_min_max_ring_difference_and_back";
      case 4: return "set_azimuthal_angle_sampling_offset_and_back";
      case 5: return "set_azimuthal_angle_offset";
      case 6: return "set_tangential_sampling";
      case 7: return "set_tangential_sampling_and_back";
      case 8: return "set_num_axial_poss_per_segment_and_back";
      default: return "none";
      }
  }
  const char* name() const
  {
    switch (mode) { case 5: return "clone_geometry_setters"; case 1: return "clone_setters"; case 2: return "ssrb"; case 3: return "inplace_setters"; case 4: return "ssrb_segments"; default: return "none"; }
  }
  std::string str() const
  {
    return ";der=" + std::to_string(mode) + ";bvm=" + std::to_string(bvm) + ";bnt=" + std::to_string(bnt) + ";btm=" + std::to_string(btm) + ";warm=" + std::to_string(warm)
           + (mode == 5 ? ";gs=" + std::to_string(gs) : std::string());
  }
  static Der parse(const std::string& s)
  {
    auto m = vmc::kv(s);
    Der d;
    auto gi = [&](const char* k, int dflt) { auto it = m.find(k); return it == m.end() ? dflt : atoi(it->second.c_str()); };
    d.mode = gi("der", 0); d.bvm = gi("bvm", 1); d.bnt = gi("bnt", 0); d.btm = gi("btm", 0); d.warm = gi("warm", 1); d.gs = gi("gs", 0);
    return d;
  }
};

struct Run
{
  vmc::Ctx& ctx;
  Cfg c;
  Der d;
  std::string cs, keybase;
  int nviol = 0;
  Run(vmc::Ctx& x, const std::string& s) : ctx(x), c(Cfg::parse(s)), d(Der::parse(s)), cs(s) { c.hist = 0; }
  bool too_many() const { return nviol > 40; }
  void viol(const std::string& clause, const std::string& what, const std::string& msg)
  {
    ++nviol;
    ctx.violation("clause=" + clause + ";" + keybase + ";what=" + what, cs, msg);
  }
};

static std::string fstr(double v) { std::ostringstream o; o.precision(9); o << v; return o.str(); }

// ------------------------------------------------------------------------------------------------ geometry of one configuration
struct Geo
{
  shared_ptr<Scanner> sc;
  shared_ptr<ProjDataInfo> pdi;
  shared_ptr<ProjDataInfo> fresh; // derived configurations: the freshly constructed object of the same configuration
  const ProjDataInfoCylindrical* cyl = nullptr;
  const ProjDataInfoCylindricalNoArcCorr* na = nullptr;
  const ProjDataInfoCylindricalArcCorr* ac = nullptr;
  const ProjDataInfoGenericNoArcCorr* ge = nullptr;
  int D = 0, Rn = 0, V = 0, vm = 1;
  double reff = 0, spacing = 0, psi0 = 0, scale = 1;
  std::vector<rc::P3> pos; // [r*D+d], z = 0 in the middle of the scanner for cylindrical scanners, map coordinates otherwise
  std::vector<double> phi_centre; // arc-corrected: azimuthal angle of the detector pairs of (view, tangential position 0)
  const rc::P3& P(int d, int r) const { return pos[(size_t)r * D + d]; }
  double tol_len() const { return 500 * EPSF * scale; }
  double tol_phi() const { return 500 * EPSF * M_PI; }
};

struct Ref
{
  double s = 0, m = 0, tth = 0, dphi = 0, tth_lo = 0, tth_hi = 0;
  int npairs = 0;
  bool complete = true, sym_range = true;
};

// average line of the detector pairs of a (non-arc-corrected / generic) bin, oriented near phi_near
static bool ref_from_pairs(const Geo& g, const std::vector<DPP>& dps, double phi_near, Ref& r)
{
  r = Ref();
  double lo = 1e300, hi = -1e300;
  for (const DPP& e : dps)
    {
      const int d1 = e.pos1().tangential_coord(), r1 = e.pos1().axial_coord(), d2 = e.pos2().tangential_coord(), r2 = e.pos2().axial_coord();
      if (d1 < 0 || d1 >= g.D || d2 < 0 || d2 >= g.D || r1 < 0 || r1 >= g.Rn || r2 < 0 || r2 >= g.Rn || d1 == d2) return false;
      double dphi;
      const rc::Line l = rc::oriented_near(rc::line_of(g.P(d1, r1), g.P(d2, r2)), phi_near, &dphi);
      r.s += l.s; r.m += l.m; r.tth += l.tantheta; r.dphi += dphi;
      lo = std::min(lo, l.tantheta); hi = std::max(hi, l.tantheta);
      ++r.npairs;
    }
  if (!r.npairs) return false;
  r.s /= r.npairs; r.m /= r.npairs; r.tth /= r.npairs; r.dphi /= r.npairs;
  r.tth_lo = lo; r.tth_hi = hi;
  return true;
}

// is the set of ring pairs of (segment, axial position) everything the segment's ring differences allow (not clipped by the scanner ends)?
static void ring_set_info(const ProjDataInfoCylindrical& p, int seg, int ax, bool& complete, bool& sym_range, int& npairs)
{
  const ProjDataInfoCylindrical::RingNumPairs& rp = p.get_all_ring_pairs_for_segment_axial_pos_num(seg, ax);
  const int mn = p.get_min_ring_difference(seg), mx = p.get_max_ring_difference(seg);
  npairs = (int)rp.size();
  sym_range = true;
  if (rp.empty()) { complete = false; return; }
  const int S = rp[0].first + rp[0].second;
  int expected = 0;
  long sum = 0;
  for (int rd = mn; rd <= mx; ++rd) if (((rd - S) % 2) == 0) { ++expected; sum += rd; }
  complete = expected == npairs;
  // is the mean of the contributing ring differences the mid-point of the range? (not so for an even number of ring differences)
  sym_range = expected > 0 && 2 * sum == (long)expected * (mn + mx);
}

// ------------------------------------------------------------------------------------------------ derived objects
// use an object: one query of every kind, so that every lazily built table exists (errors, e.g. coordinates of compressed generic data, ignored)
static void warm_up(const ProjDataInfo& p, const Scanner& sc)
{
  const int D = sc.get_num_detectors_per_ring();
  const Bin b(0, 0, p.get_min_axial_pos_num(0), 0, 0, 1.F);
  auto quietly = [](auto&& f) { try { f(); } catch (...) {} };
  quietly([&] { (void)p.get_s(b); (void)p.get_m(b); (void)p.get_tantheta(b); (void)p.get_phi(b); (void)p.get_k(b); (void)p.get_sampling_in_m(b); });
  quietly([&] { SinoLOR lor; p.get_LOR(lor, b); (void)p.get_bin(lor, 0.); });
  quietly([&] { SinoLOR lor; p.get_LOR(lor, b); LORAs2Points<float> l2; if (lor.get_intersections_with_cylinder(l2, lor.radius()) == Succeeded::yes) (void)p.get_bin(l2, 0.); });
  const DPP dp(DetectionPosition<>(0, 0, 0), DetectionPosition<>(D / 2, 0, 0));
  std::vector<DPP> v;
  Bin nb;
  CartesianCoordinate3D<float> c1, c2;
  if (auto* cyl = dynamic_cast<const ProjDataInfoCylindrical*>(&p))
    {
      quietly([&] { (void)cyl->get_all_ring_pairs_for_segment_axial_pos_num(0, p.get_min_axial_pos_num(0)); });
      quietly([&] { int s = 0, a = 0; (void)cyl->get_segment_axial_pos_num_for_ring_pair(s, a, 0, 0); });
    }
  if (auto* na = dynamic_cast<const ProjDataInfoCylindricalNoArcCorr*>(&p))
    {
      quietly([&] { (void)na->get_bin_for_det_pos_pair(nb, dp); });
      quietly([&] { na->get_all_det_pos_pairs_for_bin(v, b, true); });
      quietly([&] { na->find_cartesian_coordinates_of_detection(c1, c2, b); });
    }
  if (auto* ge = dynamic_cast<const ProjDataInfoGenericNoArcCorr*>(&p))
    {
      quietly([&] { (void)ge->get_bin_for_det_pos_pair(nb, dp); });
      quietly([&] { ge->get_all_det_pos_pairs_for_bin(v, b); });
      quietly([&] { ge->find_cartesian_coordinates_of_detection(c1, c2, b); });
    }
}

// the object of configuration c, obtained from a used object of another sampling.  Throws when STIR (or the derivation) rejects it.
static shared_ptr<ProjDataInfo> make_derived(const Cfg& c, const Der& d, const shared_ptr<Scanner>& sc)
{
  const int D = sc->get_num_detectors_per_ring();
  if (c.vm < 1 || d.bvm < 1 || (D / 2) % c.vm != 0 || (D / 2) % d.bvm != 0) throw std::runtime_error("harness: view mashing factor does not divide D/2");
  const int views = D / 2 / c.vm;
  const int nt = c.nt > 0 ? c.nt : (c.arc ? sc->get_default_num_arccorrected_bins() : sc->get_max_num_non_arccorrected_bins());
  if (d.mode == 5)
    {
      // geometry setters on a clone of a used object of the configuration itself
      shared_ptr<ProjDataInfo> base = rpdi::make_pdi(c, sc);
      if (d.warm) warm_up(*base, *sc);
      shared_ptr<ProjDataInfo> p(base->clone());
      ProjDataInfoCylindrical* cyl = dynamic_cast<ProjDataInfoCylindrical*>(p.get());
      ProjDataInfoCylindricalArcCorr* ac = dynamic_cast<ProjDataInfoCylindricalArcCorr*>(p.get());
      if (!cyl || dynamic_cast<ProjDataInfoGenericNoArcCorr*>(p.get())) throw std::runtime_error("harness: geometry setters of ProjDataInfoCylindrical on generic data");
      const int smin = p->get_min_segment_num(), smax = p->get_max_segment_num();
      switch (d.gs)
        {
        case 1: cyl->set_ring_spacing(cyl->get_ring_spacing() * 1.5F); break;
        case 2:
          {
            const float old = cyl->get_ring_spacing();
            cyl->set_ring_spacing(old * 1.5F);
            warm_up(*p, *sc);
            cyl->set_ring_spacing(old);
            break;
          }
        case 3:
          {
            const int omax = cyl->get_max_ring_difference(smax), omin = cyl->get_min_ring_difference(smin);
            const int nmax = cyl->get_min_ring_difference(smax) < omax ? omax - 1 : omax + 1;
            const int nmin = cyl->get_max_ring_difference(smin) > omin ? omin + 1 : omin - 1;
            cyl->set_max_ring_difference(nmax, smax);
            if (smin != smax || nmin <= nmax) cyl->set_min_ring_difference(nmin, smin);
            warm_up(*p, *sc);
            cyl->set_max_ring_difference(omax, smax);
            cyl->set_min_ring_difference(omin, smin);
            break;
          }
        case 4:
          {
            const float os = cyl->get_azimuthal_angle_sampling(), oo = cyl->get_azimuthal_angle_offset();
            cyl->set_azimuthal_angle_sampling(os * 1.5F);
            cyl->set_azimuthal_angle_offset(oo + 0.3F);
            warm_up(*p, *sc);
            cyl->set_azimuthal_angle_sampling(os);
            cyl->set_azimuthal_angle_offset(oo);
            break;
          }
        case 5:
          if (!ac) throw std::runtime_error("harness: azimuthal offset of detector-based data is given by the detectors");
          // a quarter of a view step: every phi stays inside [0,pi) (assert()-only precondition of the LOR classes)
          cyl->set_azimuthal_angle_offset(cyl->get_azimuthal_angle_offset() + 0.25F * cyl->get_azimuthal_angle_sampling());
          break;
        case 6:
          if (!ac) throw std::runtime_error("harness: tangential sampling of data without arc correction");
          ac->set_tangential_sampling(ac->get_tangential_sampling() * 0.75F);
          break;
        case 7:
          {
            if (!ac) throw std::runtime_error("harness: tangential sampling of data without arc correction");
            const float old = ac->get_tangential_sampling();
            ac->set_tangential_sampling(old * 1.5F);
            warm_up(*p, *sc);
            ac->set_tangential_sampling(old);
            break;
          }
        case 8:
          {
            VectorWithOffset<int> fewer(smin, smax), omin(smin, smax), omax(smin, smax);
            for (int s = smin; s <= smax; ++s)
              {
                omin[s] = p->get_min_axial_pos_num(s); omax[s] = p->get_max_axial_pos_num(s);
                fewer[s] = std::max(1, p->get_num_axial_poss(s) - 1);
              }
            p->set_num_axial_poss_per_segment(fewer);
            warm_up(*p, *sc);
            for (int s = smin; s <= smax; ++s) { p->set_min_axial_pos_num(omin[s], s); p->set_max_axial_pos_num(omax[s], s); }
            break;
          }
        default: throw std::runtime_error("harness: unknown geometry setter");
        }
      return p;
    }
  Cfg b = c;
  b.hist = 0; b.vm = d.bvm; b.nt = d.bnt; b.tm = c.tm > 0 ? std::max(1, d.btm) : 0; b.sr = 0; b.smin = b.smax = 0;
  if (d.mode == 4) { b.span = 1; b.ge = 0; }
  shared_ptr<ProjDataInfo> base = rpdi::make_pdi(b, sc);
  if (d.warm) warm_up(*base, *sc);
  shared_ptr<ProjDataInfo> p;
  if (d.mode == 2 || d.mode == 4)
    {
      const int nseg = d.mode == 4 ? c.span : 1;
      if (c.vm % d.bvm != 0) throw std::runtime_error("harness: SSRB cannot un-mash views");
      const int trim = base->get_num_tangential_poss() - nt;
      if (trim < 0) throw std::runtime_error("harness: SSRB cannot add tangential positions");
      int ntof = 1;
      if (c.tm > 0)
        {
          if (c.tm % b.tm != 0) throw std::runtime_error("harness: SSRB cannot un-mash TOF bins");
          ntof = c.tm / b.tm;
        }
      int max_in_seg = -1;
      if (c.sr) max_in_seg = std::max(std::abs(c.smin), std::abs(c.smax)) * nseg + nseg / 2;
      p.reset(SSRB(*base, nseg, c.vm / d.bvm, trim, max_in_seg, ntof));
      if (c.sr && (p->get_min_segment_num() != c.smin || p->get_max_segment_num() != c.smax)) p->reduce_segment_range(c.smin, c.smax);
      return p;
    }
  if (d.mode == 3) p = base;
  else p.reset(base->clone());
  if (views != p->get_num_views())
    {
      ProjDataInfoCylindrical* cyl = dynamic_cast<ProjDataInfoCylindrical*>(p.get());
      if (!cyl) throw std::runtime_error("harness: view mashing of non-cylindrical data");
      // as SSRB does (set_num_views is documented to leave the offset to the caller): the first view is centred on the views it combines
      const float offset = cyl->get_azimuthal_angle_offset() + cyl->get_azimuthal_angle_sampling() * ((float)c.vm / (float)d.bvm - 1.F) / 2.F;
      p->set_num_views(views);
      cyl->set_azimuthal_angle_offset(offset);
    }
  if (nt != p->get_num_tangential_poss()) p->set_num_tangential_poss(nt);
  if (c.sr) p->reduce_segment_range(c.smin, c.smax);
  if (c.tm > 0 && c.tm != p->get_tof_mash_factor()) p->set_tof_mash_factor(c.tm);
  return p;
}

static bool build_geo(Run& run, Geo& g)
{
  vmc::Ctx& ctx = run.ctx;
  const Cfg& c = run.c;
  std::string what;
  if (small::throws([&] { g.sc = rpdi::make_scanner(c, g_tmp); g.pdi = rpdi::make_pdi(c, g.sc); }, &what))
    {
      ctx.count("rejected_configs");
      return false;
    }
  if (run.d.mode)
    {
      // derived configuration: g.pdi becomes the derived object, the freshly constructed one is kept for the derived_as_fresh clause
      g.fresh = g.pdi;
      g.pdi.reset();
      if (small::throws([&] { g.pdi = make_derived(c, run.d, g.sc); }, &what) || !g.pdi)
        {
          ctx.count("rejected_configs");
          ctx.count("derived_rejected_by_error_in_derivation");
          ctx.observe("derivation refused: " + run.cs + " : " + what.substr(0, 160));
          return false;
        }
    }
  g.cyl = dynamic_cast<const ProjDataInfoCylindrical*>(g.pdi.get());
  g.na = dynamic_cast<const ProjDataInfoCylindricalNoArcCorr*>(g.pdi.get());
  g.ac = dynamic_cast<const ProjDataInfoCylindricalArcCorr*>(g.pdi.get());
  g.ge = dynamic_cast<const ProjDataInfoGenericNoArcCorr*>(g.pdi.get());
  g.D = g.sc->get_num_detectors_per_ring(); g.Rn = g.sc->get_num_rings(); g.V = g.pdi->get_num_views();
  if (!g.cyl || (!g.na && !g.ac && !g.ge) || g.D < 4 || g.D % 2 || g.Rn < 1 || g.V < 1 || g.D % (2 * g.V) != 0 || !g.cyl->sampling_corresponds_to_physical_rings
      || g.pdi->get_min_view_num() != 0)
    {
      ctx.count("rejected_configs");
      ctx.observe("not a detector-ring geometry this check covers: " + run.cs);
      return false;
    }
  g.vm = g.D / 2 / g.V;
  g.reff = (double)g.sc->get_inner_ring_radius() + (double)g.sc->get_average_depth_of_interaction();
  g.spacing = g.sc->get_ring_spacing();
  // geometry setters: the reference geometry is built with the derived object's OWN axial sampling
  if (run.d.own_spacing()) g.spacing = g.cyl->get_ring_spacing();
  g.psi0 = g.sc->get_intrinsic_azimuthal_tilt();
  g.scale = g.reff + g.Rn * g.spacing + 1;
  g.pos.resize((size_t)g.D * g.Rn);
  if (g.ge)
    {
      for (int r = 0; r < g.Rn; ++r)
        for (int d = 0; d < g.D; ++d)
          {
            const CartesianCoordinate3D<float> q = g.sc->get_coordinate_for_det_pos(DetectionPosition<>(d, r, 0));
            rc::P3 p; p.x = q.x(); p.y = q.y(); p.z = q.z();
            g.pos[(size_t)r * g.D + d] = p;
            g.scale = std::max(g.scale, std::hypot(p.x, p.y) + std::fabs(p.z) + 1);
          }
      if (c.geom == "gen")
        {
          // the positions the scanner reports must be the ones of the crystal map it was given (rounded to 1e-3 mm by STIR)
          for (int r = 0; r < g.Rn; ++r)
            for (int d = 0; d < g.D; ++d)
              {
                double x, y, z; rpdi::cyl_xyz(g.D, 100.0, 4.0, d, r, x, y, z);
                const rc::P3& p = g.P(d, r);
                if (std::fabs(p.x - x) > 2e-3 || std::fabs(p.y - y) > 2e-3 || std::fabs(p.z - z) > 2e-3)
                  {
                    run.viol("coords", "detector_map_position", "crystal (d" + std::to_string(d) + ",r" + std::to_string(r) + ") of the map is at (" + fstr(x) + "," + fstr(y) + "," + fstr(z) + ") but the scanner reports (" + fstr(p.x) + "," + fstr(p.y) + "," + fstr(p.z) + ")");
                    return false;
                  }
              }
        }
    }
  else
    {
      for (int r = 0; r < g.Rn; ++r)
        for (int d = 0; d < g.D; ++d) g.pos[(size_t)r * g.D + d] = rc::cyl_pos(g.D, g.Rn, g.reff, g.spacing, g.psi0, d, r);
    }
  return true;
}

// ------------------------------------------------------------------------------------------------ TOF clause
static void check_tof(Run& run, const Geo& g)
{
  vmc::Ctx& ctx = run.ctx;
  const ProjDataInfo& p = *g.pdi;
  if (!p.is_tof_data()) return;
  const int kmin = p.get_min_tof_pos_num(), kmax = p.get_max_tof_pos_num();
  ctx.count("tof_configs");
  if (kmin != -kmax) run.viol("tof", "range_not_symmetric", "TOF bins " + std::to_string(kmin) + ".." + std::to_string(kmax));
  auto K = [&](int k) { return (double)p.get_k(Bin(0, 0, 0, 0, k)); };
  const double width = std::fabs(K(kmax) - K(kmin)) + std::fabs(K(1) - K(0)) + 1;
  const double tol = 500 * EPSF * width;
  for (int k = kmin; k <= kmax && !run.too_many(); ++k)
    {
      ctx.count("tof_bins_checked");
      const Bin b(0, 0, 0, 0, k);
      if (-k >= kmin && -k <= kmax && std::fabs(K(k) + K(-k)) > tol)
        run.viol("tof", "k_not_antisymmetric", "get_k(" + std::to_string(k) + ")=" + fstr(K(k)) + " but get_k(" + std::to_string(-k) + ")=" + fstr(K(-k)));
      if (k < kmax && !(K(k + 1) > K(k) + tol))
        run.viol("tof", "k_not_increasing", "get_k(" + std::to_string(k) + ")=" + fstr(K(k)) + " get_k(" + std::to_string(k + 1) + ")=" + fstr(K(k + 1)));
      const double lo = p.tof_bin_boundaries_mm[k].low_lim, hi = p.tof_bin_boundaries_mm[k].high_lim;
      const double lops = p.tof_bin_boundaries_ps[k].low_lim, hips = p.tof_bin_boundaries_ps[k].high_lim;
      if (!(lo < hi) || !(lops < hips))
        run.viol("tof", "boundaries_not_ordered", "TOF bin " + std::to_string(k) + ": [" + fstr(lo) + "," + fstr(hi) + "] mm, [" + fstr(lops) + "," + fstr(hips) + "] ps");
      if (!(K(k) > lo && K(k) < hi))
        run.viol("tof", "centre_outside_bin", "TOF bin " + std::to_string(k) + ": get_k=" + fstr(K(k)) + " not inside [" + fstr(lo) + "," + fstr(hi) + "]");
      if (k < kmax)
        {
          const double lo2 = p.tof_bin_boundaries_mm[k + 1].low_lim, lo2ps = p.tof_bin_boundaries_ps[k + 1].low_lim;
          if (std::fabs(hi - lo2) > tol || std::fabs(hips - lo2ps) > 500 * EPSF * (std::fabs(hips) + std::fabs(lops) + 1))
            run.viol("tof", "boundaries_not_contiguous", "TOF bin " + std::to_string(k) + " ends at " + fstr(hi) + " mm (" + fstr(hips) + " ps) but bin " + std::to_string(k + 1) + " starts at " + fstr(lo2) + " mm (" + fstr(lo2ps) + " ps)");
        }
      if (-k >= kmin && -k <= kmax)
        {
          const double hi2 = p.tof_bin_boundaries_mm[-k].high_lim;
          if (std::fabs(lo + hi2) > tol)
            run.viol("tof", "boundaries_not_antisymmetric", "TOF bin " + std::to_string(k) + " starts at " + fstr(lo) + " but bin " + std::to_string(-k) + " ends at " + fstr(hi2));
        }
      const int kb = p.get_tof_bin(p.get_tof_delta_time(b));
      if (kb != k)
        run.viol("tof", "centre_maps_to_other_bin", "get_tof_bin(get_tof_delta_time(k=" + std::to_string(k) + "))=" + std::to_string(kb));
    }
}

// ------------------------------------------------------------------------------------------------ selection of bins
static std::vector<int> uniq_in(std::vector<int> v, int lo, int hi)
{
  std::vector<int> o;
  for (int x : v) if (x >= lo && x <= hi && std::find(o.begin(), o.end(), x) == o.end()) o.push_back(x);
  std::sort(o.begin(), o.end());
  return o;
}
static std::vector<int> range(int lo, int hi) { std::vector<int> o; for (int i = lo; i <= hi; ++i) o.push_back(i); return o; }

// ------------------------------------------------------------------------------------------------ the bins of one configuration
struct Rep { double s, m, tth, phi; }; // reported coordinates (generic: brought to the orientation near the nominal view angle)

static void check_bins(Run& run, const Geo& g)
{
  vmc::Ctx& ctx = run.ctx;
  const ProjDataInfo& p = *g.pdi;
  const ProjDataInfoCylindrical& cyl = *g.cyl;
  const int smin = p.get_min_segment_num(), smax = p.get_max_segment_num();
  const int tmin = p.get_min_tangential_pos_num(), tmax = p.get_max_tangential_pos_num();
  const int kmin = p.get_min_tof_pos_num(), kmax = p.get_max_tof_pos_num();
  const int V = g.V, T = tmax - tmin + 1;
  const bool restricted = run.c.geom == "pre" && (double)p.size_all() > 5e5;
  if (restricted) ctx.count("configs_restricted_sinogram_subset");
  const std::vector<int> segs = restricted ? uniq_in({ smin, -1, 0, 1, smax }, smin, smax) : range(smin, smax);
  const std::vector<int> ks = restricted ? uniq_in({ kmin, -1, 0, 1, kmax }, kmin, kmax) : range(kmin, kmax);
  const double view_step = M_PI / V;
  const double tol_len = g.tol_len(), tol_phi = g.tol_phi();
  const double phi_off = cyl.get_azimuthal_angle_offset(), phi_samp = cyl.get_azimuthal_angle_sampling();
  const double w_arc = g.ac ? (double)g.ac->get_tangential_sampling() : 0;
  const double zshift_first_ring = (g.Rn - 1) / 2.0 * g.spacing;
  const double gen_zshift = g.ge ? g.P(0, 0).z : 0;
  // blocks: s and phi of the lines between crystals of a polygon are not monotone at large |t| (lines along a block face, lines cutting a corner):
  // a property of the detector positions, which the coords clause compares one by one; no monotonicity demanded
  const bool blocks = g.sc->get_scanner_geometry() == "BlocksOnCylindrical";
  // negating the tangential position maps both detectors to the opposite ones: the scanner must be point symmetric (even number of blocks)
  const bool point_symmetric = !blocks || (g.sc->get_num_transaxial_blocks() % 2 == 0);
  if (!point_symmetric) ctx.count("configs_blocks_not_point_symmetric_no_antisymmetry_check");

  std::vector<DPP> dps;
  std::vector<Rep> row(T), prev_v(T);
  std::vector<double> prev_ax_m((size_t)V * T);
  std::map<int, std::vector<float>> tth_store;
  long long n_bins = 0, n_rt = 0, n_exact = 0, n_step = 0, n_wrap = 0, n_miss_edge = 0, n_miss_tang = 0, n_miss_wrapseg = 0, n_ge2 = 0, n_incomplete = 0,
            n_asym_range = 0, n_tie = 0, n_screen = 0, n_flip = 0, n_points = 0, n_coord_rejected = 0, n_lor_rejected = 0, n_tth_avg = 0, n_screen_v1 = 0, n_adjacent = 0, n_miss_adjacent = 0, n_points_skipped = 0, n_self_lor = 0, n_self_pairs = 0;
  bool badcast_reported = false, getlor_error_seen = false;

  auto seg_in = [&](int s) { return s >= smin && s <= smax; };

  for (int seg : segs)
    {
      const int amin = p.get_min_axial_pos_num(seg), amax = p.get_max_axial_pos_num(seg);
      const std::vector<int> axs = restricted ? uniq_in({ amin, amin + 1, (amin + amax) / 2, amax }, amin, amax) : range(amin, amax);
      const bool compressed = cyl.get_min_ring_difference(seg) != cyl.get_max_ring_difference(seg);
      // is the mirror image of this segment (ring differences negated) a segment of the data?
      const bool opposite_present = seg_in(-seg) && cyl.get_min_ring_difference(-seg) == -cyl.get_max_ring_difference(seg)
                                    && cyl.get_max_ring_difference(-seg) == -cyl.get_min_ring_difference(seg);
      bool have_prev_ax = false;
      bool first_ax = true;
      for (int ax : axs)
        {
          bool complete = true, sym_range = true;
          int nring = 0;
          ring_set_info(cyl, seg, ax, complete, sym_range, nring);
          bool have_prev_v = false;
          bool row_ok_all = true;
          for (int v = 0; v < V; ++v)
            {
              if (run.too_many()) return;
              const double phi_nom = v * phi_samp + phi_off;
              bool row_ok = true;
              for (int t = tmin; t <= tmax; ++t)
                {
                  const Bin b0(seg, v, ax, t, 0, 1.F);
                  ++n_bins;
                  // ---------------- reported coordinates
                  double s_rep, m_rep, tth_rep, phi_rep;
                  if (g.ac && std::fabs(t * w_arc) >= 0.999 * g.reff)
                    {
                      // get_LOR / get_tantheta assert() |s| < R
                      ++n_screen; row_ok = false;
                      continue;
                    }
                  std::string what;
                  if (small::throws([&] { s_rep = p.get_s(b0); m_rep = p.get_m(b0); tth_rep = p.get_tantheta(b0); phi_rep = p.get_phi(b0); }, &what))
                    {
                      // generic/blocks with axial compression: STIR refuses (error()) to give coordinates
                      ++n_coord_rejected; row_ok = false;
                      if (!(g.ge && compressed)) run.viol("coords", "coordinates_refused", "bin " + small::bin_str(b0) + ": " + what.substr(0, 200));
                      continue;
                    }
                  if (!std::isfinite(s_rep) || !std::isfinite(m_rep) || !std::isfinite(tth_rep) || !std::isfinite(phi_rep))
                    {
                      run.viol("coords", "not_finite", "bin " + small::bin_str(b0) + ": s=" + fstr(s_rep) + " m=" + fstr(m_rep) + " tantheta=" + fstr(tth_rep) + " phi=" + fstr(phi_rep));
                      row_ok = false;
                      continue;
                    }
                  Rep rep{ s_rep, m_rep, tth_rep, phi_rep };
                  if (g.ge)
                    {
                      // generic geometries report the line with phi in [0,pi): bring it to the orientation near the nominal view angle
                      rc::Line l; l.s = s_rep; l.m = m_rep; l.tantheta = tth_rep; l.phi = phi_rep;
                      double d;
                      const rc::Line lo = rc::oriented_near(l, phi_nom, &d);
                      if (lo.s != l.s || lo.tantheta != l.tantheta) ++n_flip;
                      rep = Rep{ lo.s, lo.m, lo.tantheta, phi_nom + d };
                    }
                  row[t - tmin] = rep;

                  // ---------------- reference line
                  Ref ref;
                  bool have_ref = false;
                  const bool tie = ((t + g.vm - 1) % 2) != 0; // interleaving: the central LOR of the bin lies between two detectors
                  if (tie) ++n_tie;
                  if (g.na && tie && std::abs(t) == g.D / 2 - 1) ++n_adjacent;
                  if (g.na || g.ge)
                    {
                      if (g.na) g.na->get_all_det_pos_pairs_for_bin(dps, b0, true);
                      else g.ge->get_all_det_pos_pairs_for_bin(dps, b0);
                      have_ref = ref_from_pairs(g, dps, rep.phi, ref);
                      if (!have_ref) run.viol("coords", "no_valid_detector_pairs", "bin " + small::bin_str(b0) + ": get_all_det_pos_pairs_for_bin gives no / invalid pairs");
                    }
                  else
                    {
                      const ProjDataInfoCylindrical::RingNumPairs& rp = cyl.get_all_ring_pairs_for_segment_axial_pos_num(seg, ax);
                      const double s_ref = t * w_arc, phi_ref = g.phi_centre[v];
                      double lo = 1e300, hi = -1e300;
                      for (auto& e : rp)
                        {
                          rc::P3 p1, p2;
                          rc::chord_points(g.reff, s_ref, phi_ref, (e.first - (g.Rn - 1) / 2.0) * g.spacing, (e.second - (g.Rn - 1) / 2.0) * g.spacing, p1, p2);
                          double d;
                          const rc::Line l = rc::oriented_near(rc::line_of(p1, p2), rep.phi, &d);
                          ref.s += l.s; ref.m += l.m; ref.tth += l.tantheta; ref.dphi += d; ++ref.npairs;
                          lo = std::min(lo, l.tantheta); hi = std::max(hi, l.tantheta);
                        }
                      if (ref.npairs)
                        {
                          ref.s /= ref.npairs; ref.m /= ref.npairs; ref.tth /= ref.npairs; ref.dphi /= ref.npairs; ref.tth_lo = lo; ref.tth_hi = hi;
                          have_ref = true;
                        }
                    }
                  if (have_ref && V == 1 && g.vm > 1 && t % 2 != 0)
                    {
                      // a single view that mashes the whole half circle: the interleaved pairs at the two ends of the view group are pi/2 away
                      // from the view's angle on either side, their orientation (sign of s) is not defined
                      ++n_screen_v1; have_ref = false;
                    }
                  if (have_ref)
                    {
                      if (ref.npairs >= 2) ++n_ge2;
                      const std::string bs = "bin " + small::bin_str(b0) + " (" + std::to_string(ref.npairs) + " detector pairs): ";
                      if (std::fabs(rep.s - ref.s) > tol_len)
                        run.viol("coords", "s", bs + "get_s=" + fstr(rep.s) + " but the line through the detectors has tangential offset " + fstr(ref.s));
                      if (std::fabs(rep.m - ref.m) > tol_len)
                        run.viol("coords", "m", bs + "get_m=" + fstr(rep.m) + " but the line through the detectors has axial mid-point " + fstr(ref.m));
                      // tan(theta) = dz / (2 sqrt(R^2-s^2)): a relative float error eps in s is amplified by R^2/(R^2-s^2)
                      const double cond = g.reff * g.reff / std::max(1e-9, g.reff * g.reff - ref.s * ref.s);
                      const double tol_t = 500 * EPSF * (1 + std::fabs(ref.tth)) * std::max(1.0, cond);
                      if (complete && sym_range)
                        {
                          ++n_tth_avg;
                          if (std::fabs(rep.tth - ref.tth) > tol_t)
                            run.viol("coords", "tantheta", bs + "get_tantheta=" + fstr(rep.tth) + " but the line through the detectors has tan(theta)=" + fstr(ref.tth)
                                                               + " (s=" + fstr(rep.s) + ")");
                        }
                      else
                        {
                          // axial edge / even number of ring differences: the mean over the contributing pairs is not the segment's nominal
                          // obliqueness by construction; only require the value to lie in the range the segment's ring differences span
                          const double len = 2 * std::sqrt(std::max(1e-12, g.reff * g.reff - ref.s * ref.s));
                          const double a = cyl.get_min_ring_difference(seg) * g.spacing / len, z = cyl.get_max_ring_difference(seg) * g.spacing / len;
                          if (rep.tth < std::min(a, z) - tol_t || rep.tth > std::max(a, z) + tol_t)
                            run.viol("coords", "tantheta_outside_segment", bs + "get_tantheta=" + fstr(rep.tth) + " outside [" + fstr(std::min(a, z)) + "," + fstr(std::max(a, z)) + "]");
                        }
                      const double lim = (t % 2 == 0 || g.ge) ? tol_phi : view_step / 2 + tol_phi;
                      if (std::fabs(ref.dphi) > lim)
                        run.viol("coords", t % 2 == 0 ? "phi_even_tangential_pos" : "phi", bs + "get_phi=" + fstr(rep.phi) + " but the detectors' line has azimuthal angle " + fstr(rep.phi + ref.dphi)
                                                                                                + " (allowed difference " + fstr(lim) + ")");
                    }
                  if (!complete) ++n_incomplete;
                  if (!sym_range) ++n_asym_range;

                  // ---------------- detection points reported by STIR (uncompressed data only)
                  if (!compressed && g.vm == 1 && (g.na || g.ge) && have_ref && dps.size() == 1 && run.d.own_spacing())
                    ++n_points_skipped; // find_cartesian_coordinates_of_detection gives the PHYSICAL detector positions (scanner's ring spacing)
                  else if (!compressed && g.vm == 1 && (g.na || g.ge) && have_ref && dps.size() == 1)
                    {
                      CartesianCoordinate3D<float> c1, c2;
                      if (g.na) g.na->find_cartesian_coordinates_of_detection(c1, c2, b0);
                      else g.ge->find_cartesian_coordinates_of_detection(c1, c2, b0);
                      const DPP& e = dps[0];
                      rc::P3 q1 = g.P(e.pos1().tangential_coord(), e.pos1().axial_coord()), q2 = g.P(e.pos2().tangential_coord(), e.pos2().axial_coord());
                      const double zs = g.ge ? -gen_zshift : zshift_first_ring; // documented: z = 0 in the first ring for these functions
                      q1.z += zs; q2.z += zs;
                      auto dist = [&](const CartesianCoordinate3D<float>& c, const rc::P3& q) { return std::max(std::fabs(c.x() - q.x), std::max(std::fabs(c.y() - q.y), std::fabs(c.z() - q.z))); };
                      const double dd = std::min(std::max(dist(c1, q1), dist(c2, q2)), std::max(dist(c1, q2), dist(c2, q1)));
                      ++n_points;
                      if (dd > tol_len)
                        run.viol("coords", "detection_points", "bin " + small::bin_str(b0) + ": find_cartesian_coordinates_of_detection gives (" + fstr(c1.x()) + "," + fstr(c1.y()) + "," + fstr(c1.z()) + ")-(" + fstr(c2.x()) + "," + fstr(c2.y()) + "," + fstr(c2.z())
                                                                   + ") but detectors " + rpdi::dp_str(e) + " are at (" + fstr(q1.x) + "," + fstr(q1.y) + "," + fstr(q1.z) + ")-(" + fstr(q2.x) + "," + fstr(q2.y) + "," + fstr(q2.z) + ")");
                    }

                  // ---------------- geometry setters: self-consistency of the object's own queries
                  if (run.d.mode == 5)
                    {
                      SinoLOR lor;
                      if (!small::throws([&] { p.get_LOR(lor, b0); }, &what))
                        {
                          ++n_self_lor;
                          // compared as unoriented lines (the LOR classes keep phi in [0,pi)): brought to the orientation of the reported phi
                          const double R = lor.radius(), s0 = R * std::sin((double)lor.beta());
                          const double half = std::sqrt(std::max(1e-12, R * R - s0 * s0));
                          rc::Line l0; l0.s = s0; l0.phi = lor.phi(); l0.m = ((double)lor.z1() + (double)lor.z2()) / 2; l0.tantheta = ((double)lor.z2() - (double)lor.z1()) / (2 * half);
                          double dphi_l = 0;
                          const rc::Line ll = rc::oriented_near(l0, phi_rep, &dphi_l);
                          const double sl = ll.s, ml = ll.m, tl = ll.tantheta;
                          const double cond = R * R / std::max(1e-9, R * R - sl * sl);
                          if (std::fabs(sl - s_rep) > tol_len || std::fabs(ml - m_rep) > tol_len || std::fabs(tl - tth_rep) > 500 * EPSF * (1 + std::fabs(tth_rep)) * std::max(1.0, cond)
                              || std::fabs(dphi_l) > tol_phi)
                            run.viol("selfconsistent", "get_LOR_vs_coordinates", "bin " + small::bin_str(b0) + ": get_LOR gives s=" + fstr(sl) + " m=" + fstr(ml) + " tantheta=" + fstr(tl) + " phi=" + fstr(phi_rep + dphi_l)
                                                                                     + " but get_s/get_m/get_tantheta/get_phi give " + fstr(s_rep) + " " + fstr(m_rep) + " " + fstr(tth_rep) + " " + fstr(phi_rep));
                        }
                      if (g.na)
                        for (const DPP& e : dps)
                          {
                            Bin bb;
                            ++n_self_pairs;
                            if (g.na->get_bin_for_det_pos_pair(bb, e) != Succeeded::yes || !rpdi::same_bin(bb, b0))
                              {
                                run.viol("selfconsistent", "det_pos_pair_maps_not_inverse", "bin " + small::bin_str(b0) + " lists detector pair " + rpdi::dp_str(e) + ", which get_bin_for_det_pos_pair maps to another / no bin");
                                break;
                              }
                          }
                    }

                  // ---------------- round trip
                  for (int k : ks)
                    {
                      if (g.ac && k != 0) continue; // arc-corrected get_bin has no TOF (error "TODO NO TOF YET"); the LOR does not depend on the TOF bin
                      const Bin b(seg, v, ax, t, k, 1.F);
                      SinoLOR lor;
                      if (small::throws([&] { p.get_LOR(lor, b); }, &what))
                        {
                          ++n_lor_rejected;
                          if (!getlor_error_seen && !(g.ge && compressed)) run.viol("roundtrip", "get_LOR_refused", "bin " + small::bin_str(b) + ": " + what.substr(0, 200));
                          getlor_error_seen = true;
                          break;
                        }
                      const double dt = p.get_tof_delta_time(b);
                      const int nforms = g.ge ? 3 : 2;
                      for (int form = 0; form < nforms; ++form)
                        {
                          // form 0: the LOR as reported; 1: the same LOR as the two points where it meets its cylinder;
                          // 2 (blocks/generic): the two detector positions themselves
                          Bin nb;
                          bool threw = false, bad_cast = false;
                          const std::string lorname = form == 0 ? "sino" : (form == 1 ? "points" : "detpoints");
                          try
                            {
                              if (form == 0) nb = p.get_bin(lor, dt);
                              else if (form == 1)
                                {
                                  LORAs2Points<float> l2;
                                  if (lor.get_intersections_with_cylinder(l2, lor.radius()) == Succeeded::no)
                                    {
                                      run.viol("roundtrip", "lor_has_no_end_points", "bin " + small::bin_str(b) + ": the reported LOR does not intersect its own cylinder");
                                      continue;
                                    }
                                  nb = p.get_bin(l2, dt);
                                }
                              else
                                {
                                  if (dps.size() != 1) continue;
                                  const rc::P3 &q1 = g.P(dps[0].pos1().tangential_coord(), dps[0].pos1().axial_coord()), &q2 = g.P(dps[0].pos2().tangential_coord(), dps[0].pos2().axial_coord());
                                  nb = p.get_bin(LORAs2Points<float>(CartesianCoordinate3D<float>((float)q1.z, (float)q1.y, (float)q1.x), CartesianCoordinate3D<float>((float)q2.z, (float)q2.y, (float)q2.x)), dt);
                                }
                            }
                          catch (std::bad_cast&) { threw = true; bad_cast = true; }
                          catch (std::exception& e) { threw = true; what = e.what(); }
                          ++n_rt;
                          if (threw)
                            {
                              if (bad_cast)
                                {
                                  if (!badcast_reported)
                                    run.viol("roundtrip", "get_bin_bad_cast_on_reported_lor;lor=" + lorname, "bin " + small::bin_str(b) + ": get_bin(get_LOR(bin)) throws std::bad_cast: get_bin accepts only LORAs2Points, get_LOR reports " + std::string("LORInAxialAndNoArcCorrSinogramCoordinates"));
                                  badcast_reported = true;
                                }
                              else
                                run.viol("roundtrip", "get_bin_refused;lor=" + lorname, "bin " + small::bin_str(b) + ": " + what.substr(0, 200));
                              continue;
                            }
                          const bool in_ranges = nb.get_bin_value() <= 0
                                                 || (seg_in(nb.segment_num()) && nb.view_num() >= 0 && nb.view_num() < V && nb.tangential_pos_num() >= tmin && nb.tangential_pos_num() <= tmax
                                                     && nb.axial_pos_num() >= p.get_min_axial_pos_num(nb.segment_num()) && nb.axial_pos_num() <= p.get_max_axial_pos_num(nb.segment_num())
                                                     && nb.timing_pos_num() >= kmin && nb.timing_pos_num() <= kmax);
                          if (g.ac)
                            {
                              // arc-corrected: the same bin, nothing else
                              if (nb.get_bin_value() > 0 && rpdi::same_bin(nb, b)) { ++n_exact; continue; }
                              const std::string edge = v == 0 ? "firstview" : (v == V - 1 ? "lastview" : "inner");
                              const std::string w = !in_ranges ? "bin_outside_data" : (nb.get_bin_value() <= 0 ? "miss" : "other_bin");
                              run.viol("roundtrip", w + ";lor=" + lorname + ";view=" + edge + ";mashed=" + (g.vm > 1 ? "1" : "0"),
                                       "arc-corrected bin " + small::bin_str(b) + " -> get_bin(get_LOR(bin)) = " + (nb.get_bin_value() <= 0 ? std::string("no bin") : small::bin_str(nb)) + " (" + std::to_string(V) + " views)");
                              continue;
                            }
                          // detector based.  Interleaved bin whose central LOR runs between two ADJACENT detectors: both ends may round to the same detector
                          const bool adjacent = g.na && tie && std::abs(t) == g.D / 2 - 1;
                          if (!in_ranges)
                            {
                              run.viol("roundtrip", std::string(adjacent ? "adjacent_detectors" : "bin_outside_data") + ";lor=" + lorname, "bin " + small::bin_str(b) + " -> get_bin(get_LOR(bin)) = " + small::bin_str(nb) + ", which is not a bin of the data");
                              continue;
                            }
                          if (nb.get_bin_value() <= 0)
                            {
                              if (compressed && !complete) { ++n_miss_edge; continue; }
                              if (g.na && tie && (t == tmin || t == tmax)) { ++n_miss_tang; continue; }
                              if (g.na && tie && (v == 0 || v == V - 1) && !opposite_present) { ++n_miss_wrapseg; continue; }
                              run.viol("roundtrip", "miss;lor=" + lorname, "bin " + small::bin_str(b) + ": get_bin(get_LOR(bin)) reports that the line misses the scanner, but the bin is not an axially compressed bin at the axial edge ("
                                                                               + std::string(compressed ? "compressed, ring-pair set complete" : "not compressed") + ")");
                              continue;
                            }
                          if (rpdi::same_bin(nb, b)) { ++n_exact; continue; }
                          const int dv = std::abs(nb.view_num() - b.view_num()), da = std::abs(nb.axial_pos_num() - b.axial_pos_num());
                          const bool plain = nb.segment_num() == b.segment_num() && nb.timing_pos_num() == b.timing_pos_num() && dv <= 1 && da <= 1
                                             && std::abs(nb.tangential_pos_num() - b.tangential_pos_num()) <= 1;
                          const bool ends = (b.view_num() == 0 && nb.view_num() == V - 1) || (b.view_num() == V - 1 && nb.view_num() == 0);
                          const bool wrapped = ends && nb.segment_num() == -b.segment_num() && nb.timing_pos_num() == -b.timing_pos_num() && da <= 1
                                               && std::abs(nb.tangential_pos_num() + b.tangential_pos_num()) <= 1;
                          if (plain) ++n_step;
                          else if (wrapped) ++n_wrap;
                          else
                            {
                              std::string w = "far";
                              const bool signs_plain = nb.segment_num() == b.segment_num() && nb.timing_pos_num() == b.timing_pos_num();
                              const bool signs_wrap = nb.segment_num() == -b.segment_num() && nb.timing_pos_num() == -b.timing_pos_num();
                              if (adjacent) w = "adjacent_detectors";
                              else if (g.ge) w = "other_bin";
                              else if (ends && !signs_wrap && !(signs_plain && V <= 2)) w = "wrap_signs"; // last <-> first view must reverse segment and TOF bin
                              else if (!ends && !signs_plain) w = nb.segment_num() != b.segment_num() ? "segment" : "tof_bin";
                              run.viol("roundtrip", w + ";lor=" + lorname, "bin " + small::bin_str(b) + " -> get_bin(get_LOR(bin)) = " + small::bin_str(nb) + " (" + std::to_string(V) + " views)"
                                                                                + (adjacent ? "; the bin's central LOR runs between two adjacent detectors" : ""));
                            }
                        }
                    }
                }
              // ---------------- in-row symmetry: s antisymmetric and strictly increasing in the tangential position
              if (row_ok)
                {
                  for (int t = tmin; t <= tmax; ++t)
                    {
                      const Rep& a = row[t - tmin];
                      if (t < tmax && !blocks && !(row[t + 1 - tmin].s > a.s + (g.ge ? -tol_len : 0.0)))
                        run.viol("symmetry", "s_not_increasing", "segment " + std::to_string(seg) + " axial " + std::to_string(ax) + " view " + std::to_string(v) + ": s(t=" + std::to_string(t) + ")=" + fstr(a.s) + ", s(t=" + std::to_string(t + 1) + ")=" + fstr(row[t + 1 - tmin].s));
                      if (t > 0 && -t >= tmin && point_symmetric && std::fabs(a.s + row[-t - tmin].s) > (g.ge ? 4e-3 + 2 * tol_len : 2 * tol_len))
                        run.viol("symmetry", "s_not_antisymmetric", "segment " + std::to_string(seg) + " axial " + std::to_string(ax) + " view " + std::to_string(v) + ": s(t=" + std::to_string(t) + ")=" + fstr(a.s) + ", s(t=" + std::to_string(-t) + ")=" + fstr(row[-t - tmin].s));
                      if (g.ac && t < tmax && std::fabs(row[t + 1 - tmin].s - a.s - w_arc) > tol_len)
                        run.viol("uniform", "s_step", "arc-corrected: s(t=" + std::to_string(t + 1) + ")-s(t=" + std::to_string(t) + ")=" + fstr(row[t + 1 - tmin].s - a.s) + " but the tangential sampling is " + fstr(w_arc));
                      if (have_prev_v && !blocks && !(a.phi > prev_v[t - tmin].phi + (g.ge ? -tol_phi : 0.0)))
                        run.viol("symmetry", "phi_not_increasing", "segment " + std::to_string(seg) + " axial " + std::to_string(ax) + " t " + std::to_string(t) + ": phi(view " + std::to_string(v - 1) + ")=" + fstr(prev_v[t - tmin].phi) + ", phi(view " + std::to_string(v) + ")=" + fstr(a.phi));
                      if (have_prev_ax && !(a.m > prev_ax_m[(size_t)v * T + t - tmin]))
                        run.viol("symmetry", "m_not_increasing", "segment " + std::to_string(seg) + " view " + std::to_string(v) + " t " + std::to_string(t) + ": m(axial " + std::to_string(ax) + ")=" + fstr(a.m) + " not above the previous axial position's " + fstr(prev_ax_m[(size_t)v * T + t - tmin]));
                      prev_ax_m[(size_t)v * T + t - tmin] = a.m;
                    }
                  if (first_ax)
                    {
                      std::vector<float>& st = tth_store[seg];
                      if (st.empty()) st.assign((size_t)V * T, 0.F);
                      for (int t = tmin; t <= tmax; ++t) st[(size_t)v * T + t - tmin] = (float)row[t - tmin].tth;
                    }
                  prev_v = row; have_prev_v = true;
                }
              else { have_prev_v = false; row_ok_all = false; }
            }
          have_prev_ax = row_ok_all;
          if (first_ax && !row_ok_all) tth_store.erase(seg);
          first_ax = false;
        }
    }
  // ---------------- tan(theta): opposite in opposite segments, increasing with the segment number
  for (auto& kv : tth_store)
    {
      const int seg = kv.first;
      auto opp = tth_store.find(-seg);
      if (seg > 0 && opp != tth_store.end() && cyl.get_min_ring_difference(-seg) == -cyl.get_max_ring_difference(seg)
          && cyl.get_max_ring_difference(-seg) == -cyl.get_min_ring_difference(seg))
        {
          ctx.count("opposite_segment_pairs_checked");
          for (size_t i = 0; i < kv.second.size(); ++i)
            if (std::fabs(kv.second[i] + opp->second[i]) > 1000 * EPSF * (1 + std::fabs(kv.second[i])))
              {
                run.viol("symmetry", "opposite_segments", "segments +-" + std::to_string(seg) + ", view " + std::to_string(i / T) + " t " + std::to_string((int)(i % T) + tmin) + ": tan(theta)=" + fstr(kv.second[i]) + " and " + fstr(opp->second[i]));
                break;
              }
        }
      auto nxt = tth_store.find(seg + 1);
      if (nxt != tth_store.end() && cyl.get_average_ring_difference(seg + 1) > cyl.get_average_ring_difference(seg))
        for (size_t i = 0; i < kv.second.size(); ++i)
          if (!(nxt->second[i] > kv.second[i]))
            {
              run.viol("symmetry", "tantheta_not_increasing", "view " + std::to_string(i / T) + " t " + std::to_string((int)(i % T) + tmin) + ": tan(theta)(segment " + std::to_string(seg) + ")=" + fstr(kv.second[i]) + ", (segment " + std::to_string(seg + 1) + ")=" + fstr(nxt->second[i]));
              break;
            }
    }
  ctx.count("bins_checked", n_bins);
  ctx.count("evaluations", n_bins + n_rt);
  ctx.count("roundtrips", n_rt);
  ctx.count("roundtrip_same_bin", n_exact);
  ctx.count("roundtrip_one_step_away", n_step);
  ctx.count("roundtrip_wrapped_last_first_view", n_wrap);
  ctx.count("roundtrip_miss_axial_edge_compressed", n_miss_edge);
  ctx.count("roundtrip_miss_tolerated_tangential_edge_interleaved", n_miss_tang);
  ctx.count("roundtrip_miss_tolerated_wrap_into_absent_segment", n_miss_wrapseg);
  ctx.count("bins_with_ge2_detector_pairs", n_ge2);
  ctx.count("bins_axial_edge_incomplete_ring_set", n_incomplete);
  ctx.count("bins_even_number_of_ring_differences", n_asym_range);
  ctx.count("bins_tantheta_compared_with_pair_average", n_tth_avg);
  ctx.count("bins_interleaved", n_tie);
  ctx.count("bins_screened_s_outside_ring", n_screen);
  ctx.count("bins_screened_single_mashed_view_interleaved", n_screen_v1);
  ctx.count("bins_interleaved_between_adjacent_detectors", n_adjacent);
  ctx.count("generic_bins_reported_in_flipped_orientation", n_flip);
  ctx.count("detection_point_pairs_checked", n_points);
  ctx.count("detection_point_pairs_skipped_own_ring_spacing", n_points_skipped);
  ctx.count("selfconsistent_LORs_compared_with_coordinates", n_self_lor);
  ctx.count("selfconsistent_detector_pairs_mapped_back", n_self_pairs);
  ctx.count("evaluations", n_self_lor + n_self_pairs);
  ctx.count("bins_coordinates_refused_compressed_generic", n_coord_rejected);
  ctx.count("bins_get_LOR_refused_compressed_generic", n_lor_rejected);
  if (n_bins && (double)n_screen > 0.1 * n_bins) ctx.observe("more than 10% of the bins screened (|s| >= ring radius): " + run.cs);
  if (n_bins > n_screen + n_coord_rejected) ctx.nontrivial(run.cs);
  if (ctx.samples.size() < 6 && n_ge2 > 0 && n_step > 0)
    ctx.sample(run.cs + " : " + std::to_string(n_bins) + " bins, " + std::to_string(n_rt) + " round trips (" + std::to_string(n_exact) + " same bin, " + std::to_string(n_step) + " one step, " + std::to_string(n_wrap)
               + " wrapped, " + std::to_string(n_miss_edge) + " axial-edge misses), " + std::to_string(n_ge2) + " bins with >=2 detector pairs");
}

// ------------------------------------------------------------------------------------------------ clause derived_as_fresh
static std::array<int, 5> dp_key(const DPP& e)
{
  return { e.pos1().tangential_coord(), e.pos1().axial_coord(), e.pos2().tangential_coord(), e.pos2().axial_coord(), e.timing_pos() };
}

// g.pdi is a derived object, g.fresh the freshly constructed object of the same configuration.  If they compare equal they must behave alike.
static void check_derived(Run& run, const Geo& g)
{
  vmc::Ctx& ctx = run.ctx;
  const ProjDataInfo &p = *g.pdi, &q = *g.fresh;
  ctx.count("derived_configs");
  ctx.count(std::string("derived_configs_") + run.d.name());
  if (run.d.mode == 5) ctx.count(std::string("derived_configs_setter_") + run.d.setter());
  if (run.d.modified_geometry())
    {
      // no freshly constructible configuration has this geometry: the self-consistency clauses were checked with the object's own sampling
      ctx.count("derived_configs_geometry_of_no_fresh_configuration");
      if ((*g.pdi == *g.fresh) || (*g.fresh == *g.pdi)) ctx.count("derived_modified_geometry_but_compares_equal_to_fresh");
      return;
    }
  if (run.d.bvm > run.c.vm) ctx.count("derived_configs_views_unmashed");
  if (run.d.bvm < run.c.vm) ctx.count("derived_configs_views_mashed");
  if (!run.d.warm) ctx.count("derived_configs_base_not_used_before");
  if (!(p == q) || !(q == p))
    {
      // the property says nothing about which derivations reproduce a constructed sampling: recorded, the other clauses were checked on the object
      ctx.count("derived_not_equal_to_fresh");
      ctx.observe("derived object does not compare equal to the freshly constructed one: " + run.cs);
      return;
    }
  ctx.count("derived_equal_to_fresh");
  const ProjDataInfoCylindricalNoArcCorr* qna = dynamic_cast<const ProjDataInfoCylindricalNoArcCorr*>(&q);
  const ProjDataInfoGenericNoArcCorr* qge = dynamic_cast<const ProjDataInfoGenericNoArcCorr*>(&q);
  if ((g.na != nullptr) != (qna != nullptr) || (g.ge != nullptr) != (qge != nullptr)) { run.viol("derived_as_fresh", "class", "derived and fresh object are of different classes"); return; }
  const int smin = p.get_min_segment_num(), smax = p.get_max_segment_num();
  const int tmin = p.get_min_tangential_pos_num(), tmax = p.get_max_tangential_pos_num();
  const int kmin = p.get_min_tof_pos_num(), kmax = p.get_max_tof_pos_num();
  const bool restricted = run.c.geom == "pre" && (double)p.size_all() > 5e5;
  const std::vector<int> segs = restricted ? uniq_in({ smin, -1, 0, 1, smax }, smin, smax) : range(smin, smax);
  const double tol_len = g.tol_len(), tol_phi = g.tol_phi();
  const double w_arc = g.ac ? (double)g.ac->get_tangential_sampling() : 0;
  long long n_cmp = 0, n_lists = 0, n_pairs = 0, n_pairs_binned = 0, n_refused = 0;
  std::vector<DPP> dp, dq;
  std::vector<std::array<int, 5>> kp, kq;
  // ---------------- every bin: coordinates and detector pairs
  for (int seg : segs)
    {
      const int amin = p.get_min_axial_pos_num(seg), amax = p.get_max_axial_pos_num(seg);
      const std::vector<int> axs = restricted ? uniq_in({ amin, amin + 1, (amin + amax) / 2, amax }, amin, amax) : range(amin, amax);
      for (int ax : axs)
        for (int v = 0; v < g.V; ++v)
          for (int t = tmin; t <= tmax; ++t)
            {
              if (run.too_many()) return;
              const Bin b(seg, v, ax, t, 0, 1.F);
              if (g.ac && std::fabs(t * w_arc) >= 0.999 * g.reff) continue; // as in check_bins: assert()-only precondition of get_tantheta
              double cp[4] = { 0, 0, 0, 0 }, cq[4] = { 0, 0, 0, 0 };
              std::string wp, wq;
              const bool tp = small::throws([&] { cp[0] = p.get_s(b); cp[1] = p.get_m(b); cp[2] = p.get_tantheta(b); cp[3] = p.get_phi(b); }, &wp);
              const bool tq = small::throws([&] { cq[0] = q.get_s(b); cq[1] = q.get_m(b); cq[2] = q.get_tantheta(b); cq[3] = q.get_phi(b); }, &wq);
              ++n_cmp;
              if (tp != tq)
                run.viol("derived_as_fresh", "coordinates_refused_by_one", "bin " + small::bin_str(b) + ": " + (tp ? "derived" : "fresh") + " object refuses coordinates: " + (tp ? wp : wq).substr(0, 160));
              else if (tp) ++n_refused;
              else
                {
                  static const char* nm[4] = { "s", "m", "tantheta", "phi" };
                  const double cond = g.reff * g.reff / std::max(1e-9, g.reff * g.reff - cq[0] * cq[0]);
                  const double tol[4] = { tol_len, tol_len, 500 * EPSF * (1 + std::fabs(cq[2])) * std::max(1.0, cond), tol_phi };
                  for (int i = 0; i < 4; ++i)
                    if (!(std::fabs(cp[i] - cq[i]) <= tol[i]))
                      run.viol("derived_as_fresh", nm[i], "bin " + small::bin_str(b) + ": derived object reports " + nm[i] + "=" + fstr(cp[i]) + ", the freshly constructed object that compares equal " + fstr(cq[i]));
                }
              if (g.na || g.ge)
                {
                  const bool lp = small::throws([&] { if (g.na) g.na->get_all_det_pos_pairs_for_bin(dp, b, true); else g.ge->get_all_det_pos_pairs_for_bin(dp, b); }, &wp);
                  const bool lq = small::throws([&] { if (qna) qna->get_all_det_pos_pairs_for_bin(dq, b, true); else qge->get_all_det_pos_pairs_for_bin(dq, b); }, &wq);
                  ++n_lists;
                  if (lp != lq)
                    run.viol("derived_as_fresh", "det_pos_pairs_refused_by_one", "bin " + small::bin_str(b) + ": " + (lp ? "derived" : "fresh") + " object refuses the detector pairs: " + (lp ? wp : wq).substr(0, 160));
                  else if (!lp)
                    {
                      kp.clear(); kq.clear();
                      for (auto& e : dp) kp.push_back(dp_key(e));
                      for (auto& e : dq) kq.push_back(dp_key(e));
                      std::sort(kp.begin(), kp.end()); std::sort(kq.begin(), kq.end());
                      if (kp != kq)
                        run.viol("derived_as_fresh", "det_pos_pairs_for_bin", "bin " + small::bin_str(b) + ": derived object lists " + std::to_string(dp.size()) + " detector pairs" + (dp.empty() ? std::string() : " (first " + rpdi::dp_str(dp[0]) + ")")
                                                                                  + ", the freshly constructed object that compares equal " + std::to_string(dq.size()) + (dq.empty() ? std::string() : " (first " + rpdi::dp_str(dq[0]) + ")"));
                    }
                }
            }
    }
  // ---------------- TOF
  if (p.is_tof_data())
    for (int k = kmin; k <= kmax; ++k)
      {
        const Bin b(0, 0, 0, 0, k, 1.F);
        const double a[3] = { p.get_k(b), p.tof_bin_boundaries_mm[k].low_lim, p.tof_bin_boundaries_mm[k].high_lim };
        const double c[3] = { q.get_k(b), q.tof_bin_boundaries_mm[k].low_lim, q.tof_bin_boundaries_mm[k].high_lim };
        const double tol = 500 * EPSF * (std::fabs(c[0]) + std::fabs(c[1]) + std::fabs(c[2]) + 1);
        ++n_cmp;
        for (int i = 0; i < 3; ++i)
          if (!(std::fabs(a[i] - c[i]) <= tol))
            run.viol("derived_as_fresh", "tof", "TOF bin " + std::to_string(k) + ": derived object has centre/low/high " + fstr(a[0]) + "/" + fstr(a[1]) + "/" + fstr(a[2]) + " mm, the freshly constructed object " + fstr(c[0]) + "/" + fstr(c[1]) + "/" + fstr(c[2]));
      }
  // ---------------- every detector pair -> bin
  if (g.na || g.ge)
    {
      const std::vector<int> rings = restricted ? uniq_in({ 0, 1, g.Rn / 2, g.Rn - 1 }, 0, g.Rn - 1) : range(0, g.Rn - 1);
      // DetectionPositionPair::timing_pos() is in the scanner's (un-mashed) TOF bins
      const int Tsc = p.is_tof_data() ? g.sc->get_max_num_timing_poss() : 1;
      const std::vector<int> tks = !p.is_tof_data() ? std::vector<int>{ 0 } : (restricted ? uniq_in({ -(Tsc / 2), 0, Tsc / 2 }, -(Tsc / 2), Tsc / 2) : range(-(Tsc / 2), Tsc / 2));
      for (int r1 : rings)
        for (int r2 : rings)
          for (int d1 = 0; d1 < g.D; ++d1)
            for (int d2 = 0; d2 < g.D; ++d2)
              {
                if (d1 == d2) continue; // assert()-only precondition
                if (run.too_many()) return;
                for (int tk : tks)
                  {
                    if (restricted && tk != 0 && (r1 != rings.front() || r2 != rings.back())) continue; // large scanners: TOF bins other than 0 for one ring pair
                    const DPP e = rpdi::mk_dp(d1, r1, d2, r2, tk);
                    Bin bp, bq;
                    const Succeeded sp = g.na ? g.na->get_bin_for_det_pos_pair(bp, e) : g.ge->get_bin_for_det_pos_pair(bp, e);
                    const Succeeded sq = qna ? qna->get_bin_for_det_pos_pair(bq, e) : qge->get_bin_for_det_pos_pair(bq, e);
                    ++n_pairs;
                    if (sp == Succeeded::yes) ++n_pairs_binned;
                    if (sp != sq || (sp == Succeeded::yes && !rpdi::same_bin(bp, bq)))
                      run.viol("derived_as_fresh", "bin_for_det_pos_pair", "detector pair " + rpdi::dp_str(e) + ": derived object gives " + (sp == Succeeded::yes ? small::bin_str(bp) : std::string("no bin"))
                                                                               + ", the freshly constructed object that compares equal gives " + (sq == Succeeded::yes ? small::bin_str(bq) : std::string("no bin"))
                                                                               + " (" + std::to_string(g.V) + " views, base object had view mashing " + std::to_string(run.d.bvm) + ")");
                  }
              }
    }
  ctx.count("evaluations", n_cmp + n_lists + n_pairs);
  ctx.count("derived_bins_compared_with_fresh", n_cmp);
  ctx.count("derived_bins_coordinates_refused_by_both", n_refused);
  ctx.count("derived_det_pair_lists_compared_with_fresh", n_lists);
  ctx.count("derived_det_pairs_binned_by_both", n_pairs);
  ctx.count("derived_det_pairs_with_a_bin", n_pairs_binned);
}

// ------------------------------------------------------------------------------------------------ what=coords
static void run_coords(vmc::Ctx& ctx, const std::string& cs)
{
  Run run(ctx, cs);
  const Cfg& c = run.c;
  ctx.current("what=coords;geom=" + c.geom + ";arc=" + std::to_string(c.arc), cs);
  ctx.count("configurations");
  Geo g;
  const std::string dkey = run.d.mode ? std::string(";derived=") + run.d.name() + (run.d.mode == 5 ? std::string(";setter=") + run.d.setter() : std::string()) : std::string();
  run.keybase = "family=" + std::string(c.geom == "blk" || c.geom == "gen" ? "generic" : (c.arc ? "cylarc" : "cylnoarc")) + dkey;
  if (!build_geo(run, g)) return;
  bool compressed = false, single = false;
  for (int s = g.pdi->get_min_segment_num(); s <= g.pdi->get_max_segment_num(); ++s)
    {
      if (g.cyl->get_min_ring_difference(s) != g.cyl->get_max_ring_difference(s)) compressed = true;
      else single = true;
    }
  const std::string family = g.ge ? "generic" : (g.ac ? "cylarc" : "cylnoarc");
  const std::string comp = c.ge ? "ge" : (!compressed ? "none" : (single ? "mixed" : (c.span % 2 ? "oddspan" : "evenspan")));
  const int tm = g.pdi->get_tof_mash_factor();
  run.keybase = "family=" + family + dkey;
  (void)comp; (void)tm;
  if (g.vm > 1) ctx.count("configs_with_view_mashing");
  if (compressed) ctx.count("configs_with_axial_compression");
  if (g.ac) ctx.count("configs_arc_corrected");
  if (g.ge) ctx.count("configs_generic_or_blocks");
  if (c.geom == "pre") ctx.count("configs_predefined_scanner");
  ctx.maxi("max_D", g.D); ctx.maxi("max_R", g.Rn);
  std::string what;
  if (small::throws([&] {
        if (g.ac)
          {
            // azimuthal angle of a view = that of the detector pairs of the central tangential position of the same data without arc correction
            Cfg c2 = c; c2.arc = 0; c2.nt = 1;
            shared_ptr<ProjDataInfo> twin = rpdi::make_pdi(c2, g.sc);
            const ProjDataInfoCylindricalNoArcCorr* tn = dynamic_cast<const ProjDataInfoCylindricalNoArcCorr*>(twin.get());
            if (!tn) throw std::runtime_error("harness: no non-arc-corrected twin");
            std::vector<DPP> dps;
            g.phi_centre.assign(g.V, 0.0);
            for (int v = 0; v < g.V; ++v)
              {
                tn->get_all_det_pos_pairs_for_bin(dps, Bin(0, v, tn->get_min_axial_pos_num(0), 0, 0), true);
                Ref r;
                const double near = v * M_PI / g.V + g.psi0 + (g.vm - 1) * M_PI / g.D;
                if (!ref_from_pairs(g, dps, near, r)) throw std::runtime_error("harness: twin without detector pairs");
                g.phi_centre[v] = near + r.dphi;
                // geometry setters: the object's own azimuthal offset
                if (run.d.own_phi_offset()) g.phi_centre[v] += (double)g.cyl->get_azimuthal_angle_offset() - (double)dynamic_cast<const ProjDataInfoCylindrical&>(*g.fresh).get_azimuthal_angle_offset();
              }
          }
        // The diagonal [d][d] of the (detector,detector)->(view,tangential position) table is never initialised by STIR; get_bin reads it when
        // both ends of an LOR round to the same detector.  Own that nondeterminism: give the entries a fixed in-range value so that the
        // outcome does not depend on the heap's history (a repaired get_bin never reads them).
        if (g.na)
          {
            g.na->initialise_det1det2_to_uncompressed_view_tangpos_if_not_done_yet();
            for (int d = 0; d < g.D; ++d) { auto& e = g.na->det1det2_to_uncompressed_view_tangpos[d][d]; e.view_num = 0; e.tang_pos_num = 0; e.swap_detectors = true; }
          }
        if (g.ge)
          {
            g.ge->initialise_det1det2_to_uncompressed_view_tangpos_if_not_done_yet();
            for (int d = 0; d < g.D; ++d) { auto& e = g.ge->det1det2_to_uncompressed_view_tangpos[d][d]; e.view_num = 0; e.tang_pos_num = 0; e.swap_detectors = true; }
          }
        check_tof(run, g);
        check_bins(run, g);
        if (run.d.mode) check_derived(run, g);
      }, &what))
    {
      ctx.count("rejected_configs");
      ctx.count("rejected_by_error_during_checks");
      ctx.observe("error() during checks: " + cs + " : " + what.substr(0, 160));
    }
}

// ------------------------------------------------------------------------------------------------ what=arccorr
//   case: scanner part of Cfg (geom, D, R | type) + vm, nt + na (number of arc-corrected bins: 0 = set_up chooses, -1 = scanner default
//   number with default sampling) + bs (output sampling in % of the scanner's default bin size)
static void run_arccorr(vmc::Ctx& ctx, const std::string& cs)
{
  Run run(ctx, cs);
  Cfg c = run.c;
  auto m = vmc::kv(cs);
  const int na = atoi(m["na"].c_str()), bs = m.count("bs") ? atoi(m["bs"].c_str()) : 100;
  ctx.current("what=arccorr;geom=" + c.geom, cs);
  ctx.count("arccorr_configurations");
  run.keybase = "family=cylnoarc";
  c.arc = 0; c.span = 1; c.md = 0; c.tm = 0; c.sr = 0; c.ge = 0;
  shared_ptr<Scanner> sc;
  shared_ptr<ProjDataInfo> pdi;
  std::string what;
  if (small::throws([&] { sc = rpdi::make_scanner(c, g_tmp); pdi = rpdi::make_pdi(c, sc); }, &what)) { ctx.count("rejected_configs"); return; }
  const ProjDataInfoCylindricalNoArcCorr* pn = dynamic_cast<const ProjDataInfoCylindricalNoArcCorr*>(pdi.get());
  const int D = sc->get_num_detectors_per_ring();
  if (!pn || D < 4 || D % 2 || sc->get_default_bin_size() <= 0) { ctx.count("rejected_configs"); return; }
  const double w = sc->get_default_bin_size() * (bs / 100.0);
  ArcCorrection ac;
  Succeeded ok = Succeeded::no;
  if (small::throws([&] {
        if (na == 0) ok = ac.set_up(pdi);
        else if (na < 0) ok = ac.set_up(pdi, sc->get_default_num_arccorrected_bins());
        else ok = ac.set_up(pdi, na, (float)w);
      }, &what) || ok == Succeeded::no)
    { ctx.count("rejected_configs"); return; }
  const ProjDataInfoCylindricalArcCorr& ap = ac.get_arc_corrected_proj_data_info();
  rc::ArcModel M;
  M.radius = (double)sc->get_inner_ring_radius() + (double)sc->get_average_depth_of_interaction();
  M.dbeta = M_PI / D;
  M.w = (na > 0) ? w : (double)sc->get_default_bin_size();
  M.tmin = pdi->get_min_tangential_pos_num(); M.tmax = pdi->get_max_tangential_pos_num();
  M.jmin = ap.get_min_tangential_pos_num(); M.jmax = ap.get_max_tangential_pos_num();
  const int N = M.jmax - M.jmin + 1, T = M.tmax - M.tmin + 1, V = pdi->get_num_views();
  if ((na > 0 && N != na) || (na < 0 && N != sc->get_default_num_arccorrected_bins()) || std::fabs(ap.get_tangential_sampling() - M.w) > 100 * EPSF * M.w
      || ap.get_num_views() != V || M.jmin != -(N / 2))
    {
      run.viol("arccorr", "output_geometry", "arc-corrected geometry has " + std::to_string(N) + " tangential positions from " + std::to_string(M.jmin) + ", sampling " + fstr(ap.get_tangential_sampling()) + ", " + std::to_string(ap.get_num_views()) + " views; requested "
                                                 + std::to_string(na) + " positions, sampling " + fstr(M.w) + ", " + std::to_string(V) + " views");
      return;
    }
  if (M.in_hi(M.tmax) >= M.radius * 0.99999 && M.tmax * M.dbeta >= M_PI / 2) { ctx.count("rejected_configs"); return; }
  // input rows: T unit rows, then constant 1, constant 2.5, ramp; one row per view, batches of V rows
  const int nrows = T + 3;
  auto in_val = [&](int rowi, int t) -> double {
    if (rowi < T) return t - M.tmin == rowi ? 1.0 : 0.0;
    if (rowi == T) return 1.0;
    if (rowi == T + 1) return 2.5;
    return (double)(t - M.tmin + 1);
  };
  std::vector<std::vector<double>> outs(nrows, std::vector<double>(N, 0.0));
  for (int base = 0; base < nrows; base += V)
    {
      Sinogram<float> in(pdi, pdi->get_min_axial_pos_num(0), 0);
      in.fill(0.F);
      for (int v = 0; v < V && base + v < nrows; ++v)
        for (int t = M.tmin; t <= M.tmax; ++t) in[v][t] = (float)in_val(base + v, t);
      Sinogram<float> out = ac.do_arc_correction(in);
      for (int v = 0; v < V && base + v < nrows; ++v)
        for (int j = M.jmin; j <= M.jmax; ++j) outs[base + v][j - M.jmin] = out[v][j];
      ctx.count("evaluations", std::min(V, nrows - base));
    }
  const double tol = 2e-4;
  long long n_cov = 0, n_part = 0, n_int = 0, n_edge = 0;
  for (int i = 0; i < T; ++i)
    {
      const int t = M.tmin + i;
      double I = 0, neg = 0;
      for (int j = 0; j < N; ++j) { I += outs[i][j] * M.w; neg = std::min(neg, outs[i][j]); }
      const double wt = M.in_hi(t) - M.in_lo(t);
      if (neg < -tol) run.viol("arccorr", "negative_output", "unit row t=" + std::to_string(t) + " gives a negative value " + fstr(neg));
      if (M.in_bin_covered(t))
        {
          ++n_cov;
          if (std::fabs(I - wt) > tol * (wt + M.w))
            run.viol("arccorr", std::string("integral_not_preserved;where=") + (M.in_hi(t) > M.out_lo(M.jmax) ? "overlaps_last_output_bin" : "other"), "unit row t=" + std::to_string(t) + " (bin width " + fstr(wt) + " mm): integral of the arc-corrected row is " + fstr(I));
        }
      else
        {
          ++n_part;
          if (I > wt + tol * (wt + M.w))
            run.viol("arccorr", "integral_increased", "unit row t=" + std::to_string(t) + " (bin width " + fstr(wt) + " mm, partly outside the output range): integral of the arc-corrected row is " + fstr(I));
        }
    }
  for (int j = 0; j < N; ++j)
    {
      const double o1 = outs[T][j], o2 = outs[T + 1][j], oramp = outs[T + 2][j];
      if (M.out_bin_interior(M.jmin + j))
        {
          ++n_int;
          if (std::fabs(o1 - 1.0) > tol || std::fabs(o2 - 2.5) > 2.5 * tol)
            run.viol("arccorr", std::string("uniform_not_uniform;where=") + (j == N - 1 ? "last_output_bin" : "other"), "constant rows 1 and 2.5 give " + fstr(o1) + " and " + fstr(o2) + " in arc-corrected bin " + std::to_string(M.jmin + j) + ", which lies inside the input range");
        }
      else
        {
          ++n_edge;
          if (o1 < -tol || o1 > 1 + tol) run.viol("arccorr", "uniform_overshoot", "constant row 1 gives " + fstr(o1) + " in arc-corrected bin " + std::to_string(M.jmin + j));
        }
      double sum1 = 0, sumr = 0, mag = 0;
      for (int i = 0; i < T; ++i) { sum1 += outs[i][j]; sumr += (i + 1) * outs[i][j]; mag += (i + 1) * std::fabs(outs[i][j]); }
      if (std::fabs(sum1 - o1) > tol * (1 + std::fabs(o1)) || std::fabs(2.5 * sum1 - o2) > tol * (1 + std::fabs(o2)) || std::fabs(sumr - oramp) > tol * (1 + mag))
        run.viol("arccorr", "not_linear", "arc-corrected bin " + std::to_string(M.jmin + j) + ": constant row gives " + fstr(o1) + ", the sum of the unit rows " + fstr(sum1) + "; ramp gives " + fstr(oramp) + ", the weighted sum " + fstr(sumr));
      if (run.too_many()) break;
    }
  ctx.count("arccorr_unit_rows_inside_output_range", n_cov);
  ctx.count("arccorr_unit_rows_partly_outside", n_part);
  ctx.count("arccorr_output_bins_inside_input_range", n_int);
  ctx.count("arccorr_output_bins_at_edge", n_edge);
  if (n_cov > 0 && n_int > 0) ctx.nontrivial(cs);
  if (n_cov == 0 && n_int == 0) ctx.count("arccorr_vacuous_configs");
}

static void run_case(vmc::Ctx& ctx, const std::string& cs)
{
  auto m = vmc::kv(cs);
  if (m["what"] == "arccorr") run_arccorr(ctx, cs);
  else run_coords(ctx, cs);
}

// ------------------------------------------------------------------------------------------------ enumeration
static void add_samplings(std::vector<std::string>& out, Cfg base, bool full_product, bool few_options)
{
  const int D = base.D, R = base.R;
  const bool det = base.geom != "cyl"; // Generic/Blocks: no view mashing, no TOF, no arc correction
  std::vector<int> vms = det ? std::vector<int>{ 1 } : rpdi::divisors(D / 2);
  std::vector<int> tms = base.T > 0 ? rpdi::uniq({ 1, 3, base.T, 2 }) : std::vector<int>{};
  tms.insert(tms.begin(), 0);
  struct Ax { int span, md, ge; };
  std::vector<Ax> axs;
  for (int span = 1; span <= 2 * R - 1; ++span)
    for (int md = (span - 1) / 2; md <= R - 1; ++md) axs.push_back({ span, md, 0 });
  for (int md = 1; md <= R - 1; ++md) axs.push_back({ 1, md, 1 });
  for (int arc = 0; arc <= (det ? 0 : 1); ++arc)
    {
      std::vector<int> nts = arc ? rpdi::uniq({ D / 2, D / 2 - 1, 3, 1 }) : rpdi::uniq({ D - 1, D - 2, D / 2, 3, 1 });
      if (few_options) nts = arc ? rpdi::uniq({ D / 2, 3 }) : rpdi::uniq({ D - 1, D / 2, 3 });
      for (const Ax& ax : axs)
        {
          const int ms = rpdi::max_segment_of(ax.span, ax.md, ax.ge);
          std::vector<std::array<int, 3>> srs{ { 0, 0, 0 } };
          if (!few_options)
            {
              for (int k = 0; k < ms; ++k) srs.push_back({ 1, -k, k });
              if (ms > 0) { srs.push_back({ 1, 0, ms }); srs.push_back({ 1, -ms, 0 }); srs.push_back({ 1, -ms, ms - 1 }); }
            }
          for (int vm : vms)
            for (int nt : nts)
              for (int tm : tms)
                for (auto& sr : srs)
                  {
                    // star around the base sampling unless full_product
                    const int deviations = (nt != nts[0]) + (tm != (base.T > 0 ? 1 : 0)) + (sr[0] != 0);
                    if (!full_product && deviations > 1) continue;
                    Cfg c = base;
                    c.span = ax.span; c.md = ax.md; c.ge = ax.ge; c.vm = vm; c.nt = nt; c.tm = tm; c.sr = sr[0]; c.smin = sr[1]; c.smax = sr[2]; c.arc = arc;
                    out.push_back("what=coords;" + c.str());
                  }
        }
    }
}

static void add_arccorr(std::vector<std::string>& out, const Cfg& scanner, int D, bool many)
{
  std::vector<int> nts = scanner.geom == "pre" ? std::vector<int>{ 0 } : rpdi::uniq({ D - 1, D - 2, D / 2, 3, 1 });
  std::vector<int> vms = scanner.geom == "pre" ? std::vector<int>{ 1 } : rpdi::uniq({ 1, D / 2 });
  for (int nt : nts)
    for (int vm : vms)
      {
        std::vector<std::array<int, 2>> var{ { 0, 100 }, { -1, 100 } };
        if (scanner.geom != "pre")
          for (int na : rpdi::uniq({ D / 2 + 1, 2 * D + 1, 3, D }))
            for (int bs : many ? std::vector<int>{ 100, 50, 170 } : std::vector<int>{ 100, 170 }) var.push_back({ na, bs });
        for (auto& vv : var)
          {
            Cfg c = scanner; c.vm = vm; c.nt = nt; c.span = 1; c.md = 0;
            out.push_back("what=arccorr;na=" + std::to_string(vv[0]) + ";bs=" + std::to_string(vv[1]) + ";" + c.str());
          }
      }
}

static void add_predefined(std::vector<std::string>& out, int type, const std::vector<int>& spans)
{
  shared_ptr<Scanner> sc;
  if (small::throws([&] { sc.reset(new Scanner(static_cast<Scanner::Type>(type))); })) return;
  const int D = sc->get_num_detectors_per_ring(), R = sc->get_num_rings(), T = sc->is_tof_ready() ? sc->get_max_num_timing_poss() : 0;
  if (D < 4 || D % 2 || R < 1) return;
  const bool cylindrical = sc->get_scanner_geometry() == "Cylindrical";
  std::vector<int> tms{ 0 };
  if (T > 0)
    {
      if (T % 2 == 1) tms.push_back(1);
      for (int m = 3; m <= T; m += 2) if ((T / m) % 2 == 1 && T / m > 1) { tms.push_back(m); break; }
    }
  for (int span : spans)
    for (int vm : { 1, 2 })
      for (int tm : tms)
        for (int arc : { 0, 1 })
          {
            if ((D / 2) % vm != 0 || span > 2 * R - 1) continue;
            if (arc && (tm != tms.back() || !cylindrical)) continue;
            if (!cylindrical && vm != 1) continue;
            Cfg c; c.geom = "pre"; c.type = type; c.D = D; c.R = R; c.T = T; c.span = span; c.md = R - 1; c.vm = vm; c.nt = 0; c.tm = tm; c.arc = arc;
            if (arc)
              {
                // default arc-corrected size, cut down where it would reach beyond the detector ring (get_LOR assert()s |s| < R)
                const double w = sc->get_default_bin_size(), reff = sc->get_effective_ring_radius();
                if (!(w > 0) || !(reff > 0)) continue;
                c.nt = sc->get_default_num_arccorrected_bins();
                const int fit = 2 * (int)std::floor(0.98 * reff / w) - 1;
                if (c.nt <= 0 || c.nt > fit) c.nt = fit;
                if (c.nt < 1) continue;
              }
            out.push_back("what=coords;" + c.str());
          }
  if (cylindrical) { Cfg s; s.geom = "pre"; s.type = type; s.D = D; s.R = R; add_arccorr(out, s, D, false); }
}

// derived twins of the coords configurations enumerated so far (appended, so that the unit numbers of the existing cases do not change)
static bool sc_is_not_cylindrical(int type)
{
  Scanner sc(static_cast<Scanner::Type>(type));
  return sc.get_scanner_geometry() != "Cylindrical";
}
static void add_derived(std::vector<std::string>& out, bool thorough)
{
  const size_t n0 = out.size();
  std::vector<std::string> geo_setters; // der=5 units, appended after all others
  std::map<int, std::array<int, 3>> pre; // type -> D, T, default number of arc-corrected bins
  for (size_t i = 0; i < n0; ++i)
    {
      const std::string s = out[i];
      if (s.compare(0, 12, "what=coords;") != 0) continue;
      Cfg c = Cfg::parse(s);
      const bool det = c.geom == "blk" || c.geom == "gen";
      const bool predefined = c.geom == "pre";
      int D = c.D, T = c.T, nt_default = c.arc ? c.D / 2 : (c.mb > 0 ? c.mb : c.D - 1);
      if (predefined)
        {
          if (!pre.count(c.type))
            {
              Scanner sc(static_cast<Scanner::Type>(c.type));
              pre[c.type] = { sc.get_num_detectors_per_ring(), sc.is_tof_ready() ? sc.get_max_num_timing_poss() : 0, sc.get_default_num_arccorrected_bins() };
            }
          D = pre[c.type][0]; T = pre[c.type][1];
          nt_default = c.arc ? pre[c.type][2] : 0;
          if (sc_is_not_cylindrical(c.type)) continue; // blocks scanners of the database: no view mashing, the generated ones cover trimming
        }
      const bool dev_vm = c.vm > 1, dev_nt = c.nt != 0 && c.nt != nt_default, dev_tm = c.tm > 1, dev_sr = c.sr != 0;
      const int devs = (int)dev_nt + (int)dev_tm + (int)dev_sr;
      // the star around the un-trimmed sampling, for every view mashing factor (thorough: generated scanners up to two deviations)
      if (devs > ((thorough && !predefined) ? 2 : 1)) continue;
      // quick: three rings only with the un-trimmed sampling (every view mashing, every axial compression)
      if (!thorough && !predefined && c.R >= 3 && devs > 0) continue;
      const bool any = dev_vm || dev_nt || dev_tm || dev_sr;
      const int tm1 = c.tm > 0 ? 1 : 0;
      auto emit = [&](int mode, int bvm, int bnt, int btm, int warm) {
        Der d; d.mode = mode; d.bvm = bvm; d.bnt = bnt; d.btm = btm; d.warm = warm;
        out.push_back("what=coords;" + c.str() + d.str());
      };
      // geometry setters (der=5) on a clone of a used object of the configuration itself: cylindrical data, un-trimmed sampling, every view
      // mashing and axial compression
      if (!det && devs == 0)
        {
          auto gemit = [&](int gs) {
            Der d; d.mode = 5; d.bvm = c.vm; d.bnt = c.nt; d.btm = c.tm; d.warm = 1; d.gs = gs;
            geo_setters.push_back("what=coords;" + c.str() + d.str());
          };
          if (predefined)
            {
              if (c.vm == 1 && (thorough || c.tm == 0))
                {
                  gemit(1);
                  if (thorough) { gemit(2); gemit(3); if (c.arc) { gemit(5); gemit(6); } }
                }
            }
          else
            {
              const bool small_one = D <= 12 && (c.R <= 2 || c.vm == 1);
              if (c.R >= 2 || thorough) gemit(1);
              if ((c.R >= 2 && small_one) || thorough) { gemit(2); gemit(3); gemit(8); }
              if ((D <= 12 && c.R <= 2) || thorough) gemit(4);
              if (c.arc && ((D <= 16 && c.R <= 2) || thorough)) { gemit(5); gemit(6); }
              if (c.arc && ((D <= 12 && c.R <= 2) || thorough)) gemit(7);
            }
        }
      if (predefined)
        {
          // database scanners: mashed views only, through SSRB and through the setters
          if (!dev_vm) continue;
          emit(2, 1, 0, tm1, 1);
          if (c.span > 1 || thorough) emit(1, 1, 0, tm1, 1);
          continue;
        }
      // fine base (no view mashing, all tangential positions, no TOF mashing): clone + setters (without deviation: the clone itself)
      emit(1, 1, 0, tm1, 1);
      if (thorough && any) emit(1, 1, 0, tm1, 0);
      // ... SSRB (TOF bins are combined in odd numbers only), setters on the used object itself
      const bool ssrb_ok = !det && (c.tm == 0 || c.tm % 2 == 1) && (c.nt == 0 || c.nt <= nt_default); // SSRB trims tangential positions, it cannot add any
      if (ssrb_ok && any) emit(2, 1, 0, tm1, 1);
      if (any && (thorough || D <= 12)) emit(3, 1, 0, tm1, 1);
      // coarse base (a single view, a single tangential position, a single TOF bin): the setters REFINE the sampling
      {
        const int cvm = det ? 1 : D / 2, ctm = c.tm > 0 ? T : 0;
        if (c.vm != cvm || c.nt != 1 || c.tm != ctm) emit(1, cvm, 1, ctm, 1);
      }
      // every other view mashing of the base
      if (!det && devs == 0 && (thorough || D <= 16))
        for (int bvm : rpdi::divisors(D / 2))
          if (bvm != 1 && bvm != D / 2 && bvm != c.vm) emit(1, bvm, 0, tm1, 1);
      // SSRB combining the segments of span-1 data into the segments of an odd span (all of them complete)
      if (ssrb_ok && !c.ge && c.span >= 3 && c.span % 2 == 1 && c.md % c.span == (c.span - 1) / 2) emit(4, 1, 0, tm1, 1);
    }
  out.insert(out.end(), geo_setters.begin(), geo_setters.end());
}

static std::vector<std::string> enumerate(bool thorough)
{
  std::vector<std::string> out;
  auto gen = [&](const std::string& geom, int D, int R, int T, bool full, bool few = false) {
    Cfg b; b.geom = geom; b.D = D; b.R = R; b.T = T; b.mb = D - 1;
    add_samplings(out, b, full, few);
  };
  // block 1: D <= 16, R <= 3 (thorough: R <= 4): the full product of all sampling options
  for (int D : { 4, 6, 8, 12, 16 })
    for (int R : { 1, 2, 3, 4 })
      {
        if (R == 4 && !thorough) continue;
        gen("cyl", D, R, 0, true);
        if (R <= 3 && (D == 8 || D == 12 || thorough)) gen("cyl", D, R, 9, (thorough && D <= 12) || (D == 8 && R <= 2));
        if (D >= 8) gen("blk", D, R, 0, true);
        gen("gen", D, R, 0, true);
        if (R == 1) { Cfg s; s.geom = "cyl"; s.D = D; s.R = 1; s.mb = D - 1; add_arccorr(out, s, D, true); }
      }
  // block 3 (transaxial factor): larger D, few rings, view mashing and tangential sizes
  auto trans = [&](int D, std::vector<int> Rs, std::vector<int> Ts, std::vector<int> vms) {
    for (int R : Rs)
      for (int T : Ts)
        for (int span : { 1, 3 })
          {
            if (span > 2 * R - 1) continue;
            for (int arc : { 0, 1 })
              for (int vm : vms)
                for (int nt : (arc ? rpdi::uniq({ D / 2, 3 }) : rpdi::uniq({ D - 1, D - 2, D / 2, 3 })))
                  for (int tm : (T > 0 ? std::vector<int>{ 1, 3 } : std::vector<int>{ 0 }))
                    {
                      if ((D / 2) % vm) continue;
                      Cfg c; c.geom = "cyl"; c.D = D; c.R = R; c.T = T; c.mb = D - 1; c.span = span; c.md = R - 1; c.vm = vm; c.nt = nt; c.tm = tm; c.arc = arc;
                      out.push_back("what=coords;" + c.str());
                    }
          }
  };
  auto detgeo = [&](int D) {
    for (const char* gm : { "blk", "gen" })
      for (int R : { 1, 3 })
        for (int span : { 1, 3 })
          {
            if (span > 2 * R - 1) continue;
            for (int nt : rpdi::uniq({ D - 1, D / 2, 3 }))
              { Cfg c; c.geom = gm; c.D = D; c.R = R; c.mb = D - 1; c.span = span; c.md = R - 1; c.nt = nt; out.push_back("what=coords;" + c.str()); }
          }
  };
  if (!thorough)
    {
      for (int D : { 24, 32 }) trans(D, { 1, 2, 3 }, { 0, 9 }, rpdi::divisors(D / 2));
      for (int D : { 20, 24 }) detgeo(D);
      for (int D : { 24, 32, 64 }) { Cfg s; s.geom = "cyl"; s.D = D; s.R = 1; s.mb = D - 1; add_arccorr(out, s, D, false); }
      // four predefined scanners: intrinsic tilt (ECAT 953), TOF + tilt (GE Discovery 690), small (RATPET), blocks (SAFIR)
      for (int type : { (int)Scanner::E953, (int)Scanner::Discovery690, (int)Scanner::RATPET, (int)Scanner::SAFIRDualRingPrototype }) add_predefined(out, type, { 1, 3 });
      add_derived(out, false);
      return out;
    }
  // block 2 (axial factor): small D, R up to 8, every span / max ring difference
  for (int D : { 4, 8 })
    for (int R : { 5, 6, 7, 8 }) gen("cyl", D, R, 0, false, true);
  for (int R : { 5, 8 }) { gen("gen", 8, R, 0, false, true); gen("blk", 12, R, 0, false, true); }
  for (int D = 18; D <= 64; D += 2) trans(D, { 1, 2, 3 }, D % 8 == 0 ? std::vector<int>{ 0, 9 } : std::vector<int>{ 0 }, rpdi::divisors(D / 2));
  for (int D : { 10, 14 }) trans(D, { 1, 2, 3 }, { 0 }, rpdi::divisors(D / 2));
  for (int D : { 96, 128 }) trans(D, { 1, 3 }, { 0 }, rpdi::divisors(D / 2));
  for (int D : { 256, 504, 1000 }) trans(D, { 1, 3 }, { 0 }, { 1, 2, 4, D / 2 });
  for (int D : { 20, 24, 32, 48, 64 }) detgeo(D);
  for (int D = 18; D <= 64; D += 2) { Cfg s; s.geom = "cyl"; s.D = D; s.R = 1; s.mb = D - 1; add_arccorr(out, s, D, false); }
  for (int D : { 96, 128, 256, 504 }) { Cfg s; s.geom = "cyl"; s.D = D; s.R = 1; s.mb = D - 1; add_arccorr(out, s, D, false); }
  // block 4: every predefined scanner, native D and R
  for (int type = 0; type < (int)Scanner::User_defined_scanner; ++type) add_predefined(out, type, { 1, 2, 3, 11 });
  add_derived(out, true);
  return out;
}

int main(int argc, char** argv)
{
  vmc::Ctx ctx(argc, argv, "C12");
  small::quiet();
  ctx.rule = "unit = one (scanner, sampling) configuration [what=coords: ALL bins through get_s/get_m/get_tantheta/get_phi/get_LOR/get_bin against the line "
             "through the detector positions of get_all_det_pos_pairs_for_bin] or one arc-correction set-up [what=arccorr: ALL unit rows + constant rows + ramp]; "
             "a coords configuration is non-trivial when at least one bin was compared, an arccorr configuration when at least one input bin lies inside the output "
             "range and one output bin inside the input range; "
             "coords configurations are enumerated twice: freshly constructed, and DERIVED (der=1..4: warm-up queries on a base object of finer or coarser sampling, then clone()/in place "
             "set_num_views + set_azimuthal_angle_offset, set_num_tangential_poss, reduce_segment_range, set_tof_mash_factor, or SSRB combining views / trimming / combining segments), "
             "with all clauses on the derived object plus derived_as_fresh (equal to the freshly constructed object => same coordinates, detector pairs per bin, bin per detector pair); "
             "a derived configuration is a distinct case (its case string carries the derivation); "
             "der=5: every public geometry setter of ProjDataInfoCylindrical / ArcCorr on a clone of a used object (set_ring_spacing, set_azimuthal_angle_offset, set_tangential_sampling changed for good: "
             "all clauses with the reference geometry in the object's OWN sampling + clause selfconsistent (get_LOR == get_s/get_m/get_tantheta/get_phi, detector pairs of a bin map back to it); "
             "set_ring_spacing, set_min/max_ring_difference, set_azimuthal_angle_sampling/offset, set_tangential_sampling, set_num_axial_poss_per_segment + set_min/max_axial_pos_num changed, used and set back: all clauses + derived_as_fresh)";
  ctx.assume("tolerances: lengths 500*eps_float*(ring radius + axial extent), angles 500*eps_float*pi, tan(theta) 500*eps_float*(1+|tan(theta)|), arc correction 2e-4 relative; a defect is O(bin size)");
  ctx.assume("cylindrical scanners: crystal d of ring r is at psi = 2 pi d/D + intrinsic tilt on the effective ring radius, z = (r-(R-1)/2)*ring spacing (cross-checked against find_cartesian_coordinates_of_detection, whose z is documented to be 0 in the first ring); blocks/generic: Scanner::get_coordinate_for_det_pos");
  ctx.assume("lines are compared as unoriented lines: (s,phi,tantheta) ~ (-s,phi+pi,-tantheta); generic geometries report phi in [0,pi), their coordinates are brought to the orientation near the nominal view angle before the monotonicity / antisymmetry checks");
  ctx.assume("obliqueness is compared with the mean over the contributing detector pairs only where that mean is the segment's nominal value by construction: ring-pair set not clipped by the scanner ends and an odd number of ring differences in the segment; elsewhere tan(theta) must lie within the range of the segment's ring differences");
  ctx.assume("round trip: 'axially compressed bin at the axial edge' = segment with several ring differences and a ring-pair set clipped by the scanner ends (computed from get_all_ring_pairs_for_segment_axial_pos_num and the segment's ring differences)");
  ctx.assume("round trip, tolerated misses not named in the statement (counted): interleaved bins (central LOR between two detectors) at the first/last tangential position, and interleaved bins of the first/last view of a segment whose opposite segment is not in the data: the bin one step away does not exist");
  ctx.assume("arc-corrected data: get_bin has no TOF support (error), round trip for TOF bin 0 only; bins with |s| >= 0.999 ring radius are not evaluated (assert()-only precondition of get_LOR), counted");
  ctx.assume("blocks/generic with axial compression: STIR refuses coordinates and LORs with error(); recorded, not a failure");
  ctx.assume("arc correction: data are step functions; non-arc-corrected bin t covers [R sin((t-1/2) pi/D), R sin((t+1/2) pi/D)] (bins tile the tangential axis); integral = sum value*width; unit rows whose bin is partly outside the output range and output bins partly outside the input range only get one-sided checks");
  ctx.assume("the never-initialised diagonal entries of STIR's det1det2_to_uncompressed_view_tangpos table are set to (view 0, tangential position 0) by the harness so that reads of them (get_bin with both LOR ends rounding to one detector) have a deterministic outcome");
  ctx.assume("derived objects: set_num_views() is documented to leave the azimuthal offset to the caller; the derivation sets it as SSRB does (old offset + old sampling * (factor-1)/2). "
             "derived_as_fresh is only demanded when operator== holds both ways (counted: derived_equal_to_fresh / derived_not_equal_to_fresh); coordinates are compared with the tolerances above, "
             "detector-pair lists as sets, bins for detector pairs exactly (detector pairs d1 != d2; scanners with > 5e5 bins: rings {0,1,middle,last}, TOF bins {min,0,max} for one ring pair)");
  ctx.assume("geometry setters (der=5): an object whose ring spacing / azimuthal offset / tangential sampling was changed describes detectors at z scaled about the scanner centre by own/scanner ring spacing "
             "(rotated by the offset change; chords at t * own tangential sampling); find_cartesian_coordinates_of_detection (physical positions, scanner's ring spacing) is not compared for such objects (counted); "
             "detector-based data: azimuthal angle sampling/offset, ring differences and axial position ranges are only changed temporarily (changed, object used, set back), because a detector-based object's "
             "views and ring pairs are given by the detectors; the azimuthal offset is moved by a quarter view step so that every phi stays in [0,pi) (assert()-only precondition of the LOR classes)");
  ctx.assume("axial trimming, set_ring_radii_for_all_views, non-zero bed positions and HiDAC-like non-ring data are not enumerated");
  g_tmp = ctx.tmpdir + "/C12_" + std::to_string((long)getpid());
  std::filesystem::create_directories(g_tmp);
  struct Cleanup { ~Cleanup() { std::error_code ec; std::filesystem::remove_all(g_tmp, ec); } } cleanup;
  if (ctx.replaying()) { run_case(ctx, ctx.replay); return ctx.finish(); }
  const std::vector<std::string> cfgs = enumerate(ctx.thorough());
  ctx.maxi("units_enumerated", (long long)cfgs.size());
  for (auto& a : ctx.extra_args) if (a == "--list") { for (auto& s : cfgs) std::cout << s << "\n"; return 0; }
  uint64_t unit = 0;
  for (const std::string& cs : cfgs)
    {
      if (!ctx.mine(unit++)) continue;
      if (ctx.expired()) break;
      run_case(ctx, cs);
    }
  return ctx.finish();
}
