// C02 - projection data are one coherent array across access paths, layouts and files.
//
// Explicit-state history search (vmc::HistSearch) over write/read operations on one projection-data object of a
// "store":
//   mem   ProjDataInMemory
//   sstr  ProjDataFromStream over a std::stringstream
//   fstr  ProjDataFromStream over a std::fstream in ctx.tmpdir (+ Interfile header written with write_basic_interfile_PDFS_header)
//   intf  ProjDataInterfile (creates <name>.hs/.s itself)
// configuration = store x geometry x storage order x segment sequence x timing sequence x on-disk type x byte order x
// offset x scale factor.  Every history is replayed on a FRESH object (and fresh files); the reference is a
// std::map keyed by (segment, axial, view, tangential, tof).  After the LAST operation of a history (all its
// prefixes have been checked as shorter histories of the same BFS; in replay mode: after every operation):
//   * the touched (segment,tof) blocks are read through every access path and compared with the reference;
//   * everything is read back through one path (no other bin changed); a state seen for the first time is read back
//     through every path (incl. related viewgrams, copy_to, iterators);
//   * file stores: an independent std::ifstream opened on the data file (the writer stays open, is never closed or
//     flushed by the harness) must decode - with the harness' own layout computation - to exactly the reference
//     ("crash after any write"), the bytes before the offset and the file size must be untouched, and
//     ProjData::read_from_file on the header must give == ProjDataInfo, equal exam info and equal values;
//   * sstr: the raw bytes of the stringstream must equal the reference layout.
// Out-of-range requests (one below / one above the range of segment, axial pos, view, tangential pos, TOF bin through
// every getter/setter) are executed in a forked child on the state reached by every history up to a depth bound; they
// must be reported (exception or Succeeded::no) and leave all data unchanged.  A crash (ASan report, SEGV) of the child
// is an outcome, it does not kill the shard.
//
// Geometries: three full-range ones and DERIVED ones (a clone of a full-range ProjDataInfo after reduce_segment_range(lo,hi), symmetric
// and asymmetric ranges such as -2..1, -1..0, 0..2 out of -2..2, non-TOF and TOF).  fill(const ProjData&) is in the alphabet with sources
// of the same geometry (in memory; stream in either storage order, natural / scrambled segment sequence, either byte order) and, for
// derived targets, with every source of the same family that has MORE segments (in memory, stringstream, file; documented as allowed):
// the reference after target.fill(source) is "every bin of the target = the source's bin with the same coordinates".
//
// State key = (configuration, reference content hash, id of the last operation if it was a read): two histories
// reaching the same content have the same futures if the implementation is a function of the content; the first step
// at which it is not is reported, so merging cannot hide it.  The last-read id keeps "write,read,write" interleavings
// (stream get/put position, filebuf mode) apart from "write,write".
#include "vmc.h"
#include "stir/Radionuclide.h"
#include "stir_small.h"
#include "stir/ProjDataFromStream.h"
#include "stir/ProjDataInterfile.h"
#include "stir/ProjDataInMemory.h"
#include "stir/Viewgram.h"
#include "stir/Sinogram.h"
#include "stir/SegmentByView.h"
#include "stir/SegmentBySinogram.h"
#include "stir/RelatedViewgrams.h"
#include "stir/ViewgramIndices.h"
#include "stir/SinogramIndices.h"
#include "stir/SegmentIndices.h"
#include "stir/recon_buildblock/DataSymmetriesForBins_PET_CartesianGrid.h"
#include "stir/IO/interfile.h"
#include "stir/NumericType.h"
#include "stir/ByteOrder.h"
#include "stir/Succeeded.h"
#include "stir/TimeFrameDefinitions.h"
#include "stir/PatientPosition.h"
#include <array>
#include <algorithm>
#include <memory>
#include <sys/wait.h>
#include <sys/stat.h>
#include <signal.h>

using namespace stir;
typedef std::array<int, 5> Key; // segment, axial, view, tangential, tof

// ------------------------------------------------------------------------------------------------ geometry
struct Geom
{
  std::string name;
  shared_ptr<ProjDataInfo> pdi, foreign; // foreign: same family, one more ring (more segments, more axial positions)
  shared_ptr<DataSymmetriesForViewSegmentNumbers> sym;
  std::vector<Key> keys;
  std::map<Key, int> lin;       // only used to validate lin_of() once
  std::vector<int> seg_base;
  int lin_of(const Key& k) const { return seg_base[k[0] - smin] + (((k[1] - amin(k[0])) * nv() + (k[2] - vmin)) * nt() + (k[3] - tmin)) * nk() + (k[4] - kmin); }
  int smin, smax, vmin, vmax, tmin, tmax, kmin, kmax;
  std::vector<int> amin_, amax_;
  int amin(int s) const { return amin_[s - smin]; }
  int amax(int s) const { return amax_[s - smin]; }
  int nax(int s) const { return amax(s) - amin(s) + 1; }
  int nv() const { return vmax - vmin + 1; }
  int nt() const { return tmax - tmin + 1; }
  int nk() const { return kmax - kmin + 1; }
  bool tof() const { return nk() > 1; }
  std::vector<ViewgramIndices> basic;  // basic view/segment pairs
  std::vector<int> S2, V2, K2;          // the colliding argument sets
  std::vector<int> std_seq;             // 0,1,-1,2,-2...
  size_t nbins() const { return keys.size(); }
  // derived geometries: pdi = clone of geometry `root` with reduce_segment_range(smin,smax) (root < 0: not derived)
  int root = -1;
  bool symmetric_range() const { return smin == -smax; }
  bool std_seq_is_prefix_of(const Geom& wider) const { return std_seq.size() <= wider.std_seq.size() && std::equal(std_seq.begin(), std_seq.end(), wider.std_seq.begin()); }
};

// derived target geometries: segment range [lo,hi] cut out of geometry `root` with ProjDataInfo::reduce_segment_range
struct Derived { int root, lo, hi; bool quick; };
static const int NBASE = 4; // 0..2: the full-range geometries of the plans; 3: CylTOF(8,3,5,1) (5 segments, TOF), only a root/source
static const Derived DERIVED[] = {
  { 0, -2, 1, true }, { 0, -1, 0, true }, { 0, 0, 2, true }, { 0, -1, 1, true }, // out of Cyl(8,3)span1 -2..2
  { 2, -1, 0, true }, { 2, 0, 0, true },                                          // out of CylTOF(8,2,5,1) -1..1
  { 0, 0, 1, false }, { 0, -2, 0, false }, { 0, 0, 0, false },
  { 2, 0, 1, false },
  { 3, -2, 1, false }, { 3, 0, 2, false }, { 3, -1, 1, false }, { 3, -1, 0, false }, // out of CylTOF(8,3,5,1) -2..2
};
static const int NDERIVED = sizeof(DERIVED) / sizeof(DERIVED[0]);
static const int NGEOMS = NBASE + NDERIVED;

static Geom make_geom(int gi)
{
  Geom g;
  shared_ptr<Scanner> sc, scf;
  if (gi == 0) { g.name = "Cyl(8,3)span1"; sc = small::cyl_scanner(8, 3); g.pdi = small::make_pdi(sc, 1, 2); scf = small::cyl_scanner(8, 4); g.foreign = small::make_pdi(scf, 1, 3); }
  else if (gi == 1) { g.name = "Cyl(8,3)span3"; sc = small::cyl_scanner(8, 3); g.pdi = small::make_pdi(sc, 3, 2); scf = small::cyl_scanner(8, 4); g.foreign = small::make_pdi(scf, 1, 3); }
  else if (gi == 2) { g.name = "CylTOF(8,2,5,1)span1"; sc = small::cyl_scanner(8, 2, 5); g.pdi = small::make_pdi(sc, 1, 1, 0, 0, false, 1); scf = small::cyl_scanner(8, 3, 5); g.foreign = small::make_pdi(scf, 1, 2, 0, 0, false, 1); }
  else if (gi == 3) { g.name = "CylTOF(8,3,5,1)span1"; sc = small::cyl_scanner(8, 3, 5); g.pdi = small::make_pdi(sc, 1, 2, 0, 0, false, 1); scf = small::cyl_scanner(8, 4, 5); g.foreign = small::make_pdi(scf, 1, 3, 0, 0, false, 1); }
  else
    {
      // a DERIVED object: the ProjDataInfo of a data set with fewer segments, made the way STIR's users (and ProjData::fill itself) make it
      const Derived& d = DERIVED[gi - NBASE];
      const Geom r = make_geom(d.root);
      g.root = d.root;
      g.name = r.name + "[" + vmc::str(d.lo) + ".." + vmc::str(d.hi) + "]";
      g.pdi = r.pdi->create_shared_clone();
      g.pdi->reduce_segment_range(d.lo, d.hi);
      g.foreign = r.foreign;
    }
  const ProjDataInfo& p = *g.pdi;
  g.smin = p.get_min_segment_num(); g.smax = p.get_max_segment_num();
  g.vmin = p.get_min_view_num(); g.vmax = p.get_max_view_num();
  g.tmin = p.get_min_tangential_pos_num(); g.tmax = p.get_max_tangential_pos_num();
  g.kmin = p.get_min_tof_pos_num(); g.kmax = p.get_max_tof_pos_num();
  for (int s = g.smin; s <= g.smax; ++s) { g.amin_.push_back(p.get_min_axial_pos_num(s)); g.amax_.push_back(p.get_max_axial_pos_num(s)); }
  for (int s = g.smin; s <= g.smax; ++s)
    {
      g.seg_base.push_back((int)g.keys.size());
      for (int a = g.amin(s); a <= g.amax(s); ++a)
        for (int v = g.vmin; v <= g.vmax; ++v)
          for (int t = g.tmin; t <= g.tmax; ++t)
            for (int k = g.kmin; k <= g.kmax; ++k)
              { Key key{ s, a, v, t, k }; g.lin[key] = (int)g.keys.size(); g.keys.push_back(key); }
    }
  for (const Key& k : g.keys) if (g.lin_of(k) != g.lin.at(k)) { fprintf(stderr, "C02: internal error in lin_of\n"); exit(2); }
  auto im = small::make_image(p);
  // asymmetric segment range: no segment-swapping symmetry (it would relate viewgrams of segments that do not exist)
  g.sym.reset(new DataSymmetriesForBins_PET_CartesianGrid(g.pdi, im, true, true, g.symmetric_range(), true, true));
  for (int s = g.smin; s <= g.smax; ++s)
    for (int v = g.vmin; v <= g.vmax; ++v)
      { ViewgramIndices vs(v, s, 0); if (g.sym->is_basic(vs)) g.basic.push_back(vs); }
  g.S2 = { 0, g.smin };                 // segment 0 and the most oblique negative one (different numbers of axial positions)
  if (g.smin == 0) { g.S2.pop_back(); if (g.smax > 0) g.S2.push_back(g.smax); }
  g.V2 = { g.vmin + 1, g.vmax };
  g.K2 = g.tof() ? std::vector<int>{ g.kmin, 1 } : std::vector<int>{ 0 };
  g.std_seq.push_back(0);
  for (int s = 1; (int)g.std_seq.size() < g.smax - g.smin + 1; ++s) { if (s <= g.smax) g.std_seq.push_back(s); if (-s >= g.smin) g.std_seq.push_back(-s); }
  // every viewgram related to a basic one must exist in this geometry
  for (const ViewgramIndices& b : g.basic)
    {
      std::vector<ViewSegmentNumbers> pairs; g.sym->get_related_view_segment_numbers(pairs, b);
      for (auto& vs : pairs) if (vs.segment_num() < g.smin || vs.segment_num() > g.smax) { fprintf(stderr, "C02: internal error: symmetries of %s relate to a segment outside the range\n", g.name.c_str()); exit(2); }
    }
  return g;
}

// ------------------------------------------------------------------------------------------------ configuration
struct TypeInfo { const char* name; NumericType::Type id; int size; long M; bool is_float; };
static const TypeInfo TYPES[] = {
  { "float", NumericType::FLOAT, 4, 100003, true },   { "short", NumericType::SHORT, 2, 15000, false },
  { "ushort", NumericType::USHORT, 2, 30000, false }, { "int", NumericType::INT, 4, 100003, false },
  { "schar", NumericType::SCHAR, 1, 120, false },     { "uchar", NumericType::UCHAR, 1, 250, false },
};
static const int NTYPES = 6;

struct Config
{
  std::string store = "mem"; // mem sstr fstr intf
  int g = 0, ord = 0, sp = 0, tp = 0, ty = 0, bo = 0, off = 0, sc = 1, depth = 2;
  std::string str() const
  {
    return "st=" + store + ";g=" + vmc::str(g) + ";ord=" + vmc::str(ord) + ";sp=" + vmc::str(sp) + ";tp=" + vmc::str(tp) + ";ty=" + TYPES[ty].name + ";bo=" + vmc::str(bo)
           + ";off=" + vmc::str(off) + ";sc=" + vmc::str(sc);
  }
  static Config parse(const std::string& s)
  {
    auto m = vmc::kv(s);
    Config c;
    c.store = m["st"]; c.g = atoi(m["g"].c_str()); c.ord = atoi(m["ord"].c_str()); c.sp = atoi(m["sp"].c_str()); c.tp = atoi(m["tp"].c_str());
    c.bo = atoi(m["bo"].c_str()); c.off = atoi(m["off"].c_str()); c.sc = atoi(m["sc"].c_str());
    for (int i = 0; i < NTYPES; ++i) if (m["ty"] == TYPES[i].name) c.ty = i;
    return c;
  }
  const char* cls() const { return store == "mem" ? "ProjDataInMemory" : store == "intf" ? "ProjDataInterfile" : "ProjDataFromStream"; }
  bool is_file() const { return store == "fstr" || store == "intf"; }
  bool is_stream() const { return store != "mem"; }
};

static std::vector<int> kth_permutation(std::vector<int> v, int k)
{
  std::sort(v.begin(), v.end());
  for (int i = 0; i < k; ++i) std::next_permutation(v.begin(), v.end());
  return v;
}
static int perm_index(std::vector<int> target)
{
  std::vector<int> v = target; std::sort(v.begin(), v.end());
  int k = 0;
  do { if (v == target) return k; ++k; } while (std::next_permutation(v.begin(), v.end()));
  return 0;
}
static int factorial(int n) { int f = 1; for (int i = 2; i <= n; ++i) f *= i; return f; }

// ------------------------------------------------------------------------------------------------ reference layout of a stream
// the harness' own computation of where a bin lives and how it is encoded
struct Layout
{
  const Geom* g; int ord; std::vector<int> sseq, kseq; const TypeInfo* ty; bool big; long off; int sc;
  std::vector<Key> order; // bins in stream order
  void init()
  {
    order.clear();
    for (int k : kseq)
      for (int s : sseq)
        {
          if (ord == 0) { for (int v = g->vmin; v <= g->vmax; ++v) for (int a = g->amin(s); a <= g->amax(s); ++a) for (int t = g->tmin; t <= g->tmax; ++t) order.push_back(Key{ s, a, v, t, k }); }
          else { for (int a = g->amin(s); a <= g->amax(s); ++a) for (int v = g->vmin; v <= g->vmax; ++v) for (int t = g->tmin; t <= g->tmax; ++t) order.push_back(Key{ s, a, v, t, k }); }
        }
  }
  size_t total() const { return (size_t)off + order.size() * ty->size; }
  static bool host_big() { const uint16_t x = 1; return *reinterpret_cast<const unsigned char*>(&x) == 0; }
  void put(std::string& bytes, size_t pos, float value) const
  {
    unsigned char b[8];
    const double q = value / sc;
    switch (ty->id)
      {
      case NumericType::FLOAT: { float f = (float)q; memcpy(b, &f, 4); break; }
      case NumericType::SHORT: { int16_t x = (int16_t)std::lround(q); memcpy(b, &x, 2); break; }
      case NumericType::USHORT: { uint16_t x = (uint16_t)std::lround(q); memcpy(b, &x, 2); break; }
      case NumericType::INT: { int32_t x = (int32_t)std::lround(q); memcpy(b, &x, 4); break; }
      case NumericType::SCHAR: { int8_t x = (int8_t)std::lround(q); memcpy(b, &x, 1); break; }
      default: { uint8_t x = (uint8_t)std::lround(q); memcpy(b, &x, 1); break; }
      }
    if (big != host_big()) std::reverse(b, b + ty->size);
    memcpy(&bytes[pos], b, ty->size);
  }
  double get(const std::string& bytes, size_t pos) const
  {
    unsigned char b[8];
    memcpy(b, &bytes[pos], ty->size);
    if (big != host_big()) std::reverse(b, b + ty->size);
    double q = 0;
    switch (ty->id)
      {
      case NumericType::FLOAT: { float f; memcpy(&f, b, 4); q = f; break; }
      case NumericType::SHORT: { int16_t x; memcpy(&x, b, 2); q = x; break; }
      case NumericType::USHORT: { uint16_t x; memcpy(&x, b, 2); q = x; break; }
      case NumericType::INT: { int32_t x; memcpy(&x, b, 4); q = x; break; }
      case NumericType::SCHAR: { int8_t x; memcpy(&x, b, 1); q = x; break; }
      default: { uint8_t x; memcpy(&x, b, 1); q = x; break; }
      }
    return q * sc;
  }
  static const unsigned char JUNK = 0xA5;
  std::string encode(const std::map<Key, float>& ref) const
  {
    std::string bytes(total(), '\0');
    for (long i = 0; i < off; ++i) bytes[i] = (char)JUNK;
    size_t pos = off;
    for (const Key& k : order) { put(bytes, pos, ref.at(k)); pos += ty->size; }
    return bytes;
  }
};

// ------------------------------------------------------------------------------------------------ world
struct Err
{
  std::string key, msg;
  bool bad() const { return !key.empty(); }
  void set(const std::string& k, const std::string& m) { if (!bad()) { key = k; msg = m; } }
};

static std::string kstr(const Key& k)
{
  return "(seg " + vmc::str(k[0]) + ", ax " + vmc::str(k[1]) + ", view " + vmc::str(k[2]) + ", tang " + vmc::str(k[3]) + ", tof " + vmc::str(k[4]) + ")";
}

static shared_ptr<ExamInfo> make_exam_info()
{
  shared_ptr<ExamInfo> ex(new ExamInfo);
  ex->imaging_modality = ImagingModality::PT;
  ex->patient_position = PatientPosition(PatientPosition::HFS);
  TimeFrameDefinitions tf; tf.set_num_time_frames(1); tf.set_time_frame(1, 5., 25.);
  ex->set_time_frame_definitions(tf);
  ex->set_low_energy_thres(425.F); ex->set_high_energy_thres(650.F);
  ex->start_time_in_secs_since_1970 = 1.0e9;
  ex->set_calibration_factor(2.5F);
  // an explicit radionuclide that is not the PET default: the Interfile header stores name, half life and branching ratio.
  // (An unset radionuclide is not stored; reading then fills in the modality's default, which the statement does not forbid.)
  ex->set_radionuclide(Radionuclide("Xx-1", 511.F, 0.75F, 123.5F, ex->imaging_modality));
  return ex;
}

struct World
{
  vmc::Ctx* ctx = nullptr;
  Config cfg; const Geom* g = nullptr;
  shared_ptr<ExamInfo> exam;
  shared_ptr<ProjData> pd;
  ProjDataInMemory* mem = nullptr;
  ProjDataFromStream* pdfs = nullptr;
  shared_ptr<std::iostream> stream;
  std::string base, data_file, header_file;
  Layout lay;
  std::map<Key, float> ref;   // THE reference: (segment, axial, view, tangential, tof) -> value
  std::vector<float> refv;    // flat mirror of ref (by lin index) for the hot comparison loops; cross-checked against ref at the end of every execution
  std::vector<char> touched; // by lin index, for the last op
  std::string opcls;         // class of the last op (for keys)
  Err err;
  bool rejected = false; std::string reject_msg;

  float scale() const { return cfg.store == "mem" ? 1.F : (float)cfg.sc; }
  long M() const { return cfg.store == "mem" ? 100003 : TYPES[cfg.ty].M; }
  // labelling data set: value of a bin written by operation `opid` (distinct small integers, multiples of the scale factor)
  float val(const Key& k, int opid) const { return (float)(((long)g->lin_of(k) * 7 + (long)opid * 13 + 1) % M()) * scale(); }
  float cval(int opid) const { return (float)(((long)opid * 13 + 5) % M()) * scale(); }

  void touch_none() { touched.assign(g->nbins(), 0); }
  void touch(const Key& k) { touched[g->lin_of(k)] = 1; }
  bool mirror_ok() const { size_t i = 0; for (auto& kv : ref) { if (kv.first != g->keys[i] || kv.second != refv[i]) return false; ++i; } return i == refv.size(); }
  std::string kp() const { return std::string("class=") + cfg.cls(); }

  // create the real object
  void init(vmc::Ctx& c, const Config& cf, const Geom& geom)
  {
    ctx = &c; cfg = cf; g = &geom;
    exam = make_exam_info();
    for (const Key& k : g->keys) ref[k] = 0.F;
    refv.assign(g->nbins(), 0.F);
    touch_none();
    if (cfg.store == "mem")
      {
        mem = new ProjDataInMemory(exam, g->pdi);
        pd.reset(mem);
        return;
      }
    lay.g = g; lay.ord = cfg.ord; lay.ty = &TYPES[cfg.ty]; lay.big = cfg.bo == 1; lay.off = cfg.off; lay.sc = cfg.sc;
    {
      std::vector<int> segs; for (int s = g->smin; s <= g->smax; ++s) segs.push_back(s);
      lay.sseq = kth_permutation(segs, cfg.sp);
      std::vector<int> ks; for (int k = g->kmin; k <= g->kmax; ++k) ks.push_back(k);
      lay.kseq = kth_permutation(ks, cfg.tp);
    }
    lay.init();
    const ProjDataFromStream::StorageOrder so = cfg.ord == 0 ? ProjDataFromStream::Segment_View_AxialPos_TangPos : ProjDataFromStream::Segment_AxialPos_View_TangPos;
    const NumericType nt(TYPES[cfg.ty].id);
    const ByteOrder bo = cfg.bo == 1 ? ByteOrder::big_endian : ByteOrder::little_endian;
    base = ctx->tmpdir + "/c02_s" + vmc::str(ctx->shard) + "_" + vmc::str((long)getpid());
    data_file = base + ".s"; header_file = base + ".hs";
    const std::string zeros = lay.encode(ref);
    std::string what;
    if (cfg.store == "sstr" || cfg.store == "fstr")
      {
        if (cfg.store == "sstr") stream.reset(new std::stringstream(std::ios::in | std::ios::out | std::ios::binary));
        else stream.reset(new std::fstream(data_file.c_str(), std::ios::in | std::ios::out | std::ios::trunc | std::ios::binary));
        if (!*stream) { fprintf(stderr, "C02: cannot create %s\n", data_file.c_str()); exit(2); }
        stream->write(zeros.data(), (std::streamsize)zeros.size());
        stream->flush();
        if (small::throws([&] {
              pdfs = new ProjDataFromStream(exam, g->pdi, stream, (std::streamoff)cfg.off, lay.sseq, so, nt, bo, (float)cfg.sc);
              pd.reset(pdfs);
              if (g->tof() && cfg.tp != 0) pdfs->set_timing_poss_sequence_in_stream(lay.kseq);
              if (cfg.store == "fstr")
                if (write_basic_interfile_PDFS_header(header_file, data_file, *pdfs) != Succeeded::yes) error("write_basic_interfile_PDFS_header returned no");
            }, &what))
          { rejected = true; reject_msg = what; }
      }
    else
      {
        if (small::throws([&] {
              ProjDataInterfile* p = new ProjDataInterfile(exam, g->pdi, header_file, std::ios::in | std::ios::out | std::ios::trunc, lay.sseq, so, nt, bo, (float)cfg.sc);
              pdfs = p; pd.reset(p);
              // a new file is empty: the history-independent initial state is produced by fill(0)
              p->fill(0.F);
            }, &what))
          { rejected = true; reject_msg = what; }
      }
  }
  ~World() { pd.reset(); stream.reset(); }

  // ---- reading helpers -----------------------------------------------------------------------------------------
  long compared = 0;
  void expect(const Key& k, float got, const char* path)
  {
    ++compared;
    const int li = g->lin_of(k);
    const float want = refv[li];
    if (got == want) return;
    const bool t = touched[li];
    // which bin holds the value that was returned (diagnosis only)
    std::string from;
    for (auto& kv : ref) if (kv.second == got && kv.second != 0.F) { from = " = the value of bin " + kstr(kv.first); break; }
    err.set(std::string(t ? "clause=readback;" : "clause=other_bin_changed;") + kp() + ";op=" + opcls + ";path=" + path,
            std::string(path) + " gives " + vmc::str(got) + from + " for bin " + kstr(k) + ", reference has " + vmc::str(want)
                + (t ? " (written by the last operation)" : " (NOT touched by the last operation)"));
  }
  void meta(bool ok, const char* path, const std::string& what)
  {
    if (!ok) err.set("clause=metadata;" + kp() + ";path=" + path, std::string(path) + ": " + what);
  }
  float get_bin(const Key& k)
  {
    Bin b(k[0], k[2], k[1], k[3], k[4]);
    return mem ? mem->get_bin_value(b) : pdfs->get_bin_value(b);
  }
  void set_bin(const Key& k, float v)
  {
    Bin b(k[0], k[2], k[1], k[3], k[4]);
    b.set_bin_value(v);
    if (mem) mem->set_bin_value(b); else pdfs->set_bin_value(b);
  }
  template <class F> void guarded_read(const char* path, F f)
  {
    if (err.bad()) return;
    std::string what;
    if (small::throws(f, &what)) err.set("clause=read_failed;" + kp() + ";op=" + opcls + ";path=" + path, std::string(path) + " of an in-range request threw: " + what);
  }
  void read_seg_by_sino(const ProjData& p, int s, int k, const char* path = "get_segment_by_sinogram")
  {
    guarded_read(path, [&] {
      SegmentBySinogram<float> seg = p.get_segment_by_sinogram(s, k);
      meta(seg.get_segment_num() == s && seg.get_timing_pos_num() == k, path, "wrong segment/timing index in the returned object");
      meta(seg.get_min_axial_pos_num() == g->amin(s) && seg.get_max_axial_pos_num() == g->amax(s) && seg.get_min_view_num() == g->vmin && seg.get_max_view_num() == g->vmax
               && seg.get_min_tangential_pos_num() == g->tmin && seg.get_max_tangential_pos_num() == g->tmax, path, "wrong index ranges");
      if (err.bad()) return;
      for (int a = g->amin(s); a <= g->amax(s); ++a) for (int v = g->vmin; v <= g->vmax; ++v) for (int t = g->tmin; t <= g->tmax; ++t) expect(Key{ s, a, v, t, k }, seg[a][v][t], path);
    });
  }
  void read_block_all_paths(int s, int k)
  {
    read_seg_by_sino(*pd, s, k);
    guarded_read("get_segment_by_view", [&] {
      SegmentByView<float> seg = pd->get_segment_by_view(s, k);
      meta(seg.get_segment_num() == s && seg.get_timing_pos_num() == k, "get_segment_by_view", "wrong segment/timing index in the returned object");
      meta(seg.get_min_axial_pos_num() == g->amin(s) && seg.get_max_axial_pos_num() == g->amax(s) && seg.get_min_view_num() == g->vmin && seg.get_max_view_num() == g->vmax
               && seg.get_min_tangential_pos_num() == g->tmin && seg.get_max_tangential_pos_num() == g->tmax, "get_segment_by_view", "wrong index ranges");
      if (err.bad()) return;
      for (int a = g->amin(s); a <= g->amax(s); ++a) for (int v = g->vmin; v <= g->vmax; ++v) for (int t = g->tmin; t <= g->tmax; ++t) expect(Key{ s, a, v, t, k }, seg[v][a][t], "get_segment_by_view");
    });
    guarded_read("get_viewgram", [&] {
      for (int v = g->vmin; v <= g->vmax && !err.bad(); ++v)
        {
          Viewgram<float> vg = (v % 2) ? pd->get_viewgram(v, s, false, k) : pd->get_viewgram(ViewgramIndices(v, s, k));
          meta(vg.get_segment_num() == s && vg.get_view_num() == v && vg.get_timing_pos_num() == k, "get_viewgram", "wrong indices in the returned object");
          meta(vg.get_min_axial_pos_num() == g->amin(s) && vg.get_max_axial_pos_num() == g->amax(s) && vg.get_min_tangential_pos_num() == g->tmin && vg.get_max_tangential_pos_num() == g->tmax,
               "get_viewgram", "wrong index ranges");
          if (err.bad()) return;
          for (int a = g->amin(s); a <= g->amax(s); ++a) for (int t = g->tmin; t <= g->tmax; ++t) expect(Key{ s, a, v, t, k }, vg[a][t], "get_viewgram");
        }
    });
    guarded_read("get_sinogram", [&] {
      for (int a = g->amin(s); a <= g->amax(s) && !err.bad(); ++a)
        {
          Sinogram<float> si = (a % 2) ? pd->get_sinogram(a, s, false, k) : pd->get_sinogram(SinogramIndices(a, s, k));
          meta(si.get_segment_num() == s && si.get_axial_pos_num() == a && si.get_timing_pos_num() == k, "get_sinogram", "wrong indices in the returned object");
          meta(si.get_min_view_num() == g->vmin && si.get_max_view_num() == g->vmax && si.get_min_tangential_pos_num() == g->tmin && si.get_max_tangential_pos_num() == g->tmax, "get_sinogram",
               "wrong index ranges");
          if (err.bad()) return;
          for (int v = g->vmin; v <= g->vmax; ++v) for (int t = g->tmin; t <= g->tmax; ++t) expect(Key{ s, a, v, t, k }, si[v][t], "get_sinogram");
        }
    });
    guarded_read("get_bin_value", [&] {
      for (int a = g->amin(s); a <= g->amax(s); ++a) for (int v = g->vmin; v <= g->vmax; ++v) for (int t = g->tmin; t <= g->tmax; ++t) { Key key{ s, a, v, t, k }; expect(key, get_bin(key), "get_bin_value"); }
    });
  }
  void read_related(int k, int only_segment_abs = -1)
  {
    guarded_read("get_related_viewgrams", [&] {
      for (const ViewgramIndices& b : g->basic)
        {
          if (only_segment_abs >= 0 && std::abs(b.segment_num()) != only_segment_abs) continue;
          RelatedViewgrams<float> rv = pd->get_related_viewgrams(ViewgramIndices(b.view_num(), b.segment_num(), k), g->sym, false, k);
          for (auto it = rv.begin(); it != rv.end() && !err.bad(); ++it)
            {
              const int s = it->get_segment_num(), v = it->get_view_num();
              meta(it->get_timing_pos_num() == k, "get_related_viewgrams", "wrong timing index in a returned viewgram");
              for (int a = g->amin(s); a <= g->amax(s); ++a) for (int t = g->tmin; t <= g->tmax; ++t) expect(Key{ s, a, v, t, k }, (*it)[a][t], "get_related_viewgrams");
            }
        }
    });
  }
  void read_linear_paths()
  {
    // copy_to: documented order = TOF slowest, standard segment sequence, by sinogram
    guarded_read("copy_to", [&] {
      std::vector<float> out(g->nbins() + 4, -77.F);
      auto end = pd->copy_to(out.begin());
      meta((size_t)(end - out.begin()) == g->nbins(), "copy_to", "returned iterator not advanced by the number of bins");
      size_t i = 0;
      for (int k = g->kmin; k <= g->kmax; ++k) for (int s : g->std_seq) for (int a = g->amin(s); a <= g->amax(s); ++a) for (int v = g->vmin; v <= g->vmax; ++v) for (int t = g->tmin; t <= g->tmax; ++t)
        expect(Key{ s, a, v, t, k }, out[i++], "copy_to");
      meta(out[g->nbins()] == -77.F, "copy_to", "wrote past the number of bins");
    });
    if (mem)
      guarded_read("begin_all", [&] {
        meta((size_t)(mem->end_all() - mem->begin_all()) == g->nbins() && mem->size_all() == g->nbins(), "begin_all", "iterator range length != number of bins");
        auto it = const_cast<const ProjDataInMemory*>(mem)->begin_all();
        for (int k = g->kmin; k <= g->kmax; ++k) for (int s : g->std_seq) for (int a = g->amin(s); a <= g->amax(s); ++a) for (int v = g->vmin; v <= g->vmax; ++v) for (int t = g->tmin; t <= g->tmax; ++t)
          expect(Key{ s, a, v, t, k }, *it++, "begin_all");
      });
  }
  // everything through one path (is any other bin changed?)
  void read_everything_one_path()
  {
    for (int k = g->kmin; k <= g->kmax && !err.bad(); ++k) for (int s = g->smin; s <= g->smax && !err.bad(); ++s) read_seg_by_sino(*pd, s, k);
  }
  void read_everything_all_paths()
  {
    for (int k = g->kmin; k <= g->kmax && !err.bad(); ++k)
      {
        for (int s = g->smin; s <= g->smax && !err.bad(); ++s) read_block_all_paths(s, k);
        read_related(k);
      }
    read_linear_paths();
  }
  void read_touched_all_paths()
  {
    std::set<std::pair<int, int>> blocks;
    for (size_t i = 0; i < touched.size(); ++i) if (touched[i]) blocks.insert({ g->keys[i][0], g->keys[i][4] });
    for (auto& b : blocks) { if (err.bad()) return; read_block_all_paths(b.first, b.second); read_related(b.second, std::abs(b.first)); }
  }

  // ---- independent readers -------------------------------------------------------------------------------------
  // raw bytes against the harness' own layout; `what` = "observer" (second ifstream on the file) or "layout" (stringstream content)
  void check_raw(const std::string& bytes, const std::string& clause, const std::string& reader)
  {
    if (err.bad()) return;
    const std::string k0 = "clause=" + clause + ";" + kp() + ";op=" + opcls + ";reader=" + reader;
    if (bytes.size() != lay.total())
      { err.set(k0 + ";what=size", "data stream has " + vmc::str(bytes.size()) + " bytes, layout says " + vmc::str(lay.total())); return; }
    for (long i = 0; i < lay.off; ++i)
      if ((unsigned char)bytes[i] != Layout::JUNK) { err.set(k0 + ";what=bytes_before_offset", "byte " + vmc::str(i) + " before the data offset was overwritten"); return; }
    size_t pos = lay.off;
    for (const Key& k : lay.order)
      {
        const double got = lay.get(bytes, pos);
        ++compared;
        const int li = g->lin_of(k);
        if (got != (double)refv[li])
          {
            err.set(k0 + ";what=" + (touched[li] ? "written_value_not_visible" : "other_bin_changed"),
                    "independent reader (" + reader + ") decodes " + vmc::str(got) + " at byte " + vmc::str(pos) + " = bin " + kstr(k) + ", reference has " + vmc::str(refv[li])
                        + (touched[li] ? " (written by the last operation, writer still open)" : " (not touched by the last operation)"));
            return;
          }
        pos += lay.ty->size;
      }
  }
  void observe_raw_file()
  {
    std::ifstream f(data_file.c_str(), std::ios::binary);
    std::string bytes((std::istreambuf_iterator<char>(f)), std::istreambuf_iterator<char>());
    ctx->count("observer_checks_raw_file");
    check_raw(bytes, "observer", "second_ifstream");
  }
  void observe_sstream()
  {
    std::stringstream* ss = dynamic_cast<std::stringstream*>(stream.get());
    ctx->count("layout_checks_stringstream");
    check_raw(ss->str(), "layout", "stringstream_bytes");
  }
  // ProjData::read_from_file on the header while the writer is open: geometry, exam info, values (= header round trip)
  void observe_read_from_file()
  {
    if (err.bad()) return;
    ctx->count("observer_checks_read_from_file");
    const std::string k0 = kp() + ";op=" + opcls;
    shared_ptr<ProjData> in;
    std::string what;
    if (small::throws([&] { in = ProjData::read_from_file(header_file); }, &what) || !in)
      { err.set("clause=header_roundtrip;" + k0 + ";what=read_from_file_failed", "ProjData::read_from_file(" + header_file + ") failed: " + what); return; }
    if (!(*in->get_proj_data_info_sptr() == *g->pdi))
      { err.set("clause=header_roundtrip;" + k0 + ";what=proj_data_info", "ProjDataInfo read back differs: wrote\n" + g->pdi->parameter_info() + "\nread\n" + in->get_proj_data_info_sptr()->parameter_info()); return; }
    const ExamInfo& e = in->get_exam_info();
    const ExamInfo& w = *exam;
    auto bad = [&](const std::string& field, const std::string& m) { err.set("clause=header_roundtrip;" + kp() + ";what=exam_info;field=" + field, "exam info field '" + field + "' not preserved by write -> read_from_file: " + m); };
    if (!(e.imaging_modality == w.imaging_modality)) bad("imaging_modality", e.imaging_modality.get_name());
    if (!(e.patient_position == w.patient_position)) bad("patient_position", "");
    if (!(e.time_frame_definitions == w.time_frame_definitions)) bad("time_frame_definitions", "frames read " + vmc::str(e.time_frame_definitions.get_num_frames()));
    if (std::fabs(e.get_low_energy_thres() - w.get_low_energy_thres()) > 1 || std::fabs(e.get_high_energy_thres() - w.get_high_energy_thres()) > 1)
      bad("energy_window", vmc::str(e.get_low_energy_thres()) + ".." + vmc::str(e.get_high_energy_thres()));
    if (!(e.radionuclide == w.radionuclide)) bad("radionuclide", "");
    if (std::fabs(e.start_time_in_secs_since_1970 - w.start_time_in_secs_since_1970) > .5) bad("start_time_in_secs_since_1970", "wrote " + vmc::str(w.start_time_in_secs_since_1970) + " read " + vmc::str(e.start_time_in_secs_since_1970));
    if (!((e.get_calibration_factor() <= 0 && w.get_calibration_factor() <= 0) || std::fabs(e.get_calibration_factor() / w.get_calibration_factor() - 1.) <= 1E-3))
      bad("calibration_factor", "wrote " + vmc::str(w.get_calibration_factor()) + " read " + vmc::str(e.get_calibration_factor()));
    if (err.bad()) return;
    if (!(e == w)) { bad("operator==", "ExamInfo::operator== false although all fields compared equal"); return; }
    // values
    const std::string saved = opcls;
    for (int k = g->kmin; k <= g->kmax && !err.bad(); ++k)
      for (int s = g->smin; s <= g->smax && !err.bad(); ++s)
        {
          Err keep = err; err = Err();
          read_seg_by_sino(*in, s, k, "read_from_file");
          if (err.bad())
            {
              Err e2; e2.set("clause=observer;" + kp() + ";op=" + saved + ";reader=read_from_file", "independent ProjData::read_from_file reader (writer still open): " + err.msg);
              err = e2;
            }
          else err = keep;
        }
  }
  void observers(bool with_rff)
  {
    if (cfg.store == "sstr") observe_sstream();
    if (cfg.is_file()) { observe_raw_file(); if (with_rff) observe_read_from_file(); }
  }
};

// ------------------------------------------------------------------------------------------------ operations
struct Op
{
  std::string name, cls;
  bool is_write = true;
  std::function<void(World&, int)> run; // (world, opid): performs the real call and updates w.ref / w.touched
};

template <class F> static void guarded_write(World& w, const std::string& what, F f)
{
  std::string msg;
  Succeeded ok = Succeeded::yes;
  if (small::throws([&] { ok = f(); }, &msg)) w.err.set("clause=write_failed;" + w.kp() + ";op=" + w.opcls + ";how=exception", what + " (in range) threw: " + msg);
  else if (ok != Succeeded::yes) w.err.set("clause=write_failed;" + w.kp() + ";op=" + w.opcls + ";how=Succeeded_no", what + " (in range) returned Succeeded::no");
}
static void ref_set(World& w, const Key& k, float v) { w.ref[k] = v; const int li = w.g->lin_of(k); w.refv[li] = v; w.touched[li] = 1; }

// ---- fill(const ProjData&) from ANOTHER object whose geometry is `sg` (the target's own geometry or one with a larger segment range)
struct SrcKind
{
  char store;   // 'm' ProjDataInMemory, 's' ProjDataFromStream over a stringstream, 'f' ProjDataFromStream over an fstream on a file in the tmpdir
  int ord;      // storage order of a stream source (0 = Segment_View_AxialPos_TangPos, 1 = Segment_AxialPos_View_TangPos)
  int seq;      // segment sequence of a stream source: 0 natural (min..max), 1 standard (0,1,-1,..), 2 scrambled
  bool swapped; // stream source: non-native byte order and (TOF) reversed timing sequence
  std::string str() const
  {
    if (store == 'm') return "ProjDataInMemory";
    return std::string("ProjDataFromStream over ") + (store == 's' ? "a stringstream" : "a file") + ", storage order " + vmc::str(ord) + ", " + (seq == 0 ? "natural" : seq == 1 ? "standard" : "scrambled") + " segment sequence"
           + (swapped ? ", other byte order, reversed timing sequence" : "");
  }
  const char* cls() const { return store == 'm' ? "inmemory" : store == 's' ? "fromstream" : "fromfile"; }
};
// value of bin k of the source: the label of the same bin of the target if the target has it, else a value no bin of the target may ever get
static float src_val(const World& w, const Geom& sg, const Key& k, int id)
{
  return (k[0] >= w.g->smin && k[0] <= w.g->smax) ? w.val(k, id) : -(float)(1 + sg.lin_of(k));
}
static void fill_from_other(World& w, const Geom& sg, const SrcKind& kind, int id)
{
  const Geom& g = *w.g;
  shared_ptr<ExamInfo> ex(new ExamInfo(ImagingModality::PT));
  shared_ptr<ProjData> other;
  shared_ptr<std::iostream> st;
  std::string file;
  if (kind.store == 'm')
    {
      ProjDataInMemory* om = new ProjDataInMemory(ex, sg.pdi);
      other.reset(om);
      // fill the source through its iterator (documented order of fill_from/copy_to, over the SOURCE's segments)
      auto it = om->begin_all();
      for (int k = sg.kmin; k <= sg.kmax; ++k) for (int s : sg.std_seq) for (int a = sg.amin(s); a <= sg.amax(s); ++a) for (int v = sg.vmin; v <= sg.vmax; ++v) for (int t = sg.tmin; t <= sg.tmax; ++t)
        *it++ = src_val(w, sg, Key{ s, a, v, t, k }, id);
    }
  else
    {
      // the source is prepared with the harness' own encoder (float on disk)
      Layout l; l.g = &sg; l.ord = kind.ord; l.ty = &TYPES[0]; l.big = kind.swapped ? !Layout::host_big() : Layout::host_big(); l.off = 0; l.sc = 1;
      for (int s = sg.smin; s <= sg.smax; ++s) l.sseq.push_back(s);
      if (kind.seq == 1) l.sseq = sg.std_seq;
      else if (kind.seq == 2 && l.sseq.size() > 1) { std::rotate(l.sseq.begin(), l.sseq.begin() + 1, l.sseq.end()); std::swap(l.sseq.front(), l.sseq.back()); std::reverse(l.sseq.begin() + 1, l.sseq.end()); }
      for (int k = sg.kmin; k <= sg.kmax; ++k) l.kseq.push_back(k);
      if (kind.swapped) std::reverse(l.kseq.begin(), l.kseq.end());
      l.init();
      std::map<Key, float> vals; for (const Key& k : sg.keys) vals[k] = src_val(w, sg, k, id);
      const std::string bytes = l.encode(vals);
      if (kind.store == 's') st.reset(new std::stringstream(bytes, std::ios::in | std::ios::out | std::ios::binary));
      else
        {
          file = w.ctx->tmpdir + "/c02_src_s" + vmc::str(w.ctx->shard) + "_" + vmc::str((long)getpid()) + ".s";
          { std::ofstream f(file.c_str(), std::ios::binary | std::ios::trunc); f.write(bytes.data(), (std::streamsize)bytes.size()); }
          st.reset(new std::fstream(file.c_str(), std::ios::in | std::ios::out | std::ios::binary));
          if (!*st) { fprintf(stderr, "C02: cannot open %s\n", file.c_str()); exit(2); }
        }
      ProjDataFromStream* op = new ProjDataFromStream(ex, sg.pdi, st, 0, l.sseq, kind.ord == 0 ? ProjDataFromStream::Segment_View_AxialPos_TangPos : ProjDataFromStream::Segment_AxialPos_View_TangPos,
                                                      NumericType(NumericType::FLOAT), l.big ? ByteOrder::big_endian : ByteOrder::little_endian, 1.F);
      other.reset(op);
      if (sg.tof() && kind.swapped) op->set_timing_poss_sequence_in_stream(l.kseq);
    }
  guarded_write(w, "fill(const ProjData&)", [&] { w.pd->fill(*other); return Succeeded::yes; });
  // the reference: every bin of the target = the source's bin with the same (segment, axial, view, tangential, TOF) coordinates
  for (const Key& k : g.keys) ref_set(w, k, src_val(w, sg, k, id));
  other.reset(); st.reset();
  if (!file.empty()) unlink(file.c_str());
  if (&sg != &g)
    {
      w.ctx->count("fills_from_a_source_with_more_segments");
      w.ctx->count(std::string("fills_from_a_source_with_more_segments_") + w.cfg.store + "_from_" + kind.cls());
      if (!g.symmetric_range()) w.ctx->count("fills_from_a_source_with_more_segments_target_range_asymmetric");
      if (!g.std_seq_is_prefix_of(sg)) w.ctx->count("fills_from_a_source_with_more_segments_target_sequence_not_a_prefix_of_the_source_sequence");
      if (g.tof()) w.ctx->count("fills_from_a_source_with_more_segments_tof");
    }
}

static std::vector<Op> make_ops(const std::vector<Geom>& geoms, int gi, const std::string& store)
{
  const Geom& g = geoms[gi];
  std::vector<Op> ops;
  const bool mem = store == "mem";
  // --- single bins: 4 colliding bins (x 2 TOF bins)
  {
    const int s0 = g.S2[0], s1 = g.S2[1];
    std::vector<Key> bins;
    for (int k : g.K2)
      {
        bins.push_back(Key{ s0, g.amin(s0), g.V2[0], g.tmin, k });
        bins.push_back(Key{ s0, g.amax(s0), g.V2[1], g.tmax, k });
        bins.push_back(Key{ s1, g.amin(s1), g.V2[1], g.tmin + 1, k });
        bins.push_back(Key{ s1, g.amax(s1), g.V2[0], g.tmax, k });
      }
    for (const Key& b : bins)
      ops.push_back({ "set_bin_value" + kstr(b), "set_bin_value", true, [b](World& w, int id) {
                       const float v = w.val(b, id);
                       guarded_write(w, "set_bin_value" + kstr(b), [&] { w.set_bin(b, v); return Succeeded::yes; });
                       ref_set(w, b, v);
                     } });
  }
  // --- viewgrams
  for (int k : g.K2) for (int s : g.S2) for (int v : g.V2)
    ops.push_back({ "set_viewgram(view " + vmc::str(v) + ", seg " + vmc::str(s) + ", tof " + vmc::str(k) + ")", "set_viewgram", true, [=, &g](World& w, int id) {
                     Viewgram<float> vg = (v % 2) ? w.pd->get_empty_viewgram(v, s, false, k) : w.pd->get_empty_viewgram(ViewgramIndices(v, s, k));
                     for (int a = g.amin(s); a <= g.amax(s); ++a) for (int t = g.tmin; t <= g.tmax; ++t) vg[a][t] = w.val(Key{ s, a, v, t, k }, id);
                     guarded_write(w, "set_viewgram", [&] { return w.pd->set_viewgram(vg); });
                     for (int a = g.amin(s); a <= g.amax(s); ++a) for (int t = g.tmin; t <= g.tmax; ++t) ref_set(w, Key{ s, a, v, t, k }, vg[a][t]);
                   } });
  // --- sinograms
  for (int k : g.K2) for (int s : g.S2)
    {
      std::vector<int> axs{ g.amin(s) }; if (g.amax(s) != g.amin(s)) axs.push_back(g.amax(s));
      for (int a : axs)
        ops.push_back({ "set_sinogram(ax " + vmc::str(a) + ", seg " + vmc::str(s) + ", tof " + vmc::str(k) + ")", "set_sinogram", true, [=, &g](World& w, int id) {
                         Sinogram<float> si = w.pd->get_empty_sinogram(a, s, false, k);
                         for (int v = g.vmin; v <= g.vmax; ++v) for (int t = g.tmin; t <= g.tmax; ++t) si[v][t] = w.val(Key{ s, a, v, t, k }, id);
                         guarded_write(w, "set_sinogram", [&] { return w.pd->set_sinogram(si); });
                         for (int v = g.vmin; v <= g.vmax; ++v) for (int t = g.tmin; t <= g.tmax; ++t) ref_set(w, Key{ s, a, v, t, k }, si[v][t]);
                       } });
    }
  // --- segments
  for (int k : g.K2) for (int s : g.S2)
    {
      ops.push_back({ "set_segment(by view, seg " + vmc::str(s) + ", tof " + vmc::str(k) + ")", "set_segment_by_view", true, [=, &g](World& w, int id) {
                       SegmentByView<float> seg = w.pd->get_empty_segment_by_view(s, false, k);
                       for (int a = g.amin(s); a <= g.amax(s); ++a) for (int v = g.vmin; v <= g.vmax; ++v) for (int t = g.tmin; t <= g.tmax; ++t) seg[v][a][t] = w.val(Key{ s, a, v, t, k }, id);
                       guarded_write(w, "set_segment(SegmentByView)", [&] { return w.pd->set_segment(seg); });
                       for (int a = g.amin(s); a <= g.amax(s); ++a) for (int v = g.vmin; v <= g.vmax; ++v) for (int t = g.tmin; t <= g.tmax; ++t) ref_set(w, Key{ s, a, v, t, k }, seg[v][a][t]);
                     } });
      ops.push_back({ "set_segment(by sinogram, seg " + vmc::str(s) + ", tof " + vmc::str(k) + ")", "set_segment_by_sinogram", true, [=, &g](World& w, int id) {
                       SegmentBySinogram<float> seg = w.pd->get_empty_segment_by_sinogram(SegmentIndices(s, k));
                       for (int a = g.amin(s); a <= g.amax(s); ++a) for (int v = g.vmin; v <= g.vmax; ++v) for (int t = g.tmin; t <= g.tmax; ++t) seg[a][v][t] = w.val(Key{ s, a, v, t, k }, id);
                       guarded_write(w, "set_segment(SegmentBySinogram)", [&] { return w.pd->set_segment(seg); });
                       for (int a = g.amin(s); a <= g.amax(s); ++a) for (int v = g.vmin; v <= g.vmax; ++v) for (int t = g.tmin; t <= g.tmax; ++t) ref_set(w, Key{ s, a, v, t, k }, seg[a][v][t]);
                     } });
    }
  // --- related viewgrams: the first two basic pairs with the largest related sets touching S2
  {
    std::vector<std::pair<int, ViewgramIndices>> cand;
    for (const ViewgramIndices& b : g.basic)
      {
        std::vector<ViewSegmentNumbers> pairs; g.sym->get_related_view_segment_numbers(pairs, b);
        cand.push_back({ -(int)pairs.size(), b });
      }
    std::stable_sort(cand.begin(), cand.end(), [](const std::pair<int, ViewgramIndices>& a, const std::pair<int, ViewgramIndices>& b) { return a.first < b.first; });
    for (size_t i = 0; i < cand.size() && i < 2; ++i)
      for (int k : g.K2)
        {
          const int bv = cand[i].second.view_num(), bs = cand[i].second.segment_num();
          ops.push_back({ "set_related_viewgrams(basic view " + vmc::str(bv) + ", seg " + vmc::str(bs) + ", tof " + vmc::str(k) + "; " + vmc::str(-cand[i].first) + " related)", "set_related_viewgrams", true,
                          [=, &g](World& w, int id) {
                            RelatedViewgrams<float> rv = w.pd->get_empty_related_viewgrams(ViewgramIndices(bv, bs, k), g.sym, false, k);
                            for (auto it = rv.begin(); it != rv.end(); ++it)
                              { const int s = it->get_segment_num(), v = it->get_view_num(); for (int a = g.amin(s); a <= g.amax(s); ++a) for (int t = g.tmin; t <= g.tmax; ++t) (*it)[a][t] = w.val(Key{ s, a, v, t, k }, id); }
                            guarded_write(w, "set_related_viewgrams", [&] { return w.pd->set_related_viewgrams(rv); });
                            for (auto it = rv.begin(); it != rv.end(); ++it)
                              { const int s = it->get_segment_num(), v = it->get_view_num(); for (int a = g.amin(s); a <= g.amax(s); ++a) for (int t = g.tmin; t <= g.tmax; ++t) ref_set(w, Key{ s, a, v, t, k }, (*it)[a][t]); }
                            w.ctx->count("related_viewgrams_written", rv.get_num_viewgrams());
                          } });
        }
  }
  // --- bulk
  ops.push_back({ "fill(value)", "fill_value", true, [&g](World& w, int id) {
                   const float v = w.cval(id);
                   guarded_write(w, "fill(float)", [&] { w.pd->fill(v); return Succeeded::yes; });
                   for (const Key& k : g.keys) ref_set(w, k, v);
                 } });
  for (int src = 0; src < 2; ++src)
    ops.push_back({ std::string("fill(other ProjData") + (src == 0 ? "InMemory)" : "FromStream over a stringstream, other storage order)"), src == 0 ? "fill_projdata_inmemory" : "fill_projdata_fromstream", true,
                    [&g, src](World& w, int id) {
                      shared_ptr<ExamInfo> ex(new ExamInfo(ImagingModality::PT));
                      shared_ptr<ProjData> other;
                      shared_ptr<std::iostream> ss;
                      ProjDataInMemory* om = nullptr;
                      if (src == 0) { om = new ProjDataInMemory(ex, g.pdi); other.reset(om); }
                      else
                        {
                          // the source is prepared with the harness' own encoder (float, SAVT order, natural segment order)
                          Layout l; l.g = &g; l.ord = 1; l.ty = &TYPES[0]; l.big = Layout::host_big(); l.off = 0; l.sc = 1;
                          for (int s = g.smin; s <= g.smax; ++s) l.sseq.push_back(s);
                          for (int k = g.kmin; k <= g.kmax; ++k) l.kseq.push_back(k);
                          l.init();
                          std::map<Key, float> vals; for (const Key& k : g.keys) vals[k] = w.val(k, id);
                          ss.reset(new std::stringstream(l.encode(vals), std::ios::in | std::ios::out | std::ios::binary));
                          other.reset(new ProjDataFromStream(ex, g.pdi, ss, 0, ProjDataFromStream::Segment_AxialPos_View_TangPos));
                        }
                      if (om)
                        {
                          // fill the source through its iterator (documented order of fill_from/copy_to)
                          auto it = om->begin_all();
                          for (int k = g.kmin; k <= g.kmax; ++k) for (int s : g.std_seq) for (int a = g.amin(s); a <= g.amax(s); ++a) for (int v = g.vmin; v <= g.vmax; ++v) for (int t = g.tmin; t <= g.tmax; ++t)
                            *it++ = w.val(Key{ s, a, v, t, k }, id);
                        }
                      guarded_write(w, "fill(const ProjData&)", [&] { w.pd->fill(*other); return Succeeded::yes; });
                      for (const Key& k : g.keys) ref_set(w, k, w.val(k, id));
                    } });
  ops.push_back({ "fill_from(iterator)", "fill_from", true, [&g](World& w, int id) {
                   std::vector<float> in;
                   for (int k = g.kmin; k <= g.kmax; ++k) for (int s : g.std_seq) for (int a = g.amin(s); a <= g.amax(s); ++a) for (int v = g.vmin; v <= g.vmax; ++v) for (int t = g.tmin; t <= g.tmax; ++t)
                     in.push_back(w.val(Key{ s, a, v, t, k }, id));
                   in.push_back(-5.F);
                   guarded_write(w, "fill_from", [&] { auto e = w.pd->fill_from(in.begin()); return (size_t)(e - in.begin()) == g.nbins() ? Succeeded::yes : Succeeded::no; });
                   for (const Key& k : g.keys) ref_set(w, k, w.val(k, id));
                 } });
  if (mem)
    {
      ops.push_back({ "*(begin_all()+i)=v for every 5th element", "iterator_write", true, [&g](World& w, int id) {
                       auto it = w.mem->begin_all();
                       size_t i = 0;
                       for (int k = g.kmin; k <= g.kmax; ++k) for (int s : g.std_seq) for (int a = g.amin(s); a <= g.amax(s); ++a) for (int v = g.vmin; v <= g.vmax; ++v) for (int t = g.tmin; t <= g.tmax; ++t, ++i, ++it)
                         if (i % 5 == 2) { Key key{ s, a, v, t, k }; *it = w.val(key, id); ref_set(w, key, w.val(key, id)); }
                     } });
      ops.push_back({ "get_data_ptr()[last]=v", "data_ptr_write", true, [&g](World& w, int id) {
                       // last element in iteration order
                       const int k = g.kmax, s = g.std_seq.back(); Key key{ s, g.amax(s), g.vmax, g.tmax, k };
                       float* p = w.mem->get_data_ptr(); p[g.nbins() - 1] = w.val(key, id); w.mem->release_data_ptr();
                       ref_set(w, key, w.val(key, id));
                     } });
    }
  // --- reads (change nothing in the reference; kept in the state key as "last read")
  {
    const int s0 = g.S2[0], s1 = g.S2[1], k1 = g.K2.back();
    const Key b{ s1, g.amax(s1), g.V2[0], g.tmax, k1 };
    ops.push_back({ "get_bin_value" + kstr(b), "get_bin_value", false, [b](World& w, int) { w.guarded_read("get_bin_value", [&] { w.expect(b, w.get_bin(b), "get_bin_value"); }); } });
    ops.push_back({ "get_viewgram(view " + vmc::str(g.V2[1]) + ", seg " + vmc::str(s0) + ")", "get_viewgram", false, [=, &g](World& w, int) {
                     w.guarded_read("get_viewgram", [&] { Viewgram<float> vg = w.pd->get_viewgram(g.V2[1], s0, false, k1); for (int a = g.amin(s0); a <= g.amax(s0); ++a) for (int t = g.tmin; t <= g.tmax; ++t) w.expect(Key{ s0, a, g.V2[1], t, k1 }, vg[a][t], "get_viewgram"); });
                   } });
    ops.push_back({ "get_sinogram(ax max, seg " + vmc::str(s0) + ")", "get_sinogram", false, [=, &g](World& w, int) {
                     w.guarded_read("get_sinogram", [&] { Sinogram<float> si = w.pd->get_sinogram(g.amax(s0), s0, false, k1); for (int v = g.vmin; v <= g.vmax; ++v) for (int t = g.tmin; t <= g.tmax; ++t) w.expect(Key{ s0, g.amax(s0), v, t, k1 }, si[v][t], "get_sinogram"); });
                   } });
    ops.push_back({ "get_segment_by_view(seg " + vmc::str(s1) + ")", "get_segment_by_view", false, [=, &g](World& w, int) {
                     w.guarded_read("get_segment_by_view", [&] { SegmentByView<float> seg = w.pd->get_segment_by_view(SegmentIndices(s1, k1)); for (int a = g.amin(s1); a <= g.amax(s1); ++a) for (int v = g.vmin; v <= g.vmax; ++v) for (int t = g.tmin; t <= g.tmax; ++t) w.expect(Key{ s1, a, v, t, k1 }, seg[v][a][t], "get_segment_by_view"); });
                   } });
    ops.push_back({ "get_segment_by_sinogram(seg " + vmc::str(s0) + ")", "get_segment_by_sinogram", false, [=](World& w, int) { w.read_seg_by_sino(*w.pd, s0, k1); } });
  }
  // --- bulk fill from another object, continued (appended here so that the operation ids of the older alphabet stay as they were)
  // equal segment ranges, the OTHER storage order than "fill(other ProjDataFromStream ...)" above, scrambled segment sequence
  {
    const SrcKind kind{ 's', 0, 2, true };
    ops.push_back({ "fill(other " + kind.str() + ")", "fill_projdata_fromstream", true, [&g, kind](World& w, int id) { fill_from_other(w, g, kind, id); } });
  }
  // a source with a LARGER segment range (the documentation of ProjData::fill allows it): every geometry made from the same root whose
  // range strictly contains the target's, i.e. the root itself and the other derived geometries (symmetric and asymmetric ranges)
  if (g.root >= 0)
    for (size_t si = 0; si < geoms.size(); ++si)
      {
        const Geom& sg = geoms[si];
        const bool is_root = (int)si == g.root;
        if (!(is_root || sg.root == g.root)) continue;
        if (!(sg.smin <= g.smin && sg.smax >= g.smax && sg.nbins() > g.nbins())) continue;
        std::vector<SrcKind> kinds{ { 'm', 0, 0, false }, { 's', 0, 2, true } };
        if (is_root) { kinds.push_back({ 's', 1, 0, false }); kinds.push_back({ 'f', 1, 1, false }); }
        for (const SrcKind& kind : kinds)
          ops.push_back({ "fill(other " + kind.str() + " with segments " + vmc::str(sg.smin) + ".." + vmc::str(sg.smax) + ")", std::string("fill_wider_projdata_") + kind.cls(), true,
                          [&sg, kind](World& w, int id) { fill_from_other(w, sg, kind, id); } });
      }
  return ops;
}

// ------------------------------------------------------------------------------------------------ out-of-range probes
struct Probe
{
  std::string op, index, arg; int dir;
  std::function<bool(World&)> run; // true = the request was REPORTED (exception or Succeeded::no); false = it returned normally
  std::string descr() const { return op + " with " + index + (dir < 0 ? " one below" : " one above") + " the range" + (arg.empty() ? "" : " (" + arg + ")"); }
};

static bool reported(std::function<Succeeded()> f, std::string* what)
{
  Succeeded ok = Succeeded::yes;
  if (small::throws([&] { ok = f(); }, what)) return true;
  if (ok == Succeeded::no) { *what = "Succeeded::no"; return true; }
  return false;
}

static std::vector<Probe> make_probes(const Geom& g)
{
  std::vector<Probe> P;
  const int s0 = 0, a0 = g.amin(0), v0 = g.vmin + 1, t0 = g.tmin + 1, k0 = g.tof() ? 1 : 0;
  struct Idx { const char* name; int pos; int lo, hi; };
  const Idx idx[5] = { { "segment", 0, g.smin, g.smax }, { "axial", 1, g.amin(0), g.amax(0) }, { "view", 2, g.vmin, g.vmax }, { "tangential", 3, g.tmin, g.tmax }, { "tof", 4, g.kmin, g.kmax } };
  auto oob = [&](int which, int dir) { Key k{ s0, a0, v0, t0, k0 }; k[idx[which].pos] = dir < 0 ? idx[which].lo - 1 : idx[which].hi + 1; return k; };
  for (int dir : { +1, -1 })
    {
      for (int i = 0; i < 5; ++i)
        {
          const Key k = oob(i, dir);
          P.push_back({ "get_bin_value", idx[i].name, "", dir, [k](World& w) { std::string m; return reported([&] { volatile float x = w.get_bin(k); (void)x; return Succeeded::yes; }, &m); } });
          P.push_back({ "set_bin_value", idx[i].name, "", dir, [k](World& w) { std::string m; return reported([&] { w.set_bin(k, 3.F * w.scale()); return Succeeded::yes; }, &m); } });
        }
      for (int i : { 2, 0, 4 })
        {
          const Key k = oob(i, dir);
          P.push_back({ "get_viewgram", idx[i].name, "", dir, [k](World& w) { std::string m; return reported([&] { Viewgram<float> v = w.pd->get_viewgram(k[2], k[0], false, k[4]); return Succeeded::yes; }, &m); } });
        }
      for (int i : { 1, 0, 4 })
        {
          const Key k = oob(i, dir);
          P.push_back({ "get_sinogram", idx[i].name, "", dir, [k](World& w) { std::string m; return reported([&] { Sinogram<float> v = w.pd->get_sinogram(k[1], k[0], false, k[4]); return Succeeded::yes; }, &m); } });
        }
      for (int i : { 0, 4 })
        {
          const Key k = oob(i, dir);
          P.push_back({ "get_segment_by_view", idx[i].name, "", dir, [k](World& w) { std::string m; return reported([&] { SegmentByView<float> v = w.pd->get_segment_by_view(k[0], k[4]); return Succeeded::yes; }, &m); } });
          P.push_back({ "get_segment_by_sinogram", idx[i].name, "", dir, [k](World& w) { std::string m; return reported([&] { SegmentBySinogram<float> v = w.pd->get_segment_by_sinogram(k[0], k[4]); return Succeeded::yes; }, &m); } });
        }
      // setters with an object that has the target's own ProjDataInfo but an index outside the range (the object constructors only assert())
      for (int i : { 2, 4 })
        {
          const Key k = oob(i, dir);
          P.push_back({ "set_viewgram", idx[i].name, "object constructed with the same ProjDataInfo", dir, [k, &g](World& w) {
                         std::string m; Viewgram<float> v(g.pdi, k[2], k[0], k[4]); v.fill(3.F * w.scale());
                         return reported([&] { return w.pd->set_viewgram(v); }, &m); } });
        }
      for (int i : { 1, 4 })
        {
          const Key k = oob(i, dir);
          P.push_back({ "set_sinogram", idx[i].name, "object constructed with the same ProjDataInfo", dir, [k, &g](World& w) {
                         std::string m; Sinogram<float> v(g.pdi, k[1], k[0], k[4]); v.fill(3.F * w.scale());
                         return reported([&] { return w.pd->set_sinogram(v); }, &m); } });
        }
      {
        const Key k = oob(4, dir);
        P.push_back({ "set_segment_by_view", "tof", "object constructed with the same ProjDataInfo", dir, [k, &g](World& w) {
                       std::string m; SegmentByView<float> v(g.pdi, k[0], k[4]); v.fill(3.F * w.scale());
                       return reported([&] { return w.pd->set_segment(v); }, &m); } });
        P.push_back({ "set_segment_by_sinogram", "tof", "object constructed with the same ProjDataInfo", dir, [k, &g](World& w) {
                       std::string m; SegmentBySinogram<float> v(g.pdi, k[0], k[4]); v.fill(3.F * w.scale());
                       return reported([&] { return w.pd->set_segment(v); }, &m); } });
      }
      // setters with an object of a larger geometry (one more ring): a segment number outside the target's range
      {
        const int sf = dir > 0 ? g.smax + 1 : g.smin - 1;
        const ProjDataInfo& f = *g.foreign;
        if (sf >= f.get_min_segment_num() && sf <= f.get_max_segment_num())
          {
            P.push_back({ "set_viewgram", "segment", "object of a geometry with more segments", dir, [sf, v0, k0, &g](World& w) {
                           std::string m; Viewgram<float> v = g.foreign->get_empty_viewgram(v0, sf, false, k0); v.fill(3.F * w.scale());
                           return reported([&] { return w.pd->set_viewgram(v); }, &m); } });
            P.push_back({ "set_sinogram", "segment", "object of a geometry with more segments", dir, [sf, k0, &g](World& w) {
                           std::string m; Sinogram<float> v = g.foreign->get_empty_sinogram(g.foreign->get_min_axial_pos_num(sf), sf, false, k0); v.fill(3.F * w.scale());
                           return reported([&] { return w.pd->set_sinogram(v); }, &m); } });
            P.push_back({ "set_segment_by_view", "segment", "object of a geometry with more segments", dir, [sf, k0, &g](World& w) {
                           std::string m; SegmentByView<float> v = g.foreign->get_empty_segment_by_view(sf, false, k0); v.fill(3.F * w.scale());
                           return reported([&] { return w.pd->set_segment(v); }, &m); } });
            P.push_back({ "set_segment_by_sinogram", "segment", "object of a geometry with more segments", dir, [sf, k0, &g](World& w) {
                           std::string m; SegmentBySinogram<float> v = g.foreign->get_empty_segment_by_sinogram(sf, false, k0); v.fill(3.F * w.scale());
                           return reported([&] { return w.pd->set_segment(v); }, &m); } });
          }
      }
    }
  // objects of the larger geometry for a segment that exists in the target but with MORE axial positions there
  {
    const ProjDataInfo& f = *g.foreign;
    if (f.get_num_axial_poss(0) > g.nax(0))
      {
        const int k0c = k0, v0c = v0;
        P.push_back({ "set_viewgram", "axial", "object of a geometry with more axial positions", +1, [v0c, k0c, &g](World& w) {
                       std::string m; Viewgram<float> v = g.foreign->get_empty_viewgram(v0c, 0, false, k0c); v.fill(3.F * w.scale());
                       return reported([&] { return w.pd->set_viewgram(v); }, &m); } });
        P.push_back({ "set_sinogram", "axial", "object of a geometry with more axial positions", +1, [k0c, &g](World& w) {
                       std::string m; Sinogram<float> v = g.foreign->get_empty_sinogram(g.foreign->get_max_axial_pos_num(0), 0, false, k0c); v.fill(3.F * w.scale());
                       return reported([&] { return w.pd->set_sinogram(v); }, &m); } });
        P.push_back({ "set_segment_by_view", "axial", "object of a geometry with more axial positions", +1, [k0c, &g](World& w) {
                       std::string m; SegmentByView<float> v = g.foreign->get_empty_segment_by_view(0, false, k0c); v.fill(3.F * w.scale());
                       return reported([&] { return w.pd->set_segment(v); }, &m); } });
        P.push_back({ "set_segment_by_sinogram", "axial", "object of a geometry with more axial positions", +1, [k0c, &g](World& w) {
                       std::string m; SegmentBySinogram<float> v = g.foreign->get_empty_segment_by_sinogram(0, false, k0c); v.fill(3.F * w.scale());
                       return reported([&] { return w.pd->set_segment(v); }, &m); } });
      }
  }
  return P;
}

// is all data still equal to the reference (API path, then raw bytes for streams)?  returns "" or a description
static std::string data_unchanged(World& w, bool& unusable)
{
  unusable = false;
  Err keep = w.err; w.err = Err();
  std::fill(w.touched.begin(), w.touched.end(), 0);
  w.read_everything_one_path();
  if (w.err.bad() && w.err.key.find("clause=read_failed") == 0 && w.cfg.is_stream())
    {
      // the reported request left the stream in a failed state: not a change of data; look at the data with a cleared stream
      unusable = true;
      w.stream = w.pdfs->sino_stream;
      w.pdfs->sino_stream->clear();
      w.err = Err();
      w.read_everything_one_path();
    }
  std::string r;
  if (w.err.bad()) r = w.err.msg;
  w.err = Err();
  if (r.empty() && w.cfg.is_stream())
    {
      w.opcls = "out_of_range";
      if (w.cfg.store == "sstr") w.observe_sstream(); else { w.pdfs->sino_stream->flush(); w.observe_raw_file(); }
      if (w.err.bad()) r = w.err.msg;
    }
  w.err = keep;
  return r;
}

struct ProbeResult { int index; std::string outcome, msg; };

// (child) put the reference content back after a request has changed data, so that the following probes start from the right state
static void restore_content(World& w)
{
  std::string what;
  small::throws([&] {
    if (w.mem)
      {
        std::vector<float> in; const Geom& g = *w.g;
        for (int k = g.kmin; k <= g.kmax; ++k) for (int s : g.std_seq) for (int a = g.amin(s); a <= g.amax(s); ++a) for (int v = g.vmin; v <= g.vmax; ++v) for (int t = g.tmin; t <= g.tmax; ++t)
          in.push_back(w.refv[g.lin_of(Key{ s, a, v, t, k })]);
        w.mem->fill_from(in.begin());
        return;
      }
    const std::string pristine = w.lay.encode(w.ref);
    std::iostream& st = *w.pdfs->sino_stream;
    st.clear();
    if (w.cfg.store == "sstr") { dynamic_cast<std::stringstream&>(st).str(pristine); return; }
    st.seekp(0, std::ios::beg); st.write(pristine.data(), (std::streamsize)pristine.size()); st.flush();
    (void)!truncate(w.data_file.c_str(), (off_t)pristine.size());
  }, &what);
}

// run all probes on the state of w in forked children; returns the outcomes.
// crash_count: per probe, how often it has crashed the child so far in this process: a probe that did so 3 times is skipped
// (each crash costs a fork and an ASan report; the violation is on record), counted in out_of_range_skipped_known_crash.
static std::vector<ProbeResult> run_probes(World& w, const std::vector<Probe>& P, bool verbose, std::vector<int>& crash_count)
{
  std::vector<ProbeResult> res;
  size_t next = 0;
  fflush(stdout); fflush(stderr);
  const std::string pristine = w.cfg.is_file() ? w.lay.encode(w.ref) : std::string();
  int guard = 0;
  while (next < P.size() && guard++ < (int)P.size() + 2)
    {
      int fd[2];
      if (pipe(fd) != 0) { perror("pipe"); exit(2); }
      const pid_t pid = fork();
      if (pid < 0) { perror("fork"); exit(2); }
      if (pid == 0)
        {
          close(fd[0]);
          if (!verbose) { int dn = open("/dev/null", O_WRONLY); if (dn >= 0) { dup2(dn, 2); dup2(dn, 1); } }
          alarm(20);
          for (size_t i = next; i < P.size(); ++i)
            {
              if (crash_count[i] >= 3 && !verbose) { std::string l = "K " + vmc::str(i) + "\n"; (void)!write(fd[1], l.data(), l.size()); continue; }
              std::string line = "S " + vmc::str(i) + "\n";
              (void)!write(fd[1], line.data(), line.size());
              const bool rep = P[i].run(w);
              bool unusable = false;
              const std::string changed = data_unchanged(w, unusable);
              std::string outcome;
              if (!changed.empty()) outcome = rep ? "reported_but_data_changed" : "data_changed";
              else if (!rep) outcome = (P[i].op.compare(0, 3, "get") == 0) ? "silent_value" : "silent_no_error";
              else outcome = unusable ? "ok_unusable" : "ok";
              std::string msg = changed; for (char& c : msg) if (c == '\n' || c == '\t') c = ' ';
              line = "R " + vmc::str(i) + "\t" + outcome + "\t" + msg + "\n";
              (void)!write(fd[1], line.data(), line.size());
              if (!changed.empty())
                {
                  restore_content(w);
                  bool u2 = false;
                  if (!data_unchanged(w, u2).empty()) _exit(3); // could not restore: the parent starts a new child
                }
            }
          _exit(0);
        }
      close(fd[1]);
      std::string all; char buf[4096]; ssize_t n;
      while ((n = read(fd[0], buf, sizeof buf)) > 0) all.append(buf, (size_t)n);
      close(fd[0]);
      int status = 0; waitpid(pid, &status, 0);
      long started = -1, finished = -1;
      for (const std::string& line : vmc::split(all, '\n'))
        {
          if (line.size() < 3) continue;
          if (line[0] == 'S') started = atol(line.c_str() + 2);
          else if (line[0] == 'K') w.ctx->count("out_of_range_skipped_known_crash");
          else if (line[0] == 'R')
            {
              auto f = vmc::split(line.substr(2), '\t');
              ProbeResult r; r.index = atoi(f[0].c_str()); r.outcome = f.size() > 1 ? f[1] : "?"; r.msg = f.size() > 2 ? f[2] : "";
              res.push_back(r); finished = r.index;
            }
        }
      const bool clean_exit = WIFEXITED(status) && WEXITSTATUS(status) == 0;
      if (clean_exit) { next = P.size(); break; }
      if (WIFEXITED(status) && WEXITSTATUS(status) == 3) next = (size_t)finished + 1;
      else
        {
          ProbeResult r; r.index = (int)started;
          r.outcome = "crash";
          r.msg = WIFSIGNALED(status) ? "child killed by signal " + vmc::str(WTERMSIG(status)) + (WTERMSIG(status) == SIGALRM ? " (20 s timeout)" : "")
                                      : "child exited with code " + vmc::str(WEXITSTATUS(status)) + " (97 = AddressSanitizer report)";
          if (started < 0) { fprintf(stderr, "C02: probe child died before starting a probe\n"); exit(2); }
          crash_count[started]++;
          res.push_back(r);
          next = (size_t)started + 1;
        }
      // a misbehaving child may have modified the shared data file: restore it from the reference
      if (w.cfg.is_file())
        {
          { std::ofstream f(w.data_file.c_str(), std::ios::binary | std::ios::in | std::ios::out); f.write(pristine.data(), (std::streamsize)pristine.size()); }
          (void)!truncate(w.data_file.c_str(), (off_t)pristine.size());
        }
    }
  return res;
}

// ------------------------------------------------------------------------------------------------ search per configuration
struct Plan { Config cfg; int depth; int oor_depth; int rff_depth; };

static void run_config(vmc::Ctx& ctx, const Plan& plan, std::vector<Geom>& geoms, uint64_t& unit, const std::string& replay_case)
{
  const Config& cfg = plan.cfg;
  const Geom& g = geoms[cfg.g];
  const std::vector<Op> ops = make_ops(geoms, cfg.g, cfg.store);
  const std::vector<Probe> probes = make_probes(g);
  const bool replay = !replay_case.empty();
  const std::string cs = cfg.str();
  std::unordered_set<uint64_t> fully_checked;
  std::vector<int> crash_count(probes.size(), 0);
  bool cfg_rejected = false;

  auto names = [&](const std::vector<int>& h) { std::string s; for (int o : h) s += ops[o].name + "; "; return s; };

  auto build = [&](const std::vector<int>& h, std::string& ek, std::string& em) -> std::string {
    ctx.current(std::string("class=") + cfg.cls(), cs + ";h=" + vmc::join(h));
    if (replay) fprintf(stderr, "replaying %s history: %s\n", cs.c_str(), names(h).c_str());
    World w; w.init(ctx, cfg, g);
    if (w.rejected)
      {
        if (h.empty()) { ctx.count("rejected_configs"); ctx.observe("configuration rejected by STIR with error(): " + g.name + " " + cs + " : " + w.reject_msg.substr(0, 160)); }
        return "rejected";
      }
    w.opcls = "init";
    if (h.empty() || replay)
      {
        w.read_everything_all_paths();
        w.observers(true);
      }
    for (size_t i = 0; i < h.size() && !w.err.bad(); ++i)
      {
        const Op& op = ops[h[i]];
        const bool last = i + 1 == h.size();
        w.touch_none();
        w.opcls = op.cls;
        op.run(w, h[i]);
        if (w.err.bad()) break;
        if (!(last || replay)) continue;
        // --- oracle after the last operation
        if (op.is_write)
          {
            w.observers(false);           // independent reader first: nothing of the harness has read through the writer yet
            w.read_touched_all_paths();
            w.read_everything_one_path();
            if (!w.err.bad()) w.observers(false); // reading through the writer must not have changed anything either
          }
      }
    std::string canon;
    if (!w.err.bad())
      {
        uint64_t hh = 1469598103934665603ULL;
        hh = vmc::fnv(w.refv.data(), w.refv.size() * sizeof(float), hh);
        if (!w.mirror_ok()) { fprintf(stderr, "C02: internal error: reference map and its mirror differ\n"); exit(2); }
        canon = vmc::str(hh);
        if (!h.empty() && !ops[h.back()].is_write) canon += "|r" + vmc::str(h.back());
        const bool is_new = fully_checked.insert(vmc::fnv(canon)).second;
        // a state seen for the first time is read back through every path if it is shallow, else every 16th (by content hash)
        if ((is_new && (h.size() <= 1 || hh % 16 == 0)) || replay)
          {
            // a state seen for the first time: everything through every path
            ctx.count("states_read_back_through_every_path");
            w.opcls = h.empty() ? "init" : ops[h.back()].cls;
            std::fill(w.touched.begin(), w.touched.end(), 1);
            w.read_everything_all_paths();
            if (cfg.is_file() && ((int)h.size() <= plan.rff_depth || replay)) w.observe_read_from_file();
            // out-of-range requests on this state
            const bool want_oor = replay ? vmc::kv(replay_case).count("oor") > 0 : (int)h.size() <= plan.oor_depth && cfg.store != "intf";
            if (!w.err.bad() && want_oor)
              {
                std::vector<ProbeResult> res = run_probes(w, probes, replay, crash_count);
                for (const ProbeResult& r : res)
                  {
                    const Probe& p = probes[r.index];
                    ctx.count("out_of_range_requests");
                    if (r.outcome == "ok") { ctx.count("out_of_range_reported"); continue; }
                    if (r.outcome == "ok_unusable")
                      {
                        ctx.count("out_of_range_reported"); ctx.count("out_of_range_reported_but_stream_left_failed");
                        ctx.observe(std::string(cfg.cls()) + "::" + p.op + " with out-of-range " + p.index + ": reported, data unchanged, but the stream is left in a failed state (all later requests throw)");
                        continue;
                      }
                    ctx.count("out_of_range_violations");
                    const std::string key = std::string("clause=out_of_range;class=") + cfg.cls() + ";index=" + p.index + ";op=" + p.op + (p.arg.empty() ? "" : p.arg.find("same") != std::string::npos ? ";arg=same_info" : ";arg=foreign_info")
                                            + ";outcome=" + r.outcome;
                    ctx.violation(key, cs + ";oor=1;h=" + vmc::join(h),
                                  p.descr() + " on " + cfg.cls() + ": " + (r.outcome == "crash" ? "process crashed: " : r.outcome == "silent_value" ? "returned a value without any error" : r.outcome == "silent_no_error" ? "returned normally without any error (data unchanged)" : "data changed: ")
                                      + r.msg + "   history: " + names(h));
                  }
              }
          }
      }
    ctx.count("values_compared", w.compared);
    if (w.err.bad())
      {
        ek = w.err.key;
        em = w.err.msg + "   config: " + g.name + " " + cs + "   history: " + names(h);
        return "";
      }
    return canon;
  };
  auto on_violation = [&](const std::vector<int>& h, const std::string& k, const std::string& m) { ctx.violation(k, cs + ";h=" + vmc::join(h), m); };
  if (replay)
    {
      std::string ek, em;
      build(vmc::ints(vmc::kv(replay_case)["h"]), ek, em);
      if (!ek.empty()) on_violation(vmc::ints(vmc::kv(replay_case)["h"]), ek, em);
      return;
    }
  { World trial; trial.init(ctx, cfg, g); cfg_rejected = trial.rejected; }
  // unit of sharding: (configuration, first operation); unit 0 of a configuration also does the empty history
  for (int first = -1; first < (int)ops.size(); ++first, ++unit)
    {
      if (!ctx.mine(unit)) continue;
      if (ctx.expired()) return;
      if (first < 0)
        {
          std::string ek, em;
          const std::string c = build({}, ek, em);
          ctx.count("traces_validated_against_impl");
          ctx.count("configurations");
          if (!ek.empty()) on_violation({}, ek, em);
          else if (c != "rejected") { ctx.count("states"); ctx.nontrivial(cs); }
          continue;
        }
      if (plan.depth < 1 || cfg_rejected) continue;
      vmc::HistSearch hs;
      hs.nops = (int)ops.size(); hs.max_depth = plan.depth - 1;
      hs.expired = [&] { return ctx.expired(); };
      hs.build = [&](const std::vector<int>& h, std::string& ek, std::string& em) {
        std::vector<int> full; full.push_back(first); full.insert(full.end(), h.begin(), h.end());
        return build(full, ek, em);
      };
      hs.on_violation = [&](const std::vector<int>& h, const std::string& k, const std::string& m) { std::vector<int> full; full.push_back(first); full.insert(full.end(), h.begin(), h.end()); on_violation(full, k, m); };
      hs.on_state = [&](const std::vector<int>& h, const std::string& c) {
        ctx.digest(c);
        if (ctx.samples.size() < 3 && (int)h.size() + 1 == plan.depth) ctx.sample(g.name + " " + cs + ": " + ops[first].name + "; " + names(h) + " => state " + c);
      };
      vmc::HistResult r = hs.run();
      ctx.count("states", r.states);
      ctx.count("transitions", r.transitions + 1);
      ctx.count("traces_validated_against_impl", r.executions);
      ctx.count(std::string("transitions_") + cfg.store, r.transitions + 1);
      if (!r.complete) ctx.exhaustive = false;
      else ctx.maxi(std::string("depth_completed_") + cfg.store, plan.depth);
    }
  ctx.maxi("alphabet_size", (long long)ops.size());
  ctx.maxi("out_of_range_probe_kinds", (long long)probes.size());
}

// ------------------------------------------------------------------------------------------------ plans
static std::vector<Plan> make_plans(bool thorough, std::vector<Geom>& geoms)
{
  std::vector<Plan> plans;
  auto add = [&](const std::string& st, int g, int ord, int sp, int tp, int ty, int bo, int off, int sc, int depth, int oor, int rff) {
    Config c; c.store = st; c.g = g; c.ord = ord; c.sp = sp; c.tp = tp; c.ty = ty; c.bo = bo; c.off = off; c.sc = sc;
    for (auto& p : plans) if (p.cfg.str() == c.str()) { p.depth = std::max(p.depth, depth); p.oor_depth = std::max(p.oor_depth, oor); p.rff_depth = std::max(p.rff_depth, rff); return; }
    plans.push_back({ c, depth, oor, rff });
  };
  // segment permutations used outside the "all permutations" sweep: natural, standard (0,1,-1,..), a scrambled one
  auto perms3 = [&](int gi) {
    const Geom& g = geoms[gi];
    std::vector<int> nat; for (int s = g.smin; s <= g.smax; ++s) nat.push_back(s);
    std::vector<int> scr = nat; std::rotate(scr.begin(), scr.begin() + 1, scr.end()); std::swap(scr[0], scr[scr.size() - 1]); std::reverse(scr.begin() + 1, scr.end());
    std::vector<int> r{ 0, perm_index(g.std_seq), perm_index(scr) };
    return r;
  };
  const int FLOAT = 0, SHORT = 1;
  // ---- in memory
  for (int g = 0; g < 3; ++g) add("mem", g, 0, 0, 0, 0, 0, 0, 1, thorough ? 4 : 3, thorough ? 2 : 1, 0);
  // ---- streams
  for (const char* st : { "sstr", "fstr", "intf" })
    {
      const bool sstr = std::string(st) == "sstr", intf = std::string(st) == "intf";
      const int off = intf ? 0 : (sstr ? 0 : 7);
      for (int g : { 0, 2, 1 })
        {
          if (!thorough && g == 1) continue;
          const std::vector<int> p3 = perms3(g);
          for (int ord = 0; ord < 2; ++ord)
            for (int pi = 0; pi < 3; ++pi)
              for (int ty : { FLOAT, SHORT })
                add(st, g, ord, p3[pi], 0, ty, ty == SHORT ? 1 : 0, off, ty == SHORT ? 2 : 1, thorough ? 3 : 2, 1, thorough ? 2 : 1);
        }
      // core configurations one level deeper
      add(st, 0, 0, perms3(0)[1], 0, FLOAT, 0, off, 1, thorough ? 4 : 3, thorough ? 2 : 1, thorough ? 2 : 1);
      add(st, thorough ? 1 : 0, 1, perms3(thorough ? 1 : 0)[2], 0, SHORT, 1, off, 2, thorough ? 4 : 3, 1, 1);
      // every on-disk type x byte order x scale factor (x offset for plain streams), single operations (thorough: pairs)
      for (int ty = 0; ty < NTYPES; ++ty)
        for (int bo = 0; bo < 2; ++bo)
          for (int sc : { 1, 2 })
            {
              if (TYPES[ty].is_float && sc != 1) continue; // float on disk with a scale factor != 1 cannot be written at all (set_* report an error): see rejected_float_scale
              for (int o : { 0, 7 })
                {
                  if (intf && o != 0) continue;
                  add(st, 0, (ty + bo) % 2, perms3(0)[1 + (ty % 2)], 0, ty, bo, o, sc, thorough ? 2 : 1, 0, 1);
                }
            }
      // timing sequence permutations (plain stringstream only: the Interfile header cannot express them, the class documentation says so)
      if (sstr)
        for (int tp : { 1, thorough ? 119 : 7 })
          for (int ord = 0; ord < 2; ++ord) add(st, 2, ord, perms3(2)[1], tp, FLOAT, 0, 0, 1, 2, 0, 0);
      // all permutations of the segment sequence
      if (thorough)
        for (int g : { 0, 1, 2 })
          {
            const int n = factorial(geoms[g].smax - geoms[g].smin + 1);
            for (int sp = 0; sp < n; ++sp)
              for (int ord = 0; ord < 2; ++ord) add(st, g, ord, sp, 0, (sp + ord) % 2 ? SHORT : FLOAT, (sp / 2) % 2, off, (sp + ord) % 2 ? 2 : 1, 2, 0, 1);
          }
      else
        for (int sp = 0; sp < factorial(geoms[2].smax - geoms[2].smin + 1); ++sp)
          add(st, 2, sp % 2, sp, 0, FLOAT, 0, off, 1, 1, 0, 1);
    }
  // ---- DERIVED objects (fewer segments than the data set they were cut from; symmetric and asymmetric ranges): the full alphabet, which for
  // them includes fill(const ProjData&) from in-memory / stream / file sources that have MORE segments
  for (int d = 0; d < NDERIVED; ++d)
    {
      if (!thorough && !DERIVED[d].quick) continue;
      const int g = NBASE + d;
      const bool big = geoms[g].nbins() > 350;  // cut out of the 5-segment TOF geometry (400..640 bins)
      add("mem", g, 0, 0, 0, 0, 0, 0, 1, thorough ? (big ? 2 : 3) : 2, thorough ? 1 : 0, 0);
      const std::vector<int> p3 = perms3(g);
      for (const char* st : { "sstr", "fstr", "intf" })
        {
          const bool sstr = std::string(st) == "sstr", intf = std::string(st) == "intf";
          const int off = intf ? 0 : (sstr ? 0 : 7);
          const int depth = thorough ? (big ? 1 : 2) : (sstr ? 2 : 1);
          add(st, g, 0, p3[2], 0, FLOAT, 0, off, 1, depth, 0, 1);
          // (an Interfile header cannot express TOF data in the other storage order: STIR rejects that configuration)
          add(st, g, geoms[g].tof() && !sstr ? 0 : 1, p3[1], 0, SHORT, 1, off, 2, thorough && !big ? depth : 1, 0, 1);
        }
    }
  return plans;
}

int main(int argc, char** argv)
{
  vmc::Ctx ctx(argc, argv, "C02");
  small::quiet();
  signal(SIGPIPE, SIG_IGN);
  ctx.rule = "explicit-state BFS over write/read histories per configuration (store x geometry x storage order x segment sequence x timing sequence x on-disk type x byte order x offset x scale); "
             "every history replayed on a fresh object and fresh files; state = reference content hash (+ id of a trailing read); after the last op: touched blocks through every access path, "
             "everything through one path, independent readers of the file, new states through every path, out-of-range requests in a forked child; a configuration is non-trivial if STIR accepts it; "
             "the alphabet includes fill(const ProjData&) from another in-memory / stringstream / file object with the same geometry in both storage orders and - for targets whose ProjDataInfo was cut out of a larger "
             "one with reduce_segment_range (symmetric and asymmetric ranges, TOF and non-TOF) - from every source with MORE segments: afterwards every bin of the target must equal the source's bin with the same coordinates";
  ctx.assume("derived geometries with an asymmetric segment range use DataSymmetriesForBins_PET_CartesianGrid without the segment-swapping symmetry (the related viewgrams of the other sign do not exist there); all segment ranges contain segment 0");
  ctx.assume("values are exactly representable labels (multiples of the scale factor, within the on-disk type's range / 1.01 as find_scale_factor requires): comparisons are exact, no tolerance");
  ctx.assume("iteration order of ProjDataInMemory::begin_all() is taken to be the documented order of ProjData::copy_to/fill_from (TOF slowest, standard segment sequence, by sinogram)");
  ctx.assume("float on disk with scale factor != 1 is not part of the space: every set_* reports an error for it (write_data resets the scale to 1)");
  ctx.assume("timing-sequence permutations only for ProjDataFromStream over a stringstream (class documentation: changing the sequence of timing bins is not supported by the header)");
  ctx.assume("out-of-range objects for set_viewgram/set_sinogram/set_segment are built with the (assert-only) constructors for view/axial/TOF; for the segment index an object of a geometry with one more ring is used");
  ctx.assume("independent reader = second std::ifstream / ProjData::read_from_file while the writing object is alive and neither closed nor flushed by the harness");
  std::vector<Geom> geoms;
  for (int i = 0; i < NGEOMS; ++i) geoms.push_back(make_geom(i));
  uint64_t unit = 0;
  if (ctx.replaying())
    {
      Plan p; p.cfg = Config::parse(ctx.replay); p.depth = 0; p.oor_depth = 0; p.rff_depth = 99;
      run_config(ctx, p, geoms, unit, ctx.replay);
      return ctx.finish();
    }
  std::string only; // --only <store> for development
  for (size_t i = 0; i + 1 < ctx.extra_args.size(); ++i) if (ctx.extra_args[i] == "--only") only = ctx.extra_args[i + 1];
  for (const Plan& p : make_plans(ctx.thorough(), geoms))
    {
      if (!only.empty() && only != "derived" && p.cfg.store != only) continue;
      if (only == "derived" && geoms[p.cfg.g].root < 0) continue;
      if (ctx.expired()) break;
      run_config(ctx, p, geoms, unit, "");
    }
  for (auto& g : geoms) ctx.maxi("bins_" + g.name, (long long)g.nbins());
  return ctx.finish();
}
