// C17 - text / header input is parsed faithfully or rejected, never mis-handled.
//
// Shape F (fault enumeration, bounded-exhaustive): every seed text WRITTEN BY THE LIBRARY ITSELF (Interfile image header,
// projection-data headers incl. TOF and SPECT, dynamic / parametric image headers, MultipleDataSetHeader, the
// parameter_info() text of every registered parsable class that can be default-constructed, the parameter_info() text of
// a KeyParser holding one key of every supported type) x every grammar-aware mutation of DESIGN §3.6 at deviation 1
// (thorough: pairs (value replacement on a size-determining key, anything)) x the public entry points is executed on the
// real code.  Every mutant runs in a forked child under AddressSanitizer with an allocation cap (operator new is replaced
// by the harness) and an alarm; the child classifies the outcome and applies the oracles, the parent classifies crashes.
//
// Part R: for every registry and registered name: default object -> parameter_info() -> parse -> parameter_info() equal.
#include "vmc.h"
#include "stir_small.h"
#include "ref_parsing.h"
#include "stir/KeyParser.h"
#include "stir/TextWriter.h"
#include "stir/ProjDataInterfile.h"
#include "stir/ProjDataFromStream.h"
#include "stir/IO/interfile.h"
#include "stir/IO/InterfileHeader.h"
#include "stir/IO/InterfileOutputFileFormat.h"
#include "stir/IO/InterfileDynamicDiscretisedDensityOutputFileFormat.h"
#include "stir/IO/InterfileParametricDiscretisedDensityOutputFileFormat.h"
#include "stir/IO/MultiDynamicDiscretisedDensityOutputFileFormat.h"
#include "stir/IO/read_from_file.h"
#include "stir/IO/OutputFileFormat.h"
#include "stir/DynamicDiscretisedDensity.h"
#include "stir/modelling/ParametricDiscretisedDensity.h"
#include "stir/modelling/KineticParameters.h"
#include "stir/modelling/KineticModel.h"
#include "stir/MultipleDataSetHeader.h"
#include "stir/RadionuclideDB.h"
#include "stir/DataProcessor.h"
#include "stir/Shape/Shape3D.h"
#include "stir/data/SinglesRates.h"
#include "stir/recon_buildblock/BackProjectorByBin.h"
#include "stir/recon_buildblock/ForwardProjectorByBin.h"
#include "stir/recon_buildblock/BinNormalisation.h"
#include "stir/recon_buildblock/GeneralisedObjectiveFunction.h"
#include "stir/recon_buildblock/GeneralisedPrior.h"
#include "stir/recon_buildblock/ProjDataRebinning.h"
#include "stir/recon_buildblock/ProjMatrixByBin.h"
#include "stir/recon_buildblock/ProjectorByBinPair.h"
#include "stir/recon_buildblock/Reconstruction.h"
#include "stir/scatter/ScatterSimulation.h"
#include "stir/spatial_transformation/SpatialTransformation.h"
#include <sys/mman.h>
#include <sys/wait.h>
#include <sys/stat.h>
#include <signal.h>
#include <malloc.h>
#include <new>

using namespace stir;
using refp::Mut;

// ================================================================================================ shared state parent <-> child
struct SharedViol { char key[300]; char kase[700]; char msg[1800]; };
struct SharedCounter { char name[120]; long long v; };
struct Shared
{
  volatile long long next, cur;
  volatile int stage;                       // 1 = inside the STIR entry point, 2 = inside the oracle
  volatile unsigned long long alloc_req;    // largest single request refused by the cap during the current mutant
  volatile int alloc_how;                   // 0 none, 1 single request, 2 live bytes
  int nviol; long long viol_dropped; SharedViol viol[32];
  int ncount; SharedCounter counts[600];
  int nobs; char obs[16][500];
  char text_a[1 << 16], text_b[1 << 16], text_c[4096];
  int status;
};
static Shared* SH = nullptr;

static void sh_count(const std::string& name, long long n = 1)
{
  for (int i = 0; i < SH->ncount; ++i) if (name == SH->counts[i].name) { SH->counts[i].v += n; return; }
  if (SH->ncount < 600) { snprintf(SH->counts[SH->ncount].name, 120, "%s", name.c_str()); SH->counts[SH->ncount].v = n; SH->ncount++; }
}
static void sh_violation(const std::string& key, const std::string& kase, const std::string& msg)
{
  sh_count("violating_cases_seen_by_child");
  for (int i = 0; i < SH->nviol; ++i) if (key == SH->viol[i].key) { SH->viol_dropped++; return; } // first (simplest) case per key is kept
  if (SH->nviol >= 32) { SH->viol_dropped++; return; }
  SharedViol& v = SH->viol[SH->nviol++];
  snprintf(v.key, sizeof v.key, "%s", key.c_str());
  snprintf(v.kase, sizeof v.kase, "%s", kase.c_str());
  snprintf(v.msg, sizeof v.msg, "%s", msg.c_str());
}
static void sh_observe(const std::string& s)
{
  for (int i = 0; i < SH->nobs; ++i) if (s.substr(0, 499) == SH->obs[i]) return;
  if (SH->nobs < 16) snprintf(SH->obs[SH->nobs++], 500, "%s", s.c_str());
}
static void sh_drain(vmc::Ctx& ctx)
{
  for (int i = 0; i < SH->ncount; ++i) ctx.count(SH->counts[i].name, SH->counts[i].v);
  for (int i = 0; i < SH->nviol; ++i) ctx.violation(SH->viol[i].key, SH->viol[i].kase, SH->viol[i].msg);
  if (SH->viol_dropped) ctx.count("violating_cases", SH->viol_dropped);
  for (int i = 0; i < SH->nobs; ++i) ctx.observe(SH->obs[i]);
  SH->ncount = 0; SH->nviol = 0; SH->viol_dropped = 0; SH->nobs = 0;
}

// ================================================================================================ allocation cap
// operator new is replaced (the executable's definition wins over the sanitizer's): a single request above the cap, or
// more than the live cap outstanding, is recorded and refused with std::bad_alloc.  Memory still comes from malloc, so
// AddressSanitizer keeps its red zones.
static volatile size_t g_alloc_cap = ~size_t(0);
static volatile long long g_live = 0, g_live_cap = (1LL << 62);
static volatile bool g_track = false;
static const size_t ALLOC_CAP = size_t(64) << 20;   // max(64 MB, 1000 x input) with inputs <= 64 kB
static const long long LIVE_CAP = 1LL << 30;         // 1 GB outstanding from one small text input

static inline void* cap_alloc(size_t n, size_t align)
{
  if (n > g_alloc_cap)
    {
      if (SH && n > SH->alloc_req) { SH->alloc_req = n; SH->alloc_how = 1; }
      throw std::bad_alloc();
    }
  void* p = nullptr;
  if (align <= 16) p = malloc(n ? n : 1);
  else if (posix_memalign(&p, align, n ? n : 1) != 0) p = nullptr;
  if (!p) throw std::bad_alloc();
  if (g_track)
    {
      g_live += (long long)malloc_usable_size(p);
      if (g_live > g_live_cap)
        {
          if (SH && SH->alloc_how == 0) { SH->alloc_req = (unsigned long long)g_live; SH->alloc_how = 2; }
          g_live -= (long long)malloc_usable_size(p);
          free(p);
          throw std::bad_alloc();
        }
    }
  return p;
}
static inline void cap_free(void* p)
{
  if (!p) return;
  if (g_track) { g_live -= (long long)malloc_usable_size(p); if (g_live < 0) g_live = 0; }
  free(p);
}
void* operator new(size_t n) { return cap_alloc(n, 0); }
void* operator new[](size_t n) { return cap_alloc(n, 0); }
void* operator new(size_t n, std::align_val_t a) { return cap_alloc(n, (size_t)a); }
void* operator new[](size_t n, std::align_val_t a) { return cap_alloc(n, (size_t)a); }
void* operator new(size_t n, const std::nothrow_t&) noexcept { try { return cap_alloc(n, 0); } catch (...) { return nullptr; } }
void* operator new[](size_t n, const std::nothrow_t&) noexcept { try { return cap_alloc(n, 0); } catch (...) { return nullptr; } }
void operator delete(void* p) noexcept { cap_free(p); }
void operator delete[](void* p) noexcept { cap_free(p); }
void operator delete(void* p, size_t) noexcept { cap_free(p); }
void operator delete[](void* p, size_t) noexcept { cap_free(p); }
void operator delete(void* p, std::align_val_t) noexcept { cap_free(p); }
void operator delete[](void* p, std::align_val_t) noexcept { cap_free(p); }
void operator delete(void* p, size_t, std::align_val_t) noexcept { cap_free(p); }
void operator delete[](void* p, size_t, std::align_val_t) noexcept { cap_free(p); }
void operator delete(void* p, const std::nothrow_t&) noexcept { cap_free(p); }
void operator delete[](void* p, const std::nothrow_t&) noexcept { cap_free(p); }

struct CapScope
{
  CapScope() { SH->alloc_req = 0; SH->alloc_how = 0; g_live = 0; g_alloc_cap = ALLOC_CAP; g_live_cap = LIVE_CAP; g_track = true; }
  ~CapScope() { g_track = false; g_alloc_cap = ~size_t(0); g_live_cap = (1LL << 62); }
};

// ================================================================================================ STIR message channels
struct CaptureWriter : public aTextWriter
{
  mutable std::string buf;
  void write(const char* t) const override { if (buf.size() < 20000) buf += t; }
};
static CaptureWriter g_warn, g_info, g_err;
static void silence_stir()
{
  TextWriterHandle h;
  h.set_warning_channel(&g_warn);
  h.set_information_channel(&g_info);
  h.set_error_channel(&g_err);
}
static void clear_msgs() { g_warn.buf.clear(); g_info.buf.clear(); g_err.buf.clear(); }

// ================================================================================================ small helpers
static std::string slurp(const std::string& f)
{
  std::ifstream in(f, std::ios::binary);
  std::ostringstream o; o << in.rdbuf();
  return o.str();
}
static void spit(const std::string& f, const std::string& s)
{
  std::ofstream o(f, std::ios::binary | std::ios::trunc);
  o.write(s.data(), (std::streamsize)s.size());
}
static long file_size(const std::string& f)
{
  struct stat st;
  if (stat(f.c_str(), &st) != 0) return -1;
  return (long)st.st_size;
}
static std::string short_text(const std::string& s, size_t n = 160)
{
  std::string o;
  for (char c : s) { if (c == '\n') o += "\\n"; else o += c; if (o.size() >= n) { o += "..."; break; } }
  return o;
}
static std::string first_diff(const std::string& a, const std::string& b)
{
  auto la = refp::physical_lines(a), lb = refp::physical_lines(b);
  for (size_t i = 0; i < std::max(la.size(), lb.size()); ++i)
    {
      const std::string x = i < la.size() ? la[i] : "<missing>", y = i < lb.size() ? lb[i] : "<missing>";
      if (x != y) return "line " + std::to_string(i + 1) + ": '" + short_text(x, 120) + "' vs '" + short_text(y, 120) + "'";
    }
  return "no difference";
}

// ================================================================================================ crash classification (parent)
struct Crash { std::string kind, site, detail; };
static std::string g_repo = "/repo";

static std::string fn_core(std::string f)
{
  // "stir::InterfilePDFSHeader::find_storage_order() " -> "InterfilePDFSHeader::find_storage_order"
  std::string o; int depth = 0;
  for (char c : f) { if (c == '<') ++depth; else if (c == '>') { if (depth) --depth; } else if (depth == 0) o += c; }
  size_t p = o.find('(');
  if (p != std::string::npos) o = o.substr(0, p);
  while (!o.empty() && o.back() == ' ') o.pop_back();
  size_t sp = o.rfind(' ');
  if (sp != std::string::npos) o = o.substr(sp + 1); // drop a return type
  for (size_t q; (q = o.find("stir::")) != std::string::npos;) o.erase(q, 6);
  return o;
}
static Crash classify_crash(const std::string& errfile, int status)
{
  Crash c;
  const std::string how = WIFSIGNALED(status) ? ("signal " + vmc::str(WTERMSIG(status))) : ("exit code " + vmc::str(WEXITSTATUS(status)));
  const std::string log = slurp(errfile);
  size_t p = log.rfind("ERROR: AddressSanitizer");
  if (p == std::string::npos) p = log.rfind("AddressSanitizer:");
  if (p != std::string::npos)
    {
      size_t k = log.find(": ", p + 7);
      std::string rest = log.substr(k == std::string::npos ? p : k + 2, 200);
      // kind = first word (e.g. heap-buffer-overflow, SEGV, stack-buffer-overflow, requested allocation size ...)
      std::string kind;
      for (char ch : rest) { if (ch == ' ' || ch == '\n') break; kind += ch; }
      if (kind == "requested") kind = "allocation-size-too-big";
      if (kind == "attempting") kind = "bad-free";
      c.kind = "asan-" + kind;
      std::istringstream in(log.substr(p));
      std::string line; int frames = 0;
      while (std::getline(in, line) && frames < 40)
        {
          size_t h = line.find("#");
          size_t inpos = line.find(" in ");
          if (h == std::string::npos || inpos == std::string::npos || line.find("0x") == std::string::npos) { if (frames > 0 && line.find_first_not_of(" \t") == std::string::npos) break; continue; }
          ++frames;
          std::string rest2 = line.substr(inpos + 4);
          size_t sl = rest2.rfind(" /");
          std::string fn = sl == std::string::npos ? rest2 : rest2.substr(0, sl), file = sl == std::string::npos ? "" : rest2.substr(sl + 1);
          if (c.detail.size() < 700) c.detail += fn_core(fn) + (file.empty() ? "" : " " + file.substr(file.rfind('/') + 1)) + " <- ";
          if (c.site.empty() && file.find(g_repo + "/src/") == 0)
            {
              std::string base = file.substr(file.rfind('/') + 1);
              size_t colon = base.find(':');
              if (colon != std::string::npos) base = base.substr(0, colon);
              c.site = base + ":" + fn_core(fn);
            }
        }
      if (c.site.empty()) c.site = "unknown";
    }
  else if (WIFSIGNALED(status) && WTERMSIG(status) == SIGALRM) { c.kind = "hang"; c.site = "timeout"; }
  else if (WIFSIGNALED(status) && WTERMSIG(status) == SIGABRT)
    {
      c.kind = "abort"; c.site = "unknown";
      size_t t = log.rfind("terminate called");
      if (t != std::string::npos) c.detail = short_text(log.substr(t, 300), 300);
    }
  else { c.kind = WIFSIGNALED(status) ? "signal" + vmc::str(WTERMSIG(status)) : "exit" + vmc::str(WEXITSTATUS(status)); c.site = "unknown"; }
  c.detail = "the child process died (" + how + "): " + c.kind + "; " + c.detail;
  if (log.size() && p == std::string::npos) c.detail += " | log tail: " + short_text(log.substr(log.size() > 300 ? log.size() - 300 : 0), 300);
  return c;
}

extern "C" void __sanitizer_symbolize_pc(void* pc, const char* fmt, char* out_buf, size_t out_buf_size) __attribute__((weak));
static void warm_up_symbolizer()
{
  // children inherit the initialised symbolizer, so that a crash report costs milliseconds, not the DWARF start-up
  if (__sanitizer_symbolize_pc)
    {
      char buf[512];
      __sanitizer_symbolize_pc((void*)&warm_up_symbolizer, "%f %s:%l", buf, sizeof buf);
    }
}

// ================================================================================================ registries
struct Root
{
  std::string label;
  std::function<void(std::ostream&)> list;
  std::function<RegisteredObjectBase*(std::istream*, const std::string&)> read;
};
template <class R>
static Root make_root(const char* label)
{
  Root r;
  r.label = label;
  r.list = [](std::ostream& s) { R::list_registered_names(s); };
  r.read = [](std::istream* in, const std::string& n) -> RegisteredObjectBase* { return R::read_registered_object(in, n); };
  return r;
}
typedef DiscretisedDensity<3, float> Dens;
static std::vector<Root>& roots()
{
  static std::vector<Root> v = {
    make_root<DataProcessor<Dens>>("DataProcessor<DiscretisedDensity3f>"),
    make_root<DataProcessor<ParametricVoxelsOnCartesianGrid>>("DataProcessor<Parametric>"),
    make_root<OutputFileFormat<Dens>>("OutputFileFormat<DiscretisedDensity3f>"),
    make_root<OutputFileFormat<DynamicDiscretisedDensity>>("OutputFileFormat<Dynamic>"),
    make_root<OutputFileFormat<ParametricVoxelsOnCartesianGrid>>("OutputFileFormat<Parametric>"),
    make_root<Shape3D>("Shape3D"),
    make_root<SinglesRates>("SinglesRates"),
    make_root<KineticModel>("KineticModel"),
    make_root<BackProjectorByBin>("BackProjectorByBin"),
    make_root<ForwardProjectorByBin>("ForwardProjectorByBin"),
    make_root<ProjectorByBinPair>("ProjectorByBinPair"),
    make_root<ProjMatrixByBin>("ProjMatrixByBin"),
    make_root<BinNormalisation>("BinNormalisation"),
    make_root<GeneralisedObjectiveFunction<Dens>>("GeneralisedObjectiveFunction<DiscretisedDensity3f>"),
    make_root<GeneralisedObjectiveFunction<ParametricVoxelsOnCartesianGrid>>("GeneralisedObjectiveFunction<Parametric>"),
    make_root<GeneralisedPrior<Dens>>("GeneralisedPrior<DiscretisedDensity3f>"),
    make_root<GeneralisedPrior<ParametricVoxelsOnCartesianGrid>>("GeneralisedPrior<Parametric>"),
    make_root<Reconstruction<Dens>>("Reconstruction<DiscretisedDensity3f>"),
    make_root<Reconstruction<ParametricVoxelsOnCartesianGrid>>("Reconstruction<Parametric>"),
    make_root<ProjDataRebinning>("ProjDataRebinning"),
    make_root<ScatterSimulation>("ScatterSimulation"),
    make_root<SpatialTransformation>("SpatialTransformation"),
  };
  return v;
}
static std::vector<std::string> registered_names(const Root& r)
{
  std::ostringstream o;
  r.list(o);
  std::vector<std::string> v;
  for (auto& l : refp::physical_lines(o.str()))
    {
      std::string t = refp::trim(l);
      if (!t.empty() && t != "None") v.push_back(t);
    }
  return v;
}

// ================================================================================================ a KeyParser with a key of every type
struct AllTypes : public KeyParser
{
  int i; unsigned int u; long l; unsigned long ul; float f; double d; bool b; std::string s;
  std::vector<int> li; std::vector<double> ld; std::vector<std::string> ls;
  int e; ASCIIlist_type evals;
  std::vector<int> vi; std::vector<float> vf; std::vector<double> vd; std::vector<std::string> vs;
  std::vector<std::vector<double>> vld; std::vector<std::vector<int>> vli; std::vector<unsigned long> vul; std::vector<unsigned int> vu;
  BasicCoordinate<3, float> c3;
  int aliased; float deprecated_aliased;
  explicit AllTypes(bool seed_values)
  {
    evals = { "alpha", "beta gamma", "delta" };
    if (seed_values)
      {
        i = 3; u = 4; l = -5; ul = 6; f = 1.5F; d = 2.25; b = true; s = "some text with blanks";
        li = { 1, 2, 3 }; ld = { 0.5, 1.5 }; ls = { "a", "bc" }; e = 1;
        vi = { 7, 8, 9 }; vf = { 0.25F, 0.75F }; vd = { 10.5, 11.5, 12.5 }; vs = { "x y", "z" };
        vld = { { 1, 2 }, { 3 } }; vli = { { 4 }, { 5, 6 } }; vul = { 21, 22 }; vu = { 31, 32, 33 };
        c3 = make_coordinate(1.F, 2.F, 3.F);
        aliased = 17; deprecated_aliased = 2.5F;
      }
    else
      {
        i = 0; u = 0; l = 0; ul = 0; f = 0; d = 0; b = false; s = "";
        e = 0;
        vi.assign(3, 0); vf.assign(2, 0.F); vd.assign(3, 0.); vs.assign(2, "");
        vld.assign(2, {}); vli.assign(2, {}); vul.assign(2, 0UL); vu.assign(3, 0U);
        c3 = make_coordinate(0.F, 0.F, 0.F);
        aliased = 0; deprecated_aliased = 0;
      }
    add_start_key("AllTypes Parameters");
    add_key("int value", &i);
    add_key("unsigned value", &u);
    add_key("long value", &l);
    add_key("unsigned long value", &ul);
    add_key("float value", &f);
    add_key("double value", &d);
    add_key("bool value", &b);
    add_key("string value", &s);
    add_key("list of ints", &li);
    add_key("list of doubles", &ld);
    add_key("list of strings", &ls);
    add_key("enumerated value", &e, &evals);
    add_vectorised_key("vectorised int", &vi);
    add_vectorised_key("vectorised float", &vf);
    add_vectorised_key("vectorised double", &vd);
    add_vectorised_key("vectorised string", &vs);
    add_vectorised_key("vectorised list of doubles", &vld);
    add_vectorised_key("vectorised list of ints", &vli);
    add_vectorised_key("vectorised unsigned long", &vul);
    add_vectorised_key("vectorised unsigned", &vu);
    add_key("coordinate value", &c3);
    add_key("aliased value (with: colon)", &aliased);
    add_alias_key("aliased value (with: colon)", "other name of aliased value", false);
    add_key("value with deprecated alias", &deprecated_aliased);
    add_alias_key("value with deprecated alias", "old name of value", true);
    add_stop_key("End AllTypes Parameters");
  }
};

// ================================================================================================ seeds
enum Entry { E_IMG_RFF = 0, E_IMG_STREAM, E_PD_RFF, E_PD_STREAM, E_DYN_RFF, E_PAR_RFF, E_MULTI, E_REG, E_KP, N_ENTRIES };
static const char* ENTRY_NAMES[] = { "read_from_file<DiscretisedDensity>", "read_interfile_image(stream)", "ProjData::read_from_file", "read_interfile_PDFS(stream)",
                                     "read_from_file<DynamicDiscretisedDensity>", "read_from_file<ParametricVoxelsOnCartesianGrid>", "MultipleDataSetHeader::parse",
                                     "read_registered_object", "KeyParser::parse" };
static int entry_from_name(const std::string& n) { for (int i = 0; i < N_ENTRIES; ++i) if (n == ENTRY_NAMES[i]) return i; return -1; }

struct Seed
{
  std::string name, text, stop_kw, data_file, kind; // kind: img pdfs spect dyn par multi reg kp
  std::vector<int> entries;
  std::vector<std::pair<std::string, std::string>> aliases; // (standardised target keyword, alias spelling)
  int root = -1; std::string reg_name;
  int ndatasets = 1;
  std::map<int, std::string> base_canon; // per entry: canonical description of the object read from the unmutated text
  std::string default_text;               // kp: parameter_info of the default object (slot reference)
};

static std::string g_tmp = ".";

static shared_ptr<ExamInfo> seed_exam(bool spect)
{
  shared_ptr<ExamInfo> e(new ExamInfo);
  e->imaging_modality = spect ? ImagingModality::NM : ImagingModality::PT;
  e->patient_position = PatientPosition(PatientPosition::HFS);
  e->time_frame_definitions.set_num_time_frames(1);
  e->time_frame_definitions.set_time_frame(1, 10.5, 13.75);
  if (!spect)
    {
      RadionuclideDB db;
      e->set_radionuclide(db.get_radionuclide(e->imaging_modality, "^18^Fluorine"));
    }
  e->set_low_energy_thres(350.F);
  e->set_high_energy_thres(650.F);
  e->set_calibration_factor(0.0025F);
  return e;
}
static shared_ptr<VoxelsOnCartesianGrid<float>> seed_image(int frame)
{
  shared_ptr<ExamInfo> e = seed_exam(false);
  e->time_frame_definitions.set_time_frame(1, 10.5 + 20 * frame, 13.75 + 20 * frame);
  shared_ptr<VoxelsOnCartesianGrid<float>> im(new VoxelsOnCartesianGrid<float>(e, IndexRange3D(0, 3, -1, 1, -1, 0), CartesianCoordinate3D<float>(0.F, 0.F, 0.F),
                                                                              CartesianCoordinate3D<float>(2.5F, 1.25F, 0.625F)));
  float v = 1.F + 100 * frame;
  for (auto it = im->begin_all(); it != im->end_all(); ++it) *it = v++;
  return im;
}

// projection data written through ProjDataInterfile: <base>.hs + <base>.s
static void write_projdata(const std::string& base, const shared_ptr<const ExamInfo>& ex, const shared_ptr<const ProjDataInfo>& pdi)
{
  ProjDataInterfile pd(ex, pdi, base, std::ios::in | std::ios::out | std::ios::trunc);
  float v = 1.F;
  for (int k = pdi->get_min_tof_pos_num(); k <= pdi->get_max_tof_pos_num(); ++k)
    for (int s = pdi->get_min_segment_num(); s <= pdi->get_max_segment_num(); ++s)
      {
        SegmentByView<float> seg = pdi->get_empty_segment_by_view(s, false, k);
        for (auto it = seg.begin_all(); it != seg.end_all(); ++it) *it = v++;
        pd.set_segment(seg);
      }
}

static std::vector<std::pair<std::string, std::string>> aliases_of(KeyParser& p, const std::string& text)
{
  std::vector<std::pair<std::string, std::string>> v;
  std::set<std::string> present;
  for (auto& l : refp::logical_lines(text)) present.insert(refp::analyse(l).kw);
  for (auto* m : { &p.alias_map, &p.deprecated_alias_map })
    for (auto& kv : *m)
      if (present.count(kv.second)) v.push_back({ kv.second, kv.first });
  return v;
}

// builds the seed with the given name (files are created in g_tmp); returns false if the library could not write it
static bool build_seed(const std::string& name, Seed& S)
{
  S = Seed();
  S.name = name;
  const std::string base = g_tmp + "/c17_" + name;
  std::string what;
  bool ok = true;
  if (name == "img")
    {
      S.kind = "img"; S.stop_kw = "end of interfile";
      ok = !small::throws([&] {
        InterfileOutputFileFormat fmt(NumericType::FLOAT, ByteOrder::little_endian);
        if (fmt.write_to_file(base, *seed_image(0)) != Succeeded::yes) error("write failed");
      }, &what);
      S.text = slurp(base + ".hv"); S.data_file = base + ".v";
      S.entries = { E_IMG_RFF, E_IMG_STREAM };
      InterfileImageHeader h; S.aliases = aliases_of(h, S.text);
    }
  else if (name == "img_short")
    {
      // same image as 16-bit integers with a scale factor and big-endian order
      S.kind = "img"; S.stop_kw = "end of interfile";
      ok = !small::throws([&] {
        InterfileOutputFileFormat fmt(NumericType::SHORT, ByteOrder::big_endian);
        if (fmt.write_to_file(base, *seed_image(0)) != Succeeded::yes) error("write failed");
      }, &what);
      S.text = slurp(base + ".hv"); S.data_file = base + ".v";
      S.entries = { E_IMG_RFF };
    }
  else if (name == "dyn")
    {
      S.kind = "dyn"; S.stop_kw = "end of interfile"; S.ndatasets = 2;
      ok = !small::throws([&] {
        TimeFrameDefinitions tdefs;
        tdefs.set_num_time_frames(2);
        tdefs.set_time_frame(1, 10.5, 13.75); tdefs.set_time_frame(2, 30.5, 33.75);
        shared_ptr<Scanner> sc(new Scanner(Scanner::E953));
        shared_ptr<DiscretisedDensity<3, float>> templ(seed_image(0)->clone());
        DynamicDiscretisedDensity dyn(tdefs, 0., sc, templ);
        ExamInfo e = seed_image(0)->get_exam_info();
        e.time_frame_definitions = tdefs; e.originating_system = sc->get_name();
        dyn.set_exam_info(e);
        for (int k = 0; k < 2; ++k) dyn.set_density(*seed_image(k), k + 1);
        InterfileDynamicDiscretisedDensityOutputFileFormat fmt(NumericType::FLOAT, ByteOrder::little_endian);
        if (fmt.write_to_file(base, dyn) != Succeeded::yes) error("write failed");
      }, &what);
      S.text = slurp(base + ".hv"); S.data_file = base + ".v";
      S.entries = { E_DYN_RFF };
    }
  else if (name == "par")
    {
      S.kind = "par"; S.stop_kw = "end of interfile"; S.ndatasets = 2;
      ok = !small::throws([&] {
        ParametricVoxelsOnCartesianGrid par(*seed_image(0));
        for (int k = 0; k < 2; ++k) par.update_parametric_image(*seed_image(k), k + 1);
        par.set_exam_info(seed_image(0)->get_exam_info());
        InterfileParametricDiscretisedDensityOutputFileFormat<ParametricVoxelsOnCartesianGridBaseType> fmt(NumericType::FLOAT, ByteOrder::little_endian);
        if (fmt.write_to_file(base, par) != Succeeded::yes) error("write failed");
      }, &what);
      S.text = slurp(base + ".hv"); S.data_file = base + ".v";
      S.entries = { E_PAR_RFF };
    }
  else if (name == "multi")
    {
      // MultipleDataSetHeader written by MultiDynamicDiscretisedDensityOutputFileFormat; the individual images are real files
      S.kind = "multi"; S.stop_kw = "end";
      ok = !small::throws([&] {
        TimeFrameDefinitions tdefs;
        tdefs.set_num_time_frames(2);
        tdefs.set_time_frame(1, 10.5, 13.75); tdefs.set_time_frame(2, 30.5, 33.75);
        shared_ptr<Scanner> sc(new Scanner(Scanner::E953));
        shared_ptr<DiscretisedDensity<3, float>> templ(seed_image(0)->clone());
        DynamicDiscretisedDensity dyn(tdefs, 0., sc, templ);
        ExamInfo e = seed_image(0)->get_exam_info();
        e.time_frame_definitions = tdefs; e.originating_system = sc->get_name();
        dyn.set_exam_info(e);
        for (int k = 0; k < 2; ++k) dyn.set_density(*seed_image(k), k + 1);
        MultiDynamicDiscretisedDensityOutputFileFormat fmt;
        shared_ptr<InterfileOutputFileFormat> ind(new InterfileOutputFileFormat(NumericType::FLOAT, ByteOrder::little_endian));
        fmt.individual_output_type_sptr = ind;
        if (fmt.write_to_file(base, dyn) != Succeeded::yes) error("write failed");
      }, &what);
      S.text = slurp(base + ".txt");
      S.entries = { E_MULTI, E_DYN_RFF };
    }
  else if (name == "pdfs" || name == "pdfs_tof" || name == "pdfs_arccorr" || name == "pdfs_E953")
    {
      S.kind = "pdfs"; S.stop_kw = "end of interfile";
      ok = !small::throws([&] {
        shared_ptr<Scanner> sc = name == "pdfs_E953" ? shared_ptr<Scanner>(new Scanner(Scanner::E953)) : small::cyl_scanner(8, 2, name == "pdfs_tof" ? 5 : 0);
        shared_ptr<ProjDataInfo> pdi = name == "pdfs_E953" ? small::make_pdi(sc, 1, 1, 4, 5)
                                                             : small::make_pdi(sc, 1, 1, 0, 0, name == "pdfs_arccorr", name == "pdfs_tof" ? 1 : 0);
        write_projdata(base, seed_exam(false), pdi);
      }, &what);
      S.text = slurp(base + ".hs"); S.data_file = base + ".s";
      S.entries = { E_PD_RFF, E_PD_STREAM };
      InterfilePDFSHeader h; S.aliases = aliases_of(h, S.text);
    }
  else if (name == "spect")
    {
      S.kind = "spect"; S.stop_kw = "end of interfile";
      ok = !small::throws([&] {
        shared_ptr<Scanner> sc = small::cyl_scanner(8, 3);
        VectorWithOffset<int> nax(0, 0), mn(0, 0), mx(0, 0);
        nax[0] = 3; mn[0] = 0; mx[0] = 0;
        shared_ptr<ProjDataInfoCylindricalArcCorr> pdi(new ProjDataInfoCylindricalArcCorr(sc, 4.F, nax, mn, mx, 6, 5));
        VectorWithOffset<float> radii(0, 5);
        for (int i = 0; i < 6; ++i) radii[i] = 150.F;
        pdi->set_ring_radii_for_all_views(radii);
        write_projdata(base, seed_exam(true), pdi);
      }, &what);
      S.text = slurp(base + ".hs"); S.data_file = base + ".s";
      S.entries = { E_PD_RFF, E_PD_STREAM };
    }
  else if (name == "alltypes")
    {
      S.kind = "kp"; S.stop_kw = "end alltypes parameters";
      AllTypes a(true), dflt(false);
      S.text = a.parameter_info();
      S.default_text = dflt.parameter_info();
      S.entries = { E_KP };
      S.aliases = aliases_of(a, S.text);
    }
  else
    return false;
  if (!ok || S.text.empty()) { fprintf(stderr, "seed %s could not be written: %s\n", name.c_str(), what.c_str()); return false; }
  return true;
}
