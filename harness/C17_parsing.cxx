// C17 - text / header input is parsed faithfully or rejected, never mis-handled.
//
// Shape F (fault enumeration, bounded-exhaustive): every seed text WRITTEN BY THE LIBRARY ITSELF (Interfile image header,
// projection-data headers incl. TOF and SPECT, dynamic / parametric image headers, MultipleDataSetHeader, the
// parameter_info() text of every registered parsable class that can be default-constructed, the parameter_info() text of
// a KeyParser holding one key of every supported type) x every grammar-aware mutation of DESIGN §3.6 at deviation 1
// (thorough: pairs (value replacement on a size-determining key, anything)) x the public entry points is executed on the
// real code.  Every mutant runs in a forked child under AddressSanitizer with an allocation cap (operator new is replaced
// by the harness) and an alarm; the child classifies the outcome and applies the oracles, the parent classifies crashes.
//
// Part R: for every registry and registered name: default object -> parameter_info() -> parse -> parameter_info() equal.
#include "vmc.h"
#include "stir_small.h"
#include "ref_parsing.h"
#include "stir/KeyParser.h"
#include "stir/TextWriter.h"
#include "stir/ProjDataInterfile.h"
#include "stir/ProjDataFromStream.h"
#include "stir/IO/interfile.h"
#include "stir/IO/InterfileHeader.h"
#include "stir/IO/InterfileOutputFileFormat.h"
#include "stir/IO/InterfileDynamicDiscretisedDensityOutputFileFormat.h"
#include "stir/IO/InterfileParametricDiscretisedDensityOutputFileFormat.h"
#include "stir/IO/MultiDynamicDiscretisedDensityOutputFileFormat.h"
#include "stir/IO/read_from_file.h"
#include "stir/IO/OutputFileFormat.h"
#include "stir/DynamicDiscretisedDensity.h"
#include "stir/modelling/ParametricDiscretisedDensity.h"
#include "stir/modelling/KineticParameters.h"
#include "stir/modelling/KineticModel.h"
#include "stir/MultipleDataSetHeader.h"
#include "stir/RadionuclideDB.h"
#include "stir/DataProcessor.h"
#include "stir/Shape/Shape3D.h"
#include "stir/data/SinglesRates.h"
#include "stir/recon_buildblock/BackProjectorByBin.h"
#include "stir/recon_buildblock/ForwardProjectorByBin.h"
#include "stir/recon_buildblock/BinNormalisation.h"
#include "stir/recon_buildblock/GeneralisedObjectiveFunction.h"
#include "stir/recon_buildblock/GeneralisedPrior.h"
#include "stir/recon_buildblock/ProjDataRebinning.h"
#include "stir/recon_buildblock/ProjMatrixByBin.h"
#include "stir/recon_buildblock/ProjectorByBinPair.h"
#include "stir/recon_buildblock/Reconstruction.h"
#include "stir/scatter/ScatterSimulation.h"
#include "stir/spatial_transformation/SpatialTransformation.h"
// concrete classes that are copied by construction / assignment (copies of a used object, see check_copies)
#include "stir/Shape/Ellipsoid.h"
#include "stir/Shape/EllipsoidalCylinder.h"
#include "stir/Shape/Box3D.h"
#include "stir/recon_buildblock/QuadraticPrior.h"
#include "stir/recon_buildblock/RelativeDifferencePrior.h"
#include "stir/recon_buildblock/LogcoshPrior.h"
#include "stir/recon_buildblock/PLSPrior.h"
#include "stir/recon_buildblock/FilterRootPrior.h"
#include "stir/SeparableGaussianImageFilter.h"
#include "stir/SeparableCartesianMetzImageFilter.h"
#include "stir/SeparableConvolutionImageFilter.h"
#include "stir/MedianImageFilter3D.h"
#include "stir/MinimalImageFilter3D.h"
#include "stir/MaximalImageFilter3D.h"
#include "stir/ThresholdMinToSmallPositiveValueDataProcessor.h"
#include "stir/TruncateToCylindricalFOVImageProcessor.h"
#include "stir/ChainedDataProcessor.h"
#include "stir/recon_buildblock/TrivialBinNormalisation.h"
#include "stir/recon_buildblock/ForwardProjectorByBinUsingProjMatrixByBin.h"
#include "stir/recon_buildblock/BackProjectorByBinUsingProjMatrixByBin.h"
#include "stir/recon_buildblock/ProjectorByBinPairUsingProjMatrixByBin.h"
#include <type_traits>
#include <typeinfo>
#include <sys/mman.h>
#include <sys/wait.h>
#include <sys/stat.h>
#include <signal.h>
#include <malloc.h>
#include <execinfo.h>
#include <new>

using namespace stir;
using refp::Mut;

// ================================================================================================ shared state parent <-> child
struct SharedViol { char key[300]; char kase[700]; char msg[1800]; };
struct SharedCounter { char name[120]; long long v; };
struct Shared
{
  volatile long long next, cur;
  volatile int stage;                       // 1 = inside the STIR entry point, 2 = inside the oracle
  volatile unsigned long long alloc_req;    // largest single request refused by the cap during the current mutant
  volatile int alloc_how;                   // 0 none, 1 single request, 2 live bytes
  char alloc_site[200];
  int nviol; long long viol_dropped; SharedViol viol[32];
  int ncount; SharedCounter counts[600];
  int nobs; char obs[16][500];
  char text_a[1 << 16], text_b[1 << 16], text_c[4096];
  char copy_routes[1024];                   // part R: routes by which copies of the used object were made (','-separated)
  int used_alt_text;                        // part R: the class was set up from the harness' minimal text because '<start keyword> :=' is rejected
  int status;
};
static Shared* SH = nullptr;

static void sh_count(const std::string& name, long long n = 1)
{
  for (int i = 0; i < SH->ncount; ++i) if (name == SH->counts[i].name) { SH->counts[i].v += n; return; }
  if (SH->ncount < 600) { snprintf(SH->counts[SH->ncount].name, 120, "%s", name.c_str()); SH->counts[SH->ncount].v = n; SH->ncount++; }
}
static std::string g_desc;
static void sh_violation(const std::string& key, const std::string& kase, const std::string& msg0)
{
  const std::string msg = g_desc.empty() ? msg0 : msg0 + " | mutation: " + g_desc;
  sh_count("violating_cases_seen_by_child");
  for (int i = 0; i < SH->nviol; ++i) if (key == SH->viol[i].key) { SH->viol_dropped++; return; } // first (simplest) case per key is kept
  if (SH->nviol >= 32) { SH->viol_dropped++; return; }
  SharedViol& v = SH->viol[SH->nviol++];
  snprintf(v.key, sizeof v.key, "%s", key.c_str());
  snprintf(v.kase, sizeof v.kase, "%s", kase.c_str());
  snprintf(v.msg, sizeof v.msg, "%s", msg.c_str());
}
static void sh_observe(const std::string& s)
{
  for (int i = 0; i < SH->nobs; ++i) if (s.substr(0, 499) == SH->obs[i]) return;
  if (SH->nobs < 16) snprintf(SH->obs[SH->nobs++], 500, "%s", s.c_str());
}
static void sh_drain(vmc::Ctx& ctx)
{
  for (int i = 0; i < SH->ncount; ++i) ctx.count(SH->counts[i].name, SH->counts[i].v);
  for (int i = 0; i < SH->nviol; ++i) ctx.violation(SH->viol[i].key, SH->viol[i].kase, SH->viol[i].msg);
  if (SH->viol_dropped) ctx.count("violating_cases", SH->viol_dropped);
  for (int i = 0; i < SH->nobs; ++i) ctx.observe(SH->obs[i]);
  SH->ncount = 0; SH->nviol = 0; SH->viol_dropped = 0; SH->nobs = 0;
}

// ================================================================================================ allocation cap
// operator new is replaced (the executable's definition wins over the sanitizer's): a single request above the cap, or
// more than the live cap outstanding, is recorded and refused with std::bad_alloc.  Memory still comes from malloc, so
// AddressSanitizer keeps its red zones.
static const size_t ALLOC_CAP_V = size_t(64) << 20;
static volatile size_t g_alloc_cap = ~size_t(0);
static volatile long long g_live = 0, g_live_cap = (1LL << 62);
static volatile bool g_track = false;
static const size_t ALLOC_CAP = size_t(64) << 20;   // max(64 MB, 1000 x input) with inputs <= 64 kB
static const long long LIVE_CAP = 1LL << 30;         // 1 GB outstanding from one small text input

static void note_alloc_site(); // first frame of the library in the call stack of the refused request
static inline void* cap_alloc(size_t n, size_t align)
{
  if (n > g_alloc_cap)
    {
      if (SH && n > SH->alloc_req) { SH->alloc_req = n; SH->alloc_how = 1; g_alloc_cap = ~size_t(0); note_alloc_site(); g_alloc_cap = ALLOC_CAP_V; }
      throw std::bad_alloc();
    }
  void* p = nullptr;
  if (align <= 16) p = malloc(n ? n : 1);
  else if (posix_memalign(&p, align, n ? n : 1) != 0) p = nullptr;
  if (!p) throw std::bad_alloc();
  if (g_track)
    {
      g_live += (long long)malloc_usable_size(p);
      if (g_live > g_live_cap)
        {
          if (SH && SH->alloc_how == 0) { SH->alloc_req = (unsigned long long)g_live; SH->alloc_how = 2; g_track = false; note_alloc_site(); g_track = true; }
          g_live -= (long long)malloc_usable_size(p);
          free(p);
          throw std::bad_alloc();
        }
    }
  return p;
}
static inline void cap_free(void* p)
{
  if (!p) return;
  if (g_track) { g_live -= (long long)malloc_usable_size(p); if (g_live < 0) g_live = 0; }
  free(p);
}
void* operator new(size_t n) { return cap_alloc(n, 0); }
void* operator new[](size_t n) { return cap_alloc(n, 0); }
void* operator new(size_t n, std::align_val_t a) { return cap_alloc(n, (size_t)a); }
void* operator new[](size_t n, std::align_val_t a) { return cap_alloc(n, (size_t)a); }
void* operator new(size_t n, const std::nothrow_t&) noexcept { try { return cap_alloc(n, 0); } catch (...) { return nullptr; } }
void* operator new[](size_t n, const std::nothrow_t&) noexcept { try { return cap_alloc(n, 0); } catch (...) { return nullptr; } }
void operator delete(void* p) noexcept { cap_free(p); }
void operator delete[](void* p) noexcept { cap_free(p); }
void operator delete(void* p, size_t) noexcept { cap_free(p); }
void operator delete[](void* p, size_t) noexcept { cap_free(p); }
void operator delete(void* p, std::align_val_t) noexcept { cap_free(p); }
void operator delete[](void* p, std::align_val_t) noexcept { cap_free(p); }
void operator delete(void* p, size_t, std::align_val_t) noexcept { cap_free(p); }
void operator delete[](void* p, size_t, std::align_val_t) noexcept { cap_free(p); }
void operator delete(void* p, const std::nothrow_t&) noexcept { cap_free(p); }
void operator delete[](void* p, const std::nothrow_t&) noexcept { cap_free(p); }

struct CapScope
{
  CapScope() { SH->alloc_req = 0; SH->alloc_how = 0; SH->alloc_site[0] = 0; g_live = 0; g_alloc_cap = ALLOC_CAP; g_live_cap = LIVE_CAP; g_track = true; }
  ~CapScope() { g_track = false; g_alloc_cap = ~size_t(0); g_live_cap = (1LL << 62); }
};

// ================================================================================================ STIR message channels
struct CaptureWriter : public aTextWriter
{
  mutable std::string buf;
  void write(const char* t) const override { if (buf.size() < 20000) buf += t; }
};
static CaptureWriter g_warn, g_info, g_err;
static void silence_stir()
{
  TextWriterHandle h;
  h.set_warning_channel(&g_warn);
  h.set_information_channel(&g_info);
  h.set_error_channel(&g_err);
}
static void clear_msgs() { g_warn.buf.clear(); g_info.buf.clear(); g_err.buf.clear(); }

// ================================================================================================ small helpers
static std::string slurp(const std::string& f)
{
  std::ifstream in(f, std::ios::binary);
  std::ostringstream o; o << in.rdbuf();
  return o.str();
}
static void spit(const std::string& f, const std::string& s)
{
  std::ofstream o(f, std::ios::binary | std::ios::trunc);
  o.write(s.data(), (std::streamsize)s.size());
}
static long file_size(const std::string& f)
{
  struct stat st;
  if (stat(f.c_str(), &st) != 0) return -1;
  return (long)st.st_size;
}
static std::string short_text(const std::string& s, size_t n = 160)
{
  std::string o;
  for (char c : s) { if (c == '\n') o += "\\n"; else o += c; if (o.size() >= n) { o += "..."; break; } }
  return o;
}
// parameter texts are compared modulo blank lines (a null sub-object and a trivial one named "None" differ by one empty line only)
static std::string no_blank_lines(const std::string& t)
{
  std::string o;
  for (auto& l : refp::physical_lines(t)) if (!refp::trim(l).empty()) o += l + "\n";
  return o;
}
static std::string first_diff(const std::string& a0, const std::string& b0)
{
  const std::string a = no_blank_lines(a0), b = no_blank_lines(b0);
  auto la = refp::physical_lines(a), lb = refp::physical_lines(b);
  for (size_t i = 0; i < std::max(la.size(), lb.size()); ++i)
    {
      const std::string x = i < la.size() ? la[i] : "<missing>", y = i < lb.size() ? lb[i] : "<missing>";
      if (x != y) return "line " + std::to_string(i + 1) + ": '" + short_text(x, 120) + "' vs '" + short_text(y, 120) + "'";
    }
  return "no difference";
}

// ================================================================================================ crash classification (parent)
struct Crash { std::string kind, site, detail; };
static std::string g_repo = "/repo";

static std::string fn_core(std::string f)
{
  // "stir::InterfilePDFSHeader::find_storage_order() " -> "InterfilePDFSHeader::find_storage_order"
  std::string o; int depth = 0;
  for (char c : f) { if (c == '<') ++depth; else if (c == '>') { if (depth) --depth; } else if (depth == 0) o += c; }
  size_t p = o.find('(');
  if (p != std::string::npos) o = o.substr(0, p);
  while (!o.empty() && o.back() == ' ') o.pop_back();
  size_t sp = o.rfind(' ');
  if (sp != std::string::npos) o = o.substr(sp + 1); // drop a return type
  for (size_t q; (q = o.find("stir::")) != std::string::npos;) o.erase(q, 6);
  return o;
}
static Crash classify_crash(const std::string& errfile, int status)
{
  Crash c;
  const std::string how = WIFSIGNALED(status) ? ("signal " + vmc::str(WTERMSIG(status))) : ("exit code " + vmc::str(WEXITSTATUS(status)));
  const std::string log = slurp(errfile);
  size_t p = log.rfind("ERROR: AddressSanitizer");
  if (p == std::string::npos) p = log.rfind("AddressSanitizer:");
  if (p != std::string::npos)
    {
      size_t k = log.find(": ", p + 7);
      std::string rest = log.substr(k == std::string::npos ? p : k + 2, 200);
      // kind = first word (e.g. heap-buffer-overflow, SEGV, stack-buffer-overflow, requested allocation size ...)
      std::string kind;
      for (char ch : rest) { if (ch == ' ' || ch == '\n') break; kind += ch; }
      if (kind == "requested") kind = "allocation-size-too-big";
      if (kind == "attempting") kind = "bad-free";
      c.kind = "asan-" + kind;
      std::istringstream in(log.substr(p));
      std::string line; int frames = 0;
      while (std::getline(in, line) && frames < 40)
        {
          size_t h = line.find("#");
          size_t inpos = line.find(" in ");
          if (h == std::string::npos || inpos == std::string::npos || line.find("0x") == std::string::npos) { if (frames > 0 && line.find_first_not_of(" \t") == std::string::npos) break; continue; }
          ++frames;
          std::string rest2 = line.substr(inpos + 4);
          size_t sl = rest2.rfind(" /");
          std::string fn = sl == std::string::npos ? rest2 : rest2.substr(0, sl), file = sl == std::string::npos ? "" : rest2.substr(sl + 1);
          if (c.detail.size() < 700) c.detail += fn_core(fn) + (file.empty() ? "" : " " + file.substr(file.rfind('/') + 1)) + " <- ";
          if (c.site.empty() && file.find(g_repo + "/src/") == 0)
            {
              std::string base = file.substr(file.rfind('/') + 1);
              size_t colon = base.find(':');
              if (colon != std::string::npos) base = base.substr(0, colon);
              c.site = base + ":" + fn_core(fn);
            }
        }
      if (c.site.empty()) c.site = "unknown";
    }
  else if (WIFSIGNALED(status) && WTERMSIG(status) == SIGALRM) { c.kind = "hang"; c.site = "timeout"; }
  else if (WIFSIGNALED(status) && WTERMSIG(status) == SIGABRT)
    {
      c.kind = "abort"; c.site = "unknown";
      size_t t = log.rfind("terminate called");
      if (t != std::string::npos) c.detail = short_text(log.substr(t, 300), 300);
    }
  else { c.kind = WIFSIGNALED(status) ? "signal" + vmc::str(WTERMSIG(status)) : "exit" + vmc::str(WEXITSTATUS(status)); c.site = "unknown"; }
  c.detail = "the child process died (" + how + "): " + c.kind + "; " + c.detail;
  if (log.size() && p == std::string::npos) c.detail += " | log tail: " + short_text(log.substr(log.size() > 300 ? log.size() - 300 : 0), 300);
  return c;
}

extern "C" void __sanitizer_symbolize_pc(void* pc, const char* fmt, char* out_buf, size_t out_buf_size) __attribute__((weak));
static void note_alloc_site()
{
  void* pcs[48];
  const int n = backtrace(pcs, 48);
  snprintf(SH->alloc_site, sizeof SH->alloc_site, "unknown");
  if (!__sanitizer_symbolize_pc) return;
  const bool dbg = getenv("C17_DEBUG_BT") != nullptr;
  for (int i = 1; i < n; ++i)
    {
      // the symbolizer writes one zero-terminated string per (inlined) frame of this pc, innermost first, then an empty string
      char buf[4096];
      memset(buf, 0, sizeof buf);
      __sanitizer_symbolize_pc((char*)pcs[i] - 1, "%f|%s", buf, sizeof buf - 2);
      for (const char* e = buf; *e && e < buf + sizeof buf - 2; e += strlen(e) + 1)
        {
          if (dbg) { FILE* f = fopen("/tmp/c17_bt.txt", "a"); if (f) { fprintf(f, "#%d %s\n", i, e); fclose(f); } }
          const char* bar = strrchr(e, '|');
          if (!bar) continue;
          const std::string file = bar + 1;
          // first frame in an implementation file of the library (containers and other header-only code are skipped)
          if (file.find(g_repo + "/src/") != 0 || file.size() < 4 || file.compare(file.size() - 4, 4, ".cxx") != 0) continue;
          snprintf(SH->alloc_site, sizeof SH->alloc_site, "%s:%s", file.substr(file.rfind('/') + 1).c_str(), fn_core(std::string(e, bar - e)).c_str());
          return;
        }
    }
}
static void warm_up_symbolizer()
{
  { void* pcs[4]; backtrace(pcs, 4); }
  // children inherit the initialised symbolizer, so that a crash report costs milliseconds, not the DWARF start-up
  if (__sanitizer_symbolize_pc)
    {
      char buf[512];
      __sanitizer_symbolize_pc((void*)&warm_up_symbolizer, "%f %s:%l", buf, sizeof buf);
    }
}

// ================================================================================================ registries
struct Root
{
  std::string label;
  std::function<void(std::ostream&)> list;
  std::function<RegisteredObjectBase*(std::istream*, const std::string&)> read;
  std::function<RegisteredObjectBase*(RegisteredObjectBase*)> clone; // empty when the registry's root class offers no clone()
};
template <class R, class = void> struct HasClone : std::false_type {};
template <class R> struct HasClone<R, std::void_t<decltype(std::declval<const R&>().clone())>> : std::true_type {};
template <class R>
static Root make_root(const char* label)
{
  Root r;
  r.label = label;
  if constexpr (HasClone<R>::value)
    r.clone = [](RegisteredObjectBase* o) -> RegisteredObjectBase* { R* p = dynamic_cast<R*>(o); return p ? p->clone() : nullptr; };
  r.list = [](std::ostream& s) { R::list_registered_names(s); };
  r.read = [](std::istream* in, const std::string& n) -> RegisteredObjectBase* { return R::read_registered_object(in, n); };
  return r;
}
typedef DiscretisedDensity<3, float> Dens;
static std::vector<Root>& roots()
{
  static std::vector<Root> v = {
    make_root<DataProcessor<Dens>>("DataProcessor<DiscretisedDensity3f>"),
    make_root<DataProcessor<ParametricVoxelsOnCartesianGrid>>("DataProcessor<Parametric>"),
    make_root<OutputFileFormat<Dens>>("OutputFileFormat<DiscretisedDensity3f>"),
    make_root<OutputFileFormat<DynamicDiscretisedDensity>>("OutputFileFormat<Dynamic>"),
    make_root<OutputFileFormat<ParametricVoxelsOnCartesianGrid>>("OutputFileFormat<Parametric>"),
    make_root<Shape3D>("Shape3D"),
    make_root<SinglesRates>("SinglesRates"),
    make_root<KineticModel>("KineticModel"),
    make_root<BackProjectorByBin>("BackProjectorByBin"),
    make_root<ForwardProjectorByBin>("ForwardProjectorByBin"),
    make_root<ProjectorByBinPair>("ProjectorByBinPair"),
    make_root<ProjMatrixByBin>("ProjMatrixByBin"),
    make_root<BinNormalisation>("BinNormalisation"),
    make_root<GeneralisedObjectiveFunction<Dens>>("GeneralisedObjectiveFunction<DiscretisedDensity3f>"),
    make_root<GeneralisedObjectiveFunction<ParametricVoxelsOnCartesianGrid>>("GeneralisedObjectiveFunction<Parametric>"),
    make_root<GeneralisedPrior<Dens>>("GeneralisedPrior<DiscretisedDensity3f>"),
    make_root<GeneralisedPrior<ParametricVoxelsOnCartesianGrid>>("GeneralisedPrior<Parametric>"),
    make_root<Reconstruction<Dens>>("Reconstruction<DiscretisedDensity3f>"),
    make_root<Reconstruction<ParametricVoxelsOnCartesianGrid>>("Reconstruction<Parametric>"),
    make_root<ProjDataRebinning>("ProjDataRebinning"),
    make_root<ScatterSimulation>("ScatterSimulation"),
    make_root<SpatialTransformation>("SpatialTransformation"),
  };
  return v;
}
static std::vector<std::string> registered_names(const Root& r)
{
  std::ostringstream o;
  r.list(o);
  std::vector<std::string> v;
  for (auto& l : refp::physical_lines(o.str()))
    {
      std::string t = refp::trim(l);
      if (!t.empty() && t != "None") v.push_back(t);
    }
  return v;
}

// ================================================================================================ copies of a used object
// A registered object that was parsed from text and has printed itself ("used") is copied through every route the class
// offers: clone() of the registry's root class, and - for the concrete classes listed below, matched by dynamic type -
// copy construction, assignment to a fresh object and assignment to an object that has itself been used.  Of every copy the
// same is required as of the original: parameter_info() prints the original's text, that text is accepted when parsed into
// the copy, and the copy then prints the same text again.
struct CopyOut { std::string route; shared_ptr<RegisteredObjectBase> obj; };
struct CopyFail { std::string what, route, msg; };
template <class T>
static bool concrete_routes(RegisteredObjectBase* o, std::vector<CopyOut>& out)
{
  if constexpr (std::is_copy_constructible<T>::value && std::is_copy_assignable<T>::value && std::is_default_constructible<T>::value && !std::is_abstract<T>::value)
    {
      T* p = dynamic_cast<T*>(o);
      if (!p || typeid(*p) != typeid(T)) return false;
      out.push_back({ "copy_construction", shared_ptr<RegisteredObjectBase>(new T(*p)) });
      { shared_ptr<T> a(new T); *a = *p; out.push_back({ "assignment_to_fresh_object", a }); }
      { shared_ptr<T> b(new T); (void)b->parameter_info(); *b = *p; out.push_back({ "assignment_to_used_object", b }); }
      return true;
    }
  else
    return false;
}
typedef bool (*ConcreteFn)(RegisteredObjectBase*, std::vector<CopyOut>&);
static const std::vector<ConcreteFn>& concrete_table()
{
  static const std::vector<ConcreteFn> v = {
    &concrete_routes<Ellipsoid>, &concrete_routes<EllipsoidalCylinder>, &concrete_routes<Box3D>,
    &concrete_routes<QuadraticPrior<float>>, &concrete_routes<RelativeDifferencePrior<float>>, &concrete_routes<LogcoshPrior<float>>, &concrete_routes<PLSPrior<float>>,
    &concrete_routes<FilterRootPrior<Dens>>,
    &concrete_routes<SeparableGaussianImageFilter<float>>, &concrete_routes<SeparableCartesianMetzImageFilter<float>>, &concrete_routes<SeparableConvolutionImageFilter<float>>,
    &concrete_routes<MedianImageFilter3D<float>>, &concrete_routes<MinimalImageFilter3D<float>>, &concrete_routes<MaximalImageFilter3D<float>>,
    &concrete_routes<ThresholdMinToSmallPositiveValueDataProcessor<Dens>>, &concrete_routes<TruncateToCylindricalFOVImageProcessor<float>>, &concrete_routes<ChainedDataProcessor<Dens>>,
    &concrete_routes<TrivialBinNormalisation>,
    &concrete_routes<ForwardProjectorByBinUsingProjMatrixByBin>, &concrete_routes<BackProjectorByBinUsingProjMatrixByBin>, &concrete_routes<ProjectorByBinPairUsingProjMatrixByBin>,
  };
  return v;
}
// parse 'text' into an existing object and print it again: 0 same text, 1 rejected, 2 prints differently, 3 not a ParsingObject
static int reparse_into(RegisteredObjectBase* o, const std::string& text, std::string& detail)
{
  ParsingObject* p = dynamic_cast<ParsingObject*>(o);
  if (!p) return 3;
  clear_msgs();
  bool ok = false;
  try { std::istringstream in(text); ok = p->parse(in); }
  catch (std::exception& e) { detail = std::string("exception: ") + short_text(e.what(), 200); return 1; }
  if (!ok) { detail = short_text(g_warn.buf, 300); return 1; }
  const std::string t = o->parameter_info();
  if (no_blank_lines(t) != no_blank_lines(text)) { detail = first_diff(text, t); return 2; }
  return 0;
}
static bool g_check_copies = true;
// obj: a used object (parsed from text; 't' is what its parameter_info() has just returned).  Returns the routes taken.
static std::vector<std::string> check_copies(int root, RegisteredObjectBase* obj, const std::string& t, std::vector<CopyFail>& fails)
{
  std::vector<std::string> routes;
  if (!g_check_copies) return routes;
  std::vector<CopyOut> copies;
  const Root& R = roots()[root];
  try
    {
      if (R.clone) { RegisteredObjectBase* c = R.clone(obj); if (c) copies.push_back({ "clone", shared_ptr<RegisteredObjectBase>(c) }); }
      for (ConcreteFn f : concrete_table()) if (f(obj, copies)) break;
    }
  catch (std::exception& e) { sh_count("copy_route_threw_not_checked"); sh_observe(std::string("copying an object of ") + typeid(*obj).name() + " threw: " + short_text(e.what(), 200)); }
  if (copies.empty()) { sh_count("used_objects_without_copy_route"); return routes; }
  sh_count("used_objects_copied");
  struct Pending { std::string route, detail; int res; };
  std::vector<Pending> pending;
  for (auto& c : copies)
    {
      routes.push_back(c.route);
      sh_count("copies_of_used_object_checked");
      sh_count("copies_by_" + c.route);
      std::string tc;
      try { tc = c.obj->parameter_info(); }
      catch (std::exception& e) { fails.push_back({ "copy_cannot_print_itself", c.route, std::string("parameter_info() of the copy threw: ") + short_text(e.what(), 200) }); continue; }
      if (no_blank_lines(tc) != no_blank_lines(t))
        { fails.push_back({ "copy_prints_different_text", c.route, "parameter_info() of a copy of an object that was parsed and printed differs from the original's (" + vmc::str(tc.size()) + " instead of " + vmc::str(t.size()) + " characters): " + first_diff(t, tc) }); continue; }
      std::string detail;
      const int res = reparse_into(c.obj.get(), t, detail);
      if (res == 3) { sh_count("copies_not_reparsed_not_a_ParsingObject"); continue; }
      if (res == 0) { sh_count("copies_reparsed_ok"); continue; }
      pending.push_back({ c.route, detail, res });
    }
  if (!pending.empty())
    {
      // the copy must do what the original does: the same text is parsed into the (used) original itself
      std::string d0;
      const int control = reparse_into(obj, t, d0);
      for (auto& p : pending)
        if (control != 0)
          { sh_count("copies_reparse_unchecked_original_itself_not_reparsable"); sh_observe(std::string("re-parsing its own text into a used object of ") + typeid(*obj).name() + " fails for the original as well (not charged to the copy): " + d0); }
        else
          fails.push_back({ p.res == 1 ? "own_text_rejected_by_copy" : "copy_reparsed_prints_different_text", p.route,
                            (p.res == 1 ? "the text the original prints (and accepts) is rejected when parsed into the copy: " : "the text the original prints, parsed into the copy, gives an object that prints differently: ") + p.detail });
    }
  return routes;
}
// minimal valid parameter texts for classes whose default object ('<start keyword> :=' only) is rejected by post_processing:
// used for the round trip and the copies of part R (not as mutation seeds)
static const char* alt_text(const std::string& label, const std::string& name)
{
  if (label == "Shape3D" && name == "Ellipsoid")
    return "Ellipsoid Parameters:=\nradius-x (in mm):=10\nradius-y (in mm):=20\nradius-z (in mm):=30\norigin (in mm):={1,2,3}\nEND:=\n";
  if (label == "Shape3D" && name == "Ellipsoidal Cylinder")
    return "Ellipsoidal Cylinder Parameters:=\nradius-x (in mm):=10\nradius-y (in mm):=20\nlength-z (in mm):=30\norigin (in mm):={1,2,3}\nEND:=\n";
  if (label == "ForwardProjectorByBin" && name == "Matrix")
    return "Forward Projector Using Matrix Parameters:=\nmatrix type:=Ray Tracing\nRay Tracing Matrix Parameters:=\nEnd Ray Tracing Matrix Parameters:=\nEnd Forward Projector Using Matrix Parameters:=\n";
  if (label == "BackProjectorByBin" && name == "Matrix")
    return "Back Projector Using Matrix Parameters:=\nmatrix type:=Ray Tracing\nRay Tracing Matrix Parameters:=\nEnd Ray Tracing Matrix Parameters:=\nEnd Back Projector Using Matrix Parameters:=\n";
  return nullptr;
}

// ================================================================================================ a KeyParser with a key of every type
struct AllTypes : public KeyParser
{
  int i; unsigned int u; long l; unsigned long ul; float f; double d; bool b; std::string s;
  std::vector<int> li; std::vector<double> ld; std::vector<std::string> ls;
  int e; ASCIIlist_type evals;
  std::vector<int> vi; std::vector<float> vf; std::vector<double> vd; std::vector<std::string> vs;
  std::vector<std::vector<double>> vld; std::vector<std::vector<int>> vli; std::vector<unsigned long> vul; std::vector<unsigned int> vu;
  BasicCoordinate<3, float> c3;
  int aliased; float deprecated_aliased;
  explicit AllTypes(bool seed_values)
  {
    evals = { "alpha", "beta gamma", "delta" };
    if (seed_values)
      {
        i = 3; u = 4; l = -5; ul = 6; f = 1.5F; d = 2.25; b = true; s = "some text with blanks";
        li = { 1, 2, 3 }; ld = { 0.5, 1.5 }; ls = { "a", "bc" }; e = 1;
        vi = { 7, 8, 9 }; vf = { 0.25F, 0.75F }; vd = { 10.5, 11.5, 12.5 }; vs = { "x y", "z" };
        vld = { { 1, 2 }, { 3 } }; vli = { { 4 }, { 5, 6 } }; vul = { 21, 22 }; vu = { 31, 32, 33 };
        c3 = make_coordinate(1.F, 2.F, 3.F);
        aliased = 17; deprecated_aliased = 2.5F;
      }
    else
      {
        i = 0; u = 0; l = 0; ul = 0; f = 0; d = 0; b = false; s = "";
        e = 0;
        vi.assign(3, 0); vf.assign(2, 0.F); vd.assign(3, 0.); vs.assign(2, "");
        vld.assign(2, {}); vli.assign(2, {}); vul.assign(2, 0UL); vu.assign(3, 0U);
        c3 = make_coordinate(0.F, 0.F, 0.F);
        aliased = 0; deprecated_aliased = 0;
      }
    add_start_key("AllTypes Parameters");
    add_key("int value", &i);
    add_key("unsigned value", &u);
    add_key("long value", &l);
    add_key("unsigned long value", &ul);
    add_key("float value", &f);
    add_key("double value", &d);
    add_key("bool value", &b);
    add_key("string value", &s);
    add_key("list of ints", &li);
    add_key("list of doubles", &ld);
    add_key("list of strings", &ls);
    add_key("enumerated value", &e, &evals);
    add_vectorised_key("vectorised int", &vi);
    add_vectorised_key("vectorised float", &vf);
    add_vectorised_key("vectorised double", &vd);
    add_vectorised_key("vectorised string", &vs);
    add_vectorised_key("vectorised list of doubles", &vld);
    add_vectorised_key("vectorised list of ints", &vli);
    add_vectorised_key("vectorised unsigned long", &vul);
    add_vectorised_key("vectorised unsigned", &vu);
    add_key("coordinate value", &c3);
    add_key("aliased value (with: colon)", &aliased);
    add_alias_key("aliased value (with: colon)", "other name of aliased value", false);
    add_key("value with deprecated alias", &deprecated_aliased);
    add_alias_key("value with deprecated alias", "old name of value", true);
    add_stop_key("End AllTypes Parameters");
  }
};

// ================================================================================================ seeds
enum Entry { E_IMG_RFF = 0, E_IMG_STREAM, E_PD_RFF, E_PD_STREAM, E_DYN_RFF, E_PAR_RFF, E_MULTI, E_REG, E_KP, E_DYN_STREAM, E_PAR_STREAM, E_HDR_PARSE, N_ENTRIES };
static const char* ENTRY_NAMES[] = { "read_from_file<DiscretisedDensity>", "read_interfile_image(stream)", "ProjData::read_from_file", "read_interfile_PDFS(stream)",
                                     "read_from_file<DynamicDiscretisedDensity>", "read_from_file<ParametricVoxelsOnCartesianGrid>", "MultipleDataSetHeader::parse",
                                     "read_registered_object", "KeyParser::parse", "read_interfile_dynamic_image(stream)", "read_interfile_parametric_image(stream)",
                                     "InterfileImageHeader::parse" };
static int entry_from_name(const std::string& n) { for (int i = 0; i < N_ENTRIES; ++i) if (n == ENTRY_NAMES[i]) return i; return -1; }

struct Seed
{
  std::string name, text, stop_kw, data_file, kind; // kind: img pdfs spect dyn par multi reg kp
  std::vector<int> entries;
  std::vector<std::pair<std::string, std::string>> aliases; // (standardised target keyword, alias spelling)
  int root = -1; std::string reg_name;
  int ndatasets = 1;
  std::map<int, std::string> base_canon; // per entry: canonical description of the object read from the unmutated text
  std::string default_text;               // kp: parameter_info of the default object (slot reference)
};

static std::string g_tmp = ".";

static shared_ptr<ExamInfo> seed_exam(bool spect)
{
  shared_ptr<ExamInfo> e(new ExamInfo);
  e->imaging_modality = spect ? ImagingModality::NM : ImagingModality::PT;
  e->patient_position = PatientPosition(PatientPosition::HFS);
  e->time_frame_definitions.set_num_time_frames(1);
  e->time_frame_definitions.set_time_frame(1, 10.5, 13.75);
  if (!spect)
    {
      RadionuclideDB db;
      e->set_radionuclide(db.get_radionuclide(e->imaging_modality, "^18^Fluorine"));
    }
  e->set_low_energy_thres(350.F);
  e->set_high_energy_thres(650.F);
  e->set_calibration_factor(0.0025F);
  return e;
}
static shared_ptr<VoxelsOnCartesianGrid<float>> seed_image(int frame)
{
  shared_ptr<ExamInfo> e = seed_exam(false);
  e->time_frame_definitions.set_time_frame(1, 10.5 + 20 * frame, 13.75 + 20 * frame);
  shared_ptr<VoxelsOnCartesianGrid<float>> im(new VoxelsOnCartesianGrid<float>(e, IndexRange3D(0, 3, -1, 1, -1, 0), CartesianCoordinate3D<float>(0.F, 0.F, 0.F),
                                                                              CartesianCoordinate3D<float>(2.5F, 1.25F, 0.625F)));
  float v = 1.F + 100 * frame;
  for (auto it = im->begin_all(); it != im->end_all(); ++it) *it = v++;
  return im;
}

// projection data written through ProjDataInterfile: <base>.hs + <base>.s
static void write_projdata(const std::string& base, const shared_ptr<const ExamInfo>& ex, const shared_ptr<const ProjDataInfo>& pdi)
{
  ProjDataInterfile pd(ex, pdi, base, std::ios::in | std::ios::out | std::ios::trunc);
  float v = 1.F;
  for (int k = pdi->get_min_tof_pos_num(); k <= pdi->get_max_tof_pos_num(); ++k)
    for (int s = pdi->get_min_segment_num(); s <= pdi->get_max_segment_num(); ++s)
      {
        SegmentByView<float> seg = pdi->get_empty_segment_by_view(s, false, k);
        for (auto it = seg.begin_all(); it != seg.end_all(); ++it) *it = v++;
        pd.set_segment(seg);
      }
}

static std::vector<std::pair<std::string, std::string>> aliases_of(KeyParser& p, const std::string& text)
{
  std::vector<std::pair<std::string, std::string>> v;
  std::set<std::string> present;
  for (auto& l : refp::logical_lines(text)) present.insert(refp::analyse(l).kw);
  for (auto* m : { &p.alias_map, &p.deprecated_alias_map })
    for (auto& kv : *m)
      if (present.count(kv.second)) v.push_back({ kv.second, kv.first });
  return v;
}

// builds the seed with the given name (files are created in g_tmp); returns false if the library could not write it
static bool build_seed(const std::string& name, Seed& S)
{
  S = Seed();
  S.name = name;
  const std::string base = g_tmp + "/c17_" + name;
  std::string what;
  bool ok = true;
  if (name == "img")
    {
      S.kind = "img"; S.stop_kw = "end of interfile";
      ok = !small::throws([&] {
        InterfileOutputFileFormat fmt(NumericType::FLOAT, ByteOrder::little_endian);
        if (fmt.write_to_file(base, *seed_image(0)) != Succeeded::yes) error("write failed");
      }, &what);
      S.text = slurp(base + ".hv"); S.data_file = base + ".v";
      S.entries = { E_IMG_RFF, E_IMG_STREAM };
      InterfileImageHeader h; S.aliases = aliases_of(h, S.text);
    }
  else if (name == "img_short")
    {
      // same image as 16-bit integers with a scale factor and big-endian order
      S.kind = "img"; S.stop_kw = "end of interfile";
      ok = !small::throws([&] {
        InterfileOutputFileFormat fmt(NumericType::SHORT, ByteOrder::big_endian);
        if (fmt.write_to_file(base, *seed_image(0)) != Succeeded::yes) error("write failed");
      }, &what);
      S.text = slurp(base + ".hv"); S.data_file = base + ".v";
      S.entries = { E_IMG_RFF };
    }
  else if (name == "dyn")
    {
      S.kind = "dyn"; S.stop_kw = "end of interfile"; S.ndatasets = 2;
      ok = !small::throws([&] {
        TimeFrameDefinitions tdefs;
        tdefs.set_num_time_frames(2);
        tdefs.set_time_frame(1, 10.5, 13.75); tdefs.set_time_frame(2, 30.5, 33.75);
        shared_ptr<Scanner> sc(new Scanner(Scanner::E953));
        shared_ptr<DiscretisedDensity<3, float>> templ(seed_image(0)->clone());
        DynamicDiscretisedDensity dyn(tdefs, 0., sc, templ);
        ExamInfo e = seed_image(0)->get_exam_info();
        e.time_frame_definitions = tdefs; e.originating_system = sc->get_name();
        dyn.set_exam_info(e);
        for (int k = 0; k < 2; ++k) dyn.set_density(*seed_image(k), k + 1);
        InterfileDynamicDiscretisedDensityOutputFileFormat fmt(NumericType::FLOAT, ByteOrder::little_endian);
        if (fmt.write_to_file(base, dyn) != Succeeded::yes) error("write failed");
      }, &what);
      S.text = slurp(base + ".hv"); S.data_file = base + ".v";
      S.entries = { E_DYN_RFF };
    }
  else if (name == "par")
    {
      S.kind = "par"; S.stop_kw = "end of interfile"; S.ndatasets = 2;
      ok = !small::throws([&] {
        ParametricVoxelsOnCartesianGrid par(*seed_image(0));
        for (int k = 0; k < 2; ++k) par.update_parametric_image(*seed_image(k), k + 1);
        par.set_exam_info(seed_image(0)->get_exam_info());
        InterfileParametricDiscretisedDensityOutputFileFormat<ParametricVoxelsOnCartesianGridBaseType> fmt(NumericType::FLOAT, ByteOrder::little_endian);
        if (fmt.write_to_file(base, par) != Succeeded::yes) error("write failed");
      }, &what);
      S.text = slurp(base + ".hv"); S.data_file = base + ".v";
      S.entries = { E_PAR_RFF };
    }
  else if (name == "multi")
    {
      // MultipleDataSetHeader written by MultiDynamicDiscretisedDensityOutputFileFormat; the individual images are real files
      S.kind = "multi"; S.stop_kw = "end";
      ok = !small::throws([&] {
        TimeFrameDefinitions tdefs;
        tdefs.set_num_time_frames(2);
        tdefs.set_time_frame(1, 10.5, 13.75); tdefs.set_time_frame(2, 30.5, 33.75);
        shared_ptr<Scanner> sc(new Scanner(Scanner::E953));
        shared_ptr<DiscretisedDensity<3, float>> templ(seed_image(0)->clone());
        DynamicDiscretisedDensity dyn(tdefs, 0., sc, templ);
        ExamInfo e = seed_image(0)->get_exam_info();
        e.time_frame_definitions = tdefs; e.originating_system = sc->get_name();
        dyn.set_exam_info(e);
        for (int k = 0; k < 2; ++k) dyn.set_density(*seed_image(k), k + 1);
        MultiDynamicDiscretisedDensityOutputFileFormat fmt;
        shared_ptr<InterfileOutputFileFormat> ind(new InterfileOutputFileFormat(NumericType::FLOAT, ByteOrder::little_endian));
        fmt.individual_output_type_sptr = ind;
        if (fmt.write_to_file(base, dyn) != Succeeded::yes) error("write failed");
      }, &what);
      S.text = slurp(base + ".txt");
      S.entries = { E_MULTI, E_DYN_RFF };
    }
  else if (name == "pdfs" || name == "pdfs_tof" || name == "pdfs_arccorr" || name == "pdfs_E953")
    {
      S.kind = "pdfs"; S.stop_kw = "end of interfile";
      ok = !small::throws([&] {
        shared_ptr<Scanner> sc = name == "pdfs_E953" ? shared_ptr<Scanner>(new Scanner(Scanner::E953)) : small::cyl_scanner(8, 2, name == "pdfs_tof" ? 5 : 0);
        shared_ptr<ProjDataInfo> pdi = name == "pdfs_E953" ? small::make_pdi(sc, 1, 1, 4, 5)
                                                             : small::make_pdi(sc, 1, 1, 0, 0, name == "pdfs_arccorr", name == "pdfs_tof" ? 1 : 0);
        write_projdata(base, seed_exam(false), pdi);
      }, &what);
      S.text = slurp(base + ".hs"); S.data_file = base + ".s";
      S.entries = { E_PD_RFF, E_PD_STREAM };
      InterfilePDFSHeader h; S.aliases = aliases_of(h, S.text);
    }
  else if (name == "spect")
    {
      S.kind = "spect"; S.stop_kw = "end of interfile";
      ok = !small::throws([&] {
        shared_ptr<Scanner> sc = small::cyl_scanner(8, 3);
        VectorWithOffset<int> nax(0, 0), mn(0, 0), mx(0, 0);
        nax[0] = 3; mn[0] = 0; mx[0] = 0;
        shared_ptr<stir::ProjDataInfoCylindricalArcCorr> pdi(new stir::ProjDataInfoCylindricalArcCorr(sc, 4.F, nax, mn, mx, 6, 5));
        VectorWithOffset<float> radii(0, 5);
        for (int i = 0; i < 6; ++i) radii[i] = 150.F;
        pdi->set_ring_radii_for_all_views(radii);
        write_projdata(base, seed_exam(true), pdi);
      }, &what);
      S.text = slurp(base + ".hs"); S.data_file = base + ".s";
      S.entries = { E_PD_RFF, E_PD_STREAM };
    }
  else if (name == "alltypes")
    {
      S.kind = "kp"; S.stop_kw = "end alltypes parameters";
      AllTypes a(true), dflt(false);
      S.text = a.parameter_info();
      S.default_text = dflt.parameter_info();
      S.entries = { E_KP };
      S.aliases = aliases_of(a, S.text);
    }
  else
    return false;
  if (!ok || S.text.empty()) { fprintf(stderr, "seed %s could not be written: %s\n", name.c_str(), what.c_str()); return false; }
  return true;
}

// ================================================================================================ executing one text through one entry point
enum OutcomeClass { ACCEPTED = 0, REJECTED_NULL, REJECTED_ERROR, REJECTED_FOREIGN_EXCEPTION };
struct Outcome
{
  int cls = REJECTED_NULL;
  std::string what, canon;
  // image-like
  bool is_image = false; long nx = 0, ny = 0, nz = 0; double vx = 0, vy = 0, vz = 0; long ndatasets = 1;
  // projection data
  bool is_projdata = false; long ntang = 0, nviews = 0, nseg = 0, ntof = 0; std::vector<long> nax; bool reads_ok = true; std::string read_err;
  // multi
  long nfiles = -1; std::vector<std::string> files;
  // data of every data set of an accepted (dynamic / parametric / single) image: one hash per data set
  std::vector<std::string> data_hashes;
  // plain header parse (E_HDR_PARSE): what the header object says about its per-data-set tables
  bool hdr_probe = false; std::string hdr_inconsistency; long hdr_tables_longer = 0;
  // registered objects: what went wrong with the copies of the accepted (used) object
  std::vector<CopyFail> copy_fails;
};

static std::string canon_exam(const ExamInfo& e)
{
  std::ostringstream o; o.precision(6);
  o << "mod=" << e.imaging_modality.get_name() << ";pos=" << (int)e.patient_position.get_orientation() << "," << (int)e.patient_position.get_rotation()
    << ";frames=" << e.time_frame_definitions.get_num_frames();
  for (unsigned i = 1; i <= e.time_frame_definitions.get_num_frames(); ++i) o << "(" << e.time_frame_definitions.get_start_time(i) << "," << e.time_frame_definitions.get_end_time(i) << ")";
  o << ";rn=" << e.get_radionuclide().get_name() << ";en=" << e.get_low_energy_thres() << "," << e.get_high_energy_thres() << ";cal=" << e.get_calibration_factor()
    << ";sys=" << e.originating_system;
  return o.str();
}
static std::string canon_image(const VoxelsOnCartesianGrid<float>& v, Outcome& o)
{
  o.is_image = true;
  o.nx = v.get_x_size(); o.ny = v.get_y_size(); o.nz = v.get_z_size();
  o.vx = v.get_voxel_size().x(); o.vy = v.get_voxel_size().y(); o.vz = v.get_voxel_size().z();
  std::ostringstream s; s.precision(7);
  s << "range=" << v.get_min_z() << ":" << v.get_max_z() << "," << v.get_min_y() << ":" << v.get_max_y() << "," << v.get_min_x() << ":" << v.get_max_x() << ";vox=" << o.vz << "," << o.vy << ","
    << o.vx << ";org=" << v.get_origin().z() << "," << v.get_origin().y() << "," << v.get_origin().x();
  uint64_t h = 1469598103934665603ULL; double sum = 0; long n = 0;
  for (auto it = v.begin_all(); it != v.end_all(); ++it) { const float f = *it; h = vmc::fnv(&f, sizeof f, h); sum += f; ++n; } // a read of every element
  s << ";n=" << n << ";vals=" << std::hex << h << std::dec << ";sum=" << sum;
  { std::ostringstream d; d.precision(9); d << n << ":" << std::hex << h << std::dec << ":" << sum; o.data_hashes.push_back(d.str()); }
  return s.str();
}
static std::string canon_dynamic(const DynamicDiscretisedDensity& d, Outcome& o)
{
  std::ostringstream c;
  o.ndatasets = d.get_num_time_frames();
  c << "frames=" << d.get_num_time_frames() << ";";
  for (unsigned k = 1; k <= d.get_num_time_frames(); ++k)
    {
      const VoxelsOnCartesianGrid<float>* v = dynamic_cast<const VoxelsOnCartesianGrid<float>*>(&d.get_density(k));
      if (!v) { c << "frame not voxels;"; continue; }
      c << "[" << canon_image(*v, o) << ";" << canon_exam(v->get_exam_info()) << "]";
    }
  c << canon_exam(d.get_exam_info());
  return c.str();
}
static std::string canon_parametric(const ParametricVoxelsOnCartesianGrid& d, Outcome& o)
{
  std::ostringstream c;
  o.ndatasets = d.get_num_params();
  for (unsigned k = 1; k <= d.get_num_params(); ++k)
    {
      VoxelsOnCartesianGrid<float> v(d.construct_single_density(k));
      c << "[" << canon_image(v, o) << "]";
    }
  c << canon_exam(d.get_exam_info());
  return c.str();
}

// Plain parse of an Interfile image header (what every image reader of interfile.cxx does first).  The probe makes an out-of-bounds
// index into the per-data-set tables visible to the sanitizer (see post_processing below) and checks the tables of an accepted header.
struct ProbeImageHeader : public InterfileImageHeader
{
  std::string inconsistency; long longer = 0;
  std::string tables(const char* when) const
  {
    const long nds = this->get_num_datasets(), nsf = (long)image_scaling_factors.size(), noff = (long)data_offset_each_dataset.size();
    if (nds > nsf || nds > noff)
      return std::string(when) + ": get_num_datasets() = " + std::to_string(nds) + " (number of time frames " + std::to_string(num_time_frames) + " x number of image data types " + std::to_string(num_image_data_types)
             + ") but the 'image scaling factor' table has " + std::to_string(nsf) + " entries and the 'data offset in bytes' table has " + std::to_string(noff);
    return std::string();
  }
  bool post_processing() override
  {
    // The library decides: it may reject such a header through its error reporting (fine), or loop over the tables with
    // get_num_datasets() as bound.  The tables are first shrunk to their size, so that an index beyond the size is also beyond the heap
    // block and AddressSanitizer reports it (otherwise it could land inside the vector's capacity, unseen); an ACCEPTED header with
    // short tables is then reported by canon_header().
    inconsistency = tables("when post_processing() starts");
    image_scaling_factors.shrink_to_fit(); data_offset_each_dataset.shrink_to_fit();
    return InterfileImageHeader::post_processing();
  }
};
static std::string canon_header(ProbeImageHeader& h, Outcome& o)
{
  // consistency of the accepted header object: everything the readers of interfile.cxx index without a further check
  const long nds = h.get_num_datasets(), nsf = (long)h.image_scaling_factors.size(), noff = (long)h.data_offset_each_dataset.size();
  o.hdr_inconsistency = h.tables("after an accepted parse");
  if (o.hdr_inconsistency.empty() && (h.matrix_size.size() < 3 || h.pixel_sizes.size() < 3))
    o.hdr_inconsistency = "after an accepted parse: matrix_size has " + std::to_string(h.matrix_size.size()) + " and pixel_sizes " + std::to_string(h.pixel_sizes.size()) + " entries (the readers use 3)";
  if (o.hdr_inconsistency.empty())
    for (long k = 0; k < nds; ++k)
      if ((long)h.image_scaling_factors[(size_t)k].size() < (long)h.matrix_size[2][0])
        { o.hdr_inconsistency = "after an accepted parse: 'image scaling factor' of data set " + std::to_string(k + 1) + " has " + std::to_string(h.image_scaling_factors[(size_t)k].size()) + " entries for " + std::to_string(h.matrix_size[2][0]) + " planes"; break; }
  const long nframes = (long)h.get_exam_info().time_frame_definitions.get_num_frames();
  if (o.hdr_inconsistency.empty() && (nframes > nsf || nframes > noff))
    o.hdr_inconsistency = "after an accepted parse: the exam info has " + std::to_string(nframes) + " time frames but the per-data-set tables have " + std::to_string(nsf) + " / " + std::to_string(noff) + " entries (the dynamic-image reader indexes them per frame)";
  if (nsf > nds || noff > nds) o.hdr_tables_longer = 1;
  std::ostringstream c; c.precision(7);
  c << "datasets=" << nds << ";frames=" << h.num_time_frames << ";types=" << h.num_image_data_types << ";tables=" << nsf << "," << noff;
  if (!o.hdr_inconsistency.empty()) return c.str();
  o.is_image = true;
  o.nx = h.matrix_size[0][0]; o.ny = h.matrix_size[1][0]; o.nz = h.matrix_size[2][0];
  o.vx = h.pixel_sizes[0]; o.vy = h.pixel_sizes[1]; o.vz = h.pixel_sizes[2];
  o.ndatasets = nds;
  c << ";size=" << o.nx << "," << o.ny << "," << o.nz << ";vox=" << o.vx << "," << o.vy << "," << o.vz << ";file=" << h.data_file_name << ";type=" << (int)h.type_of_numbers.id << "/" << h.type_of_numbers.size_in_bytes()
    << ";order=" << (h.file_byte_order == ByteOrder::little_endian ? "little" : "big");
  for (long k = 0; k < nds; ++k)
    {
      c << ";set" << k + 1 << "=" << h.data_offset_each_dataset[(size_t)k] << ":";
      uint64_t hh = 1469598103934665603ULL;
      for (double f : h.image_scaling_factors[(size_t)k]) hh = vmc::fnv(&f, sizeof f, hh); // a read of every element
      c << h.image_scaling_factors[(size_t)k].size() << "x" << std::hex << hh << std::dec;
    }
  for (size_t i = 0; i < h.first_pixel_offsets.size(); ++i) c << ";off" << i << "=" << h.first_pixel_offsets[i];
  for (size_t i = 0; i < h.image_data_type_description.size(); ++i) c << ";descr" << i << "=" << h.image_data_type_description[i];
  c << ";" << canon_exam(h.get_exam_info());
  return c.str();
}
static std::string canon_projdata(const ProjData& pd, Outcome& o)
{
  o.is_projdata = true;
  const ProjDataInfo& p = *pd.get_proj_data_info_sptr();
  o.ntang = p.get_num_tangential_poss(); o.nviews = p.get_num_views(); o.nseg = p.get_num_segments(); o.ntof = p.get_num_tof_poss();
  for (int s = p.get_min_segment_num(); s <= p.get_max_segment_num(); ++s) o.nax.push_back(p.get_num_axial_poss(s));
  std::ostringstream c; c.precision(7);
  c << p.parameter_info();
  uint64_t h = 1469598103934665603ULL; double sum = 0; long n = 0;
  try
    {
      for (int k = p.get_min_tof_pos_num(); k <= p.get_max_tof_pos_num(); ++k)
        for (int s = p.get_min_segment_num(); s <= p.get_max_segment_num(); ++s)
          {
            SegmentByView<float> seg = pd.get_segment_by_view(s, k);
            for (auto it = seg.begin_all(); it != seg.end_all(); ++it) { const float f = *it; h = vmc::fnv(&f, sizeof f, h); sum += f; ++n; }
          }
    }
  catch (std::exception& e) { o.reads_ok = false; o.read_err = e.what(); }
  catch (...) { o.reads_ok = false; o.read_err = "non-std exception"; }
  c << ";n=" << n << ";vals=" << std::hex << h << std::dec << ";sum=" << sum << ";reads_ok=" << o.reads_ok << ";" << canon_exam(pd.get_exam_info());
  return c.str();
}

static std::string g_mutant_file;

static void run_entry(const Seed& S, int entry, const std::string& text, Outcome& o)
{
  o = Outcome();
  clear_msgs();
  try
    {
      switch (entry)
        {
        case E_IMG_RFF: {
          spit(g_mutant_file, text);
          unique_ptr<Dens> d(read_from_file<Dens>(g_mutant_file));
          if (!d) { o.cls = REJECTED_NULL; break; }
          const VoxelsOnCartesianGrid<float>* v = dynamic_cast<const VoxelsOnCartesianGrid<float>*>(d.get());
          if (!v) { o.cls = REJECTED_NULL; o.what = "not a VoxelsOnCartesianGrid"; break; }
          o.canon = canon_image(*v, o) + ";" + canon_exam(v->get_exam_info());
          o.cls = ACCEPTED;
          break;
        }
        case E_IMG_STREAM: {
          std::istringstream in(text);
          unique_ptr<VoxelsOnCartesianGrid<float>> v(read_interfile_image(in, g_tmp));
          if (!v) { o.cls = REJECTED_NULL; break; }
          o.canon = canon_image(*v, o) + ";" + canon_exam(v->get_exam_info());
          o.cls = ACCEPTED;
          break;
        }
        case E_PD_RFF: {
          spit(g_mutant_file, text);
          shared_ptr<ProjData> pd = ProjData::read_from_file(g_mutant_file);
          if (!pd) { o.cls = REJECTED_NULL; break; }
          o.canon = canon_projdata(*pd, o);
          o.cls = ACCEPTED;
          break;
        }
        case E_PD_STREAM: {
          std::istringstream in(text);
          unique_ptr<ProjDataFromStream> pd(read_interfile_PDFS(in, g_tmp, std::ios::in));
          if (!pd) { o.cls = REJECTED_NULL; break; }
          o.canon = canon_projdata(*pd, o);
          o.cls = ACCEPTED;
          break;
        }
        case E_DYN_RFF: {
          spit(g_mutant_file, text);
          unique_ptr<DynamicDiscretisedDensity> d(read_from_file<DynamicDiscretisedDensity>(g_mutant_file));
          if (!d) { o.cls = REJECTED_NULL; break; }
          o.canon = canon_dynamic(*d, o);
          o.cls = ACCEPTED;
          break;
        }
        case E_DYN_STREAM: {
          std::istringstream in(text);
          unique_ptr<DynamicDiscretisedDensity> d(read_interfile_dynamic_image(in, g_tmp));
          if (!d) { o.cls = REJECTED_NULL; break; }
          o.canon = canon_dynamic(*d, o);
          o.cls = ACCEPTED;
          break;
        }
        case E_PAR_STREAM: {
          std::istringstream in(text);
          unique_ptr<ParametricVoxelsOnCartesianGrid> d(read_interfile_parametric_image(in, g_tmp));
          if (!d) { o.cls = REJECTED_NULL; break; }
          o.canon = canon_parametric(*d, o);
          o.cls = ACCEPTED;
          break;
        }
        case E_HDR_PARSE: {
          std::istringstream in(text);
          ProbeImageHeader h;
          o.hdr_probe = true;
          const bool ok = h.parse(in);
          if (!ok) { o.cls = REJECTED_NULL; break; }   // rejected through the library's error reporting, whatever the tables looked like
          o.canon = canon_header(h, o);
          o.cls = ACCEPTED;
          break;
        }
        case E_PAR_RFF: {
          spit(g_mutant_file, text);
          unique_ptr<ParametricVoxelsOnCartesianGrid> d(read_from_file<ParametricVoxelsOnCartesianGrid>(g_mutant_file));
          if (!d) { o.cls = REJECTED_NULL; break; }
          o.canon = canon_parametric(*d, o);
          o.cls = ACCEPTED;
          break;
        }
        case E_MULTI: {
          std::istringstream in(text);
          MultipleDataSetHeader h;
          if (!h.parse(in)) { o.cls = REJECTED_NULL; break; }
          o.nfiles = (long)h.get_num_data_sets();
          std::ostringstream c; c << "n=" << o.nfiles;
          for (long i = 0; i < o.nfiles; ++i) { o.files.push_back(h.get_filename((size_t)i)); c << ";" << o.files.back(); } // .at(): a throw here is a rejection
          c << ";stored=" << h._filenames.size();
          o.canon = c.str();
          o.cls = ACCEPTED;
          break;
        }
        case E_REG: {
          std::istringstream in(text);
          unique_ptr<RegisteredObjectBase> obj(roots()[S.root].read(&in, S.reg_name));
          if (!obj) { o.cls = REJECTED_NULL; break; }
          o.canon = obj->parameter_info();
          o.cls = ACCEPTED;
          check_copies(S.root, obj.get(), o.canon, o.copy_fails);
          break;
        }
        case E_KP: {
          std::istringstream in(text);
          AllTypes a(false);
          if (!a.parse(in)) { o.cls = REJECTED_NULL; break; }
          o.canon = a.parameter_info();
          o.cls = ACCEPTED;
          break;
        }
        }
    }
  catch (std::runtime_error& e) { o.cls = REJECTED_ERROR; o.what = e.what(); }
  catch (std::exception& e) { o.cls = REJECTED_FOREIGN_EXCEPTION; o.what = std::string(typeid(e).name()) + ": " + e.what(); }
  catch (...) { o.cls = REJECTED_FOREIGN_EXCEPTION; o.what = "non-std exception"; }
}

// ================================================================================================ mutants
struct LineInfo { refp::Line L; bool cont = false, ends_bs = false, comment = false, blank = false; int logical = 0; size_t start = 0; bool last_of_logical = true; int nphys_of_logical = 1; };
struct SeedLines
{
  std::vector<std::string> phys; bool final_nl = true;
  std::vector<LineInfo> info;
  std::vector<std::string> logical;
};
static SeedLines analyse_seed(const std::string& text)
{
  SeedLines A;
  A.phys = refp::physical_lines(text, &A.final_nl);
  A.info.resize(A.phys.size());
  size_t pos = 0; int lg = 0; bool prev_bs = false;
  for (size_t i = 0; i < A.phys.size(); ++i)
    {
      LineInfo& I = A.info[i];
      I.L = refp::analyse(A.phys[i]);
      I.start = pos; pos += A.phys[i].size() + 1;
      I.cont = prev_bs;
      std::string t = A.phys[i];
      if (!t.empty() && t.back() == '\r') t.pop_back();
      I.ends_bs = !t.empty() && t.back() == '\\';
      I.blank = refp::trim(t).empty();
      I.comment = !I.L.kw.empty() && I.L.kw[0] == ';';
      I.logical = lg;
      I.last_of_logical = !I.ends_bs;
      if (!I.ends_bs) ++lg;
      prev_bs = I.ends_bs;
    }
  std::map<int, int> cnt;
  for (auto& I : A.info) cnt[I.logical]++;
  for (auto& I : A.info) I.nphys_of_logical = cnt[I.logical];
  A.logical = refp::logical_lines(text);
  return A;
}
static bool size_determining(const std::string& kw)
{
  return kw.find("matrix size") == 0 || kw.find("number of") == 0 || kw.find("total number") == 0 || kw.find("data offset") == 0 || kw.find("ring difference") != std::string::npos
         || kw.find("tof mashing") == 0 || kw.find("maximum number") == 0 || kw.find("default number") == 0 || kw == "number format" || kw == "tof bin order";
}

struct Mutant
{
  Mut a, b; bool two = false;
  std::string str() const { return a.str() + (two ? "+" + b.str() : ""); }
  static Mutant parse(const std::string& s)
  {
    Mutant m; auto p = s.find('+');
    m.a = Mut::parse(s.substr(0, p));
    if (p != std::string::npos) { m.two = true; m.b = Mut::parse(s.substr(p + 1)); }
    return m;
  }
};
static bool apply_one(const Seed& S, const SeedLines& A, std::vector<std::string>& lines, bool& nl, const Mut& m)
{
  if (m.line < 0 || m.line >= (int)A.info.size()) return false;
  const LineInfo& I = A.info[m.line];
  if (m.op == refp::OP_VALUE || m.op == refp::OP_INDEX || m.op == refp::OP_KEYWORD || m.op == refp::OP_ALIAS)
    if (I.cont || I.comment || I.blank || I.L.kw.empty()) return false;
  if (m.op == refp::OP_VALUE && I.ends_bs) return false;
  if (m.op == refp::OP_KEYWORD && m.arg == 6 && I.ends_bs) return false;
  if (m.op == refp::OP_ALIAS)
    {
      if (m.arg < 0 || m.arg >= (int)S.aliases.size() || S.aliases[m.arg].first != I.L.kw) return false;
      return refp::apply_lines(lines, nl, m, S.aliases[m.arg].second);
    }
  return refp::apply_lines(lines, nl, m);
}
static bool make_text(const Seed& S, const SeedLines& A, const Mutant& m, std::string& out)
{
  if (m.a.op == refp::OP_TRUNC_BYTE)
    {
      if (m.two || m.a.arg < 0 || m.a.arg >= (int)S.text.size()) return false;
      out = S.text.substr(0, m.a.arg);
      return true;
    }
  std::vector<std::string> lines = A.phys; bool nl = A.final_nl;
  if (m.two)
    {
      if (m.a.op != refp::OP_VALUE || m.b.op == refp::OP_TRUNC_BYTE) return false;
      if (!apply_one(S, A, lines, nl, m.a)) return false;
      if (m.b.line == m.a.line && m.b.op != refp::OP_DUP && m.b.op != refp::OP_INDEX) return false;
      if (m.b.op == refp::OP_TRUNC_LINE && m.b.line < m.a.line) return false;
      // b is analysed on the seed's line (a value replacement keeps keyword, index and line count)
      if (m.b.op == refp::OP_INDEX && m.b.line == m.a.line)
        { if (!refp::apply_lines(lines, nl, m.b)) return false; }
      else if (!apply_one(S, A, lines, nl, m.b)) return false;
    }
  else if (!apply_one(S, A, lines, nl, m.a)) return false;
  out = refp::join_lines(lines, nl);
  return out != S.text;
}
// all deviation-1 mutations that touch physical line i (without byte truncation)
static void line_mutations(const Seed& S, const SeedLines& A, int i, bool with_keyword_ops, std::vector<Mut>& v)
{
  auto add = [&](int op, int arg) { Mut m; m.op = op; m.line = i; m.arg = arg; v.push_back(m); };
  add(refp::OP_DEL, 0); add(refp::OP_DUP, 0); add(refp::OP_TRUNC_LINE, 0); add(refp::OP_TRUNC_LINE, 1);
  if (S.kind != "reg" && i + 1 < (int)A.phys.size()) add(refp::OP_SWAP, 0); // whichever of two cooperating keys comes last wins: order of adjacent lines
  const LineInfo& I = A.info[i];
  if (I.cont || I.comment || I.blank || I.L.kw.empty()) return;
  if (I.L.has_assign && !I.ends_bs)
    for (int a = 0; a < (int)refp::value_alphabet().size(); ++a) add(refp::OP_VALUE, a);
  if (I.L.has_assign)
    {
      if (I.L.has_index) for (int a = 0; a < refp::N_INDEX_VARIANTS; ++a) add(refp::OP_INDEX, a);
      else if (I.L.idx_open == std::string::npos) for (int a = 0; a < refp::N_ADDINDEX_VARIANTS; ++a) add(refp::OP_INDEX, a);
    }
  if (with_keyword_ops)
    {
      for (int a = 0; a < refp::N_KEYWORD_VARIANTS; ++a) add(refp::OP_KEYWORD, a);
      for (int a = 0; a < (int)S.aliases.size(); ++a) if (S.aliases[a].first == I.L.kw) add(refp::OP_ALIAS, a);
    }
}
static std::string describe(const Seed& S, const SeedLines& A, const Mut& m)
{
  if (m.op == refp::OP_TRUNC_BYTE) return "text truncated to its first " + vmc::str(m.arg) + " bytes";
  std::string d = std::string(refp::op_name(m.op)) + " line " + vmc::str(m.line + 1) + " ('" + short_text(A.phys[m.line], 70) + "')";
  if (m.op == refp::OP_VALUE) d += " value -> '" + refp::value_name(m.arg) + "'";
  if (m.op == refp::OP_INDEX) d += " index -> " + refp::index_variant_name(A.info[m.line].L.has_index, m.arg);
  if (m.op == refp::OP_KEYWORD) d += std::string(" variant ") + refp::keyword_variant_name(m.arg);
  if (m.op == refp::OP_ALIAS && m.arg < (int)S.aliases.size()) d += " keyword -> alias '" + S.aliases[m.arg].second + "'";
  if (m.op == refp::OP_TRUNC_LINE) d += m.arg ? " (newline dropped)" : " (newline kept)";
  if (m.op == refp::OP_SWAP && m.line + 1 < (int)A.phys.size()) d += " with the next line ('" + short_text(A.phys[m.line + 1], 70) + "')";
  return d;
}
static std::string mutated_kw(const SeedLines& A, const Mutant& m)
{
  const Mut& x = m.a;
  if (x.op == refp::OP_TRUNC_BYTE || x.op == refp::OP_TRUNC_LINE) return "(truncation)";
  if (x.line < 0 || x.line >= (int)A.info.size()) return "?";
  int l = x.line;
  while (l > 0 && A.info[l].cont) --l; // a continuation line belongs to the keyword that starts its logical line
  std::string k = A.info[l].L.kw;
  if (k.empty()) k = "(blank)";
  for (char& c : k) if (c == ';' || c == '=') c = '.';
  return k;
}

// ================================================================================================ oracles (run in the child)
static std::map<std::string, refp::RefHeader> g_seed_ref;
static std::map<std::string, std::vector<std::string>> g_seed_data; // "<seed>|<entry>" -> data hashes of the object read from the unmutated text

static bool clean_number(const std::string& s, double& v)
{
  if (s.empty() || s.size() > 12) return false;
  int dots = 0;
  for (char c : s) { if (c == '.') ++dots; else if (c < '0' || c > '9') return false; }
  if (dots > 1 || s == ".") return false;
  v = atof(s.c_str());
  return true;
}
static std::string ekey(int entry) { return std::string("entry=") + ENTRY_NAMES[entry]; }

// images: sizes / voxel sizes in the object == those of the header; data file long enough for what the header announces
static void oracle_image(const Seed& S, int entry, const std::string& kase, const std::string& text, const Outcome& o)
{
  const refp::RefHeader H = refp::ref_read(text, S.stop_kw);
  const refp::RefHeader& R = g_seed_ref[S.name];
  if (!H.clean) { sh_count("oracle_sizes_unchecked_text_not_modelled"); return; }
  long ms[3]; bool have = true;
  for (int i = 0; i < 3; ++i) have = H.clean_uint("matrix size[" + std::to_string(i + 1) + "]", ms[i]) && have;
  if (!have) { sh_count("oracle_sizes_unchecked_no_clean_matrix_size"); return; }
  sh_count("oracle_sizes_checked");
  if (o.nx != ms[0] || o.ny != ms[1] || o.nz != ms[2])
    {
      sh_violation("clause=size_contradiction;kind=" + S.kind + ";what=object_size_differs_from_matrix_size", kase,
                   std::string(ENTRY_NAMES[entry]) + ": header says matrix size " + vmc::str(ms[0]) + " x " + vmc::str(ms[1]) + " x " + vmc::str(ms[2]) + " but the accepted image is " + vmc::str(o.nx) + " x " + vmc::str(o.ny) + " x " + vmc::str(o.nz));
      return;
    }
  const double vox[3] = { o.vx, o.vy, o.vz };
  for (int i = 0; i < 3; ++i)
    {
      const std::string slot = "scaling factor (mm/pixel)[" + std::to_string(i + 1) + "]";
      double v;
      auto d = H.distinct.find(slot);
      if (!H.has(slot) || d == H.distinct.end() || d->second != 1 || !clean_number(H.get(slot), v)) continue;
      sh_count("oracle_voxel_size_checked");
      if (std::fabs(vox[i] - v) > 1e-5 * std::fabs(v) + 1e-30)
        {
          sh_violation("clause=vector_index;" + ekey(entry) + ";what=voxel_size_not_the_value_at_that_index", kase,
                       "header says scaling factor (mm/pixel)[" + vmc::str(i + 1) + "] := " + H.get(slot) + " but the accepted image has voxel size " + vmc::str(vox[i]) + " on that axis");
          return;
        }
    }
  if (entry == E_HDR_PARSE) return; // a header object only: nothing has been read from the data file
  // data length
  long bpp;
  // 'data offset in bytes' only becomes a keyword through the 'type of data' line: the length is compared only when that line is untouched
  if (H.get("name of data file") != R.get("name of data file") || H.get("number format") != R.get("number format") || H.get("type of data") != R.get("type of data")
      || !H.clean_uint("number of bytes per pixel", bpp))
    { sh_count("oracle_data_length_unchecked"); return; }
  long need = 0;
  for (long k = 1; k <= o.ndatasets; ++k)
    {
      long off = 0;
      const std::string slot = "data offset in bytes[" + std::to_string(k) + "]";
      if (H.has(slot) && !H.clean_uint(slot, off)) { sh_count("oracle_data_length_unchecked"); return; }
      need = std::max(need, off + ms[0] * ms[1] * ms[2] * bpp);
    }
  const long have_len = file_size(S.data_file);
  sh_count("oracle_data_length_checked");
  if (have_len < need)
    {
      sh_violation("clause=size_contradiction;" + ekey(entry) + ";what=data_file_shorter_than_header_announces", kase,
                   "header announces " + vmc::str(need) + " bytes of data (offset + matrix size x bytes per pixel) but the data file has " + vmc::str(have_len) + " and the image was accepted");
      return;
    }
  // data read back: when everything the mutant says about where and how the numbers are stored is what the seed says (same
  // text for every such key, assigned consistently), every data set of the accepted object holds the numbers of the seed's object
  {
    std::vector<std::string> slots = { "name of data file", "type of data", "pet data type", "number format", "number of bytes per pixel", "imagedata byte order", "number of dimensions",
                                       "number of time frames", "number of image data types", "matrix size[1]", "matrix size[2]", "matrix size[3]" };
    for (long k = 1; k <= std::max(o.ndatasets, (long)S.ndatasets); ++k) { slots.push_back("data offset in bytes[" + std::to_string(k) + "]"); slots.push_back("image scaling factor[" + std::to_string(k) + "]"); }
    bool same = !H.has("quantification units") && !H.has("data offset in bytes") && !H.has("image scaling factor") && H.saw_stop == R.saw_stop;
    for (auto& sl : slots)
      {
        if (H.has(sl) != R.has(sl) || H.get(sl) != R.get(sl)) { same = false; break; }
        auto d = H.distinct.find(sl); auto c1 = H.count.find(sl); auto c2 = R.count.find(sl);
        if (H.has(sl) && (d == H.distinct.end() || d->second != 1 || c1 == H.count.end() || c2 == R.count.end() || c1->second != c2->second)) { same = false; break; }
      }
    auto b = g_seed_data.find(S.name + "|" + vmc::str(entry));
    if (!same || b == g_seed_data.end()) { sh_count("oracle_data_read_back_unchecked"); return; }
    sh_count("oracle_data_read_back_checked");
    if (o.data_hashes != b->second)
      {
        std::string got, want; for (auto& x : o.data_hashes) got += x + " "; for (auto& x : b->second) want += x + " ";
        sh_violation("clause=not_parsed_faithfully;" + ekey(entry) + ";what=data_read_back_differ_from_the_data_file;kind=" + S.kind, kase,
                     "the mutant leaves every key that says where and how the numbers are stored as in the seed, the image was accepted, but its data sets (count:hash:sum) are " + got + "instead of " + want);
      }
  }
}

static void oracle_projdata(const Seed& S, int entry, const std::string& kase, const std::string& text, const Outcome& o)
{
  const refp::RefHeader H = refp::ref_read(text, S.stop_kw);
  const refp::RefHeader& R = g_seed_ref[S.name];
  if (!o.reads_ok) { sh_count("projdata_accepted_then_error_on_reading_elements"); sh_observe("projection data header accepted, error raised later when the elements are read: " + short_text(o.read_err, 200)); }
  if (!H.clean) { sh_count("oracle_sizes_unchecked_text_not_modelled"); return; }
  const bool spect = S.kind == "spect";
  long tang = 0, views = 0, nseg = 1, ntof = 1; std::vector<long> nax;
  bool have = true;
  if (spect)
    {
      long ax = 0;
      have = H.clean_uint("matrix size[1]", tang) && H.clean_uint("matrix size[2]", ax) && H.clean_uint("number of projections", views);
      nax.push_back(ax);
    }
  else
    {
      for (int i = 1; i <= 5; ++i)
        {
          const std::string slot = "matrix axis label[" + std::to_string(i) + "]";
          if (H.get(slot) != R.get(slot)) have = false;
        }
      const bool tof = R.has("matrix size[5]");
      auto dd = H.distinct.find("matrix size[2]");
      have = have && H.clean_uint("matrix size[1]", tang) && H.clean_uint("matrix size[3]", views) && H.clean_uint("matrix size[4]", nseg) && dd != H.distinct.end() && dd->second == 1
             && refp::clean_int_list(H.get("matrix size[2]"), nax) && (!tof || H.clean_uint("matrix size[5]", ntof)) && (tof || !H.has("matrix size[5]"));
    }
  if (!have) { sh_count("oracle_sizes_unchecked_no_clean_matrix_size"); return; }
  sh_count("oracle_sizes_checked");
  std::vector<long> a = nax, b = o.nax;
  std::sort(a.begin(), a.end()); std::sort(b.begin(), b.end());
  if (o.ntang != tang || o.nviews != views || o.nseg != nseg || o.ntof != ntof || a != b)
    {
      std::string sa, sb; for (long x : nax) sa += vmc::str(x) + ","; for (long x : o.nax) sb += vmc::str(x) + ",";
      sh_violation("clause=size_contradiction;" + ekey(entry) + ";what=object_size_differs_from_matrix_size", kase,
                   "header says tangential " + vmc::str(tang) + ", views " + vmc::str(views) + ", segments " + vmc::str(nseg) + ", TOF " + vmc::str(ntof) + ", axial {" + sa + "} but the accepted projection data have tangential "
                       + vmc::str(o.ntang) + ", views " + vmc::str(o.nviews) + ", segments " + vmc::str(o.nseg) + ", TOF " + vmc::str(o.ntof) + ", axial {" + sb + "}");
      return;
    }
  long bpp, off = 0;
  const std::string offslot = spect ? "data offset in bytes" : "data offset in bytes[1]";
  if (H.get("name of data file") != R.get("name of data file") || H.get("number format") != R.get("number format") || H.get("type of data") != R.get("type of data")
      || !H.clean_uint("number of bytes per pixel", bpp) || (H.has(offslot) && !H.clean_uint(offslot, off)))
    { sh_count("oracle_data_length_unchecked"); return; }
  long sumax = 0; for (long x : nax) sumax += x;
  const long need = off + tang * views * sumax * ntof * bpp, have_len = file_size(S.data_file);
  sh_count("oracle_data_length_checked");
  if (have_len < need && o.reads_ok)
    sh_violation("clause=size_contradiction;" + ekey(entry) + ";what=data_file_shorter_than_header_announces", kase,
                 "header announces " + vmc::str(need) + " bytes of data but the data file has " + vmc::str(have_len) + "; the projection data were accepted and every segment was read without an error");
}

static void oracle_multi(const Seed& S, int entry, const std::string& kase, const std::string& text, const Outcome& o)
{
  const refp::RefHeader H = refp::ref_read(text, S.stop_kw);
  if (!H.clean) { sh_count("oracle_sizes_unchecked_text_not_modelled"); return; }
  long n;
  if (!H.clean_uint("total number of data sets", n)) { sh_count("oracle_sizes_unchecked_no_clean_matrix_size"); return; }
  sh_count("oracle_sizes_checked");
  if (o.nfiles != n) { sh_violation("clause=size_contradiction;" + ekey(entry) + ";what=number_of_data_sets", kase, "header says " + vmc::str(n) + " data sets, accepted object has " + vmc::str(o.nfiles)); return; }
  for (long i = 1; i <= n; ++i)
    {
      const std::string slot = "data set[" + std::to_string(i) + "]";
      auto d = H.distinct.find(slot);
      if (!H.has(slot) || d == H.distinct.end() || d->second != 1) continue;
      sh_count("oracle_vector_index_checked");
      if (o.files[(size_t)i - 1] != H.get(slot))
        { sh_violation("clause=vector_index;" + ekey(entry) + ";what=data_set_not_stored_at_its_index", kase, "'" + slot + " := " + H.get(slot) + "' but element " + vmc::str(i) + " of the accepted object is '" + o.files[(size_t)i - 1] + "'"); return; }
    }
}

// registered objects / KeyParser: the accepted object prints a text that parses back to an object printing the same text
static void oracle_fixpoint(const Seed& S, int entry, const std::string& kase, const Outcome& o, const std::string& mutated)
{
  const std::string who = ";class=" + (entry == E_REG ? S.reg_name : std::string("AllTypes")) + ";key=" + mutated;
  Outcome o2;
  g_check_copies = false;
  run_entry(S, entry, o.canon, o2);
  g_check_copies = true;
  sh_count("oracle_fixpoint_checked");
  for (const CopyFail& f : o.copy_fails)
    sh_violation("clause=copy_of_used_object;" + ekey(entry) + ";what=" + f.what + ";route=" + f.route + ";class=" + S.reg_name, kase, "class " + S.reg_name + ", copy by " + f.route + ": " + f.msg);
  if (o2.cls != ACCEPTED)
    sh_violation("clause=inconsistent_object;" + ekey(entry) + ";what=own_parameter_text_rejected" + who, kase,
                 "class " + (entry == E_REG ? S.reg_name : std::string("AllTypes")) + ": the text was accepted, but the parameter_info() text of the resulting object is rejected when parsed: " + short_text(o2.what, 200));
  else if (no_blank_lines(o2.canon) != no_blank_lines(o.canon))
    sh_violation("clause=inconsistent_object;" + ekey(entry) + ";what=own_parameter_text_parses_to_different_object" + who, kase,
                 "class " + (entry == E_REG ? S.reg_name : std::string("AllTypes")) + ": the text was accepted, but parsing the parameter_info() text of the resulting object gives an object that prints differently: " + first_diff(o.canon, o2.canon));
}

// slot model for the AllTypes parser: every logical line of parameter_info() is one slot (keyword[index]); the expected
// text of a slot is the seed's line, the default object's line, or unchecked.
static std::string slot_of(const refp::Line& L)
{
  if (L.kw.empty()) return std::string();
  return L.kw + (L.has_index ? "[" + refp::trim(L.index_txt) + "]" : "");
}
static void oracle_kp_slots(const Seed& S, const SeedLines& A, int entry, const Mutant& m, const std::string& kase, const Outcome& o)
{
  if (m.two) return;
  const std::vector<std::string>& Ls = A.logical;
  const std::vector<std::string> Ld = refp::logical_lines(S.default_text), Lm = refp::logical_lines(o.canon);
  if (Ls.size() != Ld.size()) { sh_count("oracle_slots_unavailable"); return; }
  enum { SEED = 0, DEFAULT, UNCHECKED };
  std::vector<int> st(Ls.size(), SEED);
  const Mut& x = m.a;
  std::string moved_slot, moved_value; bool moved = false;
  auto set_after = [&](int q, int v) { for (size_t k = (size_t)std::max(q, 0); k < st.size(); ++k) st[k] = v; };
  if (x.op == refp::OP_TRUNC_BYTE)
    {
      int p = -1;
      for (size_t i = 0; i < A.info.size(); ++i) if ((size_t)x.arg >= A.info[i].start && (size_t)x.arg <= A.info[i].start + A.phys[i].size()) p = (int)i;
      if (p < 0) return;
      const LineInfo& I = A.info[p];
      set_after(I.logical + 1, DEFAULT);
      if ((size_t)x.arg == I.start && !I.cont) st[I.logical] = DEFAULT;
      else if ((size_t)x.arg == I.start + A.phys[p].size() && I.last_of_logical) st[I.logical] = SEED;
      else st[I.logical] = UNCHECKED;
      if (I.logical == 0 && st[0] != SEED) return; // start keyword damaged: nothing is specified
    }
  else
    {
      const LineInfo& I = A.info[x.line];
      const int q = I.logical;
      switch (x.op)
        {
        case refp::OP_DEL: if (q == 0) return; st[q] = I.nphys_of_logical == 1 ? DEFAULT : UNCHECKED; break;
        case refp::OP_DUP: if (I.nphys_of_logical != 1) st[q] = UNCHECKED; break;
        case refp::OP_TRUNC_LINE: set_after(q + 1, DEFAULT); if (!I.last_of_logical) st[q] = UNCHECKED; break;
        case refp::OP_VALUE:
          st[q] = UNCHECKED;
          if (!refp::value_alphabet()[x.arg].empty() && refp::value_alphabet()[x.arg].back() == '\\' && q + 1 < (int)st.size()) st[q + 1] = UNCHECKED; // continuation: the next line is joined
          break;
        case refp::OP_INDEX: {
          st[q] = I.L.has_index ? DEFAULT : UNCHECKED;
          if (I.L.has_index && (x.arg == 1 || x.arg == 2))
            {
              const long j = atol(I.L.index_txt.c_str()) + (x.arg == 1 ? 1 : -1);
              moved = true; moved_slot = I.L.kw + "[" + std::to_string(j) + "]"; moved_value = I.L.value;
              // moved forward onto a slot that a LATER line of the text assigns again: that line wins, nothing to observe
              if (x.arg == 1)
                for (size_t k = (size_t)q + 1; k < Ls.size(); ++k) if (slot_of(refp::analyse(Ls[k])) == moved_slot) moved = false;
            }
          else if (I.L.has_index && (x.arg == 0 || x.arg == 3 || x.arg == 4))
            { moved = true; moved_slot = I.L.kw + (x.arg == 0 ? "[0]" : x.arg == 3 ? "[9999]" : "[-1]"); moved_value = I.L.value; }
          break;
        }
        default: return; // keyword respelling / alias: compared with the unmutated object elsewhere
        }
    }
  std::map<std::string, std::string> got;
  for (auto& l : Lm) { refp::Line L = refp::analyse(l); if (!L.kw.empty() && L.has_assign) got[slot_of(L)] = L.value; }
  sh_count("oracle_slots_checked");
  for (size_t k = 0; k < Ls.size(); ++k)
    {
      refp::Line L = refp::analyse(Ls[k]);
      if (L.kw.empty() || !L.has_assign || st[k] == UNCHECKED) continue;
      const std::string slot = slot_of(L);
      if (moved && slot == moved_slot) continue;
      const std::string want = st[k] == SEED ? L.value : refp::analyse(Ld[k]).value;
      if (!got.count(slot) || got[slot] != want)
        {
          sh_violation(std::string("clause=not_parsed_faithfully;") + ekey(entry) + ";op=" + refp::op_name(x.op), kase,
                       "after the mutation the accepted object should print '" + slot + " := " + want + "' (" + (st[k] == SEED ? "line untouched by the mutation" : "line removed: default value") + ") but it prints '"
                           + (got.count(slot) ? got[slot] : std::string("<slot missing>")) + "'");
          return;
        }
    }
  if (moved)
    {
      sh_count("oracle_vector_index_checked");
      if (!got.count(moved_slot) || got[moved_slot] != moved_value)
        sh_violation(std::string("clause=vector_index;") + ekey(entry) + ";what=value_not_stored_at_the_index_given", kase,
                     "the text assigns '" + moved_slot + " := " + moved_value + "' and was accepted, but the object prints '" + (got.count(moved_slot) ? moved_slot + " := " + got[moved_slot] : std::string("no such element")) + "'");
    }
}

// everything that is checked for one executed mutant
static void judge(const Seed& S, const SeedLines& A, int entry, const Mutant& m, const std::string& text, const std::string& kase, const Outcome& o)
{
  static const char* CLS[] = { "accepted", "rejected_null_or_false", "rejected_error", "rejected_foreign_exception" };
  sh_count(std::string("outcome_") + CLS[o.cls]);
  if (o.cls == REJECTED_FOREIGN_EXCEPTION) sh_observe(std::string("rejected through an exception that is not stir::error(): ") + short_text(o.what, 120) + " [" + ENTRY_NAMES[entry] + "]");
  if (SH->alloc_how)
    {
      const std::string site = SH->alloc_site;
      sh_violation(std::string("clause=unbounded_allocation;how=") + (SH->alloc_how == 1 ? "single_request" : "live_bytes") + ";site=" + site + (site == "unknown" ? ";key=" + mutated_kw(A, m) : std::string()), kase,
                   std::string(ENTRY_NAMES[entry]) + ": a " + vmc::str(text.size()) + "-byte input made the library request " + vmc::str((unsigned long long)SH->alloc_req) + " bytes (" + (SH->alloc_how == 1 ? "one allocation" : "outstanding at once")
                       + "; cap " + vmc::str(SH->alloc_how == 1 ? (unsigned long long)ALLOC_CAP : (unsigned long long)LIVE_CAP) + "); outcome after the refusal: " + CLS[o.cls] + " " + short_text(o.what, 100));
      return;
    }
  const bool equivalence = !m.two && (m.a.op == refp::OP_KEYWORD || m.a.op == refp::OP_ALIAS);
  const std::string& base = S.base_canon.at(entry);
  if (equivalence)
    {
      sh_count("oracle_keyword_equivalence_checked");
      const std::string variant = m.a.op == refp::OP_ALIAS ? "alias" : refp::keyword_variant_name(m.a.arg);
      if (o.cls != ACCEPTED)
        { sh_violation("clause=keyword_equivalence;variant=" + variant + ";effect=rejected;kind=" + S.kind, kase, std::string(ENTRY_NAMES[entry]) + ": respelling the keyword '" + mutated_kw(A, m) + "' in a way that matching must ignore made the text rejected: " + short_text(o.what, 200)); return; }
      if (o.canon != base)
        { sh_violation("clause=keyword_equivalence;variant=" + variant + ";effect=different_object;kind=" + S.kind, kase, std::string(ENTRY_NAMES[entry]) + ": respelling the keyword '" + mutated_kw(A, m) + "' in a way that matching must ignore changed the object: " + first_diff(base, o.canon)); return; }
    }
  if (o.hdr_probe)
    {
      sh_count("oracle_header_tables_checked");
      if (o.hdr_tables_longer) { sh_count("header_tables_longer_than_get_num_datasets"); sh_observe("accepted Interfile image header whose per-data-set tables are LONGER than get_num_datasets() (harmless, not a violation)"); }
      if (!o.hdr_inconsistency.empty())
        {
          sh_violation("clause=inconsistent_object;" + ekey(entry) + ";what=per_data_set_tables_shorter_than_get_num_datasets;kind=" + S.kind, kase,
                       std::string("the Interfile image header object is internally inconsistent, ") + o.hdr_inconsistency
                           + "; InterfileHeader::post_processing() and the image readers of interfile.cxx index these tables up to get_num_datasets() without a further check (out-of-bounds access)");
          return;
        }
    }
  if (o.cls != ACCEPTED) return;
  if (o.is_image && (S.kind == "img" || S.kind == "dyn" || S.kind == "par") && entry != E_MULTI) oracle_image(S, entry, kase, text, o);
  if (o.is_projdata) oracle_projdata(S, entry, kase, text, o);
  if (entry == E_MULTI) oracle_multi(S, entry, kase, text, o);
  if (entry == E_REG || entry == E_KP) oracle_fixpoint(S, entry, kase, o, mutated_kw(A, m));
  if (entry == E_KP) oracle_kp_slots(S, A, entry, m, kase, o);
}

// ================================================================================================ running mutants in forked children
static int g_timeout = 10;
static std::string g_errfile;
static std::string case_str(const Seed& S, int entry, const Mutant& m) { return "seed=" + S.name + ";entry=" + ENTRY_NAMES[entry] + ";m=" + m.str(); }
static std::string describe(const Seed& S, const SeedLines& A, const Mutant& m) { return describe(S, A, m.a) + (m.two ? " AND " + describe(S, A, m.b) : ""); }

static void child_redirect()
{
  int fd = ::open(g_errfile.c_str(), O_CREAT | O_WRONLY | O_TRUNC, 0644);
  if (fd >= 0) { dup2(fd, 2); dup2(fd, 1); close(fd); }
  int nul = ::open("/dev/null", O_RDONLY);
  if (nul >= 0) { dup2(nul, 0); close(nul); }
}

// executes muts[SH->next ..] in a child; returns when all are done; crashes become violations
static void run_mutants(vmc::Ctx& ctx, const Seed& S, const SeedLines& A, int entry, const std::vector<Mutant>& muts)
{
  const long long n = (long long)muts.size();
  SH->next = 0;
  int crashes = 0;
  bool alone = false; int alone_timeout = 60;
  while (SH->next < n)
    {
      fflush(stdout); fflush(stderr);
      const long long from = SH->next, to = alone ? from + 1 : n;
      pid_t pid = fork();
      if (pid < 0) { perror("fork"); exit(2); }
      if (pid == 0)
        {
          child_redirect();
          for (long long k = from; k < to; ++k)
            {
              SH->cur = k;
              const Mutant& m = muts[(size_t)k];
              std::string text;
              if (!make_text(S, A, m, text)) { SH->next = k + 1; continue; }
              const std::string kase = case_str(S, entry, m);
              g_desc = describe(S, A, m);
              alarm(alone ? alone_timeout : g_timeout);
              {
                CapScope cap;
                Outcome o;
                SH->stage = 1;
                run_entry(S, entry, text, o);
                SH->stage = 2;
                judge(S, A, entry, m, text, kase, o);
                SH->stage = 0;
              }
              alarm(0);
              sh_count("evaluations");
              SH->next = k + 1;
            }
          _exit(0);
        }
      int status = 0;
      while (waitpid(pid, &status, 0) < 0 && errno == EINTR) {}
      if (SH->next >= to && WIFEXITED(status) && WEXITSTATUS(status) == 0) { alone = false; continue; }
      // the child died while executing mutant SH->cur
      const long long k = SH->cur;
      const Mutant& m = muts[(size_t)k];
      const std::string kase = case_str(S, entry, m);
      Crash c = classify_crash(g_errfile, status);
      if (c.kind == "hang" && !alone) { alone = true; SH->next = k; ctx.count("timeouts_rerun_alone"); continue; } // re-run alone with a long timeout before calling it a hang
      alone = false;
      ++crashes;
      ctx.count("evaluations");
      ctx.count("crashed_executions");
      const std::string stage = SH->stage == 2 ? ";stage=while_reading_the_accepted_object" : "";
      if (c.kind == "hang")
        ctx.violation("clause=hang;" + ekey(entry) + ";op=" + refp::op_name(m.a.op), kase, "keyword '" + mutated_kw(A, m) + "': no result after " + vmc::str(alone_timeout) + " s when run alone | mutation: " + describe(S, A, m));
      else if (c.kind.find("asan-allocation-size-too-big") == 0 || c.kind.find("asan-out-of-memory") == 0)
        ctx.violation("clause=unbounded_allocation;how=malloc;site=" + c.site, kase, std::string(ENTRY_NAMES[entry]) + ": " + c.detail + " | mutation: " + describe(S, A, m));
      else
        ctx.violation("crash;kind=" + c.kind + ";site=" + c.site + stage, kase, std::string(ENTRY_NAMES[entry]) + ": " + c.detail + " | mutation: " + describe(S, A, m));
      SH->stage = 0;
      SH->next = k + 1;
      if (crashes > 4000) { ctx.count("units_abandoned_after_4000_crashes"); ctx.exhaustive = false; break; }
    }
  sh_drain(ctx);
}

// ================================================================================================ part R: round trip of every registered class
struct RoundTrip { int status = -1; std::string start_kw, t1, t2, msg; bool alt = false; std::vector<std::string> copy_routes; };
// status: 0 ok; 1 start keyword not discovered; 2 default object rejected (post_processing / null); 3 default object: exception;
//         4 own text rejected; 5 own text parses to an object that prints differently; 6 crashed / hung
static const char* RT_NAMES[] = { "round_trip_equal", "skipped_start_keyword_not_discovered", "skipped_default_object_rejected", "skipped_default_object_exception", "own_text_rejected",
                                  "own_text_differs", "crashed" };
static std::map<std::string, RoundTrip> g_rt_cache;

static RoundTrip round_trip(int root, const std::string& name, Crash* crash = nullptr)
{
  const std::string id = vmc::str(root) + "/" + name;
  if (!crash && g_rt_cache.count(id)) return g_rt_cache[id];
  RoundTrip r;
  SH->status = 6; SH->text_a[0] = SH->text_b[0] = SH->text_c[0] = 0; SH->copy_routes[0] = 0; SH->used_alt_text = 0;
  const bool with_copies = crash != nullptr; // part R proper and its replay; not when only the text is needed as a mutation seed
  fflush(stdout); fflush(stderr);
  pid_t pid = fork();
  if (pid < 0) { perror("fork"); exit(2); }
  if (pid == 0)
    {
      child_redirect();
      alarm(30);
      CapScope cap;
      const Root& R = roots()[root];
      auto put = [](char* dst, size_t n, const std::string& s) { snprintf(dst, n, "%s", s.c_str()); };
      try
        {
          clear_msgs();
          { std::istringstream empty(""); unique_ptr<RegisteredObjectBase> o(R.read(&empty, name)); }
          const std::string w = g_warn.buf;
          const std::string tag = "required first keyword \"";
          size_t p = w.find(tag);
          if (p == std::string::npos) { SH->status = 1; put(SH->text_c, sizeof SH->text_c, short_text(w, 300)); _exit(0); }
          size_t q = w.find("\" not found", p);
          const std::string start = w.substr(p + tag.size(), q - p - tag.size());
          put(SH->text_c, sizeof SH->text_c, start);
          std::istringstream in0(start + " :=\n");
          unique_ptr<RegisteredObjectBase> o1;
          try { o1.reset(R.read(&in0, name)); }
          catch (std::exception& e) { SH->status = 3; put(SH->text_a, sizeof SH->text_a, e.what()); _exit(0); }
          if (!o1 && alt_text(R.label, name))
            {
              // the default object is rejected: set the class up from the harness' minimal valid text instead
              const std::string w0 = g_warn.buf;
              std::istringstream ina(alt_text(R.label, name));
              try { o1.reset(R.read(&ina, name)); }
              catch (std::exception& e) { SH->status = 3; put(SH->text_a, sizeof SH->text_a, e.what()); _exit(0); }
              if (o1) SH->used_alt_text = 1; else g_warn.buf = w0 + " | minimal text also rejected: " + g_warn.buf;
            }
          if (!o1) { SH->status = 2; put(SH->text_a, sizeof SH->text_a, short_text(g_warn.buf, 400)); _exit(0); }
          const std::string t1 = o1->parameter_info();
          put(SH->text_a, sizeof SH->text_a, t1);
          if (t1.size() >= sizeof SH->text_a) { SH->status = 3; put(SH->text_a, sizeof SH->text_a, "parameter text longer than 64 kB"); _exit(0); }
          clear_msgs();
          std::istringstream in1(t1);
          unique_ptr<RegisteredObjectBase> o2;
          try { o2.reset(R.read(&in1, name)); }
          catch (std::exception& e) { SH->status = 4; put(SH->text_b, sizeof SH->text_b, e.what()); _exit(0); }
          if (!o2) { SH->status = 4; put(SH->text_b, sizeof SH->text_b, short_text(g_warn.buf, 400)); _exit(0); }
          const std::string t2 = o2->parameter_info();
          put(SH->text_b, sizeof SH->text_b, t2);
          SH->status = no_blank_lines(t1) == no_blank_lines(t2) ? 0 : 5;
          if (SH->status == 0 && t1 != t2) snprintf(SH->text_c, sizeof SH->text_c, "BLANKDIFF");
          if (SH->status == 0 && with_copies)
            {
              // o2 has been parsed from text and has printed itself: copies of it must print / accept / reproduce the same text
              const int st = SH->status;
              SH->status = 6; // a crash while copying is a crash of this case
              std::vector<CopyFail> fails;
              const std::vector<std::string> routes = check_copies(root, o2.get(), t2, fails);
              { std::string j; for (auto& x : routes) j += (j.empty() ? "" : ",") + x; put(SH->copy_routes, sizeof SH->copy_routes, j); }
              const std::string rk = ";registry=" + R.label + ";name=" + name;
              for (const CopyFail& f : fails)
                sh_violation("clause=roundtrip_of_copy;what=" + f.what + ";route=" + f.route + rk, "seed=roundtrip/" + vmc::str(root) + "/" + name, R.label + " '" + name + "', copy by " + f.route + ": " + f.msg);
              SH->status = st;
            }
        }
      catch (std::exception& e) { SH->status = 3; put(SH->text_a, sizeof SH->text_a, e.what()); }
      catch (...) { SH->status = 3; put(SH->text_a, sizeof SH->text_a, "non-std exception"); }
      _exit(0);
    }
  int status = 0;
  while (waitpid(pid, &status, 0) < 0 && errno == EINTR) {}
  r.status = SH->status;
  if (!(WIFEXITED(status) && WEXITSTATUS(status) == 0)) { r.status = 6; Crash c = classify_crash(g_errfile, status); r.msg = c.detail; if (crash) *crash = c; }
  r.start_kw = SH->text_c; r.t1 = SH->text_a; r.t2 = SH->text_b;
  r.alt = SH->used_alt_text != 0;
  { std::string cr = SH->copy_routes, cur; for (char ch : cr) { if (ch == ',') { r.copy_routes.push_back(cur); cur.clear(); } else cur += ch; } if (!cur.empty()) r.copy_routes.push_back(cur); }
  g_rt_cache[id] = r;
  return r;
}
static bool build_reg_seed(int root, const std::string& name, Seed& S)
{
  RoundTrip r = round_trip(root, name);
  if (r.status != 0 || r.alt) return false; // mutation seeds are the texts of default objects (as before); classes set up from a minimal text take part in part R only
  S = Seed();
  S.name = "reg/" + vmc::str(root) + "/" + name;
  S.kind = "reg"; S.text = r.t1; S.root = root; S.reg_name = name; S.entries = { E_REG };
  return true;
}

// the unmutated text must be accepted by every entry point of the seed; its canonical object description is the baseline
static bool baseline(vmc::Ctx& ctx, Seed& S)
{
  bool all = true;
  for (int e : S.entries)
    {
      SH->status = -1; SH->text_a[0] = 0; SH->text_b[0] = 0; SH->text_c[0] = 0;
      fflush(stdout); fflush(stderr);
      pid_t pid = fork();
      if (pid == 0)
        {
          child_redirect();
          alarm(60);
          Outcome o;
          run_entry(S, e, S.text, o);
          SH->status = o.cls;
          snprintf(SH->text_a, sizeof SH->text_a, "%s", o.canon.c_str());
          snprintf(SH->text_b, sizeof SH->text_b, "%s", (o.what + " " + short_text(g_warn.buf, 300)).c_str());
          { std::string dh; for (auto& x : o.data_hashes) dh += x + "\n"; snprintf(SH->text_c, sizeof SH->text_c, "%s", dh.c_str()); }
          _exit(0);
        }
      int status = 0;
      while (waitpid(pid, &status, 0) < 0 && errno == EINTR) {}
      if (SH->status != ACCEPTED || strlen(SH->text_a) + 1 >= sizeof SH->text_a)
        {
          ctx.count("seed_entry_pairs_dropped_unmutated_text_not_accepted");
          // a text written by the library itself must be readable by the library (on the unchanged tree every seed is)
          ctx.violation(std::string("clause=own_text_not_accepted;kind=") + S.kind + ";" + ekey(e), "seed=" + S.name + ";entry=" + ENTRY_NAMES[e] + ";m=" + Mutant().str(),
                        "the unmutated text written by the library is not accepted (" + std::string(SH->text_b).substr(0, 300) + ")");
          ctx.observe("seed '" + S.name + "' written by the library is not accepted unmutated by " + ENTRY_NAMES[e] + ": " + SH->text_b);
          all = false;
          continue;
        }
      S.base_canon[e] = SH->text_a;
      g_seed_data[S.name + "|" + vmc::str(e)] = refp::physical_lines(SH->text_c);
    }
  std::vector<int> keep;
  for (int e : S.entries) if (S.base_canon.count(e)) keep.push_back(e);
  S.entries = keep;
  g_seed_ref[S.name] = refp::ref_read(S.text, S.stop_kw);
  return all;
}

// ================================================================================================ enumeration
// second mutation of a pair: delete, truncate after the line, value from the reduced alphabet, index variants;
// for projection-data seeds only on size-determining lines (one mutant of those costs ~50 ms: Scanner::get_scanner_from_name)
static void pair_second_mutations(const Seed& S, const SeedLines& A, int j, std::vector<Mut>& v)
{
  auto add = [&](int op, int arg) { Mut m; m.op = op; m.line = j; m.arg = arg; v.push_back(m); };
  const LineInfo& I = A.info[j];
  const bool pd = S.kind == "pdfs" || S.kind == "spect";
  if (pd && !size_determining(I.L.kw)) return;
  add(refp::OP_DEL, 0); add(refp::OP_TRUNC_LINE, 0);
  if (I.cont || I.comment || I.blank || I.L.kw.empty() || !I.L.has_assign) return;
  if (!I.ends_bs) for (int a : refp::pair_value_subset()) add(refp::OP_VALUE, a);
  if (!pd)
    {
      if (I.L.has_index) for (int a = 0; a < refp::N_INDEX_VARIANTS; ++a) add(refp::OP_INDEX, a);
      else if (I.L.idx_open == std::string::npos) for (int a = 0; a < refp::N_ADDINDEX_VARIANTS; ++a) add(refp::OP_INDEX, a);
    }
}
static bool pair_first_line(const Seed& S, const std::string& kw)
{
  if (S.kind == "pdfs" || S.kind == "spect")
    return kw.find("matrix size") == 0 || kw == "number of dimensions" || kw == "number of bytes per pixel" || kw == "number of projections" || kw.find("ring difference") != std::string::npos;
  return size_determining(kw);
}
static void collect(const Seed& S, const SeedLines& A, int c, int NC, bool dev1, bool bytes, bool pairs, std::vector<Mutant>& out)
{
  const int nl = (int)A.phys.size();
  if (dev1)
    for (int i = c; i < nl; i += NC)
      {
        std::vector<Mut> v;
        line_mutations(S, A, i, true, v);
        for (auto& m : v) { Mutant M; M.a = m; out.push_back(M); }
      }
  if (bytes)
    for (int k = c; k < (int)S.text.size(); k += NC) { Mutant M; M.a.op = refp::OP_TRUNC_BYTE; M.a.line = 0; M.a.arg = k; out.push_back(M); }
  if (pairs)
    for (int i = c; i < nl; i += NC)
      {
        const LineInfo& I = A.info[i];
        if (I.cont || I.comment || I.blank || !I.L.has_assign || I.ends_bs || !pair_first_line(S, I.L.kw)) continue;
        for (int a : refp::pair_value_subset())
          for (int j = 0; j < nl; ++j)
            {
              std::vector<Mut> v;
              pair_second_mutations(S, A, j, v);
              for (auto& m : v) { Mutant M; M.two = true; M.a.op = refp::OP_VALUE; M.a.line = i; M.a.arg = a; M.b = m; out.push_back(M); }
            }
      }
}

static void exec_unit(vmc::Ctx& ctx, const Seed& S, const SeedLines& A, int entry, const std::vector<Mutant>& all, const std::string& label)
{
  ctx.current(ekey(entry), "unit " + label);
  std::vector<Mutant> muts;
  std::unordered_set<uint64_t> seen;
  std::string text;
  for (auto& m : all)
    {
      if (!make_text(S, A, m, text)) { ctx.count("mutations_not_applicable_or_identity"); continue; }
      const uint64_t h = vmc::fnv(text, vmc::fnv(std::string(ENTRY_NAMES[entry]) + "|" + S.name));
      if (!seen.insert(h).second) { ctx.count("mutants_with_identical_text_skipped"); continue; }
      ctx.nontrivial(h);
      ctx.count(std::string("mutants_") + (m.two ? "deviation2" : refp::op_name(m.a.op)));
      muts.push_back(m);
    }
  if (!muts.empty() && ctx.samples.size() < 4)
    ctx.sample("seed " + S.name + " (" + vmc::str(S.text.size()) + " bytes, " + vmc::str(A.phys.size()) + " lines) via " + ENTRY_NAMES[entry] + ": e.g. " + describe(S, A, muts[muts.size() / 2]));
  run_mutants(ctx, S, A, entry, muts);
  ctx.count("work_units");
}

int main(int argc, char** argv)
{
  vmc::Ctx ctx(argc, argv, "C17");
  small::quiet();
  silence_stir();
  if (const char* r = getenv("VERIF_REPO")) g_repo = r;
  SH = (Shared*)mmap(nullptr, sizeof(Shared), PROT_READ | PROT_WRITE, MAP_SHARED | MAP_ANONYMOUS, -1, 0);
  if (SH == MAP_FAILED) { perror("mmap"); return 2; }
  memset(SH, 0, sizeof *SH);
  {
    char buf[4096];
    std::string t = ctx.tmpdir;
    if (!t.empty() && t[0] != '/' && getcwd(buf, sizeof buf)) t = std::string(buf) + "/" + t;
    g_tmp = t + "/c17_s" + vmc::str(ctx.shard) + (ctx.replaying() ? "_replay" + vmc::str((int)getpid()) : "");
    ::mkdir(g_tmp.c_str(), 0755);
    g_mutant_file = g_tmp + "/mutant.hdr";
    g_errfile = g_tmp + "/child.err";
  }
  warm_up_symbolizer();
  const bool th = ctx.thorough();
  ctx.rule = "one evaluation = one mutant text (seed written by the library x grammar-aware mutation) given to one public entry point in a forked child under ASan with an allocation cap and an alarm; "
             "mutations per physical line: delete, duplicate, swap with the next line, truncate after it (with/without newline), value := each of 24 alphabet members, index variants, 7 keyword respellings that matching must ignore, "
             "every alias; truncation at every byte; thorough: pairs (value replacement on a size-determining key, any line mutation); distinct/non-trivial = distinct (entry point, mutant text) different from the seed; "
             "the seeds include every kind of Interfile image header the library writes (single, dynamic, parametric, multi-data-set) in both tiers, each read through its matching readers "
             "(read_from_file<...>, read_interfile_dynamic_image / read_interfile_parametric_image on a stream) and through a plain InterfileImageHeader::parse whose per-data-set tables are compared with get_num_datasets(); "
             "part R: every registered name of 22 registries: default object (or, where that is rejected and the harness has a minimal valid text, that text) -> parameter_info -> parse -> parameter_info; "
             "copies of a used object: the object that was parsed and has printed itself is copied by every route the class offers (clone() of the registry's root class; copy construction, assignment to a fresh and to a used object "
             "for 21 concrete shape / prior / filter / normalisation / projector classes) and every copy must print the same text, accept it when parsed into the copy and print it again (one evaluation per copy in part R; "
             "also applied to every accepted mutant of a registered-class text)";
  ctx.assume("outcome classes: accepted | rejected (null / false / stir::error() / any other exception); a crash, sanitizer report, refused allocation (single request > 64 MB or > 1 GB outstanding from an input <= 64 kB) or no result "
             "within 10 s (re-run alone with 60 s) is a violation");
  ctx.assume("accepted => sizes of the object == 'matrix size' keys of the mutant text as read by the harness' own reference reader (only when those keys are clean unsigned integers assigned consistently, no ${...}, "
             "labels unchanged) and data file length >= offset + product of sizes x bytes per pixel (only when data file name, number format and type of data are untouched: the offset keys exist only after the type-of-data line); otherwise counted as unchecked");
  ctx.assume("plain InterfileImageHeader::parse: when post_processing() starts and after an accepted parse the 'image scaling factor' and 'data offset in bytes' tables must have at least get_num_datasets() entries "
             "(and at least as many as the exam info has time frames), every data set's scaling factors at least one entry per plane; shorter = violation (the library indexes them unchecked), longer = counted only");
  ctx.assume("data read back: when every key that says where and how the numbers are stored (data file, type of data, number format, bytes per pixel, byte order, dimensions, matrix sizes, numbers of time frames / image data types, "
             "per-data-set offsets and scaling factors) has the seed's text, is assigned as often as in the seed and consistently, an accepted image must hold the numbers of the seed's image in every data set; otherwise counted as unchecked");
  ctx.assume("keyword respellings (case, extra blanks where a blank is, leading !, blank<->underscore/tab) and aliases must give an object identical to that of the unmutated text (canonical string: geometry, all values, exam info / parameter_info)");
  ctx.assume("KeyParser slot model (AllTypes seed): a removed line leaves the default, an untouched line its seed value, key[j] := v is stored at element j; the mutated line's own slot is not checked for value replacements");
  ctx.assume("parameter texts are compared modulo blank lines");
  ctx.assume("registered classes: accepted => parameter_info() of the object parses back to an object printing the same text; part R: a class is skipped (counted, reason recorded) when the text '<start keyword> :=' is rejected, i.e. it cannot be default-constructed without external data");
  ctx.assume("copies of a used object: a copy is only required to do what the original does: when re-parsing the text into the used original itself is rejected or prints differently, the same outcome for a copy is counted as unchecked, not as a violation; "
             "a copy route that throws is recorded and not charged");
  ctx.assume("an error raised only when the elements of accepted projection data are read (lazy reading) counts as reported, not as silent acceptance");
  g_timeout = 10;

  if (!ctx.extra_args.empty() && ctx.extra_args[0] == "--dump")
    {
      // debugging aid: print a seed text, or the texts of a registered class' round trip ("--dump rt <root> <name>")
      if (ctx.extra_args.size() >= 4 && ctx.extra_args[1] == "rt")
        {
          RoundTrip r = round_trip(atoi(ctx.extra_args[2].c_str()), ctx.extra_args[3]);
          printf("status %d (%s)\nstart '%s'\n---- T1\n%s\n---- T2\n%s\n---- %s\n", r.status, RT_NAMES[r.status], r.start_kw.c_str(), r.t1.c_str(), r.t2.c_str(), r.msg.c_str());
        }
      else
        for (size_t i = 1; i < ctx.extra_args.size(); ++i)
          { Seed S; if (build_seed(ctx.extra_args[i], S)) printf("==== %s\n%s\n", S.name.c_str(), S.text.c_str()); }
      return 0;
    }
  if (ctx.replaying())
    {
      auto kv = vmc::kv(ctx.replay);
      Seed S;
      const std::string sn = kv["seed"];
      bool ok;
      if (sn.rfind("reg/", 0) == 0) { size_t p = sn.find('/', 4); ok = build_reg_seed(atoi(sn.substr(4, p - 4).c_str()), sn.substr(p + 1), S); }
      else if (sn.rfind("roundtrip/", 0) == 0)
        {
          size_t p = sn.find('/', 10);
          const int root = atoi(sn.substr(10, p - 10).c_str()); const std::string name = sn.substr(p + 1);
          Crash c; RoundTrip r = round_trip(root, name, &c);
          const std::string rk = ";registry=" + roots()[root].label + ";name=" + name;
          if (r.status == 4) ctx.violation("clause=roundtrip;what=own_text_rejected" + rk, ctx.replay, r.t2);
          if (r.status == 5) ctx.violation("clause=roundtrip;what=own_text_differs" + rk, ctx.replay, first_diff(r.t1, r.t2));
          if (r.status == 6) ctx.violation("crash;kind=" + c.kind + ";site=" + c.site, ctx.replay, r.msg);
          sh_drain(ctx);
          return ctx.finish();
        }
      else ok = build_seed(sn, S);
      if (!ok) { fprintf(stderr, "cannot rebuild seed %s\n", sn.c_str()); return 2; }
      const int entry = entry_from_name(kv["entry"]);
      S.entries = { entry };
      baseline(ctx, S);
      if (S.entries.empty()) { fprintf(stderr, "seed not accepted unmutated\n"); return 2; }
      SeedLines A = analyse_seed(S.text);
      std::vector<Mutant> one = { Mutant::parse(kv["m"]) };
      run_mutants(ctx, S, A, entry, one);
      return ctx.finish();
    }

  uint64_t unit = 0;
  bool stop = false;
  // ---------------------------------------------------------------- part R
  std::vector<std::pair<int, std::string>> reg_ok_candidates;
  for (int r = 0; r < (int)roots().size() && !stop; ++r)
    for (const std::string& name : registered_names(roots()[r]))
      {
        reg_ok_candidates.push_back({ r, name });
        if (!ctx.mine(unit++)) continue;
        if (ctx.expired()) { stop = true; break; }
        ctx.current("entry=roundtrip", "seed=roundtrip/" + vmc::str(r) + "/" + name);
        Crash c;
        RoundTrip rt = round_trip(r, name, &c);
        ctx.count("evaluations");
        ctx.count("registered_classes");
        ctx.count(std::string("roundtrip_") + RT_NAMES[rt.status]);
        const std::string kase = "seed=roundtrip/" + vmc::str(r) + "/" + name, rk = ";registry=" + roots()[r].label + ";name=" + name;
        if (rt.status == 0 && rt.start_kw == "BLANKDIFF") { ctx.count("roundtrip_equal_up_to_blank_lines"); ctx.observe("round trip of " + roots()[r].label + " '" + name + "' reproduces the text up to blank lines only (not counted as a difference)"); }
        if (rt.alt) { ctx.count("roundtrip_classes_set_up_from_minimal_text"); ctx.observe("part R: default object of " + roots()[r].label + " '" + name + "' is rejected; the class takes part with the harness' minimal valid text"); }
        for (const std::string& route : rt.copy_routes) { ctx.count("evaluations"); ctx.count("roundtrip_copies_of_used_object"); ctx.nontrivial("roundtrip_copy" + rk + ";route=" + route + rt.t1); }
        if (rt.status == 0 && rt.copy_routes.empty()) ctx.count("roundtrip_classes_without_copy_route");
        sh_drain(ctx);
        if (rt.status == 0) { ctx.nontrivial("roundtrip" + rk + rt.t1); if (ctx.samples.size() < 2) ctx.sample("round trip " + roots()[r].label + " '" + name + "': " + vmc::str(refp::physical_lines(rt.t1).size()) + " lines of parameter text reproduced"); }
        if (rt.status >= 1 && rt.status <= 3) ctx.observe("part R skipped " + roots()[r].label + " '" + name + "': " + RT_NAMES[rt.status] + ": " + short_text(rt.status == 1 ? rt.start_kw : rt.t1, 160));
        if (rt.status == 4) ctx.violation("clause=roundtrip;what=own_text_rejected" + rk, kase, "the parameter_info() text of the default object is rejected: " + short_text(rt.t2, 300) + " | text: " + short_text(rt.t1, 400));
        if (rt.status == 5) ctx.violation("clause=roundtrip;what=own_text_differs" + rk, kase, "parameter_info() -> parse -> parameter_info() differs: " + first_diff(rt.t1, rt.t2));
        if (rt.status == 6) ctx.violation("crash;kind=" + c.kind + ";site=" + c.site, kase, "default object of " + roots()[r].label + " '" + name + "' (parameter text consisting of the start keyword only): " + rt.msg);
      }

  // ---------------------------------------------------------------- part M: library-written seeds
  struct Plan { std::string seed; std::vector<int> entries; bool bytes; std::vector<int> pair_entries; std::vector<int> no_bytes_entries; };
  std::vector<Plan> plan;
  if (!th)
    plan = { { "img", { E_IMG_RFF, E_IMG_STREAM, E_HDR_PARSE }, true, {} }, { "pdfs", { E_PD_RFF }, false, {} }, { "pdfs_tof", { E_PD_STREAM }, false, {} }, { "spect", { E_PD_RFF }, true, {} },
             { "multi", { E_MULTI, E_DYN_RFF }, true, {} }, { "alltypes", { E_KP }, true, {} },
             // every kind of Interfile image header the library writes, through the matching readers and the plain header parse
             // (an accepted dynamic / parametric mutant costs a scanner look-up: byte truncation of these two readers is left to the thorough tier)
             { "dyn", { E_DYN_RFF, E_DYN_STREAM, E_HDR_PARSE }, true, {}, { E_DYN_RFF, E_DYN_STREAM } },
             { "par", { E_PAR_RFF, E_PAR_STREAM, E_HDR_PARSE }, true, {}, { E_PAR_RFF, E_PAR_STREAM } } };
  else
    plan = { { "img", { E_IMG_RFF, E_IMG_STREAM, E_HDR_PARSE }, true, { E_IMG_RFF } }, { "img_short", { E_IMG_RFF, E_HDR_PARSE }, true, {} },
             { "dyn", { E_DYN_RFF, E_DYN_STREAM, E_HDR_PARSE }, true, { E_DYN_RFF, E_HDR_PARSE } }, { "par", { E_PAR_RFF, E_PAR_STREAM, E_HDR_PARSE }, true, { E_PAR_RFF, E_HDR_PARSE } },
             { "multi", { E_MULTI, E_DYN_RFF }, true, { E_MULTI } }, { "pdfs", { E_PD_RFF, E_PD_STREAM }, true, {} }, { "pdfs_tof", { E_PD_RFF, E_PD_STREAM }, true, { E_PD_STREAM } },
             { "pdfs_arccorr", { E_PD_RFF }, true, {} }, { "pdfs_E953", { E_PD_RFF }, true, {} }, { "spect", { E_PD_RFF, E_PD_STREAM }, true, { E_PD_RFF } }, { "alltypes", { E_KP }, true, {} } };
  const int NC = 16;
  for (auto& P : plan)
    {
      if (stop) break;
      Seed S; SeedLines A; bool built = false, usable = false;
      for (int pass = 0; pass < (th ? 2 : 1) && !stop; ++pass) // pass 0: deviation 1 (+ bytes); pass 1: pairs
        for (int entry : (pass == 0 ? P.entries : P.pair_entries))
          for (int c = 0; c < NC && !stop; ++c)
            {
              if (!ctx.mine(unit++)) continue;
              if (ctx.expired()) { stop = true; break; }
              if (!built)
                {
                  built = true;
                  usable = build_seed(P.seed, S);
                  if (usable) { S.entries = P.entries; baseline(ctx, S); A = analyse_seed(S.text); ctx.count("seeds_built"); }
                  else ctx.observe("seed '" + P.seed + "' could not be written by the library");
                }
              if (!usable || !S.base_canon.count(entry)) { ctx.count("work_units_skipped_seed_unusable"); continue; }
              std::vector<Mutant> muts;
              const bool no_bytes = std::find(P.no_bytes_entries.begin(), P.no_bytes_entries.end(), entry) != P.no_bytes_entries.end();
              collect(S, A, c, NC, pass == 0, pass == 0 && P.bytes && !no_bytes, pass == 1 && S.kind != "kp", muts);
              exec_unit(ctx, S, A, entry, muts, P.seed + "/" + ENTRY_NAMES[entry] + "/" + vmc::str(c) + (pass ? "/pairs" : ""));
              ctx.maxi("deviation_completed", pass + 1);
            }
    }
  // ---------------------------------------------------------------- part M: parameter texts of the registered classes
  {
    static const char* QUICK_REG[] = { "OSMAPOSL", "Quadratic", "Ellipsoid", "Separable Gaussian" };
    const int NCR = 4;
    for (auto& rn : reg_ok_candidates)
      {
        if (stop) break;
        if (!th) { bool sel = false; for (const char* q : QUICK_REG) if (rn.second == q) sel = true; if (!sel) continue; }
        Seed S; SeedLines A; bool built = false, usable = false;
        for (int c = 0; c < NCR && !stop; ++c)
          {
            if (!ctx.mine(unit++)) continue;
            if (ctx.expired()) { stop = true; break; }
            if (!built)
              {
                built = true;
                usable = build_reg_seed(rn.first, rn.second, S);
                if (usable) { baseline(ctx, S); usable = !S.entries.empty(); A = analyse_seed(S.text); if (usable) ctx.count("seeds_built"); }
              }
            if (!usable) { ctx.count("work_units_skipped_class_without_round_trip"); continue; }
            std::vector<Mutant> muts;
            collect(S, A, c, NCR, true, th && S.text.size() <= 4096, false, muts);
            exec_unit(ctx, S, A, E_REG, muts, S.name + "/" + vmc::str(c));
          }
      }
  }
  ctx.maxi("value_alphabet_size", (long long)refp::value_alphabet().size());
  return ctx.finish();
}
