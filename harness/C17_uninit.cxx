// C17_uninit - "rejected through the library's error reporting", not rejected by accident: the header readers must not let an
// UNINITIALISED value decide control flow or reach a system call while they reject (or accept) a malformed header.
//
// AddressSanitizer cannot see uninitialised reads, so this harness runs under valgrind/memcheck (vcheck "wrapper") and brackets every
// case with VALGRIND_COUNT_ERRORS: a memcheck report raised while a case executes is a violation attributed to exactly that case.
//
// Space (deviation 1, exhaustive): seeds = headers written by the library itself (Interfile image, Interfile projection data);
// mutants = truncation after every line, deletion of every line, the empty file, a lone "!INTERFILE :=", non-Interfile text;
// entry points = read_interfile_image, read_from_file<DiscretisedDensity<3,float>>, read_interfile_PDFS, ProjData::read_from_file.
#include "vmc.h"
#include "stir_small.h"
#include "stir/IO/interfile.h"
#include "stir/IO/read_from_file.h"
#include "stir/IO/InterfileOutputFileFormat.h"
#include "stir/ProjDataInterfile.h"
#include "stir/ProjData.h"
#include "stir/DiscretisedDensity.h"
#include <valgrind/valgrind.h>
#include <valgrind/memcheck.h>
using namespace stir;

static std::vector<std::string> lines_of(const std::string& text)
{
  std::vector<std::string> v; std::string cur;
  for (char ch : text) { cur += ch; if (ch == '\n') { v.push_back(cur); cur.clear(); } }
  if (!cur.empty()) v.push_back(cur);
  return v;
}
static std::string slurp(const std::string& fn) { std::ifstream f(fn.c_str(), std::ios::binary); return std::string((std::istreambuf_iterator<char>(f)), std::istreambuf_iterator<char>()); }
static void spit(const std::string& fn, const std::string& s) { std::ofstream f(fn.c_str(), std::ios::binary | std::ios::trunc); f << s; }

struct Mut { std::string id, text; };
static std::vector<Mut> mutants(const std::string& seed)
{
  std::vector<Mut> m;
  const std::vector<std::string> L = lines_of(seed);
  m.push_back({ "unmutated", seed });
  m.push_back({ "empty", "" });
  m.push_back({ "only_first_line", "!INTERFILE  :=\n" });
  m.push_back({ "not_interfile", "this is not an interfile header\nat all := 1\n" });
  for (size_t i = 0; i < L.size(); ++i)
    {
      std::string t; for (size_t k = 0; k <= i; ++k) t += L[k];
      if (i + 1 < L.size()) m.push_back({ "truncate_after_line:" + std::to_string(i), t });
      std::string d; for (size_t k = 0; k < L.size(); ++k) if (k != i) d += L[k];
      m.push_back({ "delete_line:" + std::to_string(i), d });
    }
  return m;
}

int main(int argc, char** argv)
{
  vmc::Ctx ctx(argc, argv, "C17");
  small::quiet();
  ctx.rule = "unit = (seed header written by the library, entry point, mutant); mutants: truncation after every line, deletion of every line, empty file, lone first "
             "line, non-Interfile text; every case bracketed by VALGRIND_COUNT_ERRORS under memcheck; non-trivial = the entry point rejected or accepted the mutant "
             "(distinct (entry, mutant, outcome))";
  ctx.assume("runs under valgrind/memcheck 3.19 with default suppressions; a memcheck report (uninitialised value used in a conditional jump or system call, invalid read/write) "
             "while a case executes is attributed to that case");
  if (!RUNNING_ON_VALGRIND) { fprintf(stderr, "C17_uninit: not running under valgrind - nothing can be decided\n"); return 2; }

  // ---- seeds
  const std::string dir = ctx.tmpdir + "/c17u_" + std::to_string((long)getpid());
  (void)!system(("mkdir -p " + dir).c_str());
  auto sc = small::cyl_scanner(8, 2);
  auto pdi = small::make_pdi(sc, 1, 1);
  auto im = small::make_image(*pdi);
  shared_ptr<ExamInfo> ex(new ExamInfo); ex->imaging_modality = ImagingModality::PT; im->set_exam_info(*ex);
  { int k = 0; for (auto it = im->begin_all(); it != im->end_all(); ++it, ++k) *it = float(k % 7); }
  std::string img_hdr = dir + "/seed_image";
  { InterfileOutputFileFormat fmt; fmt.write_to_file(img_hdr, *im); }
  std::string pd_hdr = dir + "/seed_projdata.hs";
  { ProjDataInterfile pd(ex, pdi, pd_hdr, std::ios::in | std::ios::out | std::ios::trunc); pd.fill(1.F); }
  struct Seed { std::string name, header_file; };
  const Seed seeds[2] = { { "image", img_hdr }, { "projdata", pd_hdr } };
  struct Entry { std::string name; int seed; std::function<bool(const std::string&)> call; }; // returns true if an object came back
  const std::vector<Entry> entries = {
    { "read_interfile_image", 0, [](const std::string& f) { std::unique_ptr<VoxelsOnCartesianGrid<float>> p(read_interfile_image(f)); return (bool)p; } },
    { "read_from_file_DiscretisedDensity", 0, [](const std::string& f) { auto p = read_from_file<DiscretisedDensity<3, float>>(f); return (bool)p; } },
    { "read_interfile_PDFS", 1, [](const std::string& f) { std::unique_ptr<ProjDataFromStream> p(read_interfile_PDFS(f, std::ios::in)); return (bool)p; } },
    { "ProjData_read_from_file", 1, [](const std::string& f) { auto p = ProjData::read_from_file(f); return (bool)p; } },
  };

  auto run_case = [&](const Entry& e, const Mut& mu, const std::string& kase) {
    const std::string key_tail = ";entry=" + e.name;
    ctx.current("clause=uninitialised_value" + key_tail, kase);
    // the mutated header lives next to the seed so that the data file is found
    const std::string seedfile = seeds[e.seed].header_file;
    const std::string mf = seedfile.substr(0, seedfile.rfind('.')) + "_mut" + seedfile.substr(seedfile.rfind('.'));
    spit(mf, mu.text);
    // every case first reads the UNMUTATED header through the same entry point: a reader that forgets to initialise something then
    // finds the (defined, stale) values of a successful read on the stack - e.g. the name of an existing data file - which is the
    // situation of a program that reads several files; it also makes a case independent of the cases executed before it
    { std::string ignore; (void)small::throws([&] { (void)e.call(seedfile); }, &ignore); }
    const unsigned before = VALGRIND_COUNT_ERRORS;
    std::string what; bool got = false;
    const bool threw = small::throws([&] { got = e.call(mf); }, &what);
    const unsigned after = VALGRIND_COUNT_ERRORS;
    const std::string outcome = threw ? "rejected_error" : (got ? "accepted" : "rejected_null");
    ctx.count("evaluations"); ctx.count("outcome_" + outcome);
    ctx.nontrivial(e.name + "|" + mu.id + "|" + outcome);
    if (after != before)
      ctx.violation("clause=uninitialised_value" + key_tail + ";outcome=" + outcome, kase,
                    "memcheck reported " + std::to_string(after - before) + " error(s) (uninitialised value deciding control flow / reaching a system call, or invalid access) while "
                        + e.name + " handled mutant '" + mu.id + "' of the " + seeds[e.seed].name + " header (outcome: " + outcome + (threw ? ", message: " + what.substr(0, 120) : "") + ")");
    ctx.sample(kase + " -> " + outcome, 6);
  };

  std::vector<std::vector<Mut>> muts(2);
  for (int s = 0; s < 2; ++s) muts[s] = mutants(slurp(seeds[s].header_file));
  if (ctx.replaying())
    {
      auto kv = vmc::kv(ctx.replay);
      for (auto& e : entries)
        if (e.name == kv["entry"])
          for (auto& mu : muts[e.seed]) if (mu.id == kv["mutant"]) run_case(e, mu, ctx.replay);
      return ctx.finish();
    }
  uint64_t unit = 0;
  for (auto& e : entries)
    for (auto& mu : muts[e.seed])
      {
        if (!ctx.mine(unit++)) continue;
        if (ctx.expired()) return ctx.finish();
        run_case(e, mu, "entry=" + e.name + ";mutant=" + mu.id);
      }
  ctx.maxi("mutants_image_header", (long long)muts[0].size());
  ctx.maxi("mutants_projdata_header", (long long)muts[1].size());
  return ctx.finish();
}
