#include "vmc.h"
#include "stir_small.h"
using namespace stir;
int main(int argc, char** argv)
{
  small::quiet();
  for (int tof : {0, 5})
  for (int D : {8, 12, 16}) for (int R : {1, 2, 3})
    {
      auto sc = small::cyl_scanner(D, R, tof);
      std::cout << "D=" << D << " R=" << R << " tof=" << tof << " consistent=" << (sc->check_consistency() == Succeeded::yes) << "\n";
      for (int span : {1, 3})
        {
          if (span > 2 * R - 1) continue;
          std::string w;
          if (small::throws([&] {
            auto pdi = small::make_pdi(sc, span, R - 1, 0, 0, false, tof ? 1 : 0);
            auto im = small::make_image(*pdi);
            auto m = small::direct_matrix(pdi, im);
            auto P = small::extract_P(*m, *pdi, *im);
            size_t nnz = 0; for (auto& r : P.rows) nnz += r.size();
            std::cout << "  span " << span << " segs " << pdi->get_min_segment_num() << ".." << pdi->get_max_segment_num() << " views " << pdi->get_num_views() << " tang " << pdi->get_min_tangential_pos_num() << ".." << pdi->get_max_tangential_pos_num()
                      << " tof " << pdi->get_min_tof_pos_num() << ".." << pdi->get_max_tof_pos_num() << " bins " << P.bins.size() << " vox " << P.nvox << " nnz " << nnz << "\n";
            auto pd = small::make_projdata(pdi, 1.F);
            auto v = small::flat(*pd); double s = 0; for (double x : v) s += x; std::cout << "  sum " << s << "\n";
          }, &w)) std::cout << "  span " << span << " threw " << w << "\n";
        }
    }
  auto blk = small::cyl_scanner(8, 2, 0, 0.F, 100.F, 4.F, "BlocksOnCylindrical");
  std::cout << "blocks consistent=" << (blk->check_consistency() == Succeeded::yes) << "\n";
  { auto pdi = small::make_pdi(blk, 1, 1); auto im = small::make_image(*pdi); auto m = small::direct_matrix(pdi, im); auto P = small::extract_P(*m, *pdi, *im); size_t nnz = 0; for (auto& r : P.rows) nnz += r.size(); std::cout << "blocks bins " << P.bins.size() << " nnz " << nnz << "\n"; }
  return 0;
}
